#!/usr/bin/env python3
"""Whole-body translator: lowers complete function bodies of src/iter.rs and src/internal.rs into
the deep-embedded body IR of lean/GA/Model/Body.lean and writes lean/GA/Gen/Body.lean.

Unlike the fragment extraction of extract.py (guards, offsets, order flags), every statement of a
translated body ends up in the IR: a statement that cannot be lowered becomes `S.opaque`, which
the interpreter evaluates to `ub`, so the refinement obligation for that function fails.

Lowering is continuation-passing (`k` receives the IR expression of a block's value); calls to
other methods of the same impl family (`self.len()`, `self.next()`, `self.as_mut_slice()` …) are
inlined from *their* current source text."""
import json
import os
import re
import sys

HERE = os.path.dirname(os.path.abspath(__file__))
sys.path.insert(0, HERE)
import rsparse
import rsbody
from rsparse import Unparsed

REPO = os.environ.get("VERIF_REPO", "/repo")
ROOT = os.path.dirname(HERE)
OUT = os.environ.get("VERIF_BODY_OUT", os.path.join(ROOT, "lean", "GA", "Gen", "Body.lean"))
FLDS = {"index": ".index", "index_back": ".indexBack", "position": ".position"}


class Lowerer:
    def __init__(self, table, impl_of):
        self.table = table        # (impl_key, fn name) -> (header tokens, body ast)
        self.impl_of = impl_of    # impl_key of the function being lowered (for self-method inlining)
        self.nvars = 0
        self.notes = []
        self.depth = 0
        self.ret_k = [lambda x, env: "(.done %s)" % x]   # where `return e` goes: the function's end / the inlining site

    # ------------------------------------------------------------------ environment
    def fresh(self, env, name, kind):
        env = dict(env)
        env[name] = ("var", self.nvars, kind)
        self.nvars += 1
        return env

    # ------------------------------------------------------------------ pure expressions
    def obj_of(self, e, env):
        """IR object denoted by an expression that names a struct (`self`, `iter`)"""
        if e[0] == "path" and e[1] in env and env[e[1]][0] in ("self", "outobj", "objref"):
            b = env[e[1]]
            return ".self" if b[0] == "self" else (".out" if b[0] == "outobj" else b[1])
        if e[0] == "un" and e[1] in ("&", "&mut", "*"):
            return self.obj_of(e[2], env)
        raise Unparsed("not an object: %r" % (e,))

    def array_of(self, e, env):
        """object whose `array` field the expression denotes (`self.array`, alias `array`)"""
        if e[0] == "field" and e[2] == "array":
            return self.obj_of(e[1], env)
        if e[0] == "path" and e[1] in env and env[e[1]][0] == "arr":
            return env[e[1]][1]
        if e[0] == "un" and e[1] in ("&", "&mut", "*"):
            return self.array_of(e[2], env)
        if e[0] == "cast":
            return self.array_of(e[1], env)
        raise Unparsed("not an array place: %r" % (e,))

    def kind(self, e, env):
        """static kind of a pure expression: nat | range | slot | slice | elem | opt | other"""
        k = e[0]
        if k == "range":
            return "range"
        if k == "path" and e[1] in env and env[e[1]][0] == "var":
            return env[e[1]][2]
        if k in ("un", "cast"):
            return self.kind(e[2] if k == "un" else e[1], env)
        return "nat"

    def X(self, e, env):
        k = e[0]
        if k == "num":
            return "(.num %d)" % e[1]
        if k == "path":
            name = e[1]
            if name in env:
                b = env[name]
                if b[0] == "var":
                    return "(.var %d)" % b[1]
                if b[0] == "place":
                    return "(.fld %s %s)" % (b[1], b[2])
                if b[0] == "outobj":
                    return ".outObj"
                if b[0] == "hint":
                    return b[1]
                if b[0] == "slotsiter":
                    return "(.whole %s)" % b[1]
                if b[0] == "guardfield":
                    return ".guardPtr"
                raise Unparsed("name %s (%s) used as a value" % (name, b[0]))
            if name.split("::")[-1] == "USIZE":
                return ".usize"
            if name == "None":
                return ".none"
            raise Unparsed("unknown name %s" % name)
        if k == "field":
            if e[2] == "ptr" and e[1][0] == "path" and env.get(e[1][1], ("",))[0] == "guardself":
                return ".guardPtr"
            if e[2] in FLDS:
                return "(.fld %s %s)" % (self.obj_of(e[1], env), FLDS[e[2]])
            raise Unparsed("field %s" % e[2])
        if k == "call" and e[1][0] == "path" and re.match(r"^(core::|std::)?(mem::)?needs_drop::<\w+>$", e[1][1]) and not e[2]:
            tp = re.search(r"<(\w+)>$", e[1][1]).group(1)
            o = getattr(self, "tparam_obj", {}).get(tp)
            if o is None:
                raise Unparsed("needs_drop of a type that is not an operand's element type: %s" % tp)
            return "(.needsDrop %s)" % o
        if k == "un":
            if e[1] in ("&", "&mut", "*"):
                return self.X(e[2], env)
            if e[1] == "!":
                return "(.not %s)" % self.X(e[2], env)
            raise Unparsed("unary %s" % e[1])
        if k == "cast":
            return self.X(e[1], env)
        if k == "bin":
            ops = {"+": "add", "-": "sub", "<": "lt", "<=": "le", "==": "eq", "!=": "ne", "&&": "and", "||": "or"}
            if e[1] in ops:
                return "(.%s %s %s)" % (ops[e[1]], self.X(e[2], env), self.X(e[3], env))
            if e[1] == ">":
                return "(.lt %s %s)" % (self.X(e[3], env), self.X(e[2], env))
            if e[1] == ">=":
                return "(.le %s %s)" % (self.X(e[3], env), self.X(e[2], env))
            raise Unparsed("operator %s" % e[1])
        if k == "range":
            if e[1] is not None and e[2] is not None:
                return "(.range %s %s)" % (self.X(e[1], env), self.X(e[2], env))
            if e[1] is None and e[2] is not None:
                return "(.rangeTo %s)" % self.X(e[2], env)
            if e[1] is not None:
                return "(.rangeFrom %s)" % self.X(e[1], env)
            raise Unparsed("full range")
        if k == "tuple":
            if len(e[1]) == 0:
                return ".unit"
            if len(e[1]) == 2:
                return "(.pair %s %s)" % (self.X(e[1][0], env), self.X(e[1][1], env))
            raise Unparsed("tuple arity")
        if k == "block" and not e[1] and e[2] is not None:
            return self.X(e[2], env)
        if k == "call" and e[1][0] == "path":
            fn = e[1][1]
            base = fn.split("::")[-1]
            if base in ("min",) and len(e[2]) == 2:
                return "(.min %s %s)" % (self.X(e[2][0], env), self.X(e[2][1], env))
            if fn == "Some" and len(e[2]) == 1:
                return "(.some %s)" % self.X(e[2][0], env)
            if fn == "Box::from_raw" and len(e[2]) == 1:
                return "(.boxOut %s)" % self.X(e[2][0], env)
            if fn == "Ok" and len(e[2]) == 1:
                return "(.ok %s)" % self.X(e[2][0], env)
            if fn == "Err" and len(e[2]) == 1 and e[2][0] == ("path", "LengthError"):
                return ".err"
            if fn == "Err" and len(e[2]) == 1 and e[2][0][0] == "call" and e[2][0][1][0] == "path" \
                    and e[2][0][1][1].split("::")[-1] == "invalid_length":
                return ".err"      # serde: `Err(de::Error::invalid_length(..))`; the error's payload is not modelled
            if base == "array_assume_init" and len(e[2]) == 1 and e[2][0][0] == "path" and env.get(e[2][0][1], ("",))[0] == "arrout":
                return ".arrOut"
            if base == "read" and fn.split("::")[0] in ("ptr", "core", "read") and len(e[2]) == 1:
                return "(.read %s)" % self.X(e[2][0], env)
            raise Unparsed("call %s" % fn)
        if k == "method":
            recv, name, args = e[1], e[2], e[3]
            if name in ("get_unchecked", "get_unchecked_mut") and len(args) == 1:
                o = self.array_of(recv, env)
                if self.kind(args[0], env) == "range":
                    return "(.slice %s %s)" % (o, self.X(args[0], env))
                return "(.slot %s %s)" % (o, self.X(args[0], env))
            if name in ("as_mut_slice", "as_slice", "iter", "iter_mut") and not args:
                # on an array place: the whole array
                try:
                    o = self.array_of(recv, env)
                    return "(.whole %s)" % o
                except Unparsed:
                    pass
                if name in ("iter", "iter_mut"):
                    return self.X(recv, env)      # `slice.iter()` : positions of the slice
            if name == "min" and len(args) == 1:
                return "(.min %s %s)" % (self.X(recv, env), self.X(args[0], env))
            # `layout.size()` / `self.layout.size()`
            if name == "size" and not args and ((recv[0] == "path" and env.get(recv[1], ("",))[0] == "layout") or
                                                  (recv[0] == "field" and recv[2] == "layout")):
                return ".layoutSize"
            if name == "is_null" and not args:
                return "(.isNull %s)" % self.X(recv, env)
            if name == "cast" and not args:
                return self.X(recv, env)          # pointer casts keep the address
            if name == "as_ptr" and not args and recv[0] == "call" and recv[1][0] == "path" and \
                    re.search(r"NonNull(::<.*>)?::dangling$", recv[1][1]):
                # the pointee type decides the address `dangling()` returns (its alignment): from the
                # turbofish, else from the declared type of the `let` this value initialises
                mm = re.search(r"NonNull::<(.*)>::dangling$", recv[1][1])
                ty = mm.group(1) if mm else (env.get("$ptrty") or ("", None))[1]
                if ty is None:
                    raise Unparsed("pointee type of NonNull::dangling() not determined")
                ty = ty.replace(" ", "")
                ty = re.sub(r"^\*(mut|const)", "", ty)
                typed = ty.startswith("GenericArray<") or ty in ("T", "MaybeUninit<T>", "mem::MaybeUninit<T>")
                return "(.dangling %s)" % ("true" if typed else "false")
            if name == "len" and not args and self.kind(recv, env) == "slice":
                return "(.len %s)" % self.X(recv, env)
            if name == "finish" and not args and recv[0] == "method" and recv[2] == "field" and len(recv[3]) == 1 \
                    and recv[1][0] == "method" and recv[1][2] == "debug_tuple":
                return "(.dbg %s)" % self.X(recv[3][0], env)
            # a method of the same impl family on `self` (or on a local struct value): inline if it is a pure expression function
            if recv[0] == "path" and recv[1] in env and env[recv[1]][0] in ("self", "objref"):
                return self.inline_pure(name, args, env, recv=env[recv[1]])
            raise Unparsed("method %s" % name)
        raise Unparsed("expression %s" % k)

    def find_callee(self, name, typ=None):
        if typ is not None:
            for key in self.table:
                if key[1] == name and ("impl<" in key[0] or "impl" in key[0]) and typ in key[0] and "for" not in key[0].split(typ)[0].split("impl")[-1]:
                    return self.table[key]
            raise Unparsed("no method %s of %s" % (name, typ))
        for key in self.table:
            if key[1] == name and key[0].split("/")[0] == self.impl_of.split("/")[0]:
                return self.table[key]
        for key in self.table:
            if key[1] == name:
                return self.table[key]
        raise Unparsed("no local method %s" % name)

    def inline_pure(self, name, args, env, recv=None):
        typ = recv[2] if recv is not None and recv[0] == "objref" and len(recv) > 2 else None
        hdr, body = self.find_callee(name, typ)
        params = fn_params(hdr)
        if [p for p in params if p[1] == "value"] or args:
            raise Unparsed("inline_pure with arguments")
        if body[1] or body[2] is None:
            raise Unparsed("callee %s is not a pure expression" % name)
        if self.depth > 6:
            raise Unparsed("inline depth")
        self.depth += 1
        try:
            return self.X(body[2], {"self": recv if recv is not None else env_self(env)})
        finally:
            self.depth -= 1

    # ------------------------------------------------------------------ statements (CPS)
    def block(self, blk, env, k):
        """lower ('block', stmts, tail) ; k(x_text_or_None, env) -> S text"""
        return self.stmts(list(blk[1]), blk[2], env, k)

    def stmts(self, ss, tail, env, k):
        if not ss:
            if tail is None:
                return k(".unit", env)
            return self.tail(tail, env, k)
        s, rest = ss[0], ss[1:]
        cont = lambda env2: self.stmts(rest, tail, env2, k)
        kind = s[0]
        if kind == "let":
            self.cur_let_type = s[3] if len(s) > 3 else None
            return self.let(s[1], s[2], env, cont)
        if kind == "assign":
            op, place, val = s[1], s[2], s[3]
            o, f = self.place(place, env)
            cur = "(.fld %s %s)" % (o, f)
            v = self.X(val, env)
            if op == "=":
                new = v
            elif op == "+=":
                new = "(.add %s %s)" % (cur, v)
            elif op == "-=":
                new = "(.sub %s %s)" % (cur, v)
            else:
                raise Unparsed("assignment operator %s" % op)
            return "(.set %s %s %s\n  %s)" % (o, f, new, cont(env))
        if kind == "expr":
            return self.effect(s[1], env, cont)
        if kind == "for":
            return self.for_loop(s, env, cont)
        if kind == "return":
            # early return: the rest of the block is not executed
            rk = env.get("$ret") or (lambda x, e: "(.done %s)" % x)
            if s[1] is None:
                return rk(".unit", env)
            if s[1][0] == "call" and s[1][1] == ("path", "Ok") and len(s[1][2]) == 1 and s[1][2][0][0] == "block":
                return self.tail(s[1], env, rk)
            return self.value(s[1], env, lambda x, env2, knd: rk(x, env2))
        if kind == "item":
            if s[1].startswith("use "):
                return cont(env)      # a `use` declaration inside a block
            raise Unparsed("nested item")
        raise Unparsed("statement %s" % kind)

    def place(self, e, env):
        if e[0] == "field" and e[2] in FLDS:
            return self.obj_of(e[1], env), FLDS[e[2]]
        if e[0] == "un" and e[1] == "*" and e[2][0] == "path" and e[2][1] in env and env[e[2][1]][0] == "place":
            b = env[e[2][1]]
            return b[1], b[2]
        raise Unparsed("assignment target %r" % (e,))

    def let(self, pat, init, env, cont):
        if init is None:
            raise Unparsed("let without initialiser")
        if pat[0] == "pstruct":
            # destructuring of `self`: ref/ref mut fields alias the object's fields, by-value usize fields are copied
            o = self.obj_of(init, env)
            env = dict(env)
            out = None
            copies = []
            for fname, fp in pat[2]:
                if fp[0] != "pbind":
                    raise Unparsed("nested struct pattern")
                if fname == "array":
                    env[fp[1]] = ("arr", o)
                elif fname in FLDS and "ref" in fp[2]:
                    env[fp[1]] = ("place", o, FLDS[fname])
                elif fname in FLDS:
                    copies.append((fp[1], FLDS[fname]))
                else:
                    raise Unparsed("field %s in pattern" % fname)
            text = ""
            close = ""
            for name, f in copies:
                text += "(.letv (.fld %s %s)\n  " % (o, f)
                close += ")"
                env = self.fresh(env, name, "nat")
            return text + cont(env) + close
        if pat[0] == "ptuple" and init[0] == "method" and init[1][0] == "path" and env.get(init[1][1], ("",))[0] == "objref" and not init[3]:
            # `let (a, b) = builder.iter_position();` : the callee is a pure tuple of places of its receiver
            recv = env[init[1][1]]
            hdr, body = self.find_callee(init[2], recv[2] if len(recv) > 2 else None)
            if body[1] or body[2] is None or body[2][0] != "tuple" or len(body[2][1]) != len(pat[1]):
                raise Unparsed("callee %s is not a pure tuple" % init[2])
            cenv = {"self": recv}
            env = dict(env)
            for pp, ee in zip(pat[1], body[2][1]):
                if pp[0] != "pbind":
                    raise Unparsed("tuple pattern element")
                if ee[0] == "un" and ee[1] == "&mut" and ee[2][0] == "field" and ee[2][2] in FLDS:
                    env[pp[1]] = ("place", self.obj_of(ee[2][1], cenv), FLDS[ee[2][2]])
                elif ee[0] == "method" and ee[2] in ("iter_mut", "iter") and not ee[3]:
                    env[pp[1]] = ("slotsiter", self.array_of(ee[1], cenv))
                else:
                    raise Unparsed("tuple element of %s" % init[2])
            return cont(env)
        if pat[0] == "ptuple" and init[0] == "tuple" and len(pat[1]) == len(init[1]):
            def go(i, env2):
                if i == len(pat[1]):
                    return cont(env2)
                return self.let(pat[1][i], init[1][i], env2, lambda e3: go(i + 1, e3))
            return go(0, env)
        if pat[0] == "pwild":
            return self.effect(init, env, cont)
        if pat[0] != "pbind":
            raise Unparsed("pattern %r" % (pat,))
        name = pat[1]
        # the caller's iterator: `let mut iter = iter.into_iter();`
        if init[0] == "method" and init[2] == "into_iter" and not init[3] and init[1][0] == "path" \
                and env.get(init[1][1], ("",))[0] in ("ignored", "ext", "mapiter"):
            env = dict(env)
            env[name] = env[init[1][1]] if env[init[1][1]][0] == "mapiter" else ("ext",)
            return cont(env)
        # `let mut source = ArrayConsumer::new(self);` : the array moves into a consumer (drops `array[position..]`)
        if init[0] == "call" and init[1][0] == "path" and init[1][1] == "ArrayConsumer::new" and len(init[2]) == 1 \
                and init[2][0][0] == "path" and env.get(init[2][0][1], ("",))[0] in ("self", "other"):
            hdr, body = self.find_callee("new", "ArrayConsumer")
            ok = (not body[1] and body[2] is not None and body[2][0] == "struct" and
                  sorted(body[2][2]) == sorted([("array", ("call", ("path", "ManuallyDrop::new"), [("path", "array")])), ("position", ("num", 0))]))
            if not ok:
                raise Unparsed("ArrayConsumer::new is not `ArrayConsumer { array: ManuallyDrop::new(array), position: 0 }`")
            env = dict(env)
            o = ".self" if env[init[2][0][1]][0] == "self" else ".other"
            env[name] = ("objref", o, "ArrayConsumer")
            return "(.set %s .position (.num 0)\n  %s)" % (o, cont(env))
        # `let left = ManuallyDrop::new(lhs);` : the array is never dropped by this function
        if init[0] == "call" and init[1][0] == "path" and init[1][1].split("::")[-1] == "new" and "ManuallyDrop" in init[1][1] \
                and len(init[2]) == 1 and init[2][0][0] == "path" and env.get(init[2][0][1], ("",))[0] in ("self", "other"):
            env = dict(env)
            o = ".self" if env[init[2][0][1]][0] == "self" else ".other"
            env[name] = ("manual", o)
            if o == ".self":
                return "(.forget\n  %s)" % cont(env)
            return "(.forgetO %s\n  %s)" % (o, cont(env))
        # `let layout = Layout::new::<…>();`
        if init[0] == "call" and init[1][0] == "path" and init[1][1].startswith("Layout::new") and not init[2]:
            env = dict(env)
            env[name] = ("layout",)
            return cont(env)
        # `let ptr = alloc::alloc::alloc(layout);`
        if init[0] == "call" and init[1][0] == "path" and init[1][1].split("::")[-1] == "alloc" and len(init[2]) == 1 \
                and init[2][0][0] == "path" and env.get(init[2][0][1], ("",))[0] == "layout":
            return "(.allocS\n  %s)" % cont(self.fresh(env, name, "ptr"))
        # `let guard = DeallocOnDrop { ptr: p, layout };`
        if init[0] == "struct" and init[1] == "DeallocOnDrop":
            fields = dict(init[2])
            if set(fields) != {"ptr", "layout"} or env.get(fields["layout"][1] if fields["layout"][0] == "path" else "", ("",))[0] != "layout":
                raise Unparsed("DeallocOnDrop literal")
            env2 = dict(env)
            env2[name] = ("guard",)
            return "(.guardNew %s\n  %s)" % (self.X(fields["ptr"], env), cont(env2))
        # `let mut builder = IntrusiveArrayBuilder::new(&mut *ptr);`
        if init[0] == "call" and init[1][0] == "path" and init[1][1] == "IntrusiveArrayBuilder::new" and len(init[2]) == 1 \
                and init[2][0][0] == "un" and init[2][0][1] == "&mut" and init[2][0][2][0] == "un" and init[2][0][2][1] == "*":
            self.check_builder_new()
            env2 = dict(env)
            env2[name] = ("objref", ".out", "IntrusiveArrayBuilder")
            return "(.builderAt %s\n  %s)" % (self.X(init[2][0][2][2], env), cont(env2))
        # `let p = if c { a } else { b };`
        if init[0] == "if" and init[3] is not None:
            env = {**env, "$ptrty": ("ty", getattr(self, "cur_let_type", None))}
            c = self.X(init[1], env)
            nv = self.nvars
            kk = lambda x, env2, knd=None: "(.letv %s\n  %s)" % (x, cont(self.fresh({**env, **{k_: v_ for k_, v_ in env2.items() if k_ not in env}}, name, "ptr")))
            t = self.block(init[2], env, lambda x, env2: kk(x, env2))
            self.nvars = nv
            el = self.block(init[3], env, lambda x, env2: kk(x, env2))
            self.nvars = nv
            return "(.ite %s\n  %s\n  %s)" % (c, t, el)
        # `let mut array = GenericArray::uninit();`
        if init[0] == "call" and init[1][0] == "path" and init[1][1].split("::")[-1] == "uninit" and not init[2]:
            env = dict(env)
            env[name] = ("uninitarr",)
            return cont(env)
        # `let mut builder = IntrusiveArrayBuilder::new(&mut array);`
        if init[0] == "call" and init[1][0] == "path" and init[1][1] == "IntrusiveArrayBuilder::new" and len(init[2]) == 1:
            a = init[2][0]
            while a[0] == "un":
                a = a[2]
            if a[0] != "path" or env.get(a[1], ("",))[0] != "uninitarr":
                raise Unparsed("builder over something else than a fresh uninit array")
            self.check_builder_new()
            env = dict(env)
            env[name] = ("objref", ".out", "IntrusiveArrayBuilder")
            env[a[1]] = ("arrout",)
            return "(.newBuilder\n  %s)" % cont(env)
        # the destination slots: `self.array.iter_mut()`
        if init[0] == "method" and init[2] == "iter_mut" and not init[3]:
            try:
                o = self.array_of(init[1], env)
                env = dict(env)
                env[name] = ("slotsiter", o)
                return cont(env)
            except Unparsed:
                pass
        # aliases: `&mut self.position`, `self.array.iter_mut()`
        if init[0] == "un" and init[1] == "&mut" and init[2][0] == "field" and init[2][2] in FLDS:
            env = dict(env)
            env[name] = ("place", self.obj_of(init[2][1], env), FLDS[init[2][2]])
            return cont(env)
        if init[0] == "struct":
            return self.struct_lit(name, init, env, cont)
        return self.value(init, env, lambda x, env2, knd: "(.letv %s\n  %s)" % (x, cont(self.fresh(env2, name, knd))))

    def check_builder_new(self):
        hdr, body = self.find_callee("new", "IntrusiveArrayBuilder")
        ok = (not body[1] and body[2] is not None and body[2][0] == "struct" and
              sorted(body[2][2]) == sorted([("array", ("path", "array")), ("position", ("num", 0))]))
        if not ok:
            raise Unparsed("IntrusiveArrayBuilder::new is not `IntrusiveArrayBuilder { array, position: 0 }`")

    def cond(self, e, env, kthen, kelse):
        """lower a condition that may poll the caller's iterator (`iter.next().is_some()`) under `||` / `&&` / `!`"""
        if e[0] == "bin" and e[1] == "||":
            return self.cond(e[2], env, kthen, lambda env2: self.cond(e[3], env2, kthen, kelse))
        if e[0] == "bin" and e[1] == "&&":
            return self.cond(e[2], env, lambda env2: self.cond(e[3], env2, kthen, kelse), kelse)
        if e[0] == "un" and e[1] == "!":
            return self.cond(e[2], env, kelse, kthen)
        # `seq.size_hint() != Some(k)` / `== Some(k)`
        if e[0] == "bin" and e[1] in ("!=", "==") and self.is_seq_hint(e[2], env) and e[3][0] == "call" and e[3][1] == ("path", "Some") \
                and len(e[3][2]) == 1:
            at_end = self.seq_hint_phase(env)
            c = "(.shintAnd %s (.eq (.shintVal %s) %s))" % (at_end, at_end, self.X(e[3][2][0], env))
            if e[1] == "!=":
                c = "(.not %s)" % c
            nv = self.nvars
            t = kthen(env)
            self.nvars = nv
            el = kelse(env)
            self.nvars = nv
            return "(.ite %s\n  %s\n  %s)" % (c, t, el)
        # `seq.next_element::<Dummy>()?.is_some()`: one more call, nothing is built; `?` returns the error
        if e[0] == "method" and e[2] in ("is_some", "is_none") and not e[3] and e[1][0] == "try" and e[1][1][0] == "method" \
                and re.fullmatch(r"next_element(::<\w+>)?", e[1][1][2]) and not e[1][1][3] and e[1][1][1][0] == "path" \
                and env.get(e[1][1][1][1], ("",))[0] == "seq":
            if not re.search(r"::<\w+>$", e[1][1][2]):
                raise Unparsed("surplus probe builds a real element")
            nv = self.nvars
            self.nvars += 1
            c = "(.var %d)" % nv
            if e[2] == "is_none":
                c = "(.not %s)" % c
            nv2 = self.nvars
            t = kthen(env)
            self.nvars = nv2
            el = kelse(env)
            self.nvars = nv2
            return "(.probeS\n  (.ite %s\n  %s\n  %s))" % (c, t, el)
        if e[0] == "method" and e[2] in ("is_some", "is_none") and not e[3] and e[1][0] == "method" and e[1][2] == "next" \
                and e[1][1][0] == "path" and env.get(e[1][1][1], ("",))[0] in ("ext", "mapiter"):
            b = env[e[1][1][1]]
            if b[0] == "ext":
                head = ".pollS"
            elif len(b) > 5:
                head = ".pollZipMapS %d %s %s\n  %s" % (b[4], b[1], b[5], self.map_closure(b))
            else:
                head = ".pollMapS %d %s\n  %s" % (b[4], b[1], self.map_closure(b))
            nv = self.nvars
            self.nvars += 1
            c = "(.var %d)" % nv
            if e[2] == "is_none":
                c = "(.not %s)" % c
            nv2 = self.nvars
            t = kthen(env)
            self.nvars = nv2
            el = kelse(env)
            self.nvars = nv2
            return "(%s\n  (.ite %s\n  %s\n  %s))" % (head, c, t, el)
        c = self.X(e, env)
        nv = self.nvars
        t = kthen(env)
        self.nvars = nv
        el = kelse(env)
        self.nvars = nv
        return "(.ite %s\n  %s\n  %s)" % (c, t, el)

    def hint_match(self, m, env, cont, exact=False):
        """`match iter.size_hint() { (n, _) if g => A, (_, Some(n)) if g => B, _ => C }`"""
        arms = m[2]
        def arm(i, env2):
            if i == len(arms):
                raise Unparsed("size_hint match without a catch-all arm")
            pat, guard, body = arms[i]
            blk = body if body[0] == "block" else (("block", [body], None) if body[0] in ("return", "assign", "for") else ("block", [], body))
            run = lambda e3: self.block(blk, e3, lambda x, e4: cont(e4))
            if pat == "_" and guard is None:
                return run(env2)
            import re
            m1 = re.fullmatch(r"\((\w+),_\)", pat)
            m2 = re.fullmatch(r"\(_,Some\((\w+)\)\)", pat)
            if guard is None or not (m1 or m2):
                raise Unparsed("size_hint arm %s" % pat)
            genv = dict(env2)
            if exact:
                # `Map<slice::Iter>` over an N-element array not yet polled: `size_hint() = (N, Some(N))`
                genv[(m1 or m2).group(1)] = ("hint", ".usize")
                c = self.X(guard, genv)
            elif m1:
                genv[m1.group(1)] = ("hint", ".hintLo")
                c = self.X(guard, genv)
            else:
                genv[m2.group(1)] = ("hint", ".hintHi")
                c = "(.hintHiAnd %s)" % self.X(guard, genv)
            nv = self.nvars
            t = run(env2)
            self.nvars = nv
            el = arm(i + 1, env2)
            self.nvars = nv
            return "(.ite %s\n  %s\n  %s)" % (c, t, el)
        return arm(0, env)

    def struct_lit(self, name, lit, env, cont):
        fields = dict(lit[2])
        if set(fields) != {"array", "index", "index_back"}:
            raise Unparsed("struct literal fields %s" % sorted(fields))
        arr = fields["array"]
        while arr[0] == "block" and not arr[1] and arr[2] is not None:
            arr = arr[2]
        moved = None
        if arr[0] == "call" and arr[1][0] == "path":
            fn = arr[1][1]
            if fn.split("::")[-1] == "read" and len(arr[2]) == 1 and self.array_of(arr[2][0], env) == ".self":
                moved = False            # bitwise copy of `self.array`
            elif fn == "ManuallyDrop::new" and len(arr[2]) == 1 and self.obj_of(arr[2][0], env) == ".self":
                moved = True             # `self` (the array) moved in
        if moved is None:
            raise Unparsed("array initialiser of the struct literal")
        env2 = dict(env)
        if name is not None:
            env2[name] = ("outobj",)
        return "(.newOut %s %s %s\n  %s)" % ("true" if moved else "false", self.X(fields["index"], env), self.X(fields["index_back"], env), cont(env2))

    def value(self, e, env, k3):
        """lower an expression whose value is needed: k3(x_text, env, kind) -> S text"""
        if e[0] == "block":
            return self.block(e, env, lambda x, env2: k3(x, env2, self.kind_of_text(x, e, env2)))
        if e[0] == "method" and e[2] in ("fold", "rfold") and len(e[3]) == 2 and e[3][1][0] == "closure":
            return self.fold(e, env, lambda env2: k3("(.var %d)" % (self.nvars - 1), env2, "other"), bind=True)
        if e[0] == "method" and e[1][0] == "path" and e[1][1] in env and env[e[1][1]][0] == "self":
            try:
                x = self.X(e, env)
                return k3(x, env, self.kind_guess(e, env))
            except Unparsed:
                return self.inline_call(e[2], e[3], env, lambda x, env2: k3(x, env2, "other"))
        x = self.X(e, env)
        return k3(x, env, self.kind_guess(e, env))

    def kind_of_text(self, x, e, env):
        return self.kind_guess(e[2], env) if e[2] is not None else "other"

    def kind_guess(self, e, env):
        k = e[0]
        if k == "range":
            return "range"
        if k == "block" and e[2] is not None:
            return self.kind_guess(e[2], env)
        if k == "method" and e[2] in ("get_unchecked", "get_unchecked_mut") and len(e[3]) == 1:
            return "slice" if self.kind(e[3][0], env) == "range" else "slot"
        if k == "method" and e[2] in ("as_slice", "as_mut_slice", "iter", "iter_mut"):
            return "slice"
        if k == "call" and e[1][0] == "path" and e[1][1] == "Some":
            return "opt"
        if k == "call" and e[1][0] == "path" and e[1][1].split("::")[-1] == "read":
            return "elem"
        if k == "path" and e[1] in env and env[e[1]][0] == "var":
            return env[e[1]][2]
        if k in ("un", "cast"):
            return self.kind_guess(e[2] if k == "un" else e[1], env)
        return "nat"

    def inline_call(self, name, args, env, k, recv=None):
        """inline a method of the same impl family called on `self` (or on the local struct `recv`); k(x, env)"""
        typ = recv[2] if recv is not None and recv[0] == "objref" and len(recv) > 2 else None
        hdr, body = self.find_callee(name, typ)
        params = [p for p in fn_params(hdr) if p[1] != "self"]
        if len(params) != len(args):
            raise Unparsed("arity of %s" % name)
        if self.depth > 6:
            raise Unparsed("inline depth")
        # bind the arguments
        text = ""
        close = ""
        cenv = {"self": recv if recv is not None else env_self(env)}
        for p, a in zip(params, args):
            if p[1] == "value":
                text += "(.letv %s\n  " % self.X(a, env)
                close += ")"
                cenv = self.fresh(cenv, p[0], "nat")
            else:
                # a caller-supplied iterator handed on (`&mut iter`)
                b = a
                while b[0] == "un":
                    b = b[2]
                if b[0] == "path" and env.get(b[1], ("",))[0] in ("ext", "mapiter"):
                    cenv[p[0]] = env[b[1]]
                else:
                    raise Unparsed("argument %s of %s" % (p[0], name))
        self.depth += 1
        cenv["$ret"] = lambda x, _e: k(x, env)
        try:
            inner = self.block(body, cenv, lambda x, _e: k(x, env))
        finally:
            self.depth -= 1
        return text + inner + close

    def tail(self, e, env, k):
        kind = e[0]
        if kind == "if":
            c = self.X(e[1], env)
            nv = self.nvars
            t = self.block(e[2], env, k)
            self.nvars = nv
            if e[3] is None:
                el = k(".unit", env)
            else:
                el = self.block(e[3], env, k)
            self.nvars = nv
            return "(.ite %s\n  %s\n  %s)" % (c, t, el)
        if kind == "block":
            return self.block(e, env, k)
        if kind == "method" and e[2] == "clone" and not e[3] and getattr(self, "value_closure", False) and e[1][0] == "path" \
                and env.get(e[1][1], ("",))[0] == "var" and env[e[1][1]][2] == "slot":
            nv = self.nvars
            self.nvars += 1
            return "(.cloneOf %s\n  %s)" % (self.X(e[1], env), k("(.var %d)" % nv, env))
        if kind == "call" and e[1][0] == "path" and e[1][1] in env and env[e[1][1]][0] == "closureF":
            if getattr(self, "value_closure", False):
                # `f(value)` as the closure's result: the caller's closure consumes the element and returns a value
                if len(e[2]) == 2:
                    nv = self.nvars
                    self.nvars += 1
                    return "(.callM2 %s %s\n  %s)" % (self.X(e[2][0], env), self.X(e[2][1], env), k("(.var %d)" % nv, env))
                if len(e[2]) != 1:
                    raise Unparsed("map closure calls f with %d arguments" % len(e[2]))
                nv = self.nvars
                self.nvars += 1
                return "(.callM %s\n  %s)" % (self.X(e[2][0], env), k("(.var %d)" % nv, env))
            return self.call_f(e, env, lambda env2: k(".unit", env2))
        if kind == "method" and e[2] in ("fold", "rfold") and len(e[3]) == 2 and e[3][1][0] == "closure":
            return self.fold(e, env, lambda env2: k(".unit", env2), bind=False)
        if kind == "method" and e[2] == "map" and len(e[3]) == 1 and e[3][0] == ("path", "Clone::clone") \
                and e[1][0] == "path" and env.get(e[1][1], ("",))[0] == "self" and getattr(self, "self_recv", None) == "ref":
            return self.default_map_on_ref(env, k)
        if kind == "method" and e[1][0] == "path" and e[1][1] in env and env[e[1][1]][0] == "self":
            try:
                return k(self.X(e, env), env)
            except Unparsed:
                return self.inline_call(e[2], e[3], env, k)
        if kind == "call" and e[1][0] == "path" and e[1][1] in ("FromIterator::from_iter", "Self::from_iter") and len(e[2]) == 1:
            return self.inline_static("from_iter", e[2], env, k)
        if kind == "struct":
            return self.struct_lit(None, e, env, lambda env2: k(".outObj", env2))
        if kind == "call" and e[1] == ("path", "Ok") and len(e[2]) == 1 and e[2][0][0] == "block":
            return self.block(e[2][0], env, lambda x, env2: k("(.ok %s)" % x, env2))
        if kind == "match" and e[1][0] == "call" and e[1][1][0] == "path" and e[1][1][1].split("::")[-1] == "try_from_iter" \
                and len(e[1][2]) == 1:
            arms = dict((a[0], a[2]) for a in e[2])
            if set(arms) != {"Ok(res)", "Err(_)"} or arms["Ok(res)"] != ("path", "res"):
                raise Unparsed("arms of the match on try_from_iter")
            fail = arms["Err(_)"]
            if not (fail[0] == "call" and fail[1][0] == "path" and fail[1][1].split("::")[-1] == "from_iter_length_fail"):
                raise Unparsed("Err arm is not from_iter_length_fail")
            def kk(x, env2):
                if x == ".err":
                    # the callee returned `Err`: its locals are gone before the caller goes on
                    return "(.endOut .lenFail)"
                if x.startswith("(.ok ") and x.endswith(")"):
                    return k(x[5:-1], env2)
                raise Unparsed("try_from_iter result %s" % x)
            return self.inline_static("try_from_iter", e[1][2], env, kk)
        if kind == "call" and e[1][0] == "path" and e[1][1].split("::")[-1] in ("forget", "drop_in_place", "write", "dealloc", "handle_alloc_error"):
            return self.effect(e, env, lambda env2: k(".unit", env2))
        return k(self.X(e, env), env)

    def default_map_on_ref(self, env, k):
        """`self.map(Clone::clone)` with `self: &GenericArray<T, N>`: method resolution picks the *trait default*
        `FunctionalSequence::map` at `Self = &GenericArray` (the forwarding impl for `&'a S` must be empty), whose
        `self.into_iter()` is `IntoIterator for &'a GenericArray`, i.e. `self.as_slice().iter()`"""
        fwd = [key for key in self.all_impls if key.startswith("functional.rs/") and re.search(r"FunctionalSequence<T>for&'aS", key)]
        if not fwd or any(self.impl_fns.get(key) for key in fwd):
            raise Unparsed("`FunctionalSequence for &'a S` is not the empty forwarding impl")
        own = [key for key in self.table if key[0].startswith("lib.rs/") and "FunctionalSequence<T>forGenericArray<T,N>" in key[0]]
        if not own:
            raise Unparsed("no by-value FunctionalSequence impl")
        dm = [key for key in self.table if key[0].startswith("functional.rs/") and "traitFunctionalSequence<T>" in key[0] and key[1] == "map"]
        if len(dm) != 1:
            raise Unparsed("trait default FunctionalSequence::map not found")
        hdr, body = self.table[dm[0]]
        ii = [key for key in self.table if key[0].startswith("lib.rs/") and re.search(r"IntoIteratorfor&'aGenericArray<T,N>", key[0]) and key[1] == "into_iter"]
        if len(ii) != 1:
            raise Unparsed("IntoIterator for &GenericArray not found")
        ib = self.table[ii[0]][1]
        if ib[1] or ib[2] != ("method", ("method", ("path", "self"), "as_slice", []), "iter", []):
            raise Unparsed("`(&GenericArray).into_iter()` is not `self.as_slice().iter()`")
        # the default body must be `FromIterator::from_iter(self.into_iter().map(f))`
        want = ("call", ("path", "FromIterator::from_iter"),
                [("method", ("method", ("path", "self"), "into_iter", []), "map", [("path", "f")])])
        if body[1] or body[2] != want:
            raise Unparsed("trait default `map` is not `FromIterator::from_iter(self.into_iter().map(f))`")
        clo = ("closure", [("pbind", "__x")], ("method", ("path", "__x"), "clone", []))
        cenv = {"it": ("mapiter", ".self", clo, dict(env), self.nvars)}
        return self.inline_static("from_iter", [("path", "it")], cenv, k)

    def slots_obj(self, e, env):
        """object whose array a `slice::Iter` expression walks: a `slotsiter` name, or `x.iter()` on a consumer /
        `ManuallyDrop` wrapper of an operand"""
        if e[0] == "path" and env.get(e[1], ("",))[0] == "slotsiter":
            return env[e[1]][1]
        if e[0] == "method" and e[2] in ("iter", "iter_mut") and not e[3] and e[1][0] == "path" \
                and env.get(e[1][1], ("",))[0] in ("manual",):
            return env[e[1][1]][1]
        raise Unparsed("zip operand is not a slice iterator over an operand array")

    def map_closure(self, b):
        """lower the closure of `array_iter.map(closure)` in the environment of its creation; its value is its result"""
        _, obj, clo, cenv, l0 = b[:5]
        params = clo[1]
        saved = self.nvars
        self.nvars = l0
        if len(b) > 5:
            # `a_iter.zip(b_iter).map(|(l, r)| …)`
            if len(params) != 1 or params[0][0] != "ptuple" or len(params[0][1]) != 2 or any(p[0] != "pbind" for p in params[0][1]):
                raise Unparsed("zip-map closure parameters")
            benv = self.fresh(cenv, params[0][1][0][1], "slot")
            benv = self.fresh(benv, params[0][1][1][1], "slot")
        else:
            if len(params) != 1 or params[0][0] != "pbind":
                raise Unparsed("map closure parameters")
            benv = self.fresh(cenv, params[0][1], "slot")
        body = clo[2] if clo[2][0] == "block" else ("block", [], clo[2])
        self.value_closure = True
        try:
            text = self.block(body, benv, lambda x, env2: "(.done %s)" % x)
        finally:
            self.value_closure = False
            self.nvars = saved
        return text

    def inline_static(self, name, args, env, k):
        hdr, body = self.find_callee(name)
        params = [p for p in fn_params(hdr) if p[1] != "self"]
        if len(params) != len(args):
            raise Unparsed("arity of %s" % name)
        cenv = {}
        for p, a in zip(params, args):
            if a[0] == "path" and env.get(a[1], ("",))[0] in ("ignored", "ext"):
                cenv[p[0]] = ("ignored",)
            elif a[0] == "path" and env.get(a[1], ("",))[0] == "mapiter":
                cenv[p[0]] = env[a[1]]
            elif a[0] == "method" and a[2] == "map" and len(a[3]) == 1 and a[3][0][0] == "closure" and a[1][0] == "method" \
                    and a[1][2] == "zip" and len(a[1][3]) == 1:
                # `a_iter.zip(b_iter).map(|(l, r)| …)` over the arrays of two objects
                oa, ob = self.slots_obj(a[1][1], env), self.slots_obj(a[1][3][0], env)
                cenv[p[0]] = ("mapiter", oa, a[3][0], dict(env), self.nvars, ob)
            elif a[0] == "method" and a[2] == "map" and len(a[3]) == 1 and a[3][0][0] == "closure" and a[1][0] == "path" \
                    and env.get(a[1][1], ("",))[0] == "slotsiter":
                # `array_iter.map(|src| …)`: a `Map` over the `slice::Iter` of an object's array; the closure keeps the
                # environment of its creation
                cenv[p[0]] = ("mapiter", env[a[1][1]][1], a[3][0], dict(env), self.nvars)
            else:
                raise Unparsed("argument of %s" % name)
        self.depth += 1
        cenv["$ret"] = lambda x, _e: k(x, env)
        try:
            return self.block(body, cenv, lambda x, _e: k(x, env))
        finally:
            self.depth -= 1

    def call_f(self, e, env, cont):
        # the caller's closure: the owned element is the last argument that is an element variable
        arg = None
        for a in e[2]:
            if a[0] == "path" and a[1] in env and env[a[1]][0] == "var" and env[a[1]][2] == "elem":
                arg = a
        if arg is None:
            raise Unparsed("closure call without an element argument")
        return "(.callF %s\n  %s)" % (self.X(arg, env), cont(env))

    def is_seq_hint(self, e, env):
        return e[0] == "method" and e[2] == "size_hint" and not e[3] and e[1][0] == "path" and env.get(e[1][1], ("",))[0] == "seq"

    def seq_hint_phase(self, env):
        """`true` once the builder exists (the hint consulted after reading), `false` before"""
        return "true" if any(isinstance(b, tuple) and b[:2] == ("objref", ".out") for k_, b in env.items() if k_ != "$ret") else "false"

    def effect(self, e, env, cont):
        kind = e[0]
        if kind == "block":
            return self.block(e, env, lambda x, env2: cont(env2))
        if kind == "match" and e[1][0] == "method" and e[1][2] == "size_hint" and e[1][1][0] == "path" \
                and env.get(e[1][1][1], ("",))[0] in ("ext", "mapiter"):
            return self.hint_match(e, env, cont, exact=env[e[1][1][1]][0] == "mapiter")
        if kind == "match" and self.is_seq_hint(e[1], env):
            # `match seq.size_hint() { Some(n) if g => A, _ => B }` on a serde `SeqAccess`
            arms = e[2]
            if len(arms) != 2 or arms[1][0] != "_" or arms[1][1] is not None:
                raise Unparsed("arms of the match on seq.size_hint()")
            mm = re.fullmatch(r"Some\((\w+)\)", arms[0][0])
            if not mm or arms[0][1] is None:
                raise Unparsed("first arm of the match on seq.size_hint()")
            at_end = self.seq_hint_phase(env)
            genv = dict(env)
            genv[mm.group(1)] = ("hint", "(.shintVal %s)" % at_end)
            g = self.X(arms[0][1], genv)
            def blk(b):
                return b if b[0] == "block" else (("block", [b], None) if b[0] in ("return", "assign", "for") else ("block", [], b))
            nv = self.nvars
            t = self.block(blk(arms[0][2]), genv, lambda x, e4: cont(env))
            self.nvars = nv
            el = self.block(blk(arms[1][2]), env, lambda x, e4: cont(env))
            self.nvars = nv
            return "(.ite (.shintAnd %s %s)\n  %s\n  %s)" % (at_end, g, t, el)
        if kind == "method":
            recv, name, args = e[1], e[2], e[3]
            # `dst.write(src)`
            if name == "write" and len(args) == 1 and recv[0] == "path" and env.get(recv[1], ("",))[0] == "var" and env[recv[1]][2] == "slot":
                a0 = args[0]
                if a0[0] == "call" and a0[1][0] == "path" and env.get(a0[1][1], ("",))[0] == "closureF" and len(a0[2]) == 1:
                    # `dst.write(f(i))`: the caller's closure produces the value
                    nv = self.nvars
                    self.nvars += 1
                    return "(.callG %s\n  (.write %s (.var %d)\n  %s))" % (self.X(a0[2][0], env), self.X(recv, env), nv, cont(env))
                return "(.write %s %s\n  %s)" % (self.X(recv, env), self.X(a0, env), cont(env))
            # `builder_iter.enumerate().for_each(|(i, dst)| body)`
            if name == "for_each" and len(args) == 1 and args[0][0] == "closure" and recv[0] == "method" and recv[2] == "enumerate" \
                    and not recv[3] and recv[1][0] == "path" and env.get(recv[1][1], ("",))[0] == "slotsiter":
                if env[recv[1][1]][1] != ".out":
                    raise Unparsed("enumerate over an object that is not the builder")
                params = args[0][1]
                if len(params) != 1 or params[0][0] != "ptuple" or len(params[0][1]) != 2 or any(p[0] != "pbind" for p in params[0][1]):
                    raise Unparsed("enumerate closure parameters")
                nv = self.nvars
                benv = self.fresh(env, params[0][1][0][1], "nat")
                benv = self.fresh(benv, params[0][1][1][1], "slot")
                body = args[0][2] if args[0][2][0] == "block" else ("block", [], args[0][2])
                btext = self.block(body, benv, lambda x, env2: "(.done .unit)")
                self.nvars = nv
                return "(.forSlots\n  %s\n  %s)" % (btext, cont(env))
            # `destination.zip(source).for_each(|(dst, src)| body)`
            if name == "for_each" and len(args) == 1 and args[0][0] == "closure" and recv[0] == "method" and recv[2] == "zip" and len(recv[3]) == 1:
                return self.fill(recv[1], recv[3][0], args[0], env, cont)
            # a method of a local struct value (`builder.extend(&mut iter)`, `builder.finish()`)
            if recv[0] == "path" and env.get(recv[1], ("",))[0] == "objref":
                return self.inline_call(name, args, env, lambda x, env2: cont(env), recv=env[recv[1]])
        if kind == "call" and e[1][0] == "path":
            fn = e[1][1]
            base = fn.split("::")[-1]
            if base == "drop_in_place" and len(e[2]) == 1:
                a = e[2][0]
                try:
                    x = self.X(a, env)
                    return "(.drop %s\n  %s)" % (x, cont(env))
                except Unparsed:
                    pass
                # `drop_in_place(self.as_mut_slice())`
                while a[0] in ("cast", "un"):
                    a = a[1] if a[0] == "cast" else a[2]
                if a[0] == "method" and a[1][0] == "path" and a[1][1] in env and env[a[1][1]][0] == "self":
                    return self.inline_call(a[2], a[3], env, lambda x, env2: "(.drop %s\n  %s)" % (x, cont(env2)))
                raise Unparsed("drop_in_place argument")
            if base == "handle_alloc_error":
                return ".abortAlloc"
            if base == "forget" and len(e[2]) == 1 and e[2][0][0] == "path" and env.get(e[2][0][1], ("",))[0] == "guard":
                return "(.guardForget\n  %s)" % cont(env)
            if base == "dealloc" and len(e[2]) == 2:
                return "(.deallocS %s\n  %s)" % (self.X(e[2][0], env), cont(env))
            if base == "forget" and len(e[2]) == 1 and self.obj_of(e[2][0], env) == ".self":
                return "(.forget\n  %s)" % cont(env)
            if base == "forget" and len(e[2]) == 1:
                return "(.forgetO %s\n  %s)" % (self.obj_of(e[2][0], env), cont(env))
            if base == "write" and len(e[2]) == 2:
                dst, v = e[2]
                if v[0] == "method" and v[2] == "clone" and not v[3]:
                    nv = self.nvars
                    self.nvars += 1
                    return "(.cloneOf %s\n  (.write %s (.var %d)\n  %s))" % (self.X(v[1], env), self.X(dst, env), nv, cont(env))
                return "(.write %s %s\n  %s)" % (self.X(dst, env), self.X(v, env), cont(env))
            if fn in env and env[fn][0] == "closureF":
                return self.call_f(e, env, cont)
            raise Unparsed("call statement %s" % fn)
        if kind == "macro" and e[1] == "debug_assert":
            # debug assertions are not part of the release semantics; they are kept out of the IR
            self.notes.append("debug_assert!(%s) skipped" % e[3])
            return cont(env)
        if kind == "if":
            return self.cond(e[1], env,
                             lambda env2: self.block(e[2], env2, lambda x, env3: cont(env)),
                             lambda env2: cont(env) if e[3] is None else self.block(e[3], env2, lambda x, env3: cont(env)))
        raise Unparsed("effect %s" % kind)

    def fill(self, a, b, clo, env, cont):
        def kind_of(x):
            while x[0] == "un":
                x = x[2]
            if x[0] == "path" and x[1] in env:
                return env[x[1]][0], env[x[1]]
            return None, None
        ka, ba = kind_of(a)
        kb, bb = kind_of(b)
        if ka == "slotsiter" and kb == "mapiter":
            if ba[1] != ".out":
                raise Unparsed("fill loop over an object that is not the builder")
            params = clo[1]
            if len(params) != 1 or params[0][0] != "ptuple" or len(params[0][1]) != 2 or any(p[0] != "pbind" for p in params[0][1]):
                raise Unparsed("fill closure parameters")
            ctext = self.map_closure(bb)
            nv = self.nvars
            benv = self.fresh(env, params[0][1][0][1], "slot")
            benv = self.fresh(benv, params[0][1][1][1], "elem")
            body = clo[2] if clo[2][0] == "block" else ("block", [], clo[2])
            btext = self.block(body, benv, lambda x, env2: "(.done .unit)")
            self.nvars = nv
            if len(bb) > 5:
                return "(.fillZipMapS %d %s %s\n  %s\n  %s\n  %s)" % (bb[4], bb[1], bb[5], ctext, btext, cont(env))
            return "(.fillMapS %d %s\n  %s\n  %s\n  %s)" % (bb[4], bb[1], ctext, btext, cont(env))
        if ka == "slotsiter" and kb == "ext":
            dest_first, o = True, ba[1]
        elif ka == "ext" and kb == "slotsiter":
            dest_first, o = False, bb[1]
        else:
            raise Unparsed("zip of %s and %s" % (ka, kb))
        if o != ".out":
            raise Unparsed("fill loop over an object that is not the builder")
        params = clo[1]
        if len(params) != 1 or params[0][0] != "ptuple" or len(params[0][1]) != 2 or any(p[0] != "pbind" for p in params[0][1]):
            raise Unparsed("fill closure parameters")
        n0, n1 = params[0][1][0][1], params[0][1][1][1]
        dname, sname = (n0, n1) if dest_first else (n1, n0)
        nv = self.nvars
        benv = self.fresh(env, dname, "slot")
        benv = self.fresh(benv, sname, "elem")
        body = clo[2] if clo[2][0] == "block" else ("block", [], clo[2])
        btext = self.block(body, benv, lambda x, env2: "(.done .unit)")
        self.nvars = nv
        return "(.fillS %s\n  %s\n  %s)" % ("true" if dest_first else "false", btext, cont(env))

    def fold(self, e, env, cont, bind):
        rev = e[2] == "rfold"
        sl = self.X(e[1], env)
        clo = e[3][1]
        params = clo[1]
        if len(params) != 2 or params[1][0] != "pbind":
            raise Unparsed("fold closure parameters")
        benv = dict(env)
        if params[0][0] == "pbind":
            benv[params[0][1]] = ("ignored",)
        nv = self.nvars
        benv = self.fresh(benv, params[1][1], "slot")
        body = clo[2] if clo[2][0] == "block" else ("block", [], clo[2])
        btext = self.block(body, benv, lambda x, env2: "(.done .unit)")
        # after the loop the interpreter binds the fold's result (a unit) as the next variable
        self.nvars = nv + 1
        return "(.foldS %s %s\n  %s\n  %s)" % ("true" if rev else "false", sl, btext, cont(env))

    def for_loop(self, s, env, cont):
        pat, it, body = s[1], s[2], s[3]
        if it[0] == "path" and env.get(it[1], ("",))[0] == "slotsiter" and pat[0] == "pbind":
            return self.seq_fill(pat, it, body, env, cont)
        if not (it[0] == "method" and it[2] == "zip" and len(it[3]) == 1):
            raise Unparsed("for loop over %s" % it[0])
        if pat[0] != "ptuple" or len(pat[1]) != 2 or any(p[0] != "pbind" for p in pat[1]):
            raise Unparsed("for pattern")
        dst = self.X(it[1], env)
        src = self.zip_src(it[3][0], env)
        nv = self.nvars
        benv = self.fresh(env, pat[1][0][1], "slot")
        benv = self.fresh(benv, pat[1][1][1], "slot")
        btext = self.block(body, benv, lambda x, env2: "(.done .unit)")
        self.nvars = nv
        return "(.zipS %s %s\n  %s\n  %s)" % (dst, src, btext, cont(env))

    def seq_fill(self, pat, it, body, env, cont):
        """`for dst in build_iter { match seq.next_element()? { Some(el) => { … } None => break, } }`"""
        if env[it[1]][1] != ".out":
            raise Unparsed("for loop over an object that is not the builder")
        stmts, tail = body[1], body[2]
        m = tail if (not stmts and tail is not None) else (stmts[0][1] if len(stmts) == 1 and tail is None and stmts[0][0] == "expr" else None)
        if m is None or m[0] != "match":
            raise Unparsed("body of the for loop over the builder's slots")
        sc = m[1]
        if not (sc[0] == "try" and sc[1][0] == "method" and sc[1][2] == "next_element" and not sc[1][3]
                and sc[1][1][0] == "path" and env.get(sc[1][1][1], ("",))[0] == "seq"):
            raise Unparsed("scrutinee of the match in the fill loop")
        arms = dict((a[0], (a[1], a[2])) for a in m[2])
        some = [k_ for k_ in arms if re.fullmatch(r"Some\(\w+\)", k_)]
        if len(arms) != 2 or len(some) != 1 or "None" not in arms or arms["None"][0] is not None or arms[some[0]][0] is not None:
            raise Unparsed("arms of the match in the fill loop")
        nb = arms["None"][1]
        if nb not in (("break", None), ("block", [("break", None)], None), ("path", "break"), ("block", [], ("path", "break"))):
            raise Unparsed("`None` arm is not `break`")
        el = re.fullmatch(r"Some\((\w+)\)", some[0]).group(1)
        nv = self.nvars
        benv = self.fresh(env, pat[1], "slot")
        benv = self.fresh(benv, el, "elem")
        b = arms[some[0]][1]
        b = b if b[0] == "block" else ("block", [], b)
        btext = self.block(b, benv, lambda x, env2: "(.done .unit)")
        self.nvars = nv
        return "(.seqFill\n  %s\n  %s)" % (btext, cont(env))

    def zip_src(self, e, env):
        return self.X(e, env)


def env_self(env):
    for kk, b in env.items():
        if kk != "$ret" and b[0] == "self":
            return b
    return ("self",)


def fn_params(hdr):
    """[(name, 'self'|'value'|'caller')] from a fn header token list"""
    i = next(k for k, t in enumerate(hdr) if t.s == "(")
    c = rsparse.match_close(hdr, i)
    out = []
    for part in rsparse.split_top(hdr[i + 1 : c], ","):
        if not part:
            continue
        txt = rsparse.compact(part)
        if "self" in [t.s for t in part[:3]]:
            recv = "ref"
            if txt.startswith("&mut"):
                recv = "refMut"
            elif not txt.startswith("&"):
                recv = "owned"
            out.append(("self", "self", recv))
            continue
        toks = [t for t in part]
        if toks[0].s == "mut":
            toks = toks[1:]
        name = toks[0].s
        ty = rsparse.compact(toks[2:])
        out.append((name, "value" if ty == "usize" else "caller", ty))
    return out


def lower_fn(table, key):
    hdr, body = table[key]
    params = fn_params(hdr)
    L = Lowerer(table, key[0])
    # element type parameter of the receiver: `… for GenericArray<T, N>`
    L.tparam_obj = {}
    L.all_impls, L.impl_fns = IMPL_INDEX
    mm = re.search(r"for(?:Box<)?GenericArray<(\w+),", key[0])
    if mm:
        L.tparam_obj[mm.group(1)] = ".self"
    env = {}
    recv = "ref"
    nargs = 0
    for p in params:
        if p[1] == "self":
            env["self"] = ("guardself",) if "DeallocOnDrop" in key[0] else ("self",)
            recv = p[2]
        elif p[1] == "value":
            env = L.fresh(env, p[0], "nat")
            nargs += 1
        else:
            # caller data: a closure `f`, an accumulator `init`, a formatter …
            if re.fullmatch(r"\w+", p[2]) and p[2] != "F" and "SeqAccess" in rsparse.compact(hdr):
                env[p[0]] = ("seq",)
                continue
            mm = re.match(r"^GenericArray<(\w+),", p[2])
            if mm:
                # a second array operand, by value
                env[p[0]] = ("other",)
                L.tparam_obj[mm.group(1)] = ".other"
            else:
                env[p[0]] = ("closureF",) if p[2] in ("F",) else (("ext",) if "Iterator" in p[2] else ("ignored",))
    L.self_recv = recv
    text = L.block(body, env, lambda x, env2: "(.done %s)" % x)
    if recv == "owned" and "GAVisitor" in key[0]:
        # `self` is the visitor: a struct whose fields are all `PhantomData` has nothing to drop
        src = open(os.path.join(REPO, "src", key[0].split("/")[0])).read()
        m = re.search(r"struct\s+GAVisitor\s*<[^>]*>\s*\{([^}]*)\}", src)
        fields = [f.strip() for f in (m.group(1).split(",") if m else ["?"]) if f.strip()]
        if not m or any(not re.fullmatch(r"\w+\s*:\s*PhantomData<\w+>", f) for f in fields):
            raise Unparsed("GAVisitor has fields other than PhantomData")
        recv = "ref"
        L.notes.append("self (GAVisitor: PhantomData fields only) carries nothing to drop")
    return recv, nargs, text, L.notes


# which functions are translated: (source file, impl needles, fn name) -> Lean name
TARGETS = [
    ("iter.rs", ("GenericArrayIter<T,N>{",), "as_slice", "asSlice"),
    ("iter.rs", ("GenericArrayIter<T,N>{",), "as_mut_slice", "asMutSlice"),
    ("iter.rs", ("IntoIteratorforGenericArray<T,N>",), "into_iter", "intoIter"),
    ("iter.rs", ("fmt::DebugforGenericArrayIter",), "fmt", "debugFmt"),
    ("iter.rs", ("DropforGenericArrayIter",), "drop", "dropIter"),
    ("iter.rs", ("CloneforGenericArrayIter",), "clone", "clone"),
    ("iter.rs", ("IteratorforGenericArrayIter",), "next", "next"),
    ("iter.rs", ("IteratorforGenericArrayIter",), "fold", "fold"),
    ("iter.rs", ("IteratorforGenericArrayIter",), "size_hint", "sizeHint"),
    ("iter.rs", ("IteratorforGenericArrayIter",), "count", "count"),
    ("iter.rs", ("IteratorforGenericArrayIter",), "nth", "nth"),
    ("iter.rs", ("IteratorforGenericArrayIter",), "last", "last"),
    ("iter.rs", ("DoubleEndedIteratorforGenericArrayIter",), "next_back", "nextBack"),
    ("iter.rs", ("DoubleEndedIteratorforGenericArrayIter",), "rfold", "rfold"),
    ("iter.rs", ("DoubleEndedIteratorforGenericArrayIter",), "nth_back", "nthBack"),
    ("iter.rs", ("ExactSizeIteratorforGenericArrayIter",), "len", "len"),
    ("internal.rs", ("ArrayBuilder<T,N>{",), "is_full", "builderIsFull"),
    ("internal.rs", ("DropforArrayBuilder",), "drop", "builderDrop"),
    ("internal.rs", ("IntrusiveArrayBuilder<'a,T,N>{",), "is_full", "intrusiveIsFull"),
    ("internal.rs", ("IntrusiveArrayBuilder<'a,T,N>{",), "finish", "intrusiveFinish"),
    ("internal.rs", ("DropforIntrusiveArrayBuilder",), "drop", "intrusiveDrop"),
    ("internal.rs", ("DropforArrayConsumer",), "drop", "consumerDrop"),
    ("lib.rs", ("GenericArray<T,N>{",), "try_from_iter", "tryFromIter"),
    ("lib.rs", ("FromIterator<T>forGenericArray<T,N>",), "from_iter", "fromIter"),
    ("lib.rs", ("GenericSequence<T>forGenericArray<T,N>",), "generate", "generate"),
    ("lib.rs", ("FunctionalSequence<T>forGenericArray<T,N>",), "fold", "gaFold"),
    ("lib.rs", ("FunctionalSequence<T>forGenericArray<T,N>",), "map", "gaMap"),
    ("lib.rs", ("GenericSequence<T>forGenericArray<T,N>",), "inverted_zip", "gaIzip"),
    ("impls.rs", ("CloneforGenericArray<T,N>",), "clone", "gaClone"),
    ("impl_serde.rs", ("Visitor<'de>forGAVisitor<T,N>",), "visit_seq", "visitSeq"),
    ("impl_alloc.rs", ("GenericSequence<T>forBox<GenericArray<T,N>>",), "generate", "boxedGenerate"),
    ("impl_alloc.rs", ("DropforDeallocOnDrop",), "drop", "deallocGuardDrop"),
]


IMPL_INDEX = ([], {})


def build_table():
    """(file/impl-header, fn name) -> (header tokens, parsed body) for every fn in the two files"""
    table = {}
    errors = {}
    for fname in ("iter.rs", "internal.rs", "lib.rs", "impl_alloc.rs", "impl_serde.rs", "impls.rs", "functional.rs"):
        toks = rsparse.tokenize(open(os.path.join(REPO, "src", fname)).read())
        for imp in list(rsparse.items(toks, "impl")) + list(rsparse.items(toks, "trait")):
            h = imp.header_text()
            IMPL_INDEX[0].append(fname + "/" + h)
            IMPL_INDEX[1].setdefault(fname + "/" + h, [])
            k = imp.lo
            while k < imp.hi:
                if toks[k].k == "id" and toks[k].s == "fn" and toks[k + 1].k == "id":
                    name = toks[k + 1].s
                    try:
                        it = rsparse.find_fn(toks, name, lo=k, hi=imp.hi)
                    except Unparsed:
                        k += 1
                        continue
                    key = (fname + "/" + h, name)
                    IMPL_INDEX[1][fname + "/" + h].append(name)
                    try:
                        table[key] = (it.header, rsbody.parse_body(it.body))
                    except Unparsed as ex:
                        errors[key] = str(ex)
                    k = it.hi
                else:
                    k += 1
    return table, errors


def main():
    table, errors = build_table()
    status = {}
    lines = [
        "-- GENERATED by tools/bodyx.py from /repo/src/iter.rs and /repo/src/internal.rs — do not edit.",
        "import GA.Model.Body",
        "namespace GA.Gen.Body",
        "open GA.Body",
        "",
    ]
    for fname, needles, fn, lean in TARGETS:
        key = None
        for k in table:
            if k[1] == fn and k[0].startswith(fname + "/") and all(n in k[0] + "{" for n in needles):
                key = k
                break
        doc = "`%s` (src/%s, impl %s)" % (fn, fname, needles[0].rstrip("{"))
        if key is None:
            why = next((errors[k] for k in errors if k[1] == fn and k[0].startswith(fname + "/") and all(n in k[0] + "{" for n in needles)), "function not found")
            status[lean] = {"status": "unlowered", "why": why}
            lines += ["/-- %s — NOT LOWERED: %s -/" % (doc, why.replace("-/", "- /")), "def %s : Fn := ⟨.ref, .opaque 0⟩" % lean, "def %sArgs : Nat := 0" % lean, ""]
            continue
        try:
            recv, nargs, text, notes = lower_fn(table, key)
            status[lean] = {"status": "ok", "notes": notes}
            lines += ["/-- %s -/" % doc, "def %s : Fn := ⟨.%s,\n  %s⟩" % (lean, recv, text), "def %sArgs : Nat := %d" % (lean, nargs), ""]
        except Unparsed as ex:
            status[lean] = {"status": "unlowered", "why": str(ex)}
            lines += ["/-- %s — NOT LOWERED: %s -/" % (doc, str(ex).replace("-/", "- /")), "def %s : Fn := ⟨.ref, .opaque 1⟩" % lean, "def %sArgs : Nat := 0" % lean, ""]
    lines += ["end GA.Gen.Body", ""]
    new = "\n".join(lines)
    old = open(OUT).read() if os.path.exists(OUT) else None
    if new != old:
        with open(OUT, "w") as f:
            f.write(new)
    bdir = os.environ.get("VERIF_BUILD_DIR", os.path.join(ROOT, "build"))
    os.makedirs(bdir, exist_ok=True)
    json.dump(status, open(os.path.join(bdir, "body_status.json"), "w"), indent=1, sort_keys=True)
    for k, v in sorted(status.items()):
        if v["status"] != "ok":
            print("NOTE body-unlowered fn=%s why=%s" % (k, v["why"][:160]))
    return 0


if __name__ == "__main__":
    sys.exit(main())
