#!/usr/bin/env python3
"""Confirm every incoming seeded change in a scratch worktree: it applies, the crate's own suite
still passes, the demonstration fails with the change and passes without it.
Writes seeded/incoming/<prop>/confirm<k>.json.  usage: seedconfirm.py [PROP ...]"""
import json, os, re, subprocess, sys, glob, shutil
ROOT = os.path.dirname(os.path.dirname(os.path.abspath(__file__)))
WT = "/tmp/wt_confirm"
ENV = dict(os.environ, CARGO_NET_OFFLINE="true")

def sh(cmd, cwd=None, timeout=1800):
    p = subprocess.run(cmd, shell=True, cwd=cwd, stdout=subprocess.PIPE, stderr=subprocess.STDOUT, text=True, timeout=timeout, env=ENV)
    return p.returncode, p.stdout

def suite(wt):
    rc, out = sh("cargo test --workspace --no-fail-fast --offline 2>&1", wt)
    passed = sum(int(m) for m in re.findall(r"test result: ok\. (\d+) passed", out))
    failed = sum(int(m) for m in re.findall(r"(\d+) failed", out))
    return rc == 0 and failed == 0, passed

def demo_cmd(demo_src, k):
    feats = re.search(r"--features\s+(\"[^\"]+\"|'[^']+'|[\w,\-]+)", demo_src)
    f = (" --features " + feats.group(1)) if feats else ""
    miri = "miri test" in demo_src and "cargo test" not in demo_src.split("miri test")[0][-400:]
    return "cargo test --offline --test demo%d%s 2>&1" % (k, f), miri

def main():
    props = sys.argv[1:] or sorted(os.path.basename(d) for d in glob.glob(os.path.join(ROOT, "seeded/incoming/C*")))
    sh("git -C /repo worktree remove --force %s" % WT)
    rc, out = sh("git -C /repo worktree add -q --detach %s HEAD" % WT)
    for prop in props:
        d = os.path.join(ROOT, "seeded/incoming", prop)
        for patch in sorted(glob.glob(os.path.join(d, "patch*.diff"))):
            k = int(re.search(r"patch(\d+)", patch).group(1))
            outp = os.path.join(d, "confirm%d.json" % k)
            if os.path.exists(outp):
                continue
            demo = os.path.join(d, "demo%d.rs" % k)
            res = {"property": prop, "k": k}
            sh("git checkout -- . && git clean -fdq -e target", WT)
            rc, out = sh("git apply %s" % patch, WT)
            res["applies"] = rc == 0
            if rc != 0:
                res["error"] = out[-300:]
                json.dump(res, open(outp, "w"), indent=1)
                print(prop, k, "does not apply")
                continue
            rc1, _ = sh("cargo build --offline 2>&1", WT)
            rc2, _ = sh("cargo build --offline --features 'alloc serde zeroize const-default internals' 2>&1", WT)
            res["compiles"] = rc1 == 0 and rc2 == 0
            ok, passed = suite(WT)
            res["suite_passes_with_change"] = ok
            res["suite_passed_count"] = passed
            if os.path.exists(demo):
                src = open(demo).read()
                cmd, miri_only = demo_cmd(src, k)
                shutil.copy(demo, os.path.join(WT, "tests", "demo%d.rs" % k))
                rcw, outw = sh(cmd, WT)
                res["demo_cmd"] = cmd
                res["demo_fails_with_change"] = rcw != 0
                res["demo_tail_with_change"] = outw[-400:]
                sh("git apply -R %s" % patch, WT)
                rco, outo = sh(cmd, WT)
                res["demo_passes_without_change"] = rco == 0
                if miri_only or (rcw == 0):
                    mcmd = cmd.replace("cargo test", "cargo +nightly miri test")
                    res["miri_cmd"] = mcmd
                    sh("git apply %s" % patch, WT)
                    rcm, outm = sh("MIRIFLAGS=-Zmiri-ignore-leaks " + mcmd, WT, timeout=3000)
                    res["demo_fails_with_change_under_miri"] = rcm != 0
                    sh("git apply -R %s" % patch, WT)
                os.remove(os.path.join(WT, "tests", "demo%d.rs" % k))
            json.dump(res, open(outp, "w"), indent=1)
            print(prop, k, {x: res.get(x) for x in ("applies", "compiles", "suite_passes_with_change", "suite_passed_count", "demo_fails_with_change", "demo_passes_without_change", "demo_fails_with_change_under_miri")}, flush=True)
    sh("git -C /repo worktree remove --force %s" % WT)

main()
