#!/usr/bin/env python3
"""Regenerate MANIFEST.json from the registry in props.py + manifest_meta.py."""
import json, os, sys
HERE = os.path.dirname(os.path.abspath(__file__))
sys.path.insert(0, HERE)
import props, manifest_meta as mm

ALL = ["C%02d" % i for i in range(1, 21)]
checks = []
for pid in ALL:
    if pid not in props.PROPS or pid not in mm.META:
        continue
    meta = mm.META[pid]
    checks.append({
        "property_id": pid,
        "quick_cmd": "./check %s quick" % pid,
        "thorough_cmd": "./check %s thorough" % pid,
        "evidence_file": "evidence/%s.json" % pid,
        "replay_cmd_template": "./check %s --replay {path}" % pid,
        "engine": meta.get("engine", "lean4+harness"),
        "level_claimed": {"category": "proof", "text": meta["text"], "design_ref": meta["design_ref"]},
        "level_note": meta["note"],
        "technique": meta["technique"],
    })
na = [{"property_id": pid, "reason": mm.NOT_YET.get(pid, "not claimed yet: model and proofs still being built in this session (see DESIGN.md §9 build order)")}
      for pid in ALL if pid not in [c["property_id"] for c in checks]]
man = {
    "version": 1,
    "setup_cmd": "./setup.sh",
    "hooks": {
        "guard": "generic_array_verif",
        "enable": "none needed: every observation is taken from outside the crate (public API + the crate's own `internals` feature, element types, a recording global allocator)",
        "baseline_off_cmd": "cd /repo && cargo test --workspace --no-fail-fast --offline",
        "source_commits": [],
        "add_only": True,
    },
    "engines": mm.ENGINES,
    "checks": checks,
    "notes": mm.NOTES,
    "not_applicable": na,
}
with open(os.path.join(os.path.dirname(HERE), "MANIFEST.json"), "w") as f:
    json.dump(man, f, indent=1)
print("MANIFEST.json: %d checks, %d not_applicable" % (len(checks), len(na)))
