#!/usr/bin/env python3
"""One-time / maintenance generator of lean/GA/Bridge/Surface/<File>.lean: the *canonical* function inventory per
source file, as a theorem about the regenerated GA.Gen.Surface.  Never run by a check: the canonical side is committed.
Re-run by hand only after a deliberate change of /repo's function inventory (e.g. a `fix:` commit adding a function)."""
import os, re, sys
ROOT = os.path.dirname(os.path.dirname(os.path.abspath(__file__)))
sys.path.insert(0, os.path.join(ROOT, "tools"))
import extract
from rsparse import tokenize

NAMES = {"lib.rs": "Lib", "iter.rs": "Iter", "internal.rs": "Internal", "impls.rs": "Impls", "sequence.rs": "Sequence",
         "functional.rs": "Functional", "impl_alloc.rs": "ImplAlloc", "impl_serde.rs": "ImplSerde", "impl_zeroize.rs": "ImplZeroize",
         "impl_const_default.rs": "ImplConstDefault", "hex.rs": "Hex", "arr.rs": "Arr"}


def q(x):
    return '"' + x.replace("\\", "\\\\").replace('"', '\\"') + '"'


def main():
    d = os.path.join(ROOT, "lean", "GA", "Bridge", "Surface")
    os.makedirs(d, exist_ok=True)
    for f, nm in NAMES.items():
        sv = extract.surface_of(tokenize(open(os.path.join(extract.REPO, "src", f)).read()))
        rows = ",\n".join("    (%s, [%s])" % (q(h), ", ".join(q(n) for n in ns)) for h, ns in sv)
        txt = """import GA.Gen.Surface
/-!
Function inventory of `src/%s`: the regenerated list of `impl` / `trait` blocks and module-level functions with the
functions each defines is exactly the one the models, theorems and scenario generators were written against.  A new
function (a trait method that used to be the trait's default and is now overridden, a new inherent method, a new
conversion) is code no model covers; this obligation fails and the check widens its search.
-/
namespace GA.Bridge.Surface.%s
open GA.Gen.Surface

/-- the inventory of one file -/
def ofFile (f : String) : List (String × List String) := (surface.filter (fun r => r.1 == f)).map (fun r => r.2)

theorem inventory : ofFile %s = [
%s] := by decide

/-- no source file outside the inventory -/
theorem no_other_files : otherFiles = [] := by decide

end GA.Bridge.Surface.%s
""" % (f, nm, q(f), rows, nm)
        open(os.path.join(d, nm + ".lean"), "w").write(txt)
        print("wrote", nm)


if __name__ == "__main__":
    main()
