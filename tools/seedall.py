#!/usr/bin/env python3
"""Run every kept seeded change through the property's quick check (apply -> check -> undo) and
write /verif/seeded/<prop>-<k>/{patch.diff,demo.rs,notes.md,meta.json}.  usage: seedall.py [PROP ...]"""
import glob, json, os, re, shutil, subprocess, sys, time
ROOT = os.path.dirname(os.path.dirname(os.path.abspath(__file__)))
INC = os.path.join(ROOT, "seeded", "incoming")

NEEDS = {}


def first_para(notes, key):
    m = re.search(r"(?im)^[\*\-\s]*(%s)[^\n]*\n?((?:.+\n?){0,6})" % key, notes)
    return (m.group(0).strip() if m else "")[:900]


def main():
    sel = {}
    for a in sys.argv[1:]:
        pr, _, kk = a.partition(":")
        sel.setdefault(pr, set())
        if kk:
            sel[pr].add(int(kk))
    props = sorted(sel) or sorted(os.path.basename(d) for d in glob.glob(os.path.join(INC, "C*")))
    for prop in props:
        d = os.path.join(INC, prop)
        ks = sorted(set(int(re.search(r"patch(\d+)", p).group(1)) for p in glob.glob(os.path.join(d, "patch*.diff"))))
        for k in ks:
            if sel.get(prop) and k not in sel[prop]:
                continue
            patch = os.path.join(d, "patch%dr.diff" % k)
            rebased = os.path.exists(patch)
            if not rebased:
                patch = os.path.join(d, "patch%d.diff" % k)
            conf = {}
            try:
                conf = json.load(open(os.path.join(d, "confirm%d.json" % k)))
            except OSError:
                pass
            t0 = time.time()
            p = subprocess.run([os.path.join(ROOT, "tools", "seedtest.sh"), prop, patch], stdout=subprocess.PIPE, stderr=subprocess.STDOUT, text=True)
            out = p.stdout
            applies = "PATCH-DOES-NOT-APPLY" not in out
            viol = [l for l in out.split("\n") if l.startswith("VIOLATION")]
            summ = [l for l in out.split("\n") if "obligations" in l]
            detected = bool(viol)
            concrete = detected and "no-failing-input-found" not in viol[0]
            notes = ""
            try:
                notes = open(os.path.join(d, "notes%d.md" % k)).read()
            except OSError:
                pass
            meta = {
                "property": prop,
                "seed": "%s-%d" % (prop, k),
                "patch_rebased_onto_fix_commits": rebased,
                "applies_to_current_head": applies,
                "what_it_changes": notes.split("\n")[0].lstrip("# ").strip(),
                "needs_to_manifest": first_para(notes, "needed to manifest|to manifest|needs"),
                "confirmed_in_scratch_worktree": {kk: conf.get(kk) for kk in ("applies", "compiles", "suite_passes_with_change", "suite_passed_count", "demo_cmd", "demo_fails_with_change", "demo_passes_without_change") if kk in conf},
                "what_was_run": "tools/seedtest.sh: git -C /repo apply patch.diff; ./check %s quick; git -C /repo checkout -- .  (undo also on interruption; seeded/IN_FLIGHT marker)" % prop,
                "check_result": {"exit": p.returncode, "detected": detected, "concrete_failing_input": concrete,
                                 "summary": summ[0] if summ else "", "violation_line": re.sub(r"replay=\S+", "replay=<path>", viol[0]) if viol else ""},
                "wall_s": round(time.time() - t0, 1),
            }
            dst = os.path.join(ROOT, "seeded", "%s-%d" % (prop, k))
            os.makedirs(dst, exist_ok=True)
            shutil.copy(patch, os.path.join(dst, "patch.diff"))
            for src, name in (("demo%d.rs" % k, "demo.rs"), ("notes%d.md" % k, "notes.md")):
                if os.path.exists(os.path.join(d, src)):
                    shutil.copy(os.path.join(d, src), os.path.join(dst, name))
            json.dump(meta, open(os.path.join(dst, "meta.json"), "w"), indent=1)
            print("%s-%d applies=%s detected=%s concrete=%s  %s  (%.0fs)" % (prop, k, applies, detected, concrete, summ[0] if summ else "", time.time() - t0), flush=True)


if __name__ == "__main__":
    main()
