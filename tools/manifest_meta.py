"""Human-written parts of MANIFEST.json."""
NOTES = ("Technique family: machine-checked proof in Lean 4. Each property is a set of theorems (lean/GA/Props/<id>.lean) about an "
         "executable model whose fragments are regenerated from /repo's source on every run (tools/extract.py -> lean/GA/Gen) and "
         "re-proved equal to their canonical reading (lean/GA/Bridge); the same regenerated model, compiled as `driver`, is diffed "
         "against the real crate by the Rust harness (harness/), with independent oracles. See DESIGN.md.")
ENGINES = [
    {"name": "lean", "path": "lean/", "serves_properties": ["C%02d" % i for i in range(1, 21)], "kind_free_text": "Lean 4 project: Model (executable, import-free), Gen (regenerated), Bridge, Lemmas, Props; lean_exe driver"},
    {"name": "translator", "path": "tools/extract.py", "serves_properties": ["C%02d" % i for i in range(1, 21)], "kind_free_text": "Rust fragment translator (tokenizer, item locator, expression parser, straight-line symbolic executor)"},
    {"name": "harness", "path": "harness/", "serves_properties": ["C%02d" % i for i in range(1, 21)], "kind_free_text": "Rust correspondence harness, one binary per observation engine, path-dependent on /repo"},
]
NOT_YET = {}
TB = "Trusted: Lean kernel; axioms ⊆ {propext, Quot.sound, Classical.choice}; the translator; the harness + canonicalisation; "
META = {
    "C15": {
        "text": "try_from_boxed_slice_spec / try_from_vec_spec / try_from_vec_owned_spec: Ok iff the source length is N, the same elements in order, LengthError otherwise with every source element dropped once; same block for try_from_boxed_slice and for try_from_vec iff len = capacity; into_boxed_slice_spec (into_boxed_slice, into_vec: same block, N elements); check_before_ownership_transfer; boxed_constructors (boxed from_iter is the same function of the source as the stack form, C07; default_boxed is boxed generate, C16). Length guards, the rebuilt slice length and the delegation bodies are regenerated from src/impl_alloc.rs. Correspondence under a recording allocator: contents, Ok/Err, block address, allocator call count, drops; multi-MiB constructors on a 256 KiB stack.",
        "design_ref": "§5 C15", "note": TB + "modelled not verified: Vec/Box allocation contract; stack-temporary behaviour of rustc (small-stack run is the evidence).",
        "technique": "Lean 4 case analysis over regenerated guards + recording-allocator correspondence",
    },
    "C16": {
        "text": "For boxed generate's whole life cycle (request, fill loop with a generator that may panic at any call, Box::from_raw, eventual drop) and for every element size incl. 0, every N incl. 0, every generator and allocator outcome: requests_nonzero, release_matches, no_leak (the block is released while unwinding), alloc_failure_path (handle_alloc_error, the null block is never touched), boxed_complete. They rest on three regenerated facts: the allocator is avoided iff the array's layout has size 0, a null test with handle_alloc_error precedes the first use, a deallocating guard is live across the loop. On the pinned tree all three were false; Lean refuted the claims, the harness replayed the failing inputs on the real crate, and the defects were repaired in /repo (KNOWN_FINDINGS.txt). Correspondence: recording global allocator, panic at every call, allocation failure in a child process.",
        "design_ref": "§5 C16, §6", "note": TB + "modelled not verified: std's Vec/Box discipline for the other alloc-feature operations (checked by the recorder's oracle only).",
        "technique": "Lean 4 case analysis over allocator-event traces on regenerated guards + recording-allocator / fault-injection correspondence",
    },
    "C13": {
        "text": "arrayOps_eq_sliceOps: the five impl bodies of src/impls.rs (PartialEq, PartialOrd, Ord, Hash, Debug), regenerated into Lean as terms over the slice operations and over whether the operands are the same object, are exactly the slice's operations on the whole slice - for every element type, every pair, every formatter option set (eq_agrees, partial_cmp_agrees, cmp_agrees, hash_agrees with the length prefix, debug_agrees); nested_agrees at any nesting depth; pcmp_lexicographic / pcmp_incomparable_head / eq_irreflexive_elem spell out the slice semantics incl. NaN; hash_respects_eq (by induction); hashmap_lookup_by_slice, btree_lookup_by_slice, hashmap_finds_stored: a map keyed by arrays answers a &[T] query exactly as a map keyed by the slices (uses the regenerated Borrow body). Correspondence: the real operators, a recording Hasher, format!() under 15 option sets and real HashMap/BTreeMap lookups, each also judged against the real slice.",
        "design_ref": "§5 C13", "note": TB + "modelled not verified: core's slice impls and element formatting (validated against the real slice on every run).",
        "technique": "Lean 4 equational proofs over regenerated impl bodies (terms over slice operations) + induction for derived laws + operator/hasher/format correspondence",
    },
    "C19": {
        "text": "const_default_all: for every N the array built by the ConstDefault struct literals (regenerated: which declared field of the even node, the odd node and the wrapper gets which initialiser), laid out in declaration order and read through the slice view, is exactly N copies of the element default - by induction over the binary digits of N from structMem_ok (any literal that gives every declared field its own type's default holds k*children + element-fields copies), so no slot is skipped or counted twice for any storage shape; field order and names are not pinned. const_default_eq_default via C08's generate spec. zeroize_all / zeroize_each / zeroize_idempotent: every element of the whole mutable slice is replaced by the element's own zeroized value, for any element zeroize function. Correspondence: all N in 0..=64 and boundary lengths to 1024, five element types with distinguishable zero/default values, compile-time and run-time evaluation.",
        "design_ref": "§5 C19", "note": TB + "modelled not verified: zeroize's IterMut impl, const-default's primitive impls, const evaluation.",
        "technique": "Lean 4 induction over the binary storage shape on regenerated struct-literal initialisers + element-wise correspondence",
    },
    "C20": {
        "text": "The arms of arr!, box_arr! and box_arr_helper! are regenerated from src/arr.rs (matcher shape, recognised transcriber shape incl. whether only const fns are called). arr_list: for every list of element expressions and any trailing commas, the first matching arm yields length = element count, the values in order and an evaluation log that is exactly the operands' effects once each, left to right, and is const-usable; arr_repeat_ty / arr_repeat_const: N copies, operand evaluated once; arr_denotes (all forms); box_denotes: box_arr! yields the same length, values and log, and the length inferred from the unit array equals the vector's length so the unchecked unwrap in __from_vec_helper never sees an error (uses the regenerated try_from_vec guard); box_eq_arr; list_log_exact. Correspondence: generated real invocations at every element count 0..=64,100,128,255,256 with index-logging operands, both repeat forms over the lattice, Copy/non-Copy, plus a compiled corpus of const/static/const-fn uses.",
        "design_ref": "§5 C20", "note": TB + "modelled not verified: macro_rules matching, evaluation order of literals and vec!, const-ness of std functions.",
        "technique": "Lean 4 proofs over regenerated macro arms (arm selection + transcriber evaluation) + generated-invocation and const-item corpus correspondence",
    },
    "C18": {
        "text": "const_api_verdict / never_ub: for every function the crate marks const (regenerated list of const fns) and every N, slice length, chunk count and element size, the call is accepted by the compile-time interpreter's judgement or stops at the documented panic (from_slice/from_mut_slice with len != N, chunks with N = 0 on a non-empty slice): every reference it hands out lies inside the allocation it was derived from (via chunks_partition, view_same, the flat/reinterpret lengths of C02/C10), every &mut is derived from the unique borrow (regenerated provenance of as_mut_slice, from_mut_slice, chunks_from_slice_mut, slice_from_chunks_mut), the const_transmute size check never fires, and nothing non-const is called. accept_iff_runtime_ok_*: the accepted calls are exactly the run-time-ok calls and see the same views. Correspondence: ~2600 generated const items compiled against the crate; contents compared with run time.",
        "design_ref": "§5 C18", "note": TB + "modelled not verified: rustc's interpreter (it is the implementation side of the correspondence).",
        "technique": "Lean 4 case analysis over the const API on regenerated guards/offsets/provenance (reusing C02/C10 theorems) + compiled const-item corpus correspondence",
    },
    "C12": {
        "text": "check_eq_spec: for every public operation relating two lengths (append/prepend, pop, remove, split owned/&/&mut, concat, flatten, unflatten, zip, comparisons, from/into_array, native-array From/AsRef/AsMut impls, from/into_chunks(_mut), tuples) and all lengths, the regenerated where-clauses (typenum operators translated to arithmetic with definedness side conditions) and associated output types accept a program exactly when the lengths agree and infer exactly the specified result lengths; rejects. auto_traits: from the regenerated list of every unsafe Send/Sync impl in the crate with its bounds, the Clone/Copy impl bounds and the field types of the storage nodes and the iterator, the array, &array and the by-value iterator are Send/Sync/Clone/Copy iff the element is (iterator never Copy). lifetimes_tied: for each of 36 APIs returning a reference made from a raw pointer or transmute, the signature analysis (elision rules, named lifetimes in fn and impl headers and associated types) ties the result to the source borrow. Correspondence: rustc's verdict on ~1500 generated accept/reject programs compiled against the crate.",
        "design_ref": "§5 C12", "note": TB + "modelled not verified: rustc's trait solver and borrow checker (implementation side of the correspondence).",
        "technique": "Lean 4 case analysis over regenerated where-clauses, impl bounds and signature lifetimes + compiled accept/reject program corpus correspondence",
    },
    "C17": {
        "text": "serialize_shape (a tuple of declared length N with exactly the N elements in order, no extra framing); ok_iff / no_partial: visit_seq returns Ok exactly when the source delivers N elements and then no surplus (an up-front hint != N rejects before any read; short, long and failing sources are errors) and an Ok array is always the N delivered elements; roundtrip; read_ledger: on every path each element read so far is either in the returned array or dropped exactly once, nothing uninitialised is dropped (by the fill-loop ledger of C04/C07 instantiated with the scripted source). Guards (hint comparison, position == N, probe condition, finish-after-probe order) are regenerated from src/impl_serde.rs. Correspondence: scripted SeqAccess sources with event order, plus real serde_json, serde_json::Value and bincode inputs of every length around N with malformed elements.",
        "design_ref": "§5 C17", "note": TB + "modelled not verified: serde data-format crates; SeqAccess contract.",
        "technique": "Lean 4 induction over scripted sources (fill-loop ledger) on regenerated guards + scripted-source and real-format correspondence",
    },
    "C14": {
        "text": "hex_spec: for every byte string, every precision (or none) and both cases, generic_hex prints exactly the first min(p, 2N) characters of the two-digits-per-byte string, on all three strategies (whole-array table fallback, 2N stack buffer, chunk loop through a reused buffer with a running digit budget - largeLoop_spec by induction on the chunk list, so stale digits are never printed and no slice leaves the buffer); proved for the thresholds the source currently has under the regenerated side conditions 0 < chunk and 2*chunk <= buffer, so changing 1024 to 512 is not an alarm. nibble_table (all 256 byte values x both cases, decide +kernel), input_within (the unreachable_unchecked guard is unreachable), hex_format_spec, feature_independent. Arithmetic, thresholds and alphabets are regenerated from src/hex.rs. Correspondence: the real Display output, faster-hex off and on.",
        "design_ref": "§5 C14", "note": TB + "modelled not verified: core::fmt; faster-hex meets the encode contract (checked by running with the feature).",
        "technique": "Lean 4 induction over chunks + finite nibble table (decide +kernel) on regenerated arithmetic + formatted-output correspondence (two feature builds)",
    },
    "C03": {
        "text": "history_ledger: for every finite sequence of the 33 pool operations (construction, iterator next/next_back/nth/nth_back/clone/drop/count/last/fold/rfold, map/zip/fold/clone, append/prepend/pop/split/concat/remove/swap_remove incl. the out-of-range panic, flatten/unflatten, conversions, drops), chained so outputs feed later operations, every element created so far is in exactly one place: a live array, a live iterator range, the caller's hands or the drop log (induction over the operation list from one step lemma per operation, each resting on the regenerated models of C04/C05/C06/C08/C09). history_final: once everything is out of scope the drop log is a permutation of all created elements (no leak, no double drop); no_use_after_drop; held_live. Correspondence: random operation chains on a pool of real arrays/iterators, full state comparison and an exactly-once drop oracle; sample replayed under Miri in the thorough tier.",
        "design_ref": "§5 C03",
        "note": TB + "modelled not verified: drop glue, unwinding for the remove panic, Vec/Box conversions keep elements.",
        "technique": "Lean 4 invariant + induction over operation histories (pool machine) + random-chain differential correspondence",
    },
    "C02": {
        "text": "view_same: all twelve borrowed views are (offset 0, N elements) of the array, from the regenerated delegation bodies and as_slice's base/length; write_through; reinterpret_exact: each of the six checked slice->array-reference conversions succeeds iff L = N (panic vs LengthError per form) and then aliases the source exactly (reinterpret_within); array_ref_same; array_roundtrip via C01 (the size check of const_transmute never fires); transmute_checked. Guards and casts are regenerated from lib.rs/impls.rs. Correspondence: pointer offsets/lengths, Ok/Err/panic classes, write-through pairs, const-length and tuple round trips on the real crate.",
        "design_ref": "§5 C02", "note": TB + "modelled not verified: from_raw_parts / reference casts; Stacked/Tree-Borrows beyond address equality.",
        "technique": "Lean 4 case analysis over regenerated guards and delegation bodies + pointer/length correspondence",
    },
    "C10": {
        "text": "chunks_partition: for every L and N > 0 the chunk slice starts at the source, has L/N arrays, the remainder starts right behind it, has L mod N elements and ends exactly at the end (adjacent, disjoint, covering, nothing beyond); chunks_mut_same; chunks_n_zero; flat_inverse and chunks_of_flat (slice_from_chunks is the inverse); reinterpret_same for from/into_chunks(_mut); flat_len_no_overflow. The division/multiplication/subtraction and the N = 0 branch are regenerated by symbolic execution of the function bodies, with no-underflow/no-division-by-zero side conditions discharged. Correspondence: pointers and lengths of both parts for every L <= 4N+3.",
        "design_ref": "§5 C10", "note": TB + "modelled not verified: from_raw_parts; zero-sized elements with k*N >= 2^64 are outside the hypothesis.",
        "technique": "Lean 4 arithmetic proofs (div/mod) over regenerated expressions + pointer/length correspondence",
    },
    "C11": {
        "text": "flatten_ok (the size check never fires), flatten_row / flatten_index (element i*N+j of the result is element j of row i), unflatten_flatten and flatten_unflatten (exact inverses over divisible lengths), flatten_ref_same_extent, unflatten_ref_within (the regrouped view stays inside the source; same extent iff N | NM). Output lengths Prod<N,M> / Quot<NM,N> and the transmute bodies are regenerated from the six impls. Correspondence: values, addresses and extents for (N,M) in 0..=6 squared and boundary pairs, 5 element kinds, drop counts for the owned forms.",
        "design_ref": "§5 C11", "note": TB + "modelled not verified: typenum Prod/Quot; reference transmute; layout from C01.",
        "technique": "Lean 4 list induction (flatten/chunk) over regenerated output lengths + value/extent correspondence",
    },
    "C09": {
        "text": "Each operation is modelled as the block reads/writes of src/sequence.rs over a buffer with possibly-uninitialised slots, at element offsets, copy counts and bounds guards regenerated from the source by a small pointer evaluator (pointee stride, .add/.offset, casts). Theorems for every length: append = push, prepend = insert(0), pop_back = pop, pop_front = remove(0), split = split_at(K), concat = extend, remove = Vec::remove, swap_remove = Vec::swap_remove, out-of-range indices panic before the ManuallyDrop (array dropped whole), reference split = adjacent disjoint covering sub-ranges; `some` results establish that no access leaves the buffer and no slot stays uninitialised. Correspondence: the real operations vs the model and vs Vec for 5 element kinds incl. zero-sized and drop-tracked.",
        "design_ref": "§5 C09",
        "note": TB + "modelled not verified: ptr::read/write/copy, slice::swap; typenum's Add1/Sub1/Diff/Sum.",
        "technique": "Lean 4 list proofs over regenerated offsets (pointer evaluator) + Vec differential correspondence",
    },
    "C08": {
        "text": "For a non-panicking closure g and every N: generate_spec (calls 0..N-1 in order, result i = g i), map_spec (4 forms), zip_spec (every form pair and both needs_drop branches: call i receives (a[i], b[i]) in ascending order once each), fold_spec, clone_spec, default_spec, and map/zip_form_independent. Proved by induction on the remaining elements for *every* way an operand can be held (Side), so form and branch selection cannot matter; the dispatch (which body serves which form) and the closure bodies are regenerated from lib.rs/sequence.rs/functional.rs/impls.rs. Correspondence: ordered call logs of recording closures on the real crate, drop-tracked and plain element types.",
        "design_ref": "§5 C08",
        "note": TB + "modelled not verified: core's Zip/Map/Enumerate iteration order.",
        "technique": "Lean 4 induction on remaining elements over all operand sides + call-log correspondence",
    },
    "C07": {
        "text": "Theorems over every N, every answer script (including non-fused sources), every size hint: ok_iff (try_from_iter returns Ok arr iff the hint does not exclude N, the first N answers are Some and equal arr, and answer N is not Some), truthful_complete, polls_le (at most N+1 polls on every path, panics included), pulled_ledger (every pulled item in the result or dropped exactly once), boxed_agrees (the boxed form is the same function of the script), from_iter_panics_iff. The size-hint guards, is_full, the short-circuit order, destination-first zip and finish-after-probe are regenerated from lib.rs/internal.rs/impl_alloc.rs. Correspondence: scripted Iterator with recorded polls on the real crate.",
        "design_ref": "§5 C07",
        "note": TB + "modelled not verified: core's Zip/Take and alloc's Vec for the boxed form.",
        "technique": "Lean 4 induction over the source script on regenerated guards + scripted-iterator correspondence",
    },
    "C04": {
        "text": "Ledger theorems quantified over the caller-code function f : call index -> (value | panic), hence over every panic index at once: generate/Default, map (4 receiver forms), zip (16 form pairs, drop-tracked elements), fold (4 forms), Clone, try_from_iter/from_iter (stack and boxed, any size hint, non-fused or panicking sources). One generic theorem (fillLoop_ledger / tryFromIter_ledger, induction on the number of destination slots) over any source meeting a one-step ownership contract; each concrete closure loop is shown to meet it, given the statement-order and stored-position fragments regenerated from the source (position stored before the call, value = pos + 1, destination zipped first, finish() after the surplus probe). Correspondence: event ledger of the real crate with an injected panic at every call index, all forms, N in {0..8,16,17,33}; independent exactly-once oracle.",
        "design_ref": "§5 C04",
        "note": TB + "modelled not verified: unwinding order, Zip/Map/for_each plumbing of core, Vec/IntoIter of alloc. Boxed generate is covered by C16.",
        "technique": "Lean 4 ledger proofs (generic source contract + induction) on regenerated order/position fragments + fault-injection correspondence",
    },
    "C05": {
        "text": "Theorems for every iterator position (front <= back <= N), every skip count and every choice of the single panicking destructor: the destructors run in nth/nth_back, the element returned and what the iterator's Drop releases afterwards are exactly the live elements, in order - so nothing is dropped twice or read after drop (nth_no_double_drop, nth_releases_all, nth_no_stale_read; last/count/drop; builder/consumer/array drop ranges). They rest on the regenerated fact that the index is stored before drop_in_place runs; the model with the old order is refuted by `decide` (the defect found and fixed in /repo). Correspondence: drop logs of the real iterator with a panicking destructor for every (N <= 6/8, front, back, n, bad).",
        "design_ref": "§5 C05",
        "note": TB + "modelled not verified: slice drop glue continues after a panicking element; unwinding may abandon an in-flight return value (leak, allowed).",
        "technique": "Lean 4 case analysis over index ranges on regenerated statement order + destructor-fault correspondence",
    },
    "C01": {
        "text": "Theorem storage_layout, by induction on typenum's binary digits: for every element layout (0 < align, align | size) and every length N, the recursive storage and the transparent wrapper have size N*size_of::<T>() and T's alignment (N = 0 and zero-sized T included); proved for the whole class of repr(C) nodes with two children, 0/1 elements and align-1 ZST fields in any order, into which the struct descriptors regenerated from src/lib.rs are shown to fall by `decide`. Slice-view element offsets are proved inside the object and pairwise disjoint. Correspondence: size_of/align_of/element address of the real type for 19 element layouts x lattice (thorough: every N <= 1025 and every named large length).",
        "design_ref": "§5 C01",
        "note": TB + "modelled not verified: rustc's layout algorithm for repr(C)/repr(transparent)/[T;0]/PhantomData (Reference rules are the model, validated on the grid).",
        "technique": "Lean 4 induction over binary digits on regenerated struct descriptors + size_of/align_of differential grid",
    },
    "C06": {
        "text": "Refinement theorem run_refines: for every finite sequence of the fourteen iterator operations, from every state satisfying front ≤ back ≤ N, outputs equal those of a list deque (induction on the operation list, unbounded N). The index arithmetic and conditions the theorem is about are regenerated from src/iter.rs on every run and re-proved equal to their canonical reading; the compiled model is diffed against the real iterator exhaustively for N ≤ 8 and on seeded sequences over the lattice, with VecDeque as an independent oracle.",
        "design_ref": "§5 C06",
        "note": TB + "modelled not verified: ptr::read/get_unchecked/slice iteration in core; Clone of the element type copies the value.",
        "technique": "Lean 4 refinement proof (invariant + induction over operation lists) + regenerated fragments + differential correspondence",
    },
}
