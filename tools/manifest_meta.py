"""Human-written parts of MANIFEST.json."""
NOTES = ("Technique family: machine-checked proof in Lean 4. Each property is a set of theorems (lean/GA/Props/<id>.lean) about an "
         "executable model whose fragments are regenerated from /repo's source on every run (tools/extract.py -> lean/GA/Gen) and "
         "re-proved equal to their canonical reading (lean/GA/Bridge); the same regenerated model, compiled as `driver`, is diffed "
         "against the real crate by the Rust harness (harness/), with independent oracles. See DESIGN.md.")
ENGINES = [
    {"name": "lean", "path": "lean/", "serves_properties": ["C%02d" % i for i in range(1, 21)], "kind_free_text": "Lean 4 project: Model (executable, import-free), Gen (regenerated), Bridge, Lemmas, Props; lean_exe driver"},
    {"name": "translator", "path": "tools/extract.py", "serves_properties": ["C%02d" % i for i in range(1, 21)], "kind_free_text": "Rust fragment translator (tokenizer, item locator, expression parser, straight-line symbolic executor)"},
    {"name": "harness", "path": "harness/", "serves_properties": ["C%02d" % i for i in range(1, 21)], "kind_free_text": "Rust correspondence harness, one binary per observation engine, path-dependent on /repo"},
]
NOT_YET = {}
TB = "Trusted: Lean kernel; axioms ⊆ {propext, Quot.sound, Classical.choice}; the translator; the harness + canonicalisation; "
META = {
    "C06": {
        "text": "Refinement theorem run_refines: for every finite sequence of the fourteen iterator operations, from every state satisfying front ≤ back ≤ N, outputs equal those of a list deque (induction on the operation list, unbounded N). The index arithmetic and conditions the theorem is about are regenerated from src/iter.rs on every run and re-proved equal to their canonical reading; the compiled model is diffed against the real iterator exhaustively for N ≤ 8 and on seeded sequences over the lattice, with VecDeque as an independent oracle.",
        "design_ref": "§5 C06",
        "note": TB + "modelled not verified: ptr::read/get_unchecked/slice iteration in core; Clone of the element type copies the value.",
        "technique": "Lean 4 refinement proof (invariant + induction over operation lists) + regenerated fragments + differential correspondence",
    },
}
