#!/usr/bin/env python3
"""Regenerate the generated tables of DESIGN.md §11 (between the BEGIN/END markers) from
seeded/*/meta.json, evidence/*.json and MANIFEST.json."""
import glob, json, os, re
ROOT = os.path.dirname(os.path.dirname(os.path.abspath(__file__)))


def seeds_table():
    rows = []
    for d in sorted(glob.glob(os.path.join(ROOT, "seeded", "C*-*")), key=lambda p: (p.split("/")[-1].split("-")[0], int(p.split("-")[-1]))):
        try:
            m = json.load(open(os.path.join(d, "meta.json")))
        except OSError:
            continue
        cr = m["check_result"]
        if not m.get("applies_to_current_head", True):
            res = "does not apply to the repaired tree (kept for reference)"
        elif cr["detected"] and cr["concrete_failing_input"]:
            res = "**caught**, failing input in replay"
        elif cr["detected"]:
            res = "**caught**, `no-failing-input-found`"
        else:
            res = "MISSED"
        mm = re.search(r"obligations (\d+)/(\d+) discharged; correspondence (\d+) scenarios, (\d+) model-vs-impl, (\d+) impl-vs-oracle", cr.get("summary", ""))
        how = ""
        if mm:
            nd = int(mm.group(2)) - int(mm.group(1))
            how = "%s obligations undischarged, M=%s, O=%s" % (nd, mm.group(4), mm.group(5))
        what = m.get("what_it_changes", "").replace("|", "/")
        what = re.sub(r"^(patch|change|seed)\s*\d+\s*[—\-:]*\s*", "", what, flags=re.I)[:110]
        rows.append("| %s | %s | %s | %s |" % (m["seed"], what, res, how))
    head = "| seed | change | quick check | how |\n|---|---|---|---|\n"
    return head + "\n".join(rows) + "\n"


def props_table():
    man = json.load(open(os.path.join(ROOT, "MANIFEST.json")))
    rows = []
    for c in man["checks"]:
        pid = c["property_id"]
        try:
            ev = json.load(open(os.path.join(ROOT, "evidence", pid + ".json")))
        except OSError:
            continue
        cov = ev["coverage"]
        rows.append("| %s | %d | %d | %d | %d | %.0f |" % (pid, cov["obligations"], len(cov.get("theorems", [])), cov["evaluations"], cov["distinct_nontrivial"], ev["wall_s"]))
    head = "| property | obligations (all discharged) | of which property theorems | scenarios (quick) | non-trivial | wall s |\n|---|---|---|---|---|---|\n"
    return head + "\n".join(rows) + "\n"


def main():
    p = os.path.join(ROOT, "DESIGN.md")
    s = open(p).read()
    for name, fn in (("SEEDS", seeds_table), ("PROPS", props_table)):
        b, e = "<!-- BEGIN %s -->" % name, "<!-- END %s -->" % name
        if b in s:
            s = s[: s.index(b) + len(b)] + "\n" + fn() + s[s.index(e):]
    open(p, "w").write(s)


if __name__ == "__main__":
    main()
