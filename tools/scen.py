"""Scenario generators (one per engine).  All randomness comes from the seed."""
import random

LATTICE = [0, 1, 2, 3, 4, 5, 6, 7, 8, 9, 10, 11, 12, 15, 16, 17, 31, 32, 33, 64, 97, 255, 256, 1023, 1024, 1025]
SMALL = list(range(0, 9))


def iterq(tier, seed, params):
    out = []
    passive = "len;size_hint;as_slice;fold;rfold;count;last;debug"
    for n in SMALL:
        for f in range(0, n + 1):
            for b in range(f, n + 1):
                pre = ["next"] * f + ["next_back"] * (n - b)
                ln = b - f
                for via_clone in (False, True):
                    p = pre + (["clone"] if via_clone else [])
                    muts = ["next", "next_back", "clone;next;next_back;as_slice"]
                    muts += ["nth:%d" % k for k in range(0, ln + 3)]
                    muts += ["nth_back:%d" % k for k in range(0, ln + 3)]
                    muts += ["write:%d:%d" % (i, 500 + i) for i in range(0, ln + 2)]
                    for m in muts:
                        out.append("n=%d ops=%s" % (n, ";".join(p + [passive, m, passive])))
    rng = random.Random(seed)
    nseq = 200 if tier == "quick" else 20000
    names = ["next", "next_back", "nth", "nth_back", "len", "size_hint", "as_slice", "write", "clone", "fold", "rfold", "count", "last", "debug"]
    for _ in range(nseq):
        n = rng.choice(LATTICE if rng.random() < 0.7 else SMALL)
        ops = []
        for _ in range(rng.randint(1, 64)):
            o = rng.choice(names)
            if o in ("nth", "nth_back"):
                k = rng.choice([0, 1, 2, 3, rng.randint(0, n + 2), n // 2])
                o = "%s:%d" % (o, k)
            elif o == "write":
                o = "write:%d:%d" % (rng.randint(0, max(1, n // 2)), rng.randint(100, 999))
            ops.append(o)
        out.append("n=%d ops=%s" % (n, ";".join(ops)))
    return out
