"""Scenario generators (one per engine).  All randomness comes from the seed."""
import random

LATTICE = [0, 1, 2, 3, 4, 5, 6, 7, 8, 9, 10, 11, 12, 15, 16, 17, 31, 32, 33, 64, 97, 255, 256, 1023, 1024, 1025]
SMALL = list(range(0, 9))


def iterq(tier, seed, params):
    out = []
    passive = "len;size_hint;as_slice;fold;rfold;count;last;debug"
    for n in SMALL:
        for f in range(0, n + 1):
            for b in range(f, n + 1):
                pre = ["next"] * f + ["next_back"] * (n - b)
                ln = b - f
                for via_clone in (False, True):
                    p = pre + (["clone"] if via_clone else [])
                    muts = ["next", "next_back", "clone;next;next_back;as_slice", "fold!", "rfold!", "count!", "last!"]
                    muts += ["nth:%d" % k for k in range(0, ln + 3)]
                    muts += ["nth_back:%d" % k for k in range(0, ln + 3)]
                    # arguments near the machine-word boundary (index arithmetic must not wrap)
                    muts += ["%s:%d" % (o, k) for o in ("nth", "nth_back") for k in (2 ** 64 - 1, 2 ** 64 - 2, 2 ** 63, 2 ** 64 - 1 - ln)]
                    muts += ["write:%d:%d" % (i, 500 + i) for i in range(0, ln + 2)]
                    for m in muts:
                        out.append("n=%d ops=%s" % (n, ";".join(p + [passive, m, passive])))
    rng = random.Random(seed)
    nseq = 200 if tier == "quick" else 20000
    names = ["next", "next_back", "nth", "nth_back", "len", "size_hint", "as_slice", "write", "clone", "fold", "rfold", "count", "last", "debug"]
    finals = ["fold!", "rfold!", "count!", "last!"]
    for _ in range(nseq):
        n = rng.choice(LATTICE if rng.random() < 0.7 else SMALL)
        ops = []
        for _ in range(rng.randint(1, 64)):
            o = rng.choice(names)
            if o in ("nth", "nth_back"):
                k = rng.choice([0, 1, 2, 3, rng.randint(0, n + 2), n // 2, 2 ** 64 - 1, 2 ** 64 - rng.randint(1, n + 2)])
                o = "%s:%d" % (o, k)
            elif o == "write":
                o = "write:%d:%d" % (rng.randint(0, max(1, n // 2)), rng.randint(100, 999))
            ops.append(o)
        ops.append(rng.choice(finals))
        out.append("n=%d ops=%s" % (n, ";".join(ops)))
    return out


LAYOUT_TYPES = [("u8", 1, 1, "u8"), ("u16", 2, 2, None), ("u32", 4, 4, None), ("u64", 8, 8, None), ("u128", 16, 16, None),
                ("unit", 0, 1, "zst"), ("a3", 3, 1, None), ("h3", 6, 2, None), ("t12", 4, 2, None), ("t14", 8, 4, None),
                ("al16", 16, 16, None), ("al32", 64, 32, None), ("z64", 0, 64, "zst"), ("z2", 0, 2, "zst"), ("packed", 5, 1, None),
                ("b64", 64, 1, None), ("nest", 12, 4, None), ("nestz", 0, 2, None), ("opt", 8, 4, None)]
BIG_QUICK = [2 ** 20, 2 ** 32 - 1, 10 ** 9, 2 ** 40, 2 ** 60, 2 ** 62]
BIG_FULL = sorted(set([2 ** k for k in range(11, 63)] + [2 ** k - 1 for k in range(11, 63)] + [10 ** k for k in range(4, 19)]))


def layout(tier, seed, params):
    out = []
    for (ty, s, a, big) in LAYOUT_TYPES:
        for n in LATTICE:
            out.append("ty=%s tsize=%d talign=%d n=%d" % (ty, s, a, n))
        for n in BIG_QUICK:
            if (big == "zst") or (big == "u8" and n <= 2 ** 60):
                out.append("ty=%s tsize=%d talign=%d n=%d" % (ty, s, a, n))
    return out


def layout_full(tier, seed, params):
    if tier != "thorough":
        return []
    out = []
    for (ty, s, a, big) in LAYOUT_TYPES:
        for n in list(range(0, 1026)):
            out.append("ty=%s tsize=%d talign=%d n=%d" % (ty, s, a, n))
        for n in BIG_FULL:
            if (big == "zst") or (big == "u8" and n <= 2 ** 60):
                out.append("ty=%s tsize=%d talign=%d n=%d" % (ty, s, a, n))
    return out


OWN_LENS = [0, 1, 2, 3, 4, 5, 6, 7, 8, 16, 17, 33]
ZIP_FORMS = [("o", "o"), ("o", "r"), ("o", "m"), ("r", "o"), ("m", "o"), ("r", "r"), ("r", "m"), ("m", "r"), ("m", "m"), ("b", "b")]


def fault_points(n, calls, tier):
    if n <= 8 or tier == "thorough":
        return list(range(calls))
    return sorted(set([0, calls // 2, calls - 1])) if calls > 0 else []


def own_c04(tier, seed, params):
    out = []
    for n in OWN_LENS:
        pts = ["none"] + ["call:%d" % k for k in fault_points(n, n, tier)]
        for ft in pts:
            out.append("op=generate n=%d fault=%s" % (n, ft))
            out.append("op=default n=%d fault=%s" % (n, ft))
            for fm in "ormb":
                out.append("op=map form=%s n=%d fault=%s" % (fm, n, ft))
                out.append("op=fold form=%s n=%d fault=%s" % (fm, n, ft))
            for fa, fb in ZIP_FORMS:
                out.append("op=zip form=%s form2=%s n=%d fault=%s" % (fa, fb, n, ft))
                if n <= 5 or tier == "thorough":
                    # mixed drop-ness selects the needs_drop branches
                    out.append("op=zip form=%s form2=%s n=%d kind=tr kind2=pl fault=%s" % (fa, fb, n, ft))
                    out.append("op=zip form=%s form2=%s n=%d kind=pl kind2=tr fault=%s" % (fa, fb, n, ft))
        if n <= 5:
            out.extend(own_unit(n, pts, kinds=("tr",)))
            out.extend(own_zin(n, pts))
        for ft in ["none"] + ["clone:%d" % k for k in fault_points(n, n, tier)]:
            out.append("op=clone n=%d fault=%s" % (n, ft))
            for boxed in (0, 1):
                out.append("op=clone_from n=%d boxed=%d fault=%s" % (n, boxed, ft))
        # by-value iterator: clone / fold / rfold from several positions
        if n <= 8:
            for f in range(0, n + 1):
                for b in range(f, n + 1):
                    ln = b - f
                    for k in ["none"] + list(range(ln)):
                        out.append("op=iter_clone n=%d front=%d back=%d fault=%s" % (n, f, b, "none" if k == "none" else "clone:%d" % k))
                        out.append("op=iter_fold n=%d front=%d back=%d fault=%s" % (n, f, b, "none" if k == "none" else "call:%d" % k))
                        out.append("op=iter_rfold n=%d front=%d back=%d fault=%s" % (n, f, b, "none" if k == "none" else "call:%d" % k))
        # source iterator panicking at every poll (stack and boxed, try and panicking forms)
        for cnt in sorted(set([0, max(0, n - 1), n, n + 1])):
            script = "s" * cnt + "n"
            for boxed in (0, 1):
                for try_ in (0, 1):
                    for k in ["none"] + fault_points(n, min(cnt, n) + 2, tier):
                        out.append("op=collect n=%d boxed=%d try=%d hint=0,none script=%s fault=%s" % (n, boxed, try_, script, "none" if k == "none" else "poll:%d" % k))
    return out


def own_clone_from(ns):
    out = []
    for n in ns:
        for boxed in (0, 1):
            out.append("op=clone_from n=%d boxed=%d fault=none" % (n, boxed))
            for k in range(n):
                out.append("op=clone_from n=%d boxed=%d fault=dtor:%d" % (n, boxed, 1 + k))
                out.append("op=clone_from n=%d boxed=%d fault=clone:%d" % (n, boxed, k))
    return out


def own_c05(tier, seed, params):
    out = []
    maxn = 6 if tier == "quick" else 8
    for n in range(0, maxn + 1):
        for f in range(0, n + 1):
            for b in range(f, n + 1):
                ln = b - f
                bads = ["none"] + ["dtor:%d" % (1 + i) for i in range(f, b)]
                for bad in bads:
                    for k in range(0, ln + 2):
                        out.append("op=iter_nth n=%d front=%d back=%d arg=%d fault=%s" % (n, f, b, k, bad))
                        out.append("op=iter_nth_back n=%d front=%d back=%d arg=%d fault=%s" % (n, f, b, k, bad))
                    out.append("op=iter_last n=%d front=%d back=%d fault=%s" % (n, f, b, bad))
                    out.append("op=iter_count n=%d front=%d back=%d fault=%s" % (n, f, b, bad))
                    out.append("op=iter_drop n=%d front=%d back=%d fault=%s" % (n, f, b, bad))
    # an element whose destructor panics while caller code owns it (the closure of map / zip / fold lets go of its
    # argument) is, for the library, a closure that panics at that call: every owned-receiver form, every call index
    for n in range(1, 6):
        for k in range(n):
            for fm in "ob":
                out.append("op=map form=%s n=%d fault=call:%d" % (fm, n, k))
                out.append("op=fold form=%s n=%d fault=call:%d" % (fm, n, k))
            for fa, fb in ZIP_FORMS:
                if "o" in (fa, fb) or "b" in (fa, fb):
                    out.append("op=zip form=%s form2=%s n=%d fault=call:%d" % (fa, fb, n, k))
    # `fold` / `rfold` / `clone` of the by-value iterator from every position, the closure panicking at every call
    # (for the library, an element whose destructor panics while the closure owns it)
    for n in range(1, 6):
        for f in range(0, n + 1):
            for b in range(f, n + 1):
                for k in range(b - f):
                    out.append("op=iter_fold n=%d front=%d back=%d fault=call:%d" % (n, f, b, k))
                    out.append("op=iter_rfold n=%d front=%d back=%d fault=call:%d" % (n, f, b, k))
    # `clone_from` has to dispose of the old contents: each old element's destructor panics in turn; `T::clone`
    # panicking at every call; through the array and through `Box<GenericArray>` (which forwards to it)
    out.extend(own_clone_from(range(0, 7)))
    # teardown of an intermediate value on a path that is not already unwinding: `try_from_iter` (stack and boxed)
    # given too few or too many items drops what it had collected (and the surplus item) and returns `Err` — one of
    # those destructors panics
    for n in range(1, 6):
        for cnt in sorted(set([1, n - 1, n + 1, n + 2])):
            if cnt < 1 or cnt == n:
                continue
            script = "s" * cnt + "n"
            for j in range(min(cnt, n + 1)):
                for boxed in (0, 1):
                    out.append("op=collect n=%d script=%s hint=0,none try=1 boxed=%d fault=dtor:%d" % (n, script, boxed, 500 + j))
    for n in (16, 17, 33):
        for (f, b) in ((0, n), (3, n - 2), (n // 2, n // 2 + 1)):
            for bad in ("none", "dtor:%d" % (f + 1), "dtor:%d" % b, "dtor:%d" % ((f + b) // 2 + 1)):
                for k in (0, 1, (b - f) // 2, b - f - 1, b - f, b - f + 1):
                    out.append("op=iter_nth n=%d front=%d back=%d arg=%d fault=%s" % (n, f, b, k, bad))
                    out.append("op=iter_nth_back n=%d front=%d back=%d arg=%d fault=%s" % (n, f, b, k, bad))
                out.append("op=iter_last n=%d front=%d back=%d fault=%s" % (n, f, b, bad))
    return out


def own_c07(tier, seed, params):
    out = []
    rng = random.Random(seed)
    for n in OWN_LENS:
        counts = list(range(0, n + 4)) if n <= 8 else [0, 1, n - 1, n, n + 1, n + 2, n + 3]
        for cnt in counts:
            hints = [(cnt, str(cnt)), (0, "none"), (0, str(10 * n + 5)), (cnt + 1, "none"), (0, str(max(0, cnt - 1))),
                     (n, str(n)), (n + 1, "none"), (0, str(max(0, n - 1))), (min(cnt, n), "none")]
            for tail in ("n", "nss", ""):
                script = "s" * cnt + tail
                for (lo, hi) in hints:
                    for boxed in (0, 1):
                        for try_ in ((1, 0) if (n <= 4 or tier == "thorough") else (1,)):
                            out.append("op=collect n=%d boxed=%d try=%d hint=%d,%s script=%s fault=none" % (n, boxed, try_, lo, hi, script))
            # a panicking source
            for k in fault_points(n, min(cnt, n) + 2, tier):
                for boxed in (0, 1):
                    out.append("op=collect n=%d boxed=%d try=1 hint=0,none script=%s fault=poll:%d" % (n, boxed, "s" * cnt + "n", k))
    nrand = 300 if tier == "quick" else 20000
    for _ in range(nrand):
        n = rng.choice(OWN_LENS)
        script = "".join(rng.choice("sssn") for _ in range(rng.randint(0, n + 4)))
        lo = rng.choice([0, 0, n, rng.randint(0, n + 2)])
        hi = rng.choice(["none", "none", str(n), str(rng.randint(0, n + 3))])
        out.append("op=collect n=%d boxed=%d try=%d hint=%d,%s script=%s fault=%s" % (
            n, rng.randint(0, 1), rng.randint(0, 1), lo, hi, script, rng.choice(["none", "none", "poll:%d" % rng.randint(0, n + 1)])))
    return out


def own_unit(n, faults, kinds=("tr", "pl")):
    """operations whose *result* type is `()` — zero-sized and without destructor: the closure still has to be called
    once per index"""
    out = []
    for ft in faults:
        out.append("op=generate_unit n=%d fault=%s" % (n, ft))
        out.append("op=boxed_generate_unit n=%d fault=%s" % (n, ft))
        for kind in kinds:
            for fm in "ormb":
                out.append("op=map_unit form=%s n=%d kind=%s fault=%s" % (fm, n, kind, ft))
            for fa, fb in (("o", "o"), ("o", "r"), ("r", "o"), ("r", "r")):
                out.append("op=zip_unit form=%s form2=%s n=%d kind=%s kind2=%s fault=%s" % (fa, fb, n, kind, kind, ft))
    return out


def own_zin(n, faults):
    """operations whose *input* elements are zero-sized (and plain): every element still has to be visited"""
    out = []
    for ft in faults:
        for fm in "ormb":
            out.append("op=map form=%s n=%d kind=zu fault=%s" % (fm, n, ft))
            out.append("op=fold form=%s n=%d kind=zu fault=%s" % (fm, n, ft))
        for fa, fb in (("o", "o"), ("o", "r"), ("r", "o"), ("r", "r"), ("b", "b")):
            out.append("op=zip form=%s form2=%s n=%d kind=zu kind2=tr fault=%s" % (fa, fb, n, ft))
    return out


def own_c08(tier, seed, params):
    out = []
    for n in OWN_LENS:
        out.extend(own_unit(n, ["none"]))
        out.extend(own_zin(n, ["none"]))
        out.append("op=generate n=%d fault=none" % n)
        out.append("op=default n=%d fault=none" % n)
        for kind in ("tr", "pl"):
            out.append("op=clone n=%d kind=%s fault=none" % (n, kind))
            for fm in "ormb":
                out.append("op=map form=%s n=%d kind=%s fault=none" % (fm, n, kind))
                out.append("op=fold form=%s n=%d kind=%s fault=none" % (fm, n, kind))
            for kind2 in ("tr", "pl"):
                for fa, fb in ZIP_FORMS:
                    out.append("op=zip form=%s form2=%s n=%d kind=%s kind2=%s fault=none" % (fa, fb, n, kind, kind2))
    return out


SEQ_KINDS = ["u8", "u64", "w24", "tr", "z"]


def seq(tier, seed, params):
    out = []
    ns = list(range(0, 9)) + [16, 17, 33]
    for kind in SEQ_KINDS:
        for n in ns:
            out.append("op=append n=%d kind=%s" % (n, kind))
            out.append("op=prepend n=%d kind=%s" % (n, kind))
            if n >= 1:
                out.append("op=pop_back n=%d kind=%s" % (n, kind))
                out.append("op=pop_front n=%d kind=%s" % (n, kind))
                idxs = list(range(0, n + 2)) + [18446744073709551615] if n <= 8 else [0, 1, n // 2, n - 1, n, n + 1, 18446744073709551615]
                for i in idxs:
                    out.append("op=remove n=%d i=%d kind=%s" % (n, i, kind))
                    out.append("op=swap_remove n=%d i=%d kind=%s" % (n, i, kind))
        pairs = [(n, k) for n in range(0, 9) for k in range(0, n + 1)] + [(16, 5), (17, 16), (33, 1), (33, 32)]
        for (n, k) in pairs:
            for op in ("split", "split_ref", "split_mut"):
                out.append("op=%s n=%d k=%d kind=%s" % (op, n, k, kind))
        cpairs = [(n, m) for n in range(0, 9) for m in range(0, 9 - n)] + [(16, 1), (1, 16), (16, 17)]
        for (n, m) in cpairs:
            out.append("op=concat n=%d k=%d kind=%s" % (n, m, kind))
    return out


VIEW_NS = list(range(0, 13)) + [15, 16, 17, 31, 32, 33, 64, 97, 255, 256, 1024]
VIEW_KINDS = ["u8", "u32", "w24", "unit", "tr"]
VIEWS = ["as_slice", "as_mut_slice", "deref", "deref_mut", "borrow", "borrow_mut", "as_ref", "as_mut", "ref_iter", "mut_iter"]
MUT_VIEWS = ["as_mut_slice", "deref_mut", "borrow_mut", "as_mut", "mut_iter", "index_mut"]
READ_VIEWS = ["as_slice", "as_mut_slice", "deref", "borrow", "as_ref", "ref_iter", "index"]


def views(tier, seed, params):
    out = []
    for kind in VIEW_KINDS:
        for n in VIEW_NS:
            for v in VIEWS:
                out.append("op=view kind2=%s n=%d kind=%s" % (v, n, kind))
            ls = sorted(set([0, max(0, n - 1), n, n + 1, 2 * n + 1]))
            for op in ("from_slice", "try_from_slice", "from_mut_slice", "try_from_mut_slice", "try_from", "try_from_mut"):
                for l in ls:
                    out.append("op=%s n=%d l=%d kind=%s" % (op, n, l, kind))
            if n <= 64:
                for op in ("as_ref_arr", "as_mut_arr", "from_arr_ref", "from_arr_mut", "array_roundtrip"):
                    out.append("op=%s n=%d kind=%s" % (op, n, kind))
            if 1 <= n <= 12:
                out.append("op=tuple_roundtrip n=%d kind=%s" % (n, kind))
            if 1 <= n <= 17 and kind in ("u32", "w24", "unit"):
                for i in sorted(set([0, n // 2, n - 1])):
                    for a in MUT_VIEWS:
                        for b in READ_VIEWS:
                            out.append("op=write_read via=%s read=%s n=%d i=%d kind=%s" % (a, b, n, i, kind))
    return out


CHUNK_NS = [0, 1, 2, 3, 7, 8, 16, 33]
CHUNK_KINDS = ["u8", "u32", "w24", "unit"]


def chunks(tier, seed, params):
    out = []
    for kind in CHUNK_KINDS:
        for n in CHUNK_NS:
            for l in range(0, 4 * n + 4):
                out.append("op=chunks n=%d l=%d kind=%s" % (n, l, kind))
                out.append("op=chunks_mut n=%d l=%d kind=%s" % (n, l, kind))
            for l in (0, 1, 2, 5):
                for op in ("flat", "flat_mut", "from_chunks", "from_chunks_mut", "into_chunks", "into_chunks_mut"):
                    out.append("op=%s n=%d l=%d kind=%s" % (op, n, l, kind))
    return out


def regroup(tier, seed, params):
    out = []
    pairs = [(n, m) for n in range(0, 7) for m in range(0, 7)] + [(1, 1024), (1024, 1), (16, 64)]
    for kind in VIEW_KINDS:
        for (n, m) in pairs:
            if kind == "u8" and n * m > 250:
                continue
            for op in ("flatten", "flatten_ref", "flatten_mut"):
                out.append("op=%s n=%d m=%d kind=%s" % (op, n, m, kind))
            if n >= 1:
                for op in ("unflatten", "unflatten_ref", "unflatten_mut"):
                    out.append("op=%s n=%d m=%d kind=%s" % (op, n, m, kind))
    return out


def hist(tier, seed, params):
    """random chains of ownership-moving operations; a lengths-only simulation keeps every result
    within the harness's length range 0..=8 (ill-typed ops are skipped identically by both sides)"""
    rng = random.Random(seed)
    out = []
    nchains, maxops = (300, 14) if tier == "quick" else (20000, 40)
    for _ in range(nchains):
        arrays, iters, held = [], [], 0
        ops = []
        for _ in range(rng.randint(2, maxops)):
            cands = ["gen", "rotA", "rotI", "rotH", "roundtrip", "dropHeld", "collect"]
            if arrays:
                cands += ["intoIter", "map", "fold", "clone", "popBack", "popFront", "split", "remove", "swapRemove", "dropArr", "unflatten", "append", "prepend"] * 2
            if len(arrays) >= 2:
                cands += ["zip", "concat", "flatten2"] * 2
            if iters:
                cands += ["next", "nextBack", "nth", "nthBack", "iterClone", "iterDrop", "iterCount", "iterLast", "iterFold", "iterRfold"] * 2
            op = rng.choice(cands)
            if op == "gen":
                n = rng.randint(0, 8)
                if len(arrays) >= 6:
                    continue
                arrays.insert(0, n); ops.append("gen:%d" % n)
            elif op == "rotA":
                if arrays: arrays.append(arrays.pop(0))
                ops.append(op)
            elif op == "rotI":
                if iters: iters.append(iters.pop(0))
                ops.append(op)
            elif op in ("rotH", "roundtrip"):
                ops.append(op)
            elif op == "dropHeld":
                held = max(0, held - 1); ops.append(op)
            elif op == "collect":
                n = held if (held <= 8 and rng.random() < 0.5) else rng.randint(0, 8)
                if len(arrays) >= 6:
                    continue
                if held == n:
                    arrays.insert(0, n)
                held = 0
                ops.append("collect:%d" % n)
            elif op == "intoIter":
                iters.insert(0, arrays.pop(0)); ops.append(op)
            elif op in ("map",):
                held += arrays[0]; ops.append(op)
            elif op == "fold":
                held += arrays.pop(0); ops.append(op)
            elif op == "clone":
                if len(arrays) >= 6: continue
                arrays.insert(0, arrays[0]); ops.append(op)
            elif op in ("popBack", "popFront"):
                if arrays[0] > 0:
                    arrays[0] -= 1; held += 1
                ops.append(op)
            elif op == "split":
                k = rng.randint(0, arrays[0] + 1)
                if k <= arrays[0]:
                    n = arrays.pop(0); arrays.insert(0, n - k); arrays.insert(0, k)
                ops.append("split:%d" % k)
            elif op in ("remove", "swapRemove"):
                i = rng.randint(0, arrays[0] + 1)
                if i < arrays[0]:
                    arrays[0] -= 1; held += 1
                else:
                    arrays.pop(0)
                ops.append("%s:%d" % (op, i))
            elif op == "dropArr":
                arrays.pop(0); ops.append(op)
            elif op == "unflatten":
                n = arrays[0] // 2 if rng.random() < 0.8 else rng.randint(0, 4)
                if n > 0 and arrays[0] == 2 * n:
                    arrays.pop(0); arrays.insert(0, n); arrays.insert(0, n)
                ops.append("unflatten:%d" % n)
            elif op in ("append", "prepend"):
                if held > 0:
                    if arrays[0] >= 8:
                        continue
                    arrays[0] += 1; held -= 1
                ops.append(op)
            elif op == "zip":
                if arrays[0] == arrays[1]:
                    n = arrays.pop(0); held += 2 * n
                ops.append(op)
            elif op == "concat":
                if arrays[0] + arrays[1] > 8:
                    continue
                n = arrays.pop(0); arrays[0] += n; ops.append(op)
            elif op == "flatten2":
                if arrays[0] == arrays[1]:
                    if 2 * arrays[0] > 8:
                        continue
                    n = arrays.pop(0); arrays[0] = 2 * n
                ops.append(op)
            elif op in ("next", "nextBack"):
                if iters[0] > 0:
                    iters[0] -= 1; held += 1
                ops.append(op)
            elif op in ("nth", "nthBack"):
                n = rng.randint(0, iters[0] + 1)
                iters[0] -= min(n, iters[0])
                if iters[0] > 0:
                    iters[0] -= 1; held += 1
                ops.append("%s:%d" % (op, n))
            elif op == "iterClone":
                if len(iters) >= 6: continue
                iters.insert(0, iters[0]); ops.append(op)
            elif op in ("iterDrop", "iterCount"):
                iters.pop(0); ops.append(op)
            elif op == "iterLast":
                n = iters.pop(0)
                if n > 0: held += 1
                ops.append(op)
            elif op in ("iterFold", "iterRfold"):
                held += iters.pop(0); ops.append(op)
        out.append("kind=%s ops=%s" % ("z" if rng.random() < 0.25 else "tr", ";".join(ops)))
    return out


HEX_NS = list(range(0, 18)) + [31, 32, 33, 1023, 1024, 1025, 2047, 2048, 2049, 3000, 4096]


def hex_(tier, seed, params):
    rng = random.Random(seed)
    out = []
    for n in HEX_NS:
        pats = [(1, 1), (7, 3), (37, 250)] if n <= 33 else [(3, 5), (251, 17)]
        if n <= 33:
            precs = ["none"] + [str(p) for p in range(0, 2 * n + 3)]
        else:
            small_b = [0, 1, 2, 3, 7, 31, 32, 33, 2047, 2048, 2049, 2050, 2051, 4095, 4096, 4097, 6143, 6144, 6145]
            precs = ["none"] + [str(p) for p in sorted(set(small_b + [2 * n - 2, 2 * n - 1, 2 * n, 2 * n + 1, 2 * n + 2, n, n + 1] + [rng.randint(0, 2 * n + 2) for _ in range(6 if tier == "quick" else 60)])) if p >= 0]
        for (a, b) in pats:
            for upper in (0, 1):
                for p in precs:
                    out.append("n=%d upper=%d prec=%s a=%d b=%d" % (n, upper, p, a, b))
    return out


HEAP_NS = [0, 1, 2, 3, 4, 5, 7, 8, 16, 17, 33, 256, 1024]
HEAP_KINDS = ["u32", "u64", "b3", "unit", "tr", "z", "z8"]


def heap_c16(tier, seed, params):
    out = []
    for kind in HEAP_KINDS:
        for n in HEAP_NS:
            if n <= 33:
                # boxed collect: the one request for the whole array fails (child process); a source longer than N by
                # several items (at most N + 1 are pulled, also for zero-sized items); TryFrom<Vec> from a Vec with spare capacity
                out.append("op=boxed_collect n=%d l=%d kind=%s fault=alloc:0" % (n, n, kind))
                out.append("op=boxed_collect n=%d l=%d kind=%s fault=none" % (n, n + 5, kind))
                for l in sorted(set([n, n + 1])):
                    out.append("op=vec_try_into n=%d l=%d cap=%d kind=%s" % (n, l, l + 3, kind))
            for op in ("boxed_generate", "default_boxed"):
                out.append("op=%s n=%d kind=%s fault=none" % (op, n, kind))
                out.append("op=%s n=%d kind=%s fault=alloc:0" % (op, n, kind))
                ks = range(n) if (n <= 8 or tier == "thorough") and n <= 33 else sorted(set([0, n // 2, n - 1])) if n > 0 else []
                for k in ks:
                    out.append("op=%s n=%d kind=%s fault=call:%d" % (op, n, kind, k))
            if n <= 33:
                # boxed collect from a source that panics on its k-th `next()` call: during the fill and on the
                # surplus probe after the N-th item
                for l in sorted(set([n, n + 1])):
                    for k in (range(n + 2) if n <= 8 else [0, n - 1, n, n + 1]):
                        if k <= l:
                            out.append("op=boxed_collect n=%d l=%d kind=%s fault=poll:%d" % (n, l, kind, k))
                for op in ("box_map", "box_zip"):
                    out.append("op=%s n=%d kind=%s fault=none" % (op, n, kind))
                    for k in (range(n) if n <= 8 else [0, n - 1]):
                        out.append("op=%s n=%d kind=%s fault=call:%d" % (op, n, kind, k))
    return out + heap_c15(tier, seed, params)


def heap_c15(tier, seed, params):
    out = []
    for kind in HEAP_KINDS:
        for n in HEAP_NS:
            if n > 256:
                continue
            for l in sorted(set([0, max(0, n - 1), n, n + 1])):
                for cap in sorted(set([l, l + 3])):
                    out.append("op=try_from_vec n=%d l=%d cap=%d kind=%s" % (n, l, cap, kind))
                for op in ("try_from_boxed_slice", "vec_try_into", "box_slice_try_into", "boxed_collect"):
                    out.append("op=%s n=%d l=%d kind=%s" % (op, n, l, kind))
            for op in ("into_boxed_slice", "into_vec", "from_ga_box_slice", "from_ga_vec", "box_into_iter"):
                out.append("op=%s n=%d kind=%s" % (op, n, kind))
    # the box a boxed constructor returns is handed on by into_boxed_slice / into_vec as the same block: its address
    # has to be a valid (aligned) one also when nothing was allocated (N = 0, zero-sized elements of any alignment)
    for kind in HEAP_KINDS:
        for n in (0, 1, 2, 3, 5, 8):
            for op in ("boxed_generate", "default_boxed"):
                out.append("op=%s n=%d kind=%s fault=none" % (op, n, kind))
    for op in ("big_default_boxed", "big_boxed_generate", "big_box_arr", "big_boxed_collect", "big_into_vec",
               "big_elems_boxed_generate", "big_elems_default_boxed", "big_elems16_boxed_generate", "big_elems_box_map"):
        out.append("op=%s" % op)
    return out


def heap_c07(tier, seed, params):
    """boxed collect for every element kind (sizes 0, 3, 4, 8; drop-tracked; zero-sized drop-counted): sources of
    0, N-1, N, N+1 and N+5 items from `iter::from_fn` (hint (0, None)): Ok iff exactly N, at most N + 1 items pulled"""
    out = []
    for kind in HEAP_KINDS:
        for n in (0, 1, 2, 3, 4, 5, 8, 16, 17, 33):
            for l in sorted(set([0, max(0, n - 1), n, n + 1, n + 5])):
                out.append("op=boxed_collect n=%d l=%d kind=%s fault=none" % (n, l, kind))
    return out


def heap_c01(tier, seed, params):
    """boxed construction where the array's layout has size zero (N = 0, zero-sized elements) or not, for element
    alignments 1..8: the address the box holds must be a multiple of the element alignment"""
    out = []
    for kind in HEAP_KINDS:
        for n in (0, 1, 2, 3, 5, 8):
            for op in ("boxed_generate", "default_boxed"):
                out.append("op=%s n=%d kind=%s fault=none" % (op, n, kind))
            # a `Box<GenericArray<T, N>>` sits on a block of exactly N * size_of::<T>() bytes: a Vec with spare
            # capacity must be shrunk before it is re-typed (the recording allocator compares release and request)
            for l in sorted(set([n, n + 1])):
                for cap in (l, l + 3):
                    out.append("op=try_from_vec n=%d l=%d cap=%d kind=%s" % (n, l, cap, kind))
            out.append("op=boxed_collect n=%d l=%d kind=%s" % (n, n, kind))
    return out


def heap_c08(tier, seed, params):
    return ["op=%s n=%d kind=%s fault=none" % (op, n, kind) for kind in HEAP_KINDS + ["dc"] for n in HEAP_NS for op in ("boxed_generate", "default_boxed")]


SERDE_NS = [0, 1, 2, 3, 4, 5, 6, 7, 8, 16, 17, 33, 64, 97]


def serde(tier, seed, params):
    rng = random.Random(seed)
    out = []
    for n in SERDE_NS:
        out.append("op=ser n=%d" % n)
        cnts = sorted(set([0, max(n - 1, 0), n, n + 1, n + 2]))
        for cnt in cnts:
            for op in ("de_json", "de_value", "de_bincode"):
                out.append("op=%s n=%d cnt=%d" % (op, n, cnt))
            bads = sorted(set([0, 1, cnt // 2, cnt - 1])) if cnt > 0 else []
            for b in bads:
                if 0 <= b < cnt:
                    out.append("op=de_json n=%d cnt=%d bad=%d" % (n, cnt, b))
                    out.append("op=de_value n=%d cnt=%d bad=%d" % (n, cnt, b))
        # scripted sources: every combination of up-front hint, delivered count, terminator and closing hint
        small = n <= 8
        ks = range(0, n + 3) if small else sorted(set([0, 1, n // 2, n - 1, n, n + 1, n + 2]))
        for k in ks:
            for term in ("n", "x", "xe", "ne", ""):
                steps = "e" * k + term
                for h0 in sorted(set(["none", "0", str(n), str(max(n - 1, 0)), str(n + 1), str(k)])):
                    hes = ["none", "0", "1", str(max(k - n, 0))] if small or tier == "thorough" else ["none", str(max(k - n, 0))]
                    for he in sorted(set(hes)):
                        out.append("op=de_script n=%d hint0=%s steps=%s hintend=%s" % (n, h0, steps, he))
        # failures in the middle
        for _ in range(6 if tier == "quick" else 60):
            k = rng.randint(0, n + 2)
            steps = "".join(rng.choice("eeeeeeexn") for _ in range(k)) + rng.choice(["n", "x", ""])
            out.append("op=de_script n=%d hint0=%s steps=%s hintend=%s" % (n, rng.choice(["none", str(n)]), steps, rng.choice(["none", "0", "1"])))
    return out


CMP_ALPHA = {
    "u8": ["0", "1", "255"], "i32": ["-1", "0", "1"], "f64": ["0", "4", "nan"], "str": ["-", "61", "6162"],
    "nesti": ["0:0", "0:1", "1:0"], "nestf": ["0:0", "0:nan", "nan:0"],
}
CMP_WIDE = {
    "u8": ["0", "1", "2", "127", "128", "255"], "i32": ["-2147483648", "-1", "0", "1", "7", "2147483647"],
    "f64": ["0", "nz", "1", "-3", "4", "10", "inf", "ninf", "nan"], "str": ["-", "61", "6162", "62", "225c0a27", "41"],
    "nesti": ["0:0", "0:1", "1:0", "-1:5", "5:-1"], "nestf": ["0:0", "0:nan", "nan:0", "4:inf", "nz:0", "1:2"],
}
CMP_HASH_KINDS = ["u8", "i32", "str", "nesti"]


def cmp_(tier, seed, params):
    import itertools
    import rustfmt
    rng = random.Random(seed)
    out = []
    arr = lambda els: ",".join(els) if els else "_"
    for kind, alpha in CMP_ALPHA.items():
        for n in range(0, 5):
            al = alpha if (n <= 3 or tier == "thorough") else alpha[1:]
            alls = [arr(list(c)) for c in itertools.product(al, repeat=n)]
            for a in alls:
                out.append("op=cmp kind=%s n=%d a=%s b=%s same=1" % (kind, n, a, a))
                for b in alls:
                    out.append("op=cmp kind=%s n=%d a=%s b=%s same=0" % (kind, n, a, b))
                if kind in CMP_HASH_KINDS:
                    out.append("op=hash kind=%s n=%d a=%s" % (kind, n, a))
        wide = CMP_WIDE[kind]
        for n in (2, 3, 4, 8, 16, 33, 100):
            for _ in range(12 if tier == "quick" else 120):
                a = [rng.choice(wide) for _ in range(n)]
                b = list(a)
                for _ in range(rng.choice([0, 1, 1, 2])):
                    b[rng.randrange(n)] = rng.choice(wide)
                out.append("op=cmp kind=%s n=%d a=%s b=%s same=0" % (kind, n, arr(a), arr(b)))
                out.append("op=cmp kind=%s n=%d a=%s b=%s same=1" % (kind, n, arr(a), arr(a)))
                if kind in CMP_HASH_KINDS:
                    out.append("op=hash kind=%s n=%d a=%s" % (kind, n, arr(a)))
        # Debug: every flag combination x a few arrays per length
        for n in (0, 1, 2, 3, 8):
            arrays = [[rng.choice(wide) for _ in range(n)] for _ in range(1 if n == 0 else (3 if tier == "quick" else 12))]
            for a in arrays:
                for fl in rustfmt.FLAGS:
                    out.append("op=dbg kind=%s n=%d flags=%s a=%s e=%s e0=%s" % (
                        kind, n, fl, arr(a), rustfmt.elem_strings(kind, arr(a), fl), rustfmt.elem_strings(kind, arr(a), "d")))
        if kind in CMP_HASH_KINDS:
            for n in (0, 1, 2, 3, 8):
                for _ in range(6 if tier == "quick" else 40):
                    keys = [[rng.choice(wide[:4]) for _ in range(n)] for _ in range(rng.randint(1, 5))]
                    qs = keys + [[rng.choice(wide) for _ in range(n)]]
                    for q in qs:
                        out.append("op=map kind=%s n=%d keys=%s q=%s" % (kind, n, "|".join(arr(k) for k in keys), arr(q)))
    return out


FILL_NS = list(range(0, 65)) + [96, 127, 128, 129, 255, 256, 257, 511, 512, 513, 1000, 1023, 1024]
FILL_KINDS = ["u8", "u64", "b3", "p2", "w1", "slot", "nest"]


def fill(tier, seed, params):
    rng = random.Random(seed)
    out = []
    for kind in FILL_KINDS:
        for n in FILL_NS:
            out.append("op=const_default kind=%s n=%d" % (kind, n))
            for _ in range(2 if tier == "quick" else 12):
                out.append("op=zeroize kind=%s n=%d seed=%d" % (kind, n, rng.randint(0, 10**6)))
    return out


ARR_LIST_KS = list(range(0, 65)) + [100, 128, 255, 256]
ARR_REP_BEYOND = [1025, 1031, 1500, 3000]
ARR_REP_NS = [0, 1, 2, 3, 4, 5, 6, 7, 8, 16, 17, 31, 32, 33, 64, 97, 255, 256, 1000, 1023, 1024]


def arrmac(tier, seed, params):
    out = []
    for box in (0, 1):
        for kind in ("copy", "nocopy"):
            for k in ARR_LIST_KS:
                trails = (0, 1, 2) if k <= 4 else ((0, 1) if k in (17, 64, 256) else (0,))
                for tr in trails:
                    out.append("op=list k=%d trail=%d box=%d kind=%s" % (k, tr, box, kind))
        for n in ARR_REP_NS:
            for op in ("repty", "repconst"):
                out.append("op=%s n=%d box=%d kind=copy" % (op, n, box))
                if box:
                    out.append("op=%s n=%d box=%d kind=clone" % (op, n, box))
        # zero-sized elements with a destructor: created = alive + dropped at every point
        for k in (0, 1, 2, 3, 4, 5, 8, 17):
            for tr in ((0, 1) if k <= 2 else (0,)):
                out.append("op=list k=%d trail=%d box=%d kind=zst" % (k, tr, box))
        if box:
            for n in (0, 1, 2, 3, 8, 33):
                for op in ("repty", "repconst"):
                    out.append("op=%s n=%d box=%d kind=zst" % (op, n, box))
    return out


HYGIENE_NAMES = ["LEN", "N", "LENGTH", "INPUT_LENGTH", "len", "n", "repeat", "array", "arr", "vec", "value", "x", "helper", "do_transmute"]


def arrconst(tier, seed, params):
    out = []
    # item hygiene: the caller's element expression names its own constant / variable; names taken from a fixed
    # list plus every helper item name the current expansions define that is not `__`-reserved
    names = list(HYGIENE_NAMES)
    try:
        import json, os, re
        txt = open(os.path.join(os.path.dirname(os.path.dirname(os.path.abspath(__file__))), "lean", "GA", "Gen", "Arr.lean")).read()
        mm = re.search(r"def helperNames : List String := \[(.*?)\]", txt)
        for nm in re.findall(r'"([^"]+)"', mm.group(1) if mm else ""):
            if not nm.startswith("__") and nm not in names:
                names.append(nm)
    except OSError:
        pass
    for nm in names:
        for form in ("repty", "repconst", "list"):
            for box in (0, 1):
                out.append("op=hygiene name=%s form=%s box=%d" % (nm, form, box))
    # operands that are not `Copy`: a const item (any length, any position), a value for lengths 0 and 1
    for form in ("repty", "repconst"):
        for n in (0, 1, 2, 3, 5, 33):
            for pos in ("const", "static", "local"):
                out.append("op=noncopy operand=constitem form=%s n=%d pos=%s box=0" % (form, n, pos))
            out.append("op=noncopy operand=constitem form=%s n=%d pos=local box=1" % (form, n))
        for n in (0, 1):
            out.append("op=noncopy operand=value form=%s n=%d pos=local box=0" % (form, n))
    for k in ARR_LIST_KS:
        out.append("op=constpos form=list k=%d trail=0 pos=const" % k)
    for k in (0, 1, 2, 3, 17, 64):
        out.append("op=constpos form=list k=%d trail=1 pos=const" % k)
        out.append("op=constpos form=list k=%d trail=0 pos=static" % k)
        out.append("op=constpos form=list k=%d trail=1 pos=constfn" % k)
    # a typenum length of the repeat form is any `N: ArrayLength`, also one that has no `Const<N>` counterpart
    # (beyond 1024 and not 2^k, 2^k - 1 or 10^k): reachable only through type-level arithmetic
    for n in ARR_REP_BEYOND:
        for pos in ("const", "static", "constfn"):
            out.append("op=constpos form=repty n=%d pos=%s" % (n, pos))
    for n in ARR_REP_NS:
        for form in ("repty", "repconst"):
            out.append("op=constpos form=%s n=%d pos=const" % (form, n))
            if n in (0, 1, 5, 33, 1024):
                out.append("op=constpos form=%s n=%d pos=static" % (form, n))
                out.append("op=constpos form=%s n=%d pos=constfn" % (form, n))
    return out


def arrconst_c18(tier, seed, params):
    """`arr!` in const positions (C18 names it among the const API): the const-position lines of the C20 family"""
    return [l for l in arrconst(tier, seed, params) if l.startswith("op=constpos")]


CONST_SMALL = [0, 1, 2, 3, 4, 5, 7, 8]
CONST_LATTICE = [0, 1, 2, 3, 4, 5, 6, 7, 8, 16, 17, 33, 64, 255, 256]
CONST_TYS = ["u8", "u32", "t2", "unit"]


def constapi(tier, seed, params):
    out = []
    for ty in CONST_TYS:
        for n in CONST_SMALL + [16, 17, 33]:
            if n in CONST_SMALL or tier == "thorough":
                ls = range(0, 3 * n + 3)
            else:
                ls = sorted(set([0, 1, n - 1, n, n + 1, 2 * n, 2 * n + 1, 3 * n, 3 * n + 2]))
            for ln in ls:
                for fn in ("chunks_from_slice", "chunks_from_slice_mut"):
                    if n == 0 and ln > 0 and (ty not in ("u8", "unit") or ln > 2):
                        continue
                    out.append("op=const fn=%s n=%d len=%d ty=%s" % (fn, n, ln, ty))
        for n in CONST_LATTICE:
            for fn in ("from_slice", "from_mut_slice"):
                out.append("op=const fn=%s n=%d len=%d ty=%s" % (fn, n, n, ty))
            for fn in ("len", "as_slice", "as_mut_slice", "uninit", "from_array"):
                out.append("op=const fn=%s n=%d ty=%s" % (fn, n, ty))
        for n in (0, 1, 2, 3, 5, 8, 33):
            for ln in sorted(set([0, max(n - 1, 0), n, n + 1, 3 * n + 2])):
                for fn in ("try_from_slice", "try_from_mut_slice"):
                    out.append("op=const fn=%s n=%d len=%d ty=%s" % (fn, n, ln, ty))
                if ln != n and (ty == "u8" or tier == "thorough") and n in (0, 1, 3, 8):
                    out.append("op=const fn=from_slice n=%d len=%d ty=%s" % (n, ln, ty))
                    out.append("op=const fn=from_mut_slice n=%d len=%d ty=%s" % (n, ln, ty))
        for n in CONST_SMALL:
            for k in range(0, 4):
                for fn in ("slice_from_chunks", "slice_from_chunks_mut", "from_chunks", "from_chunks_mut", "into_chunks", "into_chunks_mut"):
                    out.append("op=const fn=%s n=%d k=%d ty=%s" % (fn, n, k, ty))
    import corpora
    for k, x in enumerate(corpora.XMUTE):
        out.append("op=const fn=const_transmute pair=%d sa=%d sb=%d aa=%d ab=%d" % (k, x[4], x[5], x[6], x[7]))
    out.append("op=const fn=from_array n=1024 ty=u8")
    out.append("op=const fn=uninit n=1024 ty=u32")
    return out


LIFE_APIS = ["as_slice", "as_mut_slice", "from_slice", "try_from_slice", "from_mut_slice", "try_from_mut_slice", "chunks_from_slice",
             "chunks_from_slice_mut", "slice_from_chunks", "slice_from_chunks_mut", "from_chunks", "from_chunks_mut", "into_chunks",
             "into_chunks_mut", "deref", "deref_mut", "borrow", "borrow_mut", "as_ref_slice", "as_mut_slice_trait", "as_ref_array",
             "as_mut_array", "from_array_ref", "from_array_mut", "try_from_ref", "try_from_mut", "split_ref", "split_mut", "flatten_ref",
             "flatten_mut", "unflatten_ref", "unflatten_mut", "into_iter_ref", "into_iter_mut", "iter_as_slice", "iter_as_mut_slice"]


def corpora_uniq(api):
    import corpora
    return corpora.LIFE[api][3]


def types(tier, seed, params):
    out = []
    R = range(0, 5) if tier == "quick" else range(0, 7)
    def both(form, a, b, outlen):
        out.append("op=len form=%s a=%d b=%d ann=infer" % (form, a, b))
        if outlen is not None:
            out.append("op=len form=%s a=%d b=%d ann=%d" % (form, a, b, outlen))
            out.append("op=len form=%s a=%d b=%d ann=%d" % (form, a, b, outlen + 1))
            if outlen > 0:
                out.append("op=len form=%s a=%d b=%d ann=%d" % (form, a, b, outlen - 1))
    for a in R:
        for form in ("append", "prepend"):
            both(form, a, 0, a + 1)
        for form in ("pop_back", "pop_front", "remove", "swap_remove"):
            both(form, a, 0, a - 1 if a >= 1 else None)
        for b in R:
            for form in ("split", "split_ref", "split_mut"):
                both(form, a, b, a - b if b <= a else None)
            both("concat", a, b, a + b)
            both("flatten", a, b, a * b)
            both("unflatten", a, b, a // b if b > 0 else None)
            both("zip", a, b, a if a == b else None)
            for form in ("eq", "partial_cmp", "cmp", "from_array", "into_array", "from_native", "into_native", "ref_native", "mutref_native",
                         "asref_native", "asmut_native", "from_chunks", "from_chunks_mut", "into_chunks", "into_chunks_mut"):
                out.append("op=len form=%s a=%d b=%d ann=infer" % (form, a, b))
            if a != b:
                for form in ("eq_native", "eq_native_rev", "eq_native_ref", "lt_native"):
                    out.append("op=len form=%s a=%d b=%d ann=infer" % (form, a, b))
    for a in list(range(0, 14)):
        for b in sorted(set([a - 1, a, a + 1, 0, 12, 13])):
            if b < 0:
                continue
            out.append("op=len form=from_tuple a=%d b=%d ann=infer" % (a, b))
            out.append("op=len form=into_tuple a=%d b=%d ann=infer" % (a, b))
    for elem in ("u8", "rc", "cell", "guard", "string", "noclone"):
        for n in (0, 1, 3, 4):
            for target in ("array", "ref", "iter"):
                for trait in ("send", "sync"):
                    out.append("op=auto trait=%s target=%s elem=%s n=%d" % (trait, target, elem, n))
            for target in ("array", "iter"):
                for trait in ("clone", "copy"):
                    out.append("op=auto trait=%s target=%s elem=%s n=%d" % (trait, target, elem, n))
        # the same question with the length left generic (`N: ArrayLength`): the answer is the element type's alone
        for target in ("array", "ref", "iter"):
            for trait in ("send", "sync"):
                out.append("op=auto trait=%s target=%s elem=%s n=9999" % (trait, target, elem))
        for target in ("array", "iter"):
            out.append("op=auto trait=clone target=%s elem=%s n=9999" % (target, elem))
    for api in LIFE_APIS:
        for prog in ("ok", "escape", "moved", "alias"):
            out.append("op=life api=%s prog=%s uniq=%d" % (api, prog, 1 if corpora_uniq(api) else 0))
    return out


def filldefault(tier, seed, params):
    out = []
    for kind in FILL_KINDS:
        ns = FILL_NS if (kind in ("u8", "slot", "p2") or tier == "thorough") else [0, 1, 2, 3, 4, 5, 7, 8, 15, 16, 17, 31, 32, 33, 63, 64, 127, 128, 129, 1023, 1024]
        for n in ns:
            out.append("op=const_item kind=%s n=%d" % (kind, n))
    # very long arrays (typenum names 2^k and 10^k): the structural constant needs O(log N) evaluation steps
    for kind, n in (("u8", 1048576), ("u8", 1000000), ("unit", 1048576), ("u64", 524288), ("slot", 262144)):
        out.append("op=const_item kind=%s n=%d" % (kind, n))
    return out


def filldefault_c18(tier, seed, params):
    """const_default / ConstDefault::DEFAULT in const and static items: small lattice plus the very long arrays"""
    return [l for l in filldefault(tier, seed, params)
            if int(l.split("n=")[1]) >= 65536 or (l.split()[1] in ("kind=u8", "kind=slot") and int(l.split("n=")[1]) in (0, 1, 2, 3, 4, 5, 7, 8, 16, 17, 33, 64, 255, 256, 1000, 1024))]


XMUTE_PAIRS = [(0, 4, 4), (1, 4, 2), (2, 2, 4), (3, 8, 6), (4, 6, 8), (5, 6, 6), (6, 0, 0), (7, 0, 1), (8, 1, 0), (9, 56, 48),
               (10, 12, 12), (11, 6, 7), (12, 7, 6), (13, 0, 0), (14, 8, 0), (15, 1024, 1024), (16, 1025, 1024)]


def xmute(tier, seed, params):
    """`const_transmute::<A, B>` for a table of type pairs: equal sizes, source larger, source smaller, zero-sized"""
    return ["pair=%d sa=%d sb=%d" % p for p in XMUTE_PAIRS]


def heap_c04(tier, seed, params):
    """boxed generate / default_boxed with a panic at every generator call, for a drop-tracked and a zero-sized
    drop-counted element type (the boxed forms have their own fill loop in src/impl_alloc.rs)"""
    out = []
    for kind in ("tr", "z", "dc"):
        for n in (0, 1, 2, 3, 4, 5, 8):
            for op in ("boxed_generate", "default_boxed"):
                out.append("op=%s n=%d kind=%s fault=none" % (op, n, kind))
                for k in range(n):
                    out.append("op=%s n=%d kind=%s fault=call:%d" % (op, n, kind, k))
    return out
