"""Scenario generators (one per engine).  All randomness comes from the seed."""
import random

LATTICE = [0, 1, 2, 3, 4, 5, 6, 7, 8, 9, 10, 11, 12, 15, 16, 17, 31, 32, 33, 64, 97, 255, 256, 1023, 1024, 1025]
SMALL = list(range(0, 9))


def iterq(tier, seed, params):
    out = []
    passive = "len;size_hint;as_slice;fold;rfold;count;last;debug"
    for n in SMALL:
        for f in range(0, n + 1):
            for b in range(f, n + 1):
                pre = ["next"] * f + ["next_back"] * (n - b)
                ln = b - f
                for via_clone in (False, True):
                    p = pre + (["clone"] if via_clone else [])
                    muts = ["next", "next_back", "clone;next;next_back;as_slice"]
                    muts += ["nth:%d" % k for k in range(0, ln + 3)]
                    muts += ["nth_back:%d" % k for k in range(0, ln + 3)]
                    muts += ["write:%d:%d" % (i, 500 + i) for i in range(0, ln + 2)]
                    for m in muts:
                        out.append("n=%d ops=%s" % (n, ";".join(p + [passive, m, passive])))
    rng = random.Random(seed)
    nseq = 200 if tier == "quick" else 20000
    names = ["next", "next_back", "nth", "nth_back", "len", "size_hint", "as_slice", "write", "clone", "fold", "rfold", "count", "last", "debug"]
    for _ in range(nseq):
        n = rng.choice(LATTICE if rng.random() < 0.7 else SMALL)
        ops = []
        for _ in range(rng.randint(1, 64)):
            o = rng.choice(names)
            if o in ("nth", "nth_back"):
                k = rng.choice([0, 1, 2, 3, rng.randint(0, n + 2), n // 2])
                o = "%s:%d" % (o, k)
            elif o == "write":
                o = "write:%d:%d" % (rng.randint(0, max(1, n // 2)), rng.randint(100, 999))
            ops.append(o)
        out.append("n=%d ops=%s" % (n, ";".join(ops)))
    return out


LAYOUT_TYPES = [("u8", 1, 1, "u8"), ("u16", 2, 2, None), ("u32", 4, 4, None), ("u64", 8, 8, None), ("u128", 16, 16, None),
                ("unit", 0, 1, "zst"), ("a3", 3, 1, None), ("h3", 6, 2, None), ("t12", 4, 2, None), ("t14", 8, 4, None),
                ("al16", 16, 16, None), ("al32", 64, 32, None), ("z64", 0, 64, "zst"), ("z2", 0, 2, "zst"), ("packed", 5, 1, None),
                ("b64", 64, 1, None), ("nest", 12, 4, None), ("nestz", 0, 2, None), ("opt", 8, 4, None)]
BIG_QUICK = [2 ** 20, 2 ** 32 - 1, 10 ** 9, 2 ** 40, 2 ** 60, 2 ** 62]
BIG_FULL = sorted(set([2 ** k for k in range(11, 63)] + [2 ** k - 1 for k in range(11, 63)] + [10 ** k for k in range(4, 19)]))


def layout(tier, seed, params):
    out = []
    for (ty, s, a, big) in LAYOUT_TYPES:
        for n in LATTICE:
            out.append("ty=%s tsize=%d talign=%d n=%d" % (ty, s, a, n))
        for n in BIG_QUICK:
            if (big == "zst") or (big == "u8" and n <= 2 ** 60):
                out.append("ty=%s tsize=%d talign=%d n=%d" % (ty, s, a, n))
    return out


def layout_full(tier, seed, params):
    if tier != "thorough":
        return []
    out = []
    for (ty, s, a, big) in LAYOUT_TYPES:
        for n in list(range(0, 1026)):
            out.append("ty=%s tsize=%d talign=%d n=%d" % (ty, s, a, n))
        for n in BIG_FULL:
            if (big == "zst") or (big == "u8" and n <= 2 ** 60):
                out.append("ty=%s tsize=%d talign=%d n=%d" % (ty, s, a, n))
    return out
