#!/usr/bin/env python3
"""Whole-body translator for src/sequence.rs (C09, C03): every statement of append / prepend / concat / pop_back /
pop_front / owned split / remove / swap_remove (+ the inlined remove_unchecked / swap_remove_unchecked) is lowered
into the memory-body IR of lean/GA/Model/MemBody.lean -> lean/GA/Gen/SeqBody.lean, on every run.

What the lowering has to know beyond the statements themselves is *types*: a raw pointer's pointee decides the unit of
`.add(k)` and the size of the block a `ptr::write` / `ptr::read` moves.  They are resolved from the source:
`as *mut Self` / `as *mut T`, the declared type of a `let`, the parameter types, the impl's `type X = GenericArray<T, L>;`
items and the function's return type (for `as _` / `as *const _`, whose pointee is inferred from where the value
goes).  A statement that does not fit becomes `.opaque` (the refinement obligation then fails)."""
import json, os, sys
HERE = os.path.dirname(os.path.abspath(__file__))
sys.path.insert(0, HERE)
from rsparse import tokenize, items, find_fn, compact, Unparsed
import rsbody

ROOT = os.path.dirname(HERE)
REPO = os.environ.get("GA_REPO", "/repo")
GEN = os.path.join(ROOT, "lean", "GA", "Gen")
BUILD = os.path.join(ROOT, "build")


class Cant(Exception):
    pass


# ---------------------------------------------------------------------------------------------
# type-level lengths
# ---------------------------------------------------------------------------------------------
def split_args(s):
    out, depth, cur = [], 0, ""
    for ch in s:
        if ch == "<":
            depth += 1
        elif ch == ">":
            depth -= 1
        if ch == "," and depth == 0:
            out.append(cur)
            cur = ""
        else:
            cur += ch
    if cur:
        out.append(cur)
    return out


def tlen(t, second):
    """type-level length expression (compacted text) -> LX text"""
    t = t.strip()
    if t == "N":
        return ".n"
    if t == second and second:
        return ".k"
    for name, op in (("Add1", "add"), ("Sub1", "sub")):
        if t.startswith(name + "<") and t.endswith(">"):
            return "(.%s %s (.lit 1))" % (op, tlen(t[len(name) + 1:-1], second))
    for name, op in (("Sum", "add"), ("Diff", "sub"), ("Prod", "mul")):
        if t.startswith(name + "<") and t.endswith(">"):
            a = split_args(t[len(name) + 1:-1])
            if len(a) == 2:
                return "(.%s %s %s)" % (op, tlen(a[0], second), tlen(a[1], second))
    raise Cant("type-level length %s" % t)


def ty_len(ty, assoc, second):
    """number of elements of a value of type `ty` (compacted): T -> 1, GenericArray<T, L> -> L, Self -> N, Self::X -> assoc"""
    ty = ty.strip()
    if ty == "T":
        return "(.lit 1)"
    if ty == "Self":
        return ".n"
    if ty.startswith("Self::") and ty[6:] in assoc:
        return ty_len(assoc[ty[6:]], assoc, second)
    if ty.startswith("GenericArray<T,") and ty.endswith(">"):
        return tlen(ty[len("GenericArray<T,"):-1], second)
    raise Cant("element count of type %s" % ty)


# ---------------------------------------------------------------------------------------------
# expressions
# ---------------------------------------------------------------------------------------------
def lx(ast, second):
    k = ast[0]
    if k == "num":
        return "(.lit %d)" % int(ast[1])
    if k == "path":
        p = ast[1].replace(" ", "")
        if p == "idx":
            return ".idx"
        if p == "N::USIZE":
            return ".n"
        if second and p == second + "::USIZE":
            return ".k"
        if p.endswith("::USIZE"):
            inner = p[:-len("::USIZE")].replace("::<", "<")
            return tlen(inner, second)
        raise Cant("length expression %s" % p)
    if k == "bin" and ast[1] in ("+", "-", "*"):
        return "(.%s %s %s)" % ({"+": "add", "-": "sub", "*": "mul"}[ast[1]], lx(ast[2], second), lx(ast[3], second))
    if k == "paren":
        return lx(ast[1], second)
    raise Cant("length expression %r" % (ast,))


def bx(ast, second):
    if ast[0] == "paren":
        return bx(ast[1], second)
    if ast[0] == "bin" and ast[1] == "||":
        return "(.or %s %s)" % (bx(ast[2], second), bx(ast[3], second))
    if ast[0] == "bin" and ast[1] in ("<", ">=", "==", ">", "<="):
        a, b = lx(ast[2], second), lx(ast[3], second)
        if ast[1] == "<":
            return "(.lt %s %s)" % (a, b)
        if ast[1] == ">":
            return "(.lt %s %s)" % (b, a)
        if ast[1] == ">=":
            return "(.ge %s %s)" % (a, b)
        if ast[1] == "<=":
            return "(.ge %s %s)" % (b, a)
        return "(.eq %s %s)" % (a, b)
    raise Cant("condition %r" % (ast,))


def mul(a, b):
    if a == "(.lit 1)":
        return b
    if b == "(.lit 1)":
        return a
    return "(.mul %s %s)" % (a, b)


def add(a, b):
    if a == "(.lit 0)":
        return b
    if b == "(.lit 0)":
        return a
    return "(.add %s %s)" % (a, b)


class Lower:
    def __init__(self, params, ret_ty, assoc, second, inline):
        self.params = params            # name -> (Obj text, type text)
        self.ret_ty = ret_ty            # compacted return type
        self.assoc = assoc
        self.second = second
        self.inline = inline            # method name -> (Lower kwargs for the callee) for `self.<m>_unchecked(idx)`
        self.ptrs = {}                  # local pointer name -> (base: 'out' | Obj text, offset LX, stride LX | None)
        self.wrapped = {}               # local name of a ManuallyDrop -> Obj text
        self.out_name = None
        self.nlocal = 0
        self.locals = {}                # local value name -> index
        self.pending = {}               # local name -> ('read', obj, off) awaiting its block length (from the return type)
        self.stmts = []
        self.notes = []

    # ----- pointers
    def obj_of(self, ast):
        """a place expression naming a parameter or its ManuallyDrop wrapper"""
        if ast[0] == "path":
            nm = ast[1]
            if nm in self.wrapped:
                return self.wrapped[nm]
            if nm in self.params:
                return self.params[nm][0]
        if ast[0] == "un" and ast[1] in ("&", "&mut"):
            return self.obj_of(ast[2])
        raise Cant("object %r" % (ast,))

    def ptr(self, ast):
        """-> (base, offset LX, stride LX|None)"""
        k = ast[0]
        if k == "path" and ast[1] in self.ptrs:
            return self.ptrs[ast[1]]
        if k == "paren":
            return self.ptr(ast[1])
        if k == "cast":
            base, off, st = self.ptr(ast[1])
            ty = ast[2].replace(" ", "")
            if ty in ("*mutSelf", "*constSelf"):
                return base, off, ".n"
            if ty in ("*mutT", "*constT"):
                return base, off, "(.lit 1)"
            if ty in ("_", "*mut_", "*const_"):
                return base, off, None
            raise Cant("pointer cast to %s" % ty)
        if k == "method" and ast[2] in ("add", "offset") and len(ast[3]) == 1:
            base, off, st = self.ptr(ast[1])
            if st is None:
                raise Cant("pointer arithmetic on a pointer of unknown pointee")
            return base, add(off, mul(lx(ast[3][0], self.second), st)), st
        if k == "method" and ast[2] in ("as_ptr", "as_mut_ptr") and not ast[3]:
            r = ast[1]
            if r[0] == "path" and r[1] == self.out_name:
                return "out", "(.lit 0)", None            # MaybeUninit<Out>::as_mut_ptr(): *mut Out, a cast follows
            o = self.obj_of(r)
            return o, "(.lit 0)", "(.lit 1)"              # slice pointer: *const T
        raise Cant("pointer expression %r" % (ast,))

    # ----- statements
    def emit(self, s):
        self.stmts.append(s)

    def stmt(self, st):
        k = st[0]
        if k == "let":
            pat, init, ty = st[1], st[2], (st[3] if len(st) > 3 else None)
            if pat[0] != "pbind" or init is None:
                raise Cant("let pattern")
            name = pat[1]
            if init[0] == "call" and init[1][0] == "path" and init[1][1].endswith("MaybeUninit::uninit") and not init[2]:
                if not ty or not ty.replace(" ", "").startswith("MaybeUninit<"):
                    raise Cant("uninit without a declared type")
                inner = ty.replace(" ", "")[len("MaybeUninit<"):-1]
                self.out_name = name
                self.emit(".allocOut %s" % ty_len(inner, self.assoc, self.second))
                return
            if init[0] == "call" and init[1][0] == "path" and init[1][1].endswith("ManuallyDrop::new") and len(init[2]) == 1:
                o = self.obj_of(init[2][0])
                self.wrapped[name] = o
                self.emit(".manuallyDrop %s" % o)
                return
            if init[0] == "call" and init[1][0] == "path" and init[1][1].endswith("ptr::read") and len(init[2]) == 1:
                base, off, stv = self.ptr(init[2][0])
                if base == "out":
                    raise Cant("read from the output")
                idx = self.nlocal
                self.nlocal += 1
                self.locals[name] = idx
                if stv is None:
                    self.pending[name] = (len(self.stmts), base, off)
                    self.emit(None)
                else:
                    self.emit(".readBlock %d %s %s %s" % (idx, base, off, stv))
                return
            # a pointer local
            try:
                self.ptrs[name] = self.ptr(init)
                return
            except Cant:
                raise Cant("let %s = …" % name)
        if k == "expr":
            return self.expr_stmt(st[1])
        raise Cant("statement %s" % k)

    def expr_stmt(self, e):
        if e[0] == "macro" and e[1] == "assert" and e[2]:
            self.emit(".assertThat %s" % bx(e[2][0], self.second))
            return
        if e[0] == "macro" and e[1] == "debug_assert":
            self.notes.append("debug_assert skipped")
            return
        if e[0] == "if" and e[3] is None:
            blk = e[2]
            body = blk[1]
            if blk[2] is None and len(body) == 1 and body[0][0] == "expr" and body[0][1][0] == "call" and \
                    body[0][1][1][1].endswith("unreachable_unchecked"):
                self.emit(".unreachableIf %s" % bx(e[1], self.second))
                return
            raise Cant("if statement")
        if e[0] == "call" and e[1][0] == "path":
            fn = e[1][1]
            if fn.endswith("ptr::write") and len(e[2]) == 2:
                base, off, stv = self.ptr(e[2][0])
                if base != "out":
                    raise Cant("write outside the output")
                o = self.obj_of(e[2][1])
                if e[2][1][0] != "path":
                    raise Cant("written value is not a parameter")
                # the pointee must be the written value's own type (checked by rustc); nothing to add here
                self.emit(".writeOut %s %s" % (off, o))
                return
            if fn.endswith("ptr::copy") and len(e[2]) == 3:
                b1, o1, s1 = self.ptr(e[2][0])
                b2, o2, s2 = self.ptr(e[2][1])
                if b1 != b2 or b1 == "out" or s1 != "(.lit 1)" or s2 != "(.lit 1)":
                    raise Cant("ptr::copy operands")
                self.emit(".copyWithin %s %s %s %s" % (b1, o1, o2, lx(e[2][2], self.second)))
                return
        if e[0] == "method" and e[2] == "swap" and len(e[3]) == 2:
            o = self.obj_of(e[1])
            self.emit(".swap %s %s %s" % (o, lx(e[3][0], self.second), lx(e[3][1], self.second)))
            return
        if e[0] == "block":
            return self.block(e, tail_is_value=False)
        raise Cant("expression statement %r" % (e[0],))

    def ret_types(self):
        t = self.ret_ty
        if t.startswith("(") and t.endswith(")"):
            return split_args(t[1:-1])
        return [t]

    def value(self, e):
        """the function's value"""
        if e[0] == "block":
            return self.block(e, tail_is_value=True)
        if e[0] == "method" and e[2] == "assume_init" and e[1][0] == "path" and e[1][1] == self.out_name and not e[3]:
            self.emit(".retOut")
            return
        if e[0] == "method" and e[1][0] == "path" and e[1][1] == "self" and e[2] in self.inline and len(e[3]) == 1 and e[3][0] == ("path", "idx"):
            callee = self.inline[e[2]]
            sub = Lower(callee["params"], callee["ret_ty"], callee["assoc"], self.second, {})
            sub.block(callee["body"], tail_is_value=True)
            self.stmts += sub.stmts
            self.notes += sub.notes
            return
        if e[0] == "tuple":
            tys = self.ret_types()
            if len(tys) != len(e[1]):
                raise Cant("tuple arity")
            vs = []
            for comp, ty in zip(e[1], tys):
                ln = ty_len(ty, self.assoc, self.second)
                if comp[0] == "path" and comp[1] in self.locals:
                    nm = comp[1]
                    if nm in self.pending:
                        pos, base, off = self.pending.pop(nm)
                        self.stmts[pos] = ".readBlock %d %s %s %s" % (self.locals[nm], base, off, ln)
                    vs.append(self.locals[nm])
                elif comp[0] == "call" and comp[1][0] == "path" and comp[1][1].endswith("transmute_copy") and len(comp[2]) == 1:
                    o = self.obj_of(comp[2][0])
                    idx = self.nlocal
                    self.nlocal += 1
                    self.emit(".prefixOf %d %s %s" % (idx, o, ln))
                    vs.append(idx)
                else:
                    raise Cant("tuple component %r" % (comp[0],))
            if self.pending:
                raise Cant("a read whose block size is not determined")
            self.emit(".ret [%s]" % ", ".join(str(v) for v in vs))
            return
        raise Cant("value %r" % (e[0],))

    def block(self, blk, tail_is_value):
        for st in blk[1]:
            self.stmt(st)
        if blk[2] is not None:
            if tail_is_value:
                self.value(blk[2])
            else:
                self.expr_stmt(blk[2])
        elif tail_is_value:
            raise Cant("block without a value")


# ---------------------------------------------------------------------------------------------
# driver
# ---------------------------------------------------------------------------------------------
def assoc_types(toks, it):
    """`type X = …;` items of an impl"""
    out = {}
    i = it.lo
    depth = 0
    while i < it.hi:
        t = toks[i]
        if t.k == "p" and t.s == "{":
            depth += 1
        elif t.k == "p" and t.s == "}":
            depth -= 1
        elif depth == 0 and t.k == "id" and t.s == "type" and i + 2 < it.hi and toks[i + 2].s == "=":
            j = i + 3
            while j < it.hi and toks[j].s != ";":
                j += 1
            out[toks[i + 1].s] = compact(toks[i + 3:j])
            i = j
        i += 1
    return out


def fn_sig(f):
    """-> ([(param name, type)], return type) from the header tokens"""
    h = f.header
    # parameter list
    k = next(i for i, t in enumerate(h) if t.s == "(")
    depth, j = 0, k
    while j < len(h):
        if h[j].s == "(":
            depth += 1
        elif h[j].s == ")":
            depth -= 1
            if depth == 0:
                break
        j += 1
    ptxt = compact(h[k + 1:j])
    params = []
    for p in split_args(ptxt):
        if p in ("self", "mutself"):
            params.append(("self", "Self"))
        elif ":" in p:
            nm, ty = p.split(":", 1)
            params.append((nm[3:] if nm.startswith("mut") else nm, ty))
    rest = compact(h[j + 1:])
    ret = rest[2:] if rest.startswith("->") else "()"
    if "where" in ret:
        ret = ret.split("where")[0]
    return params, ret


FUNCS = [
    # (lean name, container kind, header needle, fn name, second length parameter)
    ("append", "impl", "Lengthen<T>forGenericArray<T,N>", "append", None),
    ("prepend", "impl", "Lengthen<T>forGenericArray<T,N>", "prepend", None),
    ("popBack", "impl", "Shorten<T>forGenericArray<T,N>", "pop_back", None),
    ("popFront", "impl", "Shorten<T>forGenericArray<T,N>", "pop_front", None),
    ("split", "impl", "Split<T,K>forGenericArray<T,N>", "split", "K"),
    ("concat", "impl", "Concat<T,M>forGenericArray<T,N>", "concat", "M"),
    ("remove", "trait", "traitRemove<T,N:ArrayLength>", "remove", None),
    ("swapRemove", "trait", "traitRemove<T,N:ArrayLength>", "swap_remove", None),
]


def lower_fn(toks, kind, needle, fname, second):
    cont = [x for x in items(toks, kind) if (needle in x.header_text() if kind == "impl" else x.header_text().startswith(needle))]
    if not cont:
        raise Cant("%s %s not found" % (kind, needle))
    cont = cont[0]
    f = find_fn(toks, fname, cont.lo, cont.hi)
    params, ret = fn_sig(f)
    assoc = assoc_types(toks, cont)
    inline = {}
    if kind == "trait":
        imp = [x for x in items(toks, "impl") if "Remove<T,N>forGenericArray<T,N>" in x.header_text()]
        if not imp:
            raise Cant("impl Remove not found")
        imp = imp[0]
        assoc = assoc_types(toks, imp)
        for callee in ("remove_unchecked", "swap_remove_unchecked"):
            g = find_fn(toks, callee, imp.lo, imp.hi)
            gp, gr = fn_sig(g)
            inline[callee] = {"params": par_map(gp), "ret_ty": gr, "assoc": assoc, "body": rsbody.parse_body(g.body)}
    lw = Lower(par_map(params), ret, assoc, second, inline)
    lw.block(rsbody.parse_body(f.body), tail_is_value=True)
    if any(s is None for s in lw.stmts):
        raise Cant("a read whose block size is not determined")
    return lw.stmts, lw.notes


class LowerViews:
    """by-reference bodies: raw pointers derived from `self` / from an earlier view, and the references built from them"""
    def __init__(self, ret_ty, assoc, second, recv_mut):
        self.ret_ty, self.assoc, self.second, self.recv_mut = ret_ty, assoc, second, recv_mut
        self.ptr_ix, self.view_ix = {}, {}
        self.pending = {}
        self.stmts = []

    def view_len(self, ty):
        ty = ty.strip()
        if ty.startswith("Self::") and ty[6:] in self.assoc:
            ty = self.assoc[ty[6:]]
        for pre in ("&'amut", "&'a", "&mut", "&"):
            if ty.startswith(pre):
                ty = ty[len(pre):]
                break
        else:
            raise Cant("view type %s" % ty)
        return ty_len(ty, self.assoc, self.second)

    def ptr_expr(self, ast):
        """-> (pointer local index, extra element offset LX)"""
        if ast[0] == "paren":
            return self.ptr_expr(ast[1])
        if ast[0] == "path" and ast[1] in self.ptr_ix:
            return self.ptr_ix[ast[1]], "(.lit 0)"
        if ast[0] == "cast" and ast[2].replace(" ", "") in ("*const_", "*mut_", "_", "*constT", "*mutT"):
            return self.ptr_expr(ast[1])
        if ast[0] == "method" and ast[2] in ("add", "offset") and len(ast[3]) == 1:
            p, off = self.ptr_expr(ast[1])
            return p, add(off, lx(ast[3][0], self.second))
        raise Cant("pointer expression %r" % (ast,))

    def stmt(self, st):
        if st[0] != "let" or st[1][0] != "pbind" or st[2] is None:
            raise Cant("statement %s" % st[0])
        name, init = st[1][1], st[2]
        if init[0] == "method" and init[2] in ("as_ptr", "as_mut_ptr") and not init[3] and init[1][0] == "path":
            wr = "true" if init[2] == "as_mut_ptr" else "false"
            ty = (st[3] or "").replace(" ", "")
            if ty and ty not in ("*constT", "*mutT"):
                raise Cant("pointer type %s" % ty)
            ix = len(self.ptr_ix)
            if init[1][1] == "self":
                self.stmts.append(".ptrSelf %d %s" % (ix, wr))
            elif init[1][1] in self.view_ix:
                self.stmts.append(".ptrOfView %d %d %s" % (ix, self.view_ix[init[1][1]], wr))
            else:
                raise Cant("pointer source %s" % init[1][1])
            self.ptr_ix[name] = ix
            return
        if init[0] == "un" and init[1] in ("&", "&mut") and init[2][0] == "un" and init[2][1] == "*":
            p, off = self.ptr_expr(init[2][2])
            ix = len(self.view_ix)
            self.view_ix[name] = ix
            self.pending[name] = (len(self.stmts), ix, p, off, "true" if init[1] == "&mut" else "false")
            self.stmts.append(None)
            return
        if init[0] == "method" and init[2] in ("add", "offset") and len(init[3]) == 1:
            p, off = self.ptr_expr(init)
            ix = len(self.ptr_ix)
            self.stmts.append(".ptrAdd %d %d %s" % (ix, p, off))
            self.ptr_ix[name] = ix
            return
        raise Cant("let %s = …" % name)

    def block(self, blk):
        for st in blk[1]:
            self.stmt(st)
        tail = blk[2]
        if tail is None:
            raise Cant("no value")
        if tail[0] == "block":
            return self.block(tail)
        if tail[0] != "tuple":
            raise Cant("value %s" % tail[0])
        t = self.ret_ty
        tys = split_args(t[1:-1]) if t.startswith("(") else [t]
        if len(tys) != len(tail[1]):
            raise Cant("tuple arity")
        vs = []
        for comp, ty in zip(tail[1], tys):
            if comp[0] != "path" or comp[1] not in self.pending:
                raise Cant("tuple component")
            pos, ix, p, off, wr = self.pending.pop(comp[1])
            self.stmts[pos] = ".viewAt %d %d %s %s %s" % (ix, p, off, self.view_len(ty), wr)
            vs.append(ix)
        if self.pending:
            raise Cant("a view that is not returned")
        self.stmts.append(".retViews [%s]" % ", ".join(str(v) for v in vs))


VIEW_FUNCS = [
    ("splitRef", "Split<T,K>for&'aGenericArray<T,N>", "split", "K", False),
    ("splitMut", "Split<T,K>for&'amutGenericArray<T,N>", "split", "K", True),
]


def lower_view_fn(toks, needle, fname, second, recv_mut):
    cont = [x for x in items(toks, "impl") if needle in x.header_text()]
    if not cont:
        raise Cant("impl %s not found" % needle)
    cont = cont[0]
    f = find_fn(toks, fname, cont.lo, cont.hi)
    params, ret = fn_sig(f)
    lw = LowerViews(ret, assoc_types(toks, cont), second, recv_mut)
    lw.block(rsbody.parse_body(f.body))
    return lw.stmts


class LowerSliceViews:
    """reinterpreting views of src/lib.rs: one slice argument (or the receiver `&self` / `&mut self`), guards, pure
    `let`s, raw pointers, the returned views"""
    def __init__(self, arg_name, arg_ty):
        self.arg = arg_name
        t = arg_ty.replace(" ", "")
        self.recv_mut = t.startswith("&mut")
        inner = t[4:] if self.recv_mut else t[1:]
        self.is_self = arg_name == "self"
        if self.is_self and inner == "Self":
            self.ext, self.estride = ".n", "(.lit 1)"
        elif inner == "[T]":
            self.ext, self.estride = ".k", "(.lit 1)"
        elif inner == "[GenericArray<T,N>]":
            self.ext, self.estride = "(.mul .k .n)", ".n"
        else:
            raise Cant("argument type %s" % arg_ty)
        self.env = {}
        self.ptrs = {}
        self.np = 0
        self.nv = 0
        self.stmts = []

    def lx(self, ast):
        k = ast[0]
        if k == "num":
            return "(.lit %d)" % int(ast[1])
        if k == "paren":
            return self.lx(ast[1])
        if k == "path":
            p = ast[1].replace(" ", "")
            if p in self.env:
                return self.env[p]
            if p == "N::USIZE":
                return ".n"
            raise Cant("length expression %s" % p)
        if k == "method" and ast[2] == "len" and not ast[3] and ast[1] == ("path", self.arg):
            return ".k"
        if k == "bin" and ast[1] in ("+", "-", "*", "/"):
            return "(.%s %s %s)" % ({"+": "add", "-": "sub", "*": "mul", "/": "div"}[ast[1]], self.lx(ast[2]), self.lx(ast[3]))
        raise Cant("length expression %r" % (ast,))

    def bx(self, ast):
        if ast[0] == "paren":
            return self.bx(ast[1])
        if ast[0] == "method" and ast[2] == "is_empty" and ast[1] == ("path", self.arg):
            return "(.eq .k (.lit 0))"
        if ast[0] == "bin" and ast[1] == "||":
            return "(.or %s %s)" % (self.bx(ast[2]), self.bx(ast[3]))
        if ast[0] == "bin" and ast[1] in ("<", ">=", "==", ">", "<=", "!="):
            a, b = self.lx(ast[2]), self.lx(ast[3])
            return {"<": "(.lt %s %s)" % (a, b), ">": "(.lt %s %s)" % (b, a), ">=": "(.ge %s %s)" % (a, b),
                    "<=": "(.ge %s %s)" % (b, a), "==": "(.eq %s %s)" % (a, b), "!=": "(.ne %s %s)" % (a, b)}[ast[1]]
        raise Cant("condition %r" % (ast,))

    def fresh_ptr(self, wr):
        i = self.np
        self.np += 1
        self.stmts.append(".ptrArg %d %s %s" % (i, "true" if wr else "false", self.ext))
        return i

    def ptr(self, ast):
        """-> (pointer index, extra offset LX, stride LX | None)"""
        k = ast[0]
        if k == "paren":
            return self.ptr(ast[1])
        if k == "path" and ast[1] in self.ptrs:
            return self.ptrs[ast[1]]
        if k == "method" and ast[2] in ("as_ptr", "as_mut_ptr") and not ast[3] and ast[1] == ("path", self.arg):
            return self.fresh_ptr(ast[2] == "as_mut_ptr"), "(.lit 0)", self.estride
        if k == "cast" and self.is_self and ast[1] == ("path", "self") and ast[2].replace(" ", "") in ("*constSelf", "*mutSelf"):
            # `self as *const Self` / `self as *mut Self`: the receiver reference itself, as a raw pointer
            i = self.np
            self.np += 1
            self.stmts.append(".ptrSelf %d %s" % (i, "true" if ast[2].replace(" ", "") == "*mutSelf" else "false"))
            return i, "(.lit 0)", ".n"
        if k == "cast":
            p, off, st = self.ptr(ast[1])
            ty = ast[2].replace(" ", "")
            if ty in ("*constGenericArray<T,N>", "*mutGenericArray<T,N>", "*constSelf", "*mutSelf"):
                return p, off, ".n"
            if ty in ("*constT", "*mutT"):
                return p, off, "(.lit 1)"
            raise Cant("pointer cast to %s" % ty)
        if k == "method" and ast[2] in ("add", "offset") and len(ast[3]) == 1:
            p, off, st = self.ptr(ast[1])
            if st is None:
                raise Cant("pointer arithmetic on a pointer of unknown pointee")
            return p, add(off, mul(self.lx(ast[3][0]), st)), st
        raise Cant("pointer expression %r" % (ast,))

    def view(self, e):
        """a reference-producing expression -> view index"""
        if e[0] == "paren":
            return self.view(e[1])
        if e[0] == "un" and e[1] in ("&", "&mut") and e[2][0] == "un" and e[2][1] == "*":
            p, off, st = self.ptr(e[2][2])
            if st is None:
                raise Cant("view of unknown pointee")
            ln, wr = st, e[1] == "&mut"
        elif e[0] == "call" and e[1][0] == "path" and e[1][1].split("::")[-1] in ("from_raw_parts", "from_raw_parts_mut") and len(e[2]) == 2:
            p, off, st = self.ptr(e[2][0])
            if st is None:
                raise Cant("view of unknown pointee")
            ln, wr = mul(self.lx(e[2][1]), st), e[1][1].endswith("_mut")
        else:
            raise Cant("view expression %r" % (e[0],))
        v = self.nv
        self.nv += 1
        self.stmts.append(".viewAt %d %d %s %s %s" % (v, p, off, ln, "true" if wr else "false"))
        return v

    def is_empty_ref(self, e):
        return e[0] == "un" and e[1] in ("&", "&mut") and e[2][0] == "array" and not e[2][1]

    def stmt(self, st):
        k = st[0]
        if k == "let":
            if st[1][0] != "pbind" or st[2] is None:
                raise Cant("let pattern")
            name, init = st[1][1], st[2]
            if init[0] == "method" and init[2] in ("as_ptr", "as_mut_ptr") and init[1] == ("path", self.arg):
                self.ptrs[name] = self.ptr(init)
            else:
                self.env[name] = self.lx(init)
            return
        if k == "expr":
            e = st[1]
            if e[0] == "macro" and e[1] == "assert" and e[2]:
                self.stmts.append(".assertThat %s" % self.bx(e[2][0]))
                return
            if e[0] == "if" and e[3] is None:
                blk = e[2]
                inner = list(blk[1]) + ([("expr", blk[2])] if blk[2] is not None else [])
                c = self.bx(e[1])
                if len(inner) == 1 and inner[0][0] == "expr" and inner[0][1][0] == "macro" and inner[0][1][1] == "panic":
                    self.stmts.append(".panicIf %s" % c)
                    return
                if len(inner) == 1 and inner[0][0] in ("expr", "return"):
                    r = inner[0][1] if inner[0][0] == "expr" else ("return", inner[0][1])
                    if r[0] == "return" and r[1] is not None and r[1][0] == "call" and r[1][1] == ("path", "Err"):
                        self.stmts.append(".errIf %s" % c)
                        return
                if len(inner) == 2 and inner[0][0] == "expr" and inner[0][1][0] == "macro" and inner[0][1][1] == "assert":
                    r = inner[1][1] if inner[1][0] == "expr" else ("return", inner[1][1])
                    if r[0] == "return" and r[1] is not None and r[1][0] == "tuple" and all(self.is_empty_ref(x) for x in r[1][1]):
                        wr = any(x[1] == "&mut" for x in r[1][1])
                        self.stmts.append(".emptyIf %s %s %d %s" % (c, self.bx(inner[0][1][2][0]), len(r[1][1]), "true" if wr else "false"))
                        return
                raise Cant("if statement")
        raise Cant("statement %s" % k)

    def value(self, e):
        if e[0] == "block":
            for st in e[1]:
                self.stmt(st)
            if e[2] is None:
                raise Cant("no value")
            return self.value(e[2])
        if e[0] == "paren":
            return self.value(e[1])
        if e[0] == "call" and e[1] == ("path", "Ok") and len(e[2]) == 1:
            return self.value(e[2][0])
        comps = e[1] if e[0] == "tuple" else [e]
        vs = [self.view(c if c[0] != "block" else self.unblock(c)) for c in comps]
        self.stmts.append(".retViews [%s]" % ", ".join(str(v) for v in vs))

    def unblock(self, b):
        if b[1] or b[2] is None:
            raise Cant("block with statements inside a value")
        return b[2]


REGROUP_FUNCS = [
    # (lean name, impl header needle, fn, receiver is &mut, extent of the receiver in elements T)
    ("flattenRef", "Flatten<T,N,M>for&'aGenericArray<GenericArray<T,N>,M>", "flatten", False, "(.mul .n .k)"),
    ("flattenMut", "Flatten<T,N,M>for&'amutGenericArray<GenericArray<T,N>,M>", "flatten", True, "(.mul .n .k)"),
    ("unflattenRef", "Unflatten<T,NM,N>for&'aGenericArray<T,NM>", "unflatten", False, ".k"),
    ("unflattenMut", "Unflatten<T,NM,N>for&'amutGenericArray<T,NM>", "unflatten", True, ".k"),
]


def lower_regroup_fn(toks, needle, fname, recv_mut, ext):
    """by-reference flatten / unflatten: `unsafe { mem::transmute(self) }`, or a cast of the receiver's own pointer"""
    cont = [x for x in items(toks, "impl") if needle in x.header_text().replace(" ", "")]
    if not cont:
        raise Cant("impl %s not found" % needle)
    f = find_fn(toks, fname, cont[0].lo, cont[0].hi)
    e = rsbody.parse_body(f.body)
    while e[0] == "block" and not e[1] and e[2] is not None:
        e = e[2]
    wr = "true" if recv_mut else "false"
    if e[0] == "call" and e[1][0] == "path" and e[1][1].endswith("mem::transmute") and e[2] == [("path", "self")]:
        return [".transmuteSelf 0 %s %s" % (ext, wr), ".retViews [0]"]
    if e[0] == "un" and e[1] in ("&", "&mut") and e[2][0] == "un" and e[2][1] == "*":
        inner = e[2][2]
        while inner[0] in ("cast", "paren"):
            inner = inner[1]
        vwr = "true" if e[1] == "&mut" else "false"
        if inner == ("path", "self"):
            # `&*(self as *const _ as *const _)`: the receiver reference as a raw pointer
            return [".ptrArg 0 %s %s" % (vwr, ext), ".viewAt 0 0 (.lit 0) %s %s" % (ext, vwr), ".retViews [0]"]
        if inner[0] == "method" and inner[2] in ("as_ptr", "as_mut_ptr") and inner[1] == ("path", "self") and not inner[3]:
            pwr = "true" if inner[2] == "as_mut_ptr" else "false"
            return [".ptrArg 0 %s %s" % (pwr, ext), ".viewAt 0 0 (.lit 0) %s %s" % (ext, vwr), ".retViews [0]"]
    raise Cant("body of by-reference %s" % fname)


LIB_VIEW_FUNCS = ["as_slice", "as_mut_slice", "from_slice", "try_from_slice", "from_mut_slice", "chunks_from_slice", "chunks_from_slice_mut",
                  "slice_from_chunks", "slice_from_chunks_mut"]


def lean_name(fn):
    parts = fn.split("_")
    return parts[0] + "".join(w.capitalize() for w in parts[1:])


def lower_lib_view_fn(ltoks, fname):
    f = find_fn(ltoks, fname)
    params, ret = fn_sig(f)
    htxt = compact(f.header)
    if not params and "(&mutself)" in htxt:
        params = [("self", "&mutSelf")]
    elif not params and "(&self)" in htxt:
        params = [("self", "&Self")]
    if len(params) != 1:
        raise Cant("parameters of %s" % fname)
    lw = LowerSliceViews(params[0][0], params[0][1])
    lw.value(rsbody.parse_body(f.body))
    return lw.stmts, lw.recv_mut


def par_map(params):
    out = {}
    seen_arg = False
    for nm, ty in params:
        if nm == "self":
            out[nm] = (".self", ty)
        elif nm == "idx":
            continue
        else:
            if seen_arg:
                raise Cant("more than one by-value argument")
            seen_arg = True
            out[nm] = (".arg", ty)
    return out


def main():
    toks = tokenize(open(os.path.join(REPO, "src", "sequence.rs")).read())
    status = {}
    defs = []
    for lean, kind, needle, fname, second in FUNCS:
        try:
            stmts, notes = lower_fn(toks, kind, needle, fname, second)
            status[lean] = {"status": "ok", "notes": notes, "statements": len(stmts)}
        except (Cant, Unparsed, StopIteration, IndexError, KeyError) as e:
            stmts = [".opaque"]
            status[lean] = {"status": "unlowered", "reason": "%s: %s" % (type(e).__name__, str(e)[:200])}
            print("NOTE body-unlowered fn=sequence.rs:%s reason=%s" % (fname, status[lean]["reason"]))
        defs.append("/-- `%s` (src/sequence.rs), every statement in source order -/\ndef %s : List Stmt := [\n  %s]\n" % (fname, lean, ",\n  ".join(stmts)))
    for lean, needle, fname, second, recv_mut in VIEW_FUNCS:
        try:
            stmts = lower_view_fn(toks, needle, fname, second, recv_mut)
            status[lean] = {"status": "ok", "notes": [], "statements": len(stmts)}
        except (Cant, Unparsed, StopIteration, IndexError, KeyError) as e:
            stmts = [".opaque"]
            status[lean] = {"status": "unlowered", "reason": "%s: %s" % (type(e).__name__, str(e)[:200])}
            print("NOTE body-unlowered fn=sequence.rs:%s(%s) reason=%s" % (fname, "&mut" if recv_mut else "&", status[lean]["reason"]))
        defs.append("/-- `%s` on `%sGenericArray` (src/sequence.rs), every statement in source order -/\ndef %s : List VStmt := [\n  %s]\n" % (fname, "&mut " if recv_mut else "&", lean, ",\n  ".join(stmts)))
    for lean, needle, fname, recv_mut, ext in REGROUP_FUNCS:
        try:
            stmts = lower_regroup_fn(toks, needle, fname, recv_mut, ext)
            status[lean] = {"status": "ok", "notes": [], "statements": len(stmts)}
        except (Cant, Unparsed, StopIteration, IndexError, KeyError) as e:
            stmts = [".opaque"]
            status[lean] = {"status": "unlowered", "reason": "%s: %s" % (type(e).__name__, str(e)[:200])}
            print("NOTE body-unlowered fn=sequence.rs:%s(%s) reason=%s" % (fname, "&mut" if recv_mut else "&", status[lean]["reason"]))
        defs.append("/-- `%s` on `%s…` (src/sequence.rs) -/\ndef %s : List VStmt := [\n  %s]\n" % (fname, "&mut " if recv_mut else "&", lean, ",\n  ".join(stmts)))
    ltoks = tokenize(open(os.path.join(REPO, "src", "lib.rs")).read())
    for fname in LIB_VIEW_FUNCS:
        lean = lean_name(fname)
        try:
            stmts, rm = lower_lib_view_fn(ltoks, fname)
            status[lean] = {"status": "ok", "notes": [], "statements": len(stmts)}
        except (Cant, Unparsed, StopIteration, IndexError, KeyError) as e:
            stmts = [".opaque"]
            status[lean] = {"status": "unlowered", "reason": "%s: %s" % (type(e).__name__, str(e)[:200])}
            print("NOTE body-unlowered fn=lib.rs:%s reason=%s" % (fname, status[lean]["reason"]))
        defs.append("/-- `%s` (src/lib.rs), every statement in source order -/\ndef %s : List VStmt := [\n  %s]\n" % (fname, lean, ",\n  ".join(stmts)))
    out = "-- GENERATED by tools/seqbody.py from /repo/src/sequence.rs and /repo/src/lib.rs — do not edit.\nimport GA.Model.MemBody\nnamespace GA.Gen.SeqBody\nopen GA.MemBody\n\n"
    out += "\n".join(defs)
    out += "\nend GA.Gen.SeqBody\n"
    path = os.path.join(GEN, "SeqBody.lean")
    old = None
    try:
        old = open(path).read()
    except OSError:
        pass
    if old != out:
        with open(path, "w") as f:
            f.write(out)
    os.makedirs(BUILD, exist_ok=True)
    json.dump(status, open(os.path.join(BUILD, "seqbody_status.json"), "w"), indent=1, sort_keys=True)
    print("seqbody: %d bodies, %d unlowered" % (len(FUNCS) + len(VIEW_FUNCS) + len(LIB_VIEW_FUNCS) + len(REGROUP_FUNCS), sum(1 for v in status.values() if v["status"] != "ok")))


if __name__ == "__main__":
    main()
