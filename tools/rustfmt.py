"""Element-level `{:?}` output of the element types used by the `cmp` engine (u8, i32, f64 in
quarter units, ASCII String), for a fixed table of formatter options.  This is `core::fmt`'s
behaviour for the *elements*, not generic-array's: the model receives these strings as the
elements' Debug ops and composes the slice-level output itself.  It is validated on every run:
a wrong string here shows up as a model-vs-implementation disagreement on the unchanged tree."""
from decimal import Decimal, ROUND_HALF_EVEN

FLAGS = {
    "d": {}, "alt": {"alt": 1}, "w5": {"w": 5}, "l5": {"w": 5, "align": "<"}, "c7": {"w": 7, "align": "^"},
    "plus": {"plus": 1}, "z5": {"w": 5, "zero": 1}, "x": {"hex": "x"}, "X": {"hex": "X"}, "ax": {"alt": 1, "hex": "x"},
    "p1": {"prec": 1}, "w8p3": {"w": 8, "prec": 3}, "plusp2": {"plus": 1, "prec": 2}, "altp1": {"alt": 1, "prec": 1},
    "fill": {"w": 6, "align": ">", "fill": "*"},
}


def pad(sign, prefix, body, fl, default_align=">"):
    w = fl.get("w")
    s = sign + prefix + body
    if w is None or len(s) >= w:
        return s
    if fl.get("zero"):
        return sign + prefix + "0" * (w - len(s)) + body
    fill = fl.get("fill", " ")
    n = w - len(s)
    al = fl.get("align", default_align)
    if al == "<":
        return s + fill * n
    if al == "^":
        return fill * (n // 2) + s + fill * ((n + 1) // 2)
    return fill * n + s


def fmt_int(v, bits, fl):
    if fl.get("hex"):
        body = format(v % (1 << bits), "x")
        if fl["hex"] == "X":
            body = body.upper()
        return pad("+" if fl.get("plus") else "", "0x" if fl.get("alt") else "", body, fl)
    sign = "-" if v < 0 else ("+" if fl.get("plus") else "")
    return pad(sign, "", str(abs(v)), fl)


def fmt_f64(tok, fl):
    if tok == "nan":
        return pad("", "", "NaN", fl)
    if tok in ("inf", "ninf"):
        sign = "-" if tok == "ninf" else ("+" if fl.get("plus") else "")
        return pad(sign, "", "inf", fl)
    neg = tok == "nz" or (tok != "nz" and int(tok) < 0)
    q = 0 if tok == "nz" else abs(int(tok))
    val = Decimal(q) / Decimal(4)
    if fl.get("prec") is not None:
        body = str(val.quantize(Decimal(1).scaleb(-fl["prec"]), rounding=ROUND_HALF_EVEN)) if fl["prec"] > 0 else str(val.quantize(Decimal(1), rounding=ROUND_HALF_EVEN))
    else:
        body = "%d.0" % (q // 4) if q % 4 == 0 else format(val.normalize(), "f")
    sign = "-" if neg else ("+" if fl.get("plus") else "")
    return pad(sign, "", body, fl)


def fmt_str(tok, fl):
    s = "" if tok == "-" else bytes.fromhex(tok).decode()
    out = '"'
    for c in s:
        if c == '"':
            out += '\\"'
        elif c == "\\":
            out += "\\\\"
        elif c == "\n":
            out += "\\n"
        elif c == "\t":
            out += "\\t"
        elif c == "\r":
            out += "\\r"
        else:
            out += c
    return out + '"'


def fmt_leaf(kind, tok, flags):
    fl = FLAGS[flags]
    if kind == "u8":
        return fmt_int(int(tok), 8, fl)
    if kind in ("i32", "nesti"):
        return fmt_int(int(tok), 32, fl)
    if kind in ("f64", "nestf"):
        return fmt_f64(tok, fl)
    return fmt_str(tok, fl)


def hexs(s):
    return s.encode().hex() if s else "-"


def elem_strings(kind, arr, flags):
    """`e=` field: per element (per leaf, `:`-joined, for nested kinds) hex of its Debug string"""
    if arr == "_":
        return "_"
    return ",".join(":".join(hexs(fmt_leaf(kind, leaf, flags)) for leaf in el.split(":")) for el in arr.split(","))
