"""Compiler-verdict corpora: scenario line -> Rust program -> rustc verdict (tools/corpus.py)."""
import corpus


def kvs(line):
    return dict(t.split("=", 1) for t in line.split() if "=" in t)


# ------------------------------------------------------------------------------------------------
# C20: arr! in const positions
# ------------------------------------------------------------------------------------------------

def arrconst_item(line):
    kv = kvs(line)
    pos = kv.get("pos", "const")
    form = kv["form"]
    if form == "list":
        k, tr = int(kv["k"]), int(kv.get("trail", 0))
        body = ", ".join("%du64" % (1000 + 7 * i) for i in range(k)) + "," * tr
        n, want = k, "[" + ", ".join("%du64" % (1000 + 7 * i) for i in range(k)) + "]"
        mac = "arr![%s]" % body
    else:
        n = int(kv["n"])
        mac = "arr![1000u64; %s]" % (("U%d" % n) if form == "repty" else str(n))
        want = "[1000u64; %d]" % n
    ty = "GenericArray<u64, U%d>" % n
    if pos == "const":
        decl = "const A: %s = %s;" % (ty, mac)
        use = "A"
    elif pos == "static":
        decl = "static A: %s = %s;" % (ty, mac)
        use = "A"
    else:
        decl = "const fn f() -> %s { %s }\nconst A: %s = f();" % (ty, mac, ty)
        use = "A"
    chk = "pub fn check() -> bool { let w: [u64; %d] = %s; %s.as_slice() == &w[..] && %s.len() == %d }" % (n, want, use, use, n)
    return decl + "\n" + chk


def arrconst_runner(lines):
    items = [(str(k), arrconst_item(l)) for k, l in enumerate(lines)]
    verdict, _ = corpus.accept_bundle(items)
    out = {}
    for k, l in enumerate(lines):
        v = verdict.get(str(k), "reject:?")
        if v in ("ok", "ok-alone"):
            out[str(k)] = "accept | orc=ok"
        elif v.startswith("FAIL"):
            out[str(k)] = "accept | orc=FAIL(const value differs from the literal's)"
        else:
            code = v.split(":")[1] if ":" in v else "?"
            out[str(k)] = "reject | orc=FAIL(not usable in a const position: %s)" % v.replace("|", "/")[:200]
    if "<bundle>" in verdict:
        out["0"] = "reject | orc=FAIL(%s)" % verdict["<bundle>"][:200]
    return out
