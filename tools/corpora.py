"""Compiler-verdict corpora: scenario line -> Rust program -> rustc verdict (tools/corpus.py)."""
import corpus


def kvs(line):
    return dict(t.split("=", 1) for t in line.split() if "=" in t)


# ------------------------------------------------------------------------------------------------
# C20: arr! in const positions
# ------------------------------------------------------------------------------------------------

def tn(n):
    """a typenum type of value n: the `U<n>` alias where typenum defines one, type-level arithmetic otherwise"""
    def aliased(m):
        return m <= 1024 or (m & (m - 1)) == 0 or ((m + 1) & m) == 0 or str(m).strip("0") == "1" or m == 3600
    if aliased(n):
        return "U%d" % n
    if n - 1024 <= 1024:
        return "Sum<U1024, U%d>" % (n - 1024)
    for d in (1000, 1024, 512, 100):
        if n % d == 0 and n // d <= 1024:
            return "Prod<U%d, U%d>" % (d, n // d)
    raise ValueError(n)


def arrconst_item(line):
    kv = kvs(line)
    pos = kv.get("pos", "const")
    form = kv["form"]
    if kv.get("op") == "hygiene":
        # the element expression is the caller's own constant / variable `name`
        name = kv["name"]
        decl = ("const %s: u64 = 7;" % name) if name.upper() == name else ("let %s = 7u64;" % name)
        box = kv.get("box") == "1"
        mac = "box_arr" if box else "arr"
        inv = {"repty": "%s![%s; U3]" % (mac, name), "repconst": "%s![%s; 3]" % (mac, name),
               "list": "%s![%s, %s, %s]" % (mac, name, name, name)}[form]
        ty = "Box<GenericArray<u64, U3>>" if box else "GenericArray<u64, U3>"
        return ("pub fn check() -> bool {\n    use generic_array::box_arr;\n    #[allow(non_upper_case_globals, unused_variables, dead_code)]\n    %s\n"
                "    let a: %s = %s;\n    a.as_slice() == &[7u64; 3]\n}") % (decl, ty, inv)
    if kv.get("op") == "noncopy":
        # what the native repeat expression `[x; n]` accepts, the repeat forms accept: a const item of any type as the
        # operand (any n, also in const positions), and any value for n <= 1 (it is moved, or dropped for n = 0)
        n = int(kv["n"])
        box = kv.get("box") == "1"
        mac = "box_arr" if box else "arr"
        ln = tn(n) if form == "repty" else str(n)
        if kv["operand"] == "constitem":
            ty = "GenericArray<Vec<u8>, %s>" % tn(n)
            inv = "%s![EMPTY; %s]" % (mac, ln)
            if pos in ("const", "static") and not box:
                return ("const EMPTY: Vec<u8> = Vec::new();\n%s A: %s = %s;\n"
                        "pub fn check() -> bool { A.len() == %d && A.iter().all(|v| v.is_empty()) }") % (pos, ty, inv, n)
            return ("pub fn check() -> bool {\n    use generic_array::box_arr;\n    const EMPTY: Vec<u8> = Vec::new();\n"
                    "    let a = %s;\n    let b: &%s = &a;\n    b.len() == %d && b.iter().all(|v| v.is_empty())\n}") % (inv, ty, n)
        ty = "GenericArray<String, %s>" % tn(n)
        inv = "%s![String::from(\"x\"); %s]" % (mac, ln)
        return ("pub fn check() -> bool {\n    use generic_array::box_arr;\n    let a = %s;\n    let b: &%s = &a;\n"
                "    b.len() == %d && b.iter().all(|v| v == \"x\")\n}") % (inv, ty, n)
    if form == "list":
        k, tr = int(kv["k"]), int(kv.get("trail", 0))
        body = ", ".join("%du64" % (1000 + 7 * i) for i in range(k)) + "," * tr
        n, want = k, "[" + ", ".join("%du64" % (1000 + 7 * i) for i in range(k)) + "]"
        mac = "arr![%s]" % body
    else:
        n = int(kv["n"])
        mac = "arr![1000u64; %s]" % (tn(n) if form == "repty" else str(n))
        want = "[1000u64; %d]" % n
    ty = "GenericArray<u64, %s>" % tn(n)
    if pos == "const":
        decl = "const A: %s = %s;" % (ty, mac)
        use = "A"
    elif pos == "static":
        decl = "static A: %s = %s;" % (ty, mac)
        use = "A"
    else:
        decl = "const fn f() -> %s { %s }\nconst A: %s = f();" % (ty, mac, ty)
        use = "A"
    chk = "pub fn check() -> bool { let w: [u64; %d] = %s; %s.as_slice() == &w[..] && %s.len() == %d }" % (n, want, use, use, n)
    return decl + "\n" + chk


def arrconst_runner(lines):
    items = [(str(k), arrconst_item(l)) for k, l in enumerate(lines)]
    verdict, _ = corpus.accept_bundle(items)
    out = {}
    for k, l in enumerate(lines):
        v = verdict.get(str(k), "reject:?")
        if v in ("ok", "ok-alone"):
            out[str(k)] = "accept | orc=ok"
        elif v.startswith("FAIL"):
            out[str(k)] = "accept | orc=FAIL(const value differs from the literal's)"
        else:
            code = v.split(":")[1] if ":" in v else "?"
            out[str(k)] = "reject | orc=FAIL(not usable in a const position: %s)" % v.replace("|", "/")[:200]
    if "<bundle>" in verdict:
        out["0"] = "reject | orc=FAIL(%s)" % verdict["<bundle>"][:200]
    return out


# ------------------------------------------------------------------------------------------------
# C18: the const API in const items
# ------------------------------------------------------------------------------------------------

TYS = {
    "u8": ("u8", lambda i: "%du8" % ((i * 7 + 3) % 256), 1),
    "u32": ("u32", lambda i: "%du32" % (i * 1000 + 1), 4),
    "t2": ("(u8, u16)", lambda i: "(%du8, %du16)" % (i % 256, (i * 3 + 1) % 65536), 4),
    "unit": ("()", lambda i: "()", 0),
}


# direct `const_transmute` calls: (A, B, value, check of X (const) against y (run time), size A, size B, align A, align B)
XMUTE = [
    ("[u8; 4]", "u32", "[1, 2, 3, 4]", "X == y && X == u32::from_ne_bytes([1, 2, 3, 4])", 4, 4, 1, 4),
    ("[u16; 2]", "u32", "[1, 2]", "X == y", 4, 4, 2, 4),
    ("GenericArray<u8, U8>", "GenericArray<u32, U2>", "GenericArray::<u8, U8>::from_array([1, 2, 3, 4, 5, 6, 7, 8])", "X == y && X[0] == u32::from_ne_bytes([1, 2, 3, 4])", 8, 8, 1, 4),
    ("u32", "[u8; 4]", "0x01020304u32", "X == y && X == 0x01020304u32.to_ne_bytes()", 4, 4, 4, 1),
    ("[u8; 8]", "u64", "[1, 2, 3, 4, 5, 6, 7, 8]", "X == y", 8, 8, 1, 8),
    ("[u8; 16]", "u128", "[7; 16]", "X == y", 16, 16, 1, 16),
    ("GenericArray<u8, U3>", "[u8; 3]", "GenericArray::<u8, U3>::from_array([9, 8, 7])", "X == y && X == [9, 8, 7]", 3, 3, 1, 1),
    ("[u8; 4]", "[u8; 2]", "[1, 2, 3, 4]", "X == y", 4, 2, 1, 1),
    ("[u8; 2]", "u32", "[1, 2]", "X == y", 2, 4, 1, 4),
    ("()", "[u32; 0]", "()", "X == y", 0, 0, 1, 4),
]


def lit(ty, lo, count):
    return "[" + ", ".join(TYS[ty][1](lo + i) for i in range(count)) + "]"


WRITE_SLICE = "let mut j = 0; while j < s.len() { s[j] = V[base + j]; j += 1; }"


def constapi_item(line):
    """-> (code, expect) where expect is 'accept' or 'panic' (the documented panic)"""
    kv = kvs(line)
    fn, ty = kv["fn"], kv.get("ty", "u8")
    n, ln, k = int(kv.get("n", 0)), int(kv.get("len", 0)), int(kv.get("k", 0))
    T = TYS[ty][0]
    GA = "GenericArray::<%s, U%d>" % (T, n)
    GT = "GenericArray<%s, U%d>" % (T, n)
    D = "const D: [%s; %d] = %s;\n" % (T, ln, lit(ty, 0, ln))
    V = "const V: [%s; %d] = %s;\n" % (T, ln, lit(ty, 100, ln))
    if fn == "const_transmute":
        A, B, val, want = XMUTE[int(kv["pair"])][:4]
        code = ("const X: %s = unsafe { generic_array::const_transmute::<%s, %s>(%s) };\n"
                "pub fn check() -> bool { let y: %s = unsafe { generic_array::const_transmute::<%s, %s>(%s) }; %s }") % (
            B, A, B, val, B, A, B, val, want)
        return code, ("accept" if int(kv["sa"]) == int(kv["sb"]) else "panic")
    if fn == "len":
        return "const L: usize = %s::len();\npub fn check() -> bool { L == %d && %s::len() == %d }" % (GA, n, GA, n), "accept"
    if fn == "chunks_from_slice":
        if n == 0 and ln > 0:
            return D + "const R: (&[%s], &[%s]) = %s::chunks_from_slice(&D);\npub fn check() -> bool { R.0.len() == 0 }" % (GT, T, GA), "panic"
        dv, md = (ln // n, ln % n) if n else (0, 0)
        return D + ("const R: (&[%s], &[%s]) = %s::chunks_from_slice(&D);\n"
                    "pub fn check() -> bool {\n    let (c, r) = R;\n    let (c2, r2) = %s::chunks_from_slice(&D);\n"
                    "    c.len() == %d && r.len() == %d && c == c2 && r == r2 && c.iter().flat_map(|a| a.iter()).chain(r.iter()).eq(D.iter())\n}") % (GT, T, GA, GA, dv, md), "accept"
    if fn == "chunks_from_slice_mut":
        dv, md = (ln // n, ln % n) if n else (0, 0)
        code = D + V + ("const fn run(mut d: [%s; %d]) -> ([%s; %d], usize, usize) {\n    let nc; let nr;\n    {\n"
                        "        let (c, r) = %s::chunks_from_slice_mut(&mut d);\n        nc = c.len(); nr = r.len();\n"
                        "        let mut i = 0;\n        while i < c.len() { let s = c[i].as_mut_slice(); let base = i * %d; %s i += 1; }\n"
                        "        { let s = r; let base = nc * %d; %s }\n    }\n    (d, nc, nr)\n}\n"
                        "const W: ([%s; %d], usize, usize) = run(D);\n"
                        "pub fn check() -> bool { W.0 == V && W.1 == %d && W.2 == %d && run(D) == W }") % (
            T, ln, T, ln, GA, n, WRITE_SLICE, n, WRITE_SLICE, T, ln, dv, md)
        return code, ("panic" if n == 0 and ln > 0 else "accept")
    if fn == "from_slice":
        code = D + "const R: &%s = %s::from_slice(&D);\npub fn check() -> bool { R.as_slice() == &D[..] && %s::from_slice(&D) == R }" % (GT, GA, GA)
        return code, ("accept" if ln == n else "panic")
    if fn == "try_from_slice":
        code = D + ("const R: Result<&%s, generic_array::LengthError> = %s::try_from_slice(&D);\n"
                    "pub fn check() -> bool { (match R { Ok(a) => %s && a.as_slice() == &D[..], Err(_) => %s }) && R.is_ok() == %s::try_from_slice(&D).is_ok() }") % (
            GT, GA, "true" if ln == n else "false", "false" if ln == n else "true", GA)
        return code, "accept"
    if fn == "from_mut_slice":
        code = D + V + ("const fn run(mut d: [%s; %d]) -> [%s; %d] {\n    { let a = %s::from_mut_slice(&mut d); let s = a.as_mut_slice(); let base = 0; %s }\n    d\n}\n"
                        "const W: [%s; %d] = run(D);\npub fn check() -> bool { W == V && run(D) == V }") % (T, ln, T, ln, GA, WRITE_SLICE, T, ln)
        return code, ("accept" if ln == n else "panic")
    if fn == "try_from_mut_slice":
        code = D + V + ("const fn run(mut d: [%s; %d]) -> ([%s; %d], bool) {\n    let ok = match %s::try_from_mut_slice(&mut d) {\n"
                        "        Ok(a) => { let s = a.as_mut_slice(); let base = 0; %s true }\n        Err(_) => false,\n    };\n    (d, ok)\n}\n"
                        "const W: ([%s; %d], bool) = run(D);\npub fn check() -> bool { W.1 == %s && W.0 == %s && run(D) == W }") % (
            T, ln, T, ln, GA, WRITE_SLICE, T, ln, "true" if ln == n else "false", "V" if ln == n else "D")
        return code, "accept"
    # chunk-array based data: k arrays of n
    rows = ["[" + ", ".join(TYS[ty][1](i * n + j) for j in range(n)) + "]" for i in range(k)]
    FLAT = "const FLAT: [%s; %d] = %s;\n" % (T, k * n, lit(ty, 0, k * n))
    VK = "const V: [%s; %d] = %s;\n" % (T, k * n, lit(ty, 100, k * n))
    CG = "const C: [%s; %d] = [%s];\n" % (GT, k, ", ".join("%s::from_array(%s)" % (GA, r) for r in rows))
    CN = "const C: [[%s; %d]; %d] = [%s];\n" % (T, n, k, ", ".join(rows))
    if fn == "slice_from_chunks":
        return CG + FLAT + ("const R: &[%s] = %s::slice_from_chunks(&C);\n"
                            "pub fn check() -> bool { R.len() == %d && R == &FLAT[..] && %s::slice_from_chunks(&C) == R }") % (T, GA, k * n, GA), "accept"
    if fn == "slice_from_chunks_mut":
        return CG + VK + ("const fn run(mut c: [%s; %d]) -> [%s; %d] {\n    { let s = %s::slice_from_chunks_mut(&mut c); let base = 0; %s }\n    c\n}\n"
                          "const W: [%s; %d] = run(C);\n"
                          "pub fn check() -> bool { %s::slice_from_chunks(&W) == &V[..] && run(C) == W }") % (GT, k, GT, k, GA, WRITE_SLICE, GT, k, GA), "accept"
    if fn == "from_chunks":
        return CN + ("const R: &[%s] = %s::from_chunks(&C);\nconst S: &[[%s; %d]] = %s::into_chunks(R);\n"
                     "pub fn check() -> bool { R.len() == %d && S == &C[..] && R.iter().zip(C.iter()).all(|(a, b)| a.as_slice() == &b[..]) }") % (
            GT, GA, T, n, GA, k), "accept"
    if fn == "into_chunks":
        return CG + ("const S: &[[%s; %d]] = %s::into_chunks(&C);\nconst R: &[%s] = %s::from_chunks(S);\n"
                     "pub fn check() -> bool { S.len() == %d && R == &C[..] && S.iter().zip(C.iter()).all(|(b, a)| a.as_slice() == &b[..]) }") % (
            T, n, GA, GT, GA, k), "accept"
    if fn == "from_chunks_mut":
        return CN + VK + ("const fn run(mut c: [[%s; %d]; %d]) -> [[%s; %d]; %d] {\n    {\n        let r = %s::from_chunks_mut(&mut c);\n        let mut i = 0;\n"
                          "        while i < r.len() { let s = r[i].as_mut_slice(); let base = i * %d; %s i += 1; }\n    }\n    c\n}\n"
                          "const W: [[%s; %d]; %d] = run(C);\n"
                          "pub fn check() -> bool { W.iter().flat_map(|a| a.iter()).eq(V.iter()) && run(C) == W }") % (T, n, k, T, n, k, GA, n, WRITE_SLICE, T, n, k), "accept"
    if fn == "into_chunks_mut":
        return CG + VK + ("const fn run(mut c: [%s; %d]) -> [%s; %d] {\n    {\n        let r: &mut [[%s; %d]] = %s::into_chunks_mut(&mut c);\n        let mut i = 0;\n"
                          "        while i < r.len() { let s = &mut r[i]; let base = i * %d; %s i += 1; }\n    }\n    c\n}\n"
                          "const W: [%s; %d] = run(C);\n"
                          "pub fn check() -> bool { %s::slice_from_chunks(&W) == &V[..] && run(C) == W }") % (GT, k, GT, k, T, n, GA, n, WRITE_SLICE, GT, k, GA), "accept"
    # whole-array forms (len = n)
    D = "const D: [%s; %d] = %s;\n" % (T, n, lit(ty, 0, n))
    V = "const V: [%s; %d] = %s;\n" % (T, n, lit(ty, 100, n))
    if fn in ("from_array", "into_array"):
        return D + ("const A: %s = %s::from_array(D);\nconst B: [%s; %d] = %s::into_array(A);\n"
                    "pub fn check() -> bool { A.as_slice() == &D[..] && B == D && %s::from_array(D) == A && %s::into_array(A) == B }") % (
            GT, GA, T, n, GA, GA, "<%s>" % GT), "accept"
    if fn == "as_slice":
        return D + "const A: %s = %s::from_array(D);\nconst S: &[%s] = A.as_slice();\npub fn check() -> bool { S == &D[..] && S.len() == %d }" % (GT, GA, T, n), "accept"
    if fn == "as_mut_slice":
        return D + V + ("const fn run(mut a: %s) -> %s { { let s = a.as_mut_slice(); let base = 0; %s } a }\n"
                        "const W: %s = run(%s::from_array(D));\npub fn check() -> bool { W.as_slice() == &V[..] && run(%s::from_array(D)) == W }") % (
            GT, GT, WRITE_SLICE, GT, GA, GA), "accept"
    if fn == "uninit":
        return V + ("const A: %s = {\n    let mut u = %s::uninit();\n    { let s = u.as_mut_slice(); let mut j = 0; while j < s.len() { s[j] = core::mem::MaybeUninit::new(V[j]); j += 1; } }\n"
                    "    unsafe { %s::assume_init(u) }\n};\npub fn check() -> bool { A.as_slice() == &V[..] }") % (GT, GA, GA), "accept"
    raise ValueError("unknown fn " + fn)


def classify_reject(v):
    """verdict string from corpus.accept_bundle / compile_one -> model vocabulary"""
    if "E0080" in v and "panicked" in v:
        return "panic"
    if "E0080" in v:
        return "ub"
    if "E0015" in v or "E0658" in v:
        return "notconst"
    return "reject"


def constapi_runner(lines):
    import concurrent.futures
    built = [constapi_item(l) for l in lines]
    acc = [(str(k), c) for k, (c, e) in enumerate(built) if e == "accept"]
    rej = [(k, c) for k, (c, e) in enumerate(built) if e != "accept"]
    out = {}
    # accept items: a dozen bundles compiled in parallel
    parts = [acc[i::12] for i in range(12) if acc[i::12]]
    with concurrent.futures.ThreadPoolExecutor(max_workers=12) as ex:
        results = list(ex.map(lambda p: corpus.accept_bundle(p)[0], parts))
    verdict = {}
    for r in results:
        verdict.update({k: v for k, v in r.items() if k != "<bundle>"})
        if "<bundle>" in r:
            verdict.setdefault("<bundle>", r["<bundle>"])
    for k, _ in acc:
        v = verdict.get(k, "reject:?")
        if v in ("ok", "ok-alone"):
            out[k] = "accept | orc=ok"
        elif v.startswith("FAIL"):
            out[k] = "accept | orc=FAIL(compile-time value differs from run time or from the expected contents)"
        else:
            out[k] = "%s | orc=FAIL(%s)" % (classify_reject(v), v.replace("|", "/")[:220])
    # documented panics: compiled one by one, must be rejected as "evaluation panicked"
    rs = corpus.compile_many([corpus.PRELUDE + c for _, c in rej], "check")
    for (k, _), r in zip(rej, rs):
        if r["ok"]:
            out[str(k)] = "accept | orc=FAIL(the documented panic did not happen at compile time)"
        else:
            v = "reject:%s: %s" % (",".join(sorted(set(e["code"] for e in r["errors"]))), r["errors"][0]["message"][:160])
            cls = classify_reject(v)
            out[str(k)] = "%s | orc=%s" % (cls, "ok" if cls == "panic" else "FAIL(%s)" % v.replace("|", "/")[:220])
    if "<bundle>" in verdict and acc:
        out[acc[0][0]] = "reject | orc=FAIL(%s)" % verdict["<bundle>"][:200]
    return out


# ------------------------------------------------------------------------------------------------
# C12: accept / reject programs (lengths, auto traits, lifetimes)
# ------------------------------------------------------------------------------------------------

def G(n, t="u8"):
    return "GenericArray<%s, U%d>" % (t, n)


def spec_len(form, a, b):
    """python copy of the specification (used only to decide how to batch the compilations and as the oracle)"""
    if form in ("append", "prepend"):
        return [a + 1]
    if form in ("pop_back", "pop_front", "remove", "swap_remove"):
        return [a - 1] if a >= 1 else None
    if form in ("split", "split_ref", "split_mut"):
        return [b, a - b] if b <= a else None
    if form == "concat":
        return [a + b]
    if form == "flatten":
        return [a * b]
    if form == "unflatten":
        return [a // b] if b > 0 else None
    if form == "zip":
        return [a] if a == b else None
    if form in ("eq", "partial_cmp", "cmp", "eq_native", "eq_native_rev", "lt_native", "eq_native_ref"):
        # comparing different lengths is a compile error, whatever the other operand is (the cross-type forms are
        # generated for a != b only: the crate has no comparison with native arrays, and one for equal lengths would be harmless)
        return [] if a == b else None
    if form in ("from_tuple", "into_tuple"):
        return [a] if (a == b and 1 <= b <= 12) else None
    # native / const-length conversions: a = type-level N, b = native U
    return [b if form in ("into_array", "into_chunks", "into_chunks_mut") else a] if a == b else None


def ann_len(ann, default="_"):
    return default if ann == "infer" else "U%s" % ann


def len_program(form, a, b, ann):
    """body of `pub fn f(..)`; `ann` = 'infer' or the annotated result length"""
    L = ann_len(ann)
    Ln = "_" if ann == "infer" else ann          # for native lengths
    if form == "append":
        return "pub fn f(x: %s) { let r: GenericArray<u8, %s> = x.append(0); }" % (G(a), L)
    if form == "prepend":
        return "pub fn f(x: %s) { let r: GenericArray<u8, %s> = x.prepend(0); }" % (G(a), L)
    if form == "pop_back":
        return "pub fn f(x: %s) { let (r, _e): (GenericArray<u8, %s>, u8) = x.pop_back(); }" % (G(a), L)
    if form == "pop_front":
        return "pub fn f(x: %s) { let (_e, r): (u8, GenericArray<u8, %s>) = x.pop_front(); }" % (G(a), L)
    if form == "remove":
        return "pub fn f(x: %s) { let (_e, r): (u8, GenericArray<u8, %s>) = x.remove(0); }" % (G(a), L)
    if form == "swap_remove":
        return "pub fn f(x: %s) { let (_e, r): (u8, GenericArray<u8, %s>) = x.swap_remove(0); }" % (G(a), L)
    if form == "split":
        return "pub fn f(x: %s) { let (p, q): (%s, GenericArray<u8, %s>) = x.split(); }" % (G(a), G(b), L)
    if form == "split_ref":
        return "pub fn f(x: &%s) { let (p, q): (&%s, &GenericArray<u8, %s>) = x.split(); }" % (G(a), G(b), L)
    if form == "split_mut":
        return "pub fn f(x: &mut %s) { let (p, q): (&mut %s, &mut GenericArray<u8, %s>) = x.split(); }" % (G(a), G(b), L)
    if form == "concat":
        return "pub fn f(x: %s, y: %s) { let r: GenericArray<u8, %s> = x.concat(y); }" % (G(a), G(b), L)
    if form == "flatten":
        return "pub fn f(x: GenericArray<%s, U%d>) { let r: GenericArray<u8, %s> = x.flatten(); }" % (G(a), b, L)
    if form == "unflatten":
        return "pub fn f(x: %s) { let r: GenericArray<%s, %s> = x.unflatten(); }" % (G(a), G(b), L)
    if form == "zip":
        return "pub fn f(x: %s, y: %s) { let r: GenericArray<u8, %s> = x.zip(y, |p, q| p ^ q); }" % (G(a), G(b), L)
    if form == "eq":
        return "pub fn f(x: %s, y: %s) -> bool { x == y }" % (G(a), G(b))
    if form == "eq_native":
        return "pub fn f(x: %s, y: [u8; %d]) -> bool { x == y }" % (G(a), b)
    if form == "eq_native_rev":
        return "pub fn f(x: [u8; %d], y: %s) -> bool { x == y }" % (b, G(a))
    if form == "eq_native_ref":
        return "pub fn f(x: &%s, y: &[u8; %d]) -> bool { *x == *y }" % (G(a), b)
    if form == "lt_native":
        return "pub fn f(x: %s, y: [u8; %d]) -> bool { x < y }" % (G(a), b)
    if form == "partial_cmp":
        return "pub fn f(x: %s, y: %s) -> bool { x.partial_cmp(&y).is_some() || x < y }" % (G(a), G(b))
    if form == "cmp":
        return "pub fn f(x: %s, y: %s) -> bool { x.cmp(&y).is_eq() }" % (G(a), G(b))
    if form == "from_array":
        return "pub fn f(x: [u8; %d]) { let r: %s = GenericArray::from_array(x); }" % (b, G(a))
    if form == "into_array":
        return "pub fn f(x: %s) { let r: [u8; %d] = x.into_array(); }" % (G(a), b)
    if form == "from_native":
        return "pub fn f(x: [u8; %d]) { let r: %s = GenericArray::from(x); }" % (b, G(a))
    if form == "into_native":
        return "pub fn f(x: %s) { let r: [u8; %d] = x.into(); }" % (G(a), b)
    if form == "ref_native":
        return "pub fn f(x: &[u8; %d]) { let r: &%s = x.into(); }" % (b, G(a))
    if form == "mutref_native":
        return "pub fn f(x: &mut [u8; %d]) { let r: &mut %s = x.into(); }" % (b, G(a))
    if form == "asref_native":
        return "pub fn f(x: &%s) { let r: &[u8; %d] = x.as_ref(); }" % (G(a), b)
    if form == "asmut_native":
        return "pub fn f(x: &mut %s) { let r: &mut [u8; %d] = x.as_mut(); }" % (G(a), b)
    if form == "from_chunks":
        return "pub fn f(x: &[[u8; %d]]) { let r: &[%s] = GenericArray::from_chunks(x); }" % (b, G(a))
    if form == "from_chunks_mut":
        return "pub fn f(x: &mut [[u8; %d]]) { let r: &mut [%s] = GenericArray::from_chunks_mut(x); }" % (b, G(a))
    if form == "into_chunks":
        return "pub fn f(x: &[%s]) { let r: &[[u8; %d]] = GenericArray::into_chunks(x); }" % (G(a), b)
    if form == "into_chunks_mut":
        return "pub fn f(x: &mut [%s]) { let r: &mut [[u8; %d]] = GenericArray::into_chunks_mut(x); }" % (G(a), b)
    if form == "from_tuple":
        return "pub fn f(x: (%s)) { let r: %s = x.into(); }" % ("u8, " * b, G(a))
    if form == "into_tuple":
        return "pub fn f(x: %s) { let r: (%s) = x.into(); }" % (G(a), "u8, " * b)
    raise ValueError(form)


ELEMS = {
    "u8": ("u8", (1, 1, 1, 1)), "rc": ("std::rc::Rc<u8>", (0, 0, 0, 1)), "cell": ("std::cell::Cell<u8>", (1, 0, 0, 1)),
    "guard": ("std::sync::MutexGuard<'static, u8>", (0, 1, 0, 0)), "string": ("String", (1, 1, 0, 1)), "noclone": ("NoClone", (1, 1, 0, 0)),
}
TRAITS = {"send": ("Send", 0), "sync": ("Sync", 1), "copy": ("Copy", 2), "clone": ("Clone", 3)}


GENERIC_N = 9999


def auto_program(trait, target, elem, n):
    T = ELEMS[elem][0]
    if n == GENERIC_N:
        # the length is a type parameter: the verdict may depend on the element type only
        ty = {"array": "GenericArray<%s, N>" % T, "ref": "&'static GenericArray<%s, N>" % T, "iter": "GenericArrayIter<%s, N>" % T}[target]
        return "pub struct NoClone(u8);\nfn need<X: %s>() {}\npub fn f<N: ArrayLength>() { need::<%s>(); }" % (TRAITS[trait][0], ty)
    ty = {"array": "GenericArray<%s, U%d>" % (T, n), "ref": "&'static GenericArray<%s, U%d>" % (T, n),
          "iter": "GenericArrayIter<%s, U%d>" % (T, n)}[target]
    return "pub struct NoClone(u8);\nfn need<X: %s>() {}\npub fn f() { need::<%s>(); }" % (TRAITS[trait][0], ty)


def auto_spec(trait, target, elem):
    c = ELEMS[elem][1]
    if target == "ref":
        return {"send": c[1], "sync": c[1]}[trait]
    if target == "iter" and trait == "copy":
        return 0
    return c[TRAITS[trait][1]]


A4 = "let mut src: GenericArray<u8, U4> = arr![1, 2, 3, 4];"
N4 = "let mut src: [u8; 4] = [1, 2, 3, 4];"
C22 = "let mut src: [GenericArray<u8, U2>; 2] = [arr![1, 2], arr![3, 4]];"
NN22 = "let mut src: [[u8; 2]; 2] = [[1, 2], [3, 4]];"
AA22 = "let mut src: GenericArray<GenericArray<u8, U2>, U2> = arr![arr![1, 2], arr![3, 4]];"
IT4 = "let mut src: GenericArrayIter<u8, U4> = arr![1u8, 2, 3, 4].into_iter();"
# api -> (source declaration, view expression, result type with {L} for the lifetime, is it a unique borrow)
LIFE = {
    "as_slice": (A4, "src.as_slice()", "&{L} [u8]", False),
    "as_mut_slice": (A4, "src.as_mut_slice()", "&{L} mut [u8]", True),
    "from_slice": (N4, "GenericArray::<u8, U4>::from_slice(&src)", "&{L} GenericArray<u8, U4>", False),
    "try_from_slice": (N4, "GenericArray::<u8, U4>::try_from_slice(&src).unwrap()", "&{L} GenericArray<u8, U4>", False),
    "from_mut_slice": (N4, "GenericArray::<u8, U4>::from_mut_slice(&mut src)", "&{L} mut GenericArray<u8, U4>", True),
    "try_from_mut_slice": (N4, "GenericArray::<u8, U4>::try_from_mut_slice(&mut src).unwrap()", "&{L} mut GenericArray<u8, U4>", True),
    "chunks_from_slice": (N4, "GenericArray::<u8, U2>::chunks_from_slice(&src).0", "&{L} [GenericArray<u8, U2>]", False),
    "chunks_from_slice_mut": (N4, "GenericArray::<u8, U2>::chunks_from_slice_mut(&mut src).0", "&{L} mut [GenericArray<u8, U2>]", True),
    "slice_from_chunks": (C22, "GenericArray::slice_from_chunks(&src)", "&{L} [u8]", False),
    "slice_from_chunks_mut": (C22, "GenericArray::slice_from_chunks_mut(&mut src)", "&{L} mut [u8]", True),
    "from_chunks": (NN22, "GenericArray::<u8, U2>::from_chunks(&src)", "&{L} [GenericArray<u8, U2>]", False),
    "from_chunks_mut": (NN22, "GenericArray::<u8, U2>::from_chunks_mut(&mut src)", "&{L} mut [GenericArray<u8, U2>]", True),
    "into_chunks": (C22, "GenericArray::<u8, U2>::into_chunks(&src)", "&{L} [[u8; 2]]", False),
    "into_chunks_mut": (C22, "GenericArray::<u8, U2>::into_chunks_mut(&mut src)", "&{L} mut [[u8; 2]]", True),
    "deref": (A4, "core::ops::Deref::deref(&src)", "&{L} [u8]", False),
    "deref_mut": (A4, "core::ops::DerefMut::deref_mut(&mut src)", "&{L} mut [u8]", True),
    "borrow": (A4, "core::borrow::Borrow::<[u8]>::borrow(&src)", "&{L} [u8]", False),
    "borrow_mut": (A4, "core::borrow::BorrowMut::<[u8]>::borrow_mut(&mut src)", "&{L} mut [u8]", True),
    "as_ref_slice": (A4, "AsRef::<[u8]>::as_ref(&src)", "&{L} [u8]", False),
    "as_mut_slice_trait": (A4, "AsMut::<[u8]>::as_mut(&mut src)", "&{L} mut [u8]", True),
    "as_ref_array": (A4, "AsRef::<[u8; 4]>::as_ref(&src)", "&{L} [u8; 4]", False),
    "as_mut_array": (A4, "AsMut::<[u8; 4]>::as_mut(&mut src)", "&{L} mut [u8; 4]", True),
    "from_array_ref": (N4, "<&GenericArray<u8, U4>>::from(&src)", "&{L} GenericArray<u8, U4>", False),
    "from_array_mut": (N4, "<&mut GenericArray<u8, U4>>::from(&mut src)", "&{L} mut GenericArray<u8, U4>", True),
    "try_from_ref": (N4, "<&GenericArray<u8, U4>>::try_from(&src[..]).unwrap()", "&{L} GenericArray<u8, U4>", False),
    "try_from_mut": (N4, "<&mut GenericArray<u8, U4>>::try_from(&mut src[..]).unwrap()", "&{L} mut GenericArray<u8, U4>", True),
    "split_ref": (A4, "Split::<u8, U2>::split(&src).0", "&{L} GenericArray<u8, U2>", False),
    "split_mut": (A4, "Split::<u8, U2>::split(&mut src).1", "&{L} mut GenericArray<u8, U2>", True),
    "flatten_ref": (AA22, "Flatten::flatten(&src)", "&{L} GenericArray<u8, U4>", False),
    "flatten_mut": (AA22, "Flatten::flatten(&mut src)", "&{L} mut GenericArray<u8, U4>", True),
    "unflatten_ref": (A4, "Unflatten::<u8, U4, U2>::unflatten(&src)", "&{L} GenericArray<GenericArray<u8, U2>, U2>", False),
    "unflatten_mut": (A4, "Unflatten::<u8, U4, U2>::unflatten(&mut src)", "&{L} mut GenericArray<GenericArray<u8, U2>, U2>", True),
    "into_iter_ref": (A4, "(&src).into_iter().next().unwrap()", "&{L} u8", False),
    "into_iter_mut": (A4, "(&mut src).into_iter().next().unwrap()", "&{L} mut u8", True),
    "iter_as_slice": (IT4, "src.as_slice()", "&{L} [u8]", False),
    "iter_as_mut_slice": (IT4, "src.as_mut_slice()", "&{L} mut [u8]", True),
}


def life_program(api, prog):
    src, mk, ty, uniq = LIFE[api]
    t_ = lambda l: ty.replace("{L}", l)
    touch = "fn touch<X: ?Sized>(_: &X) {}\n"
    if prog == "ok":
        return touch + "pub fn f() { %s let v: %s = %s; touch(&*v); }" % (src, t_("'_"), mk)
    if prog == "escape":
        return "pub fn f() -> %s { %s let v: %s = %s; v }" % (t_("'static"), src, t_("'_"), mk)
    if prog == "moved":
        init = src.split(" = ", 1)[1]          # overwrite the source while the view is alive
        return touch + "pub fn f() { %s let v: %s = %s; src = %s touch(&*v); }" % (src, t_("'_"), mk, init)
    if prog == "alias":
        return touch + "pub fn f() { %s let v: %s = %s; let w: %s = %s; touch(&*v); touch(&*w); }" % (src, t_("'_"), mk, t_("'_"), mk)
    raise ValueError(prog)


BORROW_ERRORS = {"E0499", "E0502", "E0505", "E0506", "E0515", "E0597", "E0716", "E0521", "E0503", "E0713"}
TYPE_ERRORS = {"E0277", "E0308", "E0271", "E0599", "E0282", "E0283", "E0284", "E0369", "E0275"}


def types_item(line):
    kv = kvs(line)
    if kv["op"] == "len":
        a, b = int(kv.get("a", 0)), int(kv.get("b", 0))
        sp = spec_len(kv["form"], a, b)
        ann = kv.get("ann", "infer")
        ok = sp is not None and (ann == "infer" or not sp or sp[-1] == int(ann))
        return len_program(kv["form"], a, b, ann), ("accept" if ok else "reject"), TYPE_ERRORS
    if kv["op"] == "auto":
        ok = auto_spec(kv["trait"], kv["target"], kv["elem"])
        return auto_program(kv["trait"], kv["target"], kv["elem"], int(kv.get("n", 3))), ("accept" if ok else "reject"), {"E0277"}
    if kv["op"] == "life":
        prog = kv["prog"]
        uniq = LIFE[kv["api"]][3]
        ok = prog == "ok" or (prog == "alias" and not uniq)
        return life_program(kv["api"], prog), ("accept" if ok else "reject"), BORROW_ERRORS
    raise ValueError(line)


def types_runner(lines):
    import concurrent.futures
    built = [types_item(l) for l in lines]
    out = {}
    acc = [(str(k), c + "\npub fn check() -> bool { true }") for k, (c, e, _) in enumerate(built) if e == "accept"]
    rej = [(k, c) for k, (c, e, _) in enumerate(built) if e != "accept"]
    parts = [acc[i::12] for i in range(12) if acc[i::12]]
    with concurrent.futures.ThreadPoolExecutor(max_workers=12) as ex:
        results = list(ex.map(lambda p: corpus.accept_bundle(p, run=False)[0], parts))
    verdict = {}
    for r in results:
        verdict.update(r)
    for k, _ in acc:
        v = verdict.get(k, "reject:?")
        if v in ("ok", "ok-alone") or v.startswith("FAIL(no-answer"):
            out[k] = "accept | orc=ok"
        else:
            out[k] = "reject | orc=FAIL(a correct program is rejected: %s)" % v.replace("|", "/")[:200]
    rs = corpus.compile_many([corpus.PRELUDE + c for _, c in rej], "check")
    for (k, _), r in zip(rej, rs):
        want = built[k][2]
        if r["ok"]:
            out[str(k)] = "accept | orc=FAIL(an incorrect program compiles)"
        else:
            codes = set(e["code"] for e in r["errors"])
            if codes & want:
                out[str(k)] = "reject | orc=ok"
            else:
                out[str(k)] = "reject | orc=FAIL(rejected for an unexpected reason %s: %s)" % (",".join(sorted(codes)), r["errors"][0]["message"][:120].replace("|", "/"))
    return out


# ------------------------------------------------------------------------------------------------
# C19: const_default in const items (one item per length and element type)
# ------------------------------------------------------------------------------------------------

FILL_TYS = {
    "unit": ("()", "()"),
    "u8": ("u8", "0u8"), "u64": ("u64", "0u64"), "b3": ("[u8; 3]", "[0u8; 3]"),
    "slot": ("Slot", "Slot { id: 7, wiped: false, secret: 0x1234 }"),
    "p2": ("P2", "P2 { a: 0x11, b: 0x22 }"),
    "w1": ("W1", "W1(0x33)"),
    "nest": ("GenericArray<Slot, U3>", None),
}
FILL_PRELUDE = """use const_default::ConstDefault;
#[derive(Clone, Copy, Debug, PartialEq)]
pub struct Slot { id: u32, wiped: bool, secret: u64 }
impl ConstDefault for Slot { const DEFAULT: Self = Slot { id: 7, wiped: false, secret: 0x1234 }; }
#[derive(Clone, Copy, Debug, PartialEq)]
pub struct P2 { a: u8, b: u8 }
impl ConstDefault for P2 { const DEFAULT: Self = P2 { a: 0x11, b: 0x22 }; }
#[derive(Clone, Copy, Debug, PartialEq)]
pub struct W1(u8);
impl ConstDefault for W1 { const DEFAULT: Self = W1(0x33); }
"""


def filldefault_item(line):
    kv = kvs(line)
    n, ty = int(kv["n"]), kv.get("kind", "u8")
    T, d = FILL_TYS[ty]
    if n >= 65536:
        # very long arrays: statics (a const would be copied to the stack at each use); "usable in const items for
        # every length" includes the one real use of const_default, a big static buffer
        return (FILL_PRELUDE + "static A: GenericArray<%s, U%d> = GenericArray::const_default();\n"
                "static B: GenericArray<%s, U%d> = <GenericArray<%s, U%d> as ConstDefault>::DEFAULT;\n"
                "pub fn check() -> bool { A.len() == %d && A.iter().all(|x| *x == %s) && A == B }") % (T, n, T, n, T, n, n, d)
    cmp_ = ("A.iter().all(|x| *x == %s)" % d) if d else "A.iter().all(|r| r.iter().all(|x| *x == Slot { id: 7, wiped: false, secret: 0x1234 }))"
    return (FILL_PRELUDE + "const A: GenericArray<%s, U%d> = GenericArray::const_default();\n"
            "const B: GenericArray<%s, U%d> = <GenericArray<%s, U%d> as ConstDefault>::DEFAULT;\n"
            "pub fn check() -> bool { A.len() == %d && %s && A == B && A == GenericArray::<%s, U%d>::const_default() }") % (T, n, T, n, T, n, n, cmp_, T, n)


def filldefault_runner(lines):
    import concurrent.futures
    items = [(str(k), filldefault_item(l)) for k, l in enumerate(lines)]
    parts = [items[i::8] for i in range(8) if items[i::8]]
    with concurrent.futures.ThreadPoolExecutor(max_workers=8) as ex:
        results = list(ex.map(lambda p: corpus.accept_bundle(p)[0], parts))
    verdict = {}
    for r in results:
        verdict.update(r)
    out = {}
    for k, l in enumerate(lines):
        v = verdict.get(str(k), "reject:?")
        n = int(kvs(l)["n"])
        if v in ("ok", "ok-alone"):
            out[str(k)] = "len=%d all_default=1 | orc=ok" % n
        elif v.startswith("FAIL"):
            out[str(k)] = "len=%d all_default=0 | orc=FAIL(an element of the constant default is not T::DEFAULT, or compile time and run time differ)" % n
        else:
            out[str(k)] = "rejected | orc=FAIL(%s)" % v.replace("|", "/")[:220]
    return out
