"""Compiler-verdict corpora: scenario line -> Rust program -> rustc verdict (tools/corpus.py)."""
import corpus


def kvs(line):
    return dict(t.split("=", 1) for t in line.split() if "=" in t)


# ------------------------------------------------------------------------------------------------
# C20: arr! in const positions
# ------------------------------------------------------------------------------------------------

def arrconst_item(line):
    kv = kvs(line)
    pos = kv.get("pos", "const")
    form = kv["form"]
    if form == "list":
        k, tr = int(kv["k"]), int(kv.get("trail", 0))
        body = ", ".join("%du64" % (1000 + 7 * i) for i in range(k)) + "," * tr
        n, want = k, "[" + ", ".join("%du64" % (1000 + 7 * i) for i in range(k)) + "]"
        mac = "arr![%s]" % body
    else:
        n = int(kv["n"])
        mac = "arr![1000u64; %s]" % (("U%d" % n) if form == "repty" else str(n))
        want = "[1000u64; %d]" % n
    ty = "GenericArray<u64, U%d>" % n
    if pos == "const":
        decl = "const A: %s = %s;" % (ty, mac)
        use = "A"
    elif pos == "static":
        decl = "static A: %s = %s;" % (ty, mac)
        use = "A"
    else:
        decl = "const fn f() -> %s { %s }\nconst A: %s = f();" % (ty, mac, ty)
        use = "A"
    chk = "pub fn check() -> bool { let w: [u64; %d] = %s; %s.as_slice() == &w[..] && %s.len() == %d }" % (n, want, use, use, n)
    return decl + "\n" + chk


def arrconst_runner(lines):
    items = [(str(k), arrconst_item(l)) for k, l in enumerate(lines)]
    verdict, _ = corpus.accept_bundle(items)
    out = {}
    for k, l in enumerate(lines):
        v = verdict.get(str(k), "reject:?")
        if v in ("ok", "ok-alone"):
            out[str(k)] = "accept | orc=ok"
        elif v.startswith("FAIL"):
            out[str(k)] = "accept | orc=FAIL(const value differs from the literal's)"
        else:
            code = v.split(":")[1] if ":" in v else "?"
            out[str(k)] = "reject | orc=FAIL(not usable in a const position: %s)" % v.replace("|", "/")[:200]
    if "<bundle>" in verdict:
        out["0"] = "reject | orc=FAIL(%s)" % verdict["<bundle>"][:200]
    return out


# ------------------------------------------------------------------------------------------------
# C18: the const API in const items
# ------------------------------------------------------------------------------------------------

TYS = {
    "u8": ("u8", lambda i: "%du8" % ((i * 7 + 3) % 256), 1),
    "u32": ("u32", lambda i: "%du32" % (i * 1000 + 1), 4),
    "t2": ("(u8, u16)", lambda i: "(%du8, %du16)" % (i % 256, (i * 3 + 1) % 65536), 4),
    "unit": ("()", lambda i: "()", 0),
}


def lit(ty, lo, count):
    return "[" + ", ".join(TYS[ty][1](lo + i) for i in range(count)) + "]"


WRITE_SLICE = "let mut j = 0; while j < s.len() { s[j] = V[base + j]; j += 1; }"


def constapi_item(line):
    """-> (code, expect) where expect is 'accept' or 'panic' (the documented panic)"""
    kv = kvs(line)
    fn, ty = kv["fn"], kv.get("ty", "u8")
    n, ln, k = int(kv.get("n", 0)), int(kv.get("len", 0)), int(kv.get("k", 0))
    T = TYS[ty][0]
    GA = "GenericArray::<%s, U%d>" % (T, n)
    GT = "GenericArray<%s, U%d>" % (T, n)
    D = "const D: [%s; %d] = %s;\n" % (T, ln, lit(ty, 0, ln))
    V = "const V: [%s; %d] = %s;\n" % (T, ln, lit(ty, 100, ln))
    if fn == "len":
        return "const L: usize = %s::len();\npub fn check() -> bool { L == %d && %s::len() == %d }" % (GA, n, GA, n), "accept"
    if fn == "chunks_from_slice":
        if n == 0 and ln > 0:
            return D + "const R: (&[%s], &[%s]) = %s::chunks_from_slice(&D);\npub fn check() -> bool { R.0.len() == 0 }" % (GT, T, GA), "panic"
        dv, md = (ln // n, ln % n) if n else (0, 0)
        return D + ("const R: (&[%s], &[%s]) = %s::chunks_from_slice(&D);\n"
                    "pub fn check() -> bool {\n    let (c, r) = R;\n    let (c2, r2) = %s::chunks_from_slice(&D);\n"
                    "    c.len() == %d && r.len() == %d && c == c2 && r == r2 && c.iter().flat_map(|a| a.iter()).chain(r.iter()).eq(D.iter())\n}") % (GT, T, GA, GA, dv, md), "accept"
    if fn == "chunks_from_slice_mut":
        dv, md = (ln // n, ln % n) if n else (0, 0)
        code = D + V + ("const fn run(mut d: [%s; %d]) -> ([%s; %d], usize, usize) {\n    let nc; let nr;\n    {\n"
                        "        let (c, r) = %s::chunks_from_slice_mut(&mut d);\n        nc = c.len(); nr = r.len();\n"
                        "        let mut i = 0;\n        while i < c.len() { let s = c[i].as_mut_slice(); let base = i * %d; %s i += 1; }\n"
                        "        { let s = r; let base = nc * %d; %s }\n    }\n    (d, nc, nr)\n}\n"
                        "const W: ([%s; %d], usize, usize) = run(D);\n"
                        "pub fn check() -> bool { W.0 == V && W.1 == %d && W.2 == %d && run(D) == W }") % (
            T, ln, T, ln, GA, n, WRITE_SLICE, n, WRITE_SLICE, T, ln, dv, md)
        return code, ("panic" if n == 0 and ln > 0 else "accept")
    if fn == "from_slice":
        code = D + "const R: &%s = %s::from_slice(&D);\npub fn check() -> bool { R.as_slice() == &D[..] && %s::from_slice(&D) == R }" % (GT, GA, GA)
        return code, ("accept" if ln == n else "panic")
    if fn == "try_from_slice":
        code = D + ("const R: Result<&%s, generic_array::LengthError> = %s::try_from_slice(&D);\n"
                    "pub fn check() -> bool { (match R { Ok(a) => %s && a.as_slice() == &D[..], Err(_) => %s }) && R.is_ok() == %s::try_from_slice(&D).is_ok() }") % (
            GT, GA, "true" if ln == n else "false", "false" if ln == n else "true", GA)
        return code, "accept"
    if fn == "from_mut_slice":
        code = D + V + ("const fn run(mut d: [%s; %d]) -> [%s; %d] {\n    { let a = %s::from_mut_slice(&mut d); let s = a.as_mut_slice(); let base = 0; %s }\n    d\n}\n"
                        "const W: [%s; %d] = run(D);\npub fn check() -> bool { W == V && run(D) == V }") % (T, ln, T, ln, GA, WRITE_SLICE, T, ln)
        return code, ("accept" if ln == n else "panic")
    if fn == "try_from_mut_slice":
        code = D + V + ("const fn run(mut d: [%s; %d]) -> ([%s; %d], bool) {\n    let ok = match %s::try_from_mut_slice(&mut d) {\n"
                        "        Ok(a) => { let s = a.as_mut_slice(); let base = 0; %s true }\n        Err(_) => false,\n    };\n    (d, ok)\n}\n"
                        "const W: ([%s; %d], bool) = run(D);\npub fn check() -> bool { W.1 == %s && W.0 == %s && run(D) == W }") % (
            T, ln, T, ln, GA, WRITE_SLICE, T, ln, "true" if ln == n else "false", "V" if ln == n else "D")
        return code, "accept"
    # chunk-array based data: k arrays of n
    rows = ["[" + ", ".join(TYS[ty][1](i * n + j) for j in range(n)) + "]" for i in range(k)]
    FLAT = "const FLAT: [%s; %d] = %s;\n" % (T, k * n, lit(ty, 0, k * n))
    VK = "const V: [%s; %d] = %s;\n" % (T, k * n, lit(ty, 100, k * n))
    CG = "const C: [%s; %d] = [%s];\n" % (GT, k, ", ".join("%s::from_array(%s)" % (GA, r) for r in rows))
    CN = "const C: [[%s; %d]; %d] = [%s];\n" % (T, n, k, ", ".join(rows))
    if fn == "slice_from_chunks":
        return CG + FLAT + ("const R: &[%s] = %s::slice_from_chunks(&C);\n"
                            "pub fn check() -> bool { R.len() == %d && R == &FLAT[..] && %s::slice_from_chunks(&C) == R }") % (T, GA, k * n, GA), "accept"
    if fn == "slice_from_chunks_mut":
        return CG + VK + ("const fn run(mut c: [%s; %d]) -> [%s; %d] {\n    { let s = %s::slice_from_chunks_mut(&mut c); let base = 0; %s }\n    c\n}\n"
                          "const W: [%s; %d] = run(C);\n"
                          "pub fn check() -> bool { %s::slice_from_chunks(&W) == &V[..] && run(C) == W }") % (GT, k, GT, k, GA, WRITE_SLICE, GT, k, GA), "accept"
    if fn == "from_chunks":
        return CN + ("const R: &[%s] = %s::from_chunks(&C);\nconst S: &[[%s; %d]] = %s::into_chunks(R);\n"
                     "pub fn check() -> bool { R.len() == %d && S == &C[..] && R.iter().zip(C.iter()).all(|(a, b)| a.as_slice() == &b[..]) }") % (
            GT, GA, T, n, GA, k), "accept"
    if fn == "into_chunks":
        return CG + ("const S: &[[%s; %d]] = %s::into_chunks(&C);\nconst R: &[%s] = %s::from_chunks(S);\n"
                     "pub fn check() -> bool { S.len() == %d && R == &C[..] && S.iter().zip(C.iter()).all(|(b, a)| a.as_slice() == &b[..]) }") % (
            T, n, GA, GT, GA, k), "accept"
    if fn == "from_chunks_mut":
        return CN + VK + ("const fn run(mut c: [[%s; %d]; %d]) -> [[%s; %d]; %d] {\n    {\n        let r = %s::from_chunks_mut(&mut c);\n        let mut i = 0;\n"
                          "        while i < r.len() { let s = r[i].as_mut_slice(); let base = i * %d; %s i += 1; }\n    }\n    c\n}\n"
                          "const W: [[%s; %d]; %d] = run(C);\n"
                          "pub fn check() -> bool { W.iter().flat_map(|a| a.iter()).eq(V.iter()) && run(C) == W }") % (T, n, k, T, n, k, GA, n, WRITE_SLICE, T, n, k), "accept"
    if fn == "into_chunks_mut":
        return CG + VK + ("const fn run(mut c: [%s; %d]) -> [%s; %d] {\n    {\n        let r: &mut [[%s; %d]] = %s::into_chunks_mut(&mut c);\n        let mut i = 0;\n"
                          "        while i < r.len() { let s = &mut r[i]; let base = i * %d; %s i += 1; }\n    }\n    c\n}\n"
                          "const W: [%s; %d] = run(C);\n"
                          "pub fn check() -> bool { %s::slice_from_chunks(&W) == &V[..] && run(C) == W }") % (GT, k, GT, k, T, n, GA, n, WRITE_SLICE, GT, k, GA), "accept"
    # whole-array forms (len = n)
    D = "const D: [%s; %d] = %s;\n" % (T, n, lit(ty, 0, n))
    V = "const V: [%s; %d] = %s;\n" % (T, n, lit(ty, 100, n))
    if fn in ("from_array", "into_array"):
        return D + ("const A: %s = %s::from_array(D);\nconst B: [%s; %d] = %s::into_array(A);\n"
                    "pub fn check() -> bool { A.as_slice() == &D[..] && B == D && %s::from_array(D) == A && %s::into_array(A) == B }") % (
            GT, GA, T, n, GA, GA, "<%s>" % GT), "accept"
    if fn == "as_slice":
        return D + "const A: %s = %s::from_array(D);\nconst S: &[%s] = A.as_slice();\npub fn check() -> bool { S == &D[..] && S.len() == %d }" % (GT, GA, T, n), "accept"
    if fn == "as_mut_slice":
        return D + V + ("const fn run(mut a: %s) -> %s { { let s = a.as_mut_slice(); let base = 0; %s } a }\n"
                        "const W: %s = run(%s::from_array(D));\npub fn check() -> bool { W.as_slice() == &V[..] && run(%s::from_array(D)) == W }") % (
            GT, GT, WRITE_SLICE, GT, GA, GA), "accept"
    if fn == "uninit":
        return V + ("const A: %s = {\n    let mut u = %s::uninit();\n    { let s = u.as_mut_slice(); let mut j = 0; while j < s.len() { s[j] = core::mem::MaybeUninit::new(V[j]); j += 1; } }\n"
                    "    unsafe { %s::assume_init(u) }\n};\npub fn check() -> bool { A.as_slice() == &V[..] }") % (GT, GA, GA), "accept"
    raise ValueError("unknown fn " + fn)


def classify_reject(v):
    """verdict string from corpus.accept_bundle / compile_one -> model vocabulary"""
    if "E0080" in v and "panicked" in v:
        return "panic"
    if "E0080" in v:
        return "ub"
    if "E0015" in v or "E0658" in v:
        return "notconst"
    return "reject"


def constapi_runner(lines):
    import concurrent.futures
    built = [constapi_item(l) for l in lines]
    acc = [(str(k), c) for k, (c, e) in enumerate(built) if e == "accept"]
    rej = [(k, c) for k, (c, e) in enumerate(built) if e != "accept"]
    out = {}
    # accept items: a dozen bundles compiled in parallel
    parts = [acc[i::12] for i in range(12) if acc[i::12]]
    with concurrent.futures.ThreadPoolExecutor(max_workers=12) as ex:
        results = list(ex.map(lambda p: corpus.accept_bundle(p)[0], parts))
    verdict = {}
    for r in results:
        verdict.update({k: v for k, v in r.items() if k != "<bundle>"})
        if "<bundle>" in r:
            verdict.setdefault("<bundle>", r["<bundle>"])
    for k, _ in acc:
        v = verdict.get(k, "reject:?")
        if v in ("ok", "ok-alone"):
            out[k] = "accept | orc=ok"
        elif v.startswith("FAIL"):
            out[k] = "accept | orc=FAIL(compile-time value differs from run time or from the expected contents)"
        else:
            out[k] = "%s | orc=FAIL(%s)" % (classify_reject(v), v.replace("|", "/")[:220])
    # documented panics: compiled one by one, must be rejected as "evaluation panicked"
    rs = corpus.compile_many([corpus.PRELUDE + c for _, c in rej], "check")
    for (k, _), r in zip(rej, rs):
        if r["ok"]:
            out[str(k)] = "accept | orc=FAIL(the documented panic did not happen at compile time)"
        else:
            v = "reject:%s: %s" % (",".join(sorted(set(e["code"] for e in r["errors"]))), r["errors"][0]["message"][:160])
            cls = classify_reject(v)
            out[str(k)] = "%s | orc=%s" % (cls, "ok" if cls == "panic" else "FAIL(%s)" % v.replace("|", "/")[:220])
    if "<bundle>" in verdict and acc:
        out[acc[0][0]] = "reject | orc=FAIL(%s)" % verdict["<bundle>"][:200]
    return out
