#!/usr/bin/env python3
"""Per-property check pipeline (DESIGN.md §2): extract -> lake build (proof obligations) ->
harness/driver correspondence -> oracles -> decision, evidence, violation protocol."""
import fcntl
import hashlib
import json
import os
import re
import subprocess
import sys
import time

HERE = os.path.dirname(os.path.abspath(__file__))
ROOT = os.path.dirname(HERE)
sys.path.insert(0, HERE)
LEAN = os.path.join(ROOT, "lean")
HARNESS = os.path.join(ROOT, "harness")
BUILD = os.path.join(ROOT, "build")
EVID = os.path.join(ROOT, "evidence")
REPLAYS = os.path.join(ROOT, "replays")
REPO = os.environ.get("VERIF_REPO", "/repo")
ALLOWED_AXIOMS = {"propext", "Quot.sound", "Classical.choice"}
ENV = dict(os.environ, CARGO_NET_OFFLINE="true", CARGO_TARGET_DIR=os.path.join(BUILD, "cargo"))


def sh(cmd, cwd=None, timeout=None, inp=None, env=None):
    p = subprocess.run(cmd, cwd=cwd, input=inp, stdout=subprocess.PIPE, stderr=subprocess.STDOUT,
                       text=True, timeout=timeout, env=env or ENV)
    return p.returncode, p.stdout


class Lock:
    def __init__(self, name):
        os.makedirs(BUILD, exist_ok=True)
        self.path = os.path.join(BUILD, name)

    def __enter__(self):
        self.f = open(self.path, "w")
        fcntl.flock(self.f, fcntl.LOCK_EX)
        return self

    def __exit__(self, *a):
        fcntl.flock(self.f, fcntl.LOCK_UN)
        self.f.close()


# ------------------------------------------------------------------------------------------------
# Step 1: translator
# ------------------------------------------------------------------------------------------------

def run_extract():
    with Lock(".lean.lock"):
        rc, out = sh([sys.executable, os.path.join(HERE, "extract.py")])
        rc2, out2 = sh([sys.executable, os.path.join(HERE, "bodyx.py")])
        rc3, out3 = sh([sys.executable, os.path.join(HERE, "seqbody.py")])
    if rc3 != 0:
        raise RuntimeError("sequence body translator crashed:\n" + out3)
    out2 += out3
    if rc != 0:
        raise RuntimeError("translator crashed:\n" + out)
    if rc2 != 0:
        raise RuntimeError("body translator crashed:\n" + out2)
    status = json.load(open(os.path.join(BUILD, "gen_status.json")))
    # whole-body tie: one entry per translated function body
    try:
        for k, v in json.load(open(os.path.join(BUILD, "body_status.json"))).items():
            status["Body." + k] = {"status": "ok" if v["status"] == "ok" else "unlowered(%s)" % v.get("why", "")[:80]}
    except OSError:
        pass
    try:
        for k, v in json.load(open(os.path.join(BUILD, "seqbody_status.json"))).items():
            status["SeqBody." + k] = {"status": "ok" if v["status"] == "ok" else "unlowered(%s)" % v.get("reason", "")[:80]}
    except OSError:
        pass
    return status, out + out2


# ------------------------------------------------------------------------------------------------
# Step 2: proof obligations
# ------------------------------------------------------------------------------------------------

DECL_RE = re.compile(r"^\s*(?:@\[[^\]]*\]\s*)*(?:private\s+|protected\s+)?(theorem|lemma|example|def|instance|abbrev|structure|inductive)\b\s*([\w.'?!]*)")


def module_path(mod):
    return os.path.join(LEAN, *mod.split(".")) + ".lean"


def strip_lean_comments(src):
    out = []
    i, n, depth = 0, len(src), 0
    while i < n:
        if src.startswith("/-", i):
            depth += 1
            i += 2
            continue
        if depth and src.startswith("-/", i):
            depth -= 1
            i += 2
            continue
        if depth:
            out.append("\n" if src[i] == "\n" else " ")
            i += 1
            continue
        if src.startswith("--", i):
            j = src.find("\n", i)
            i = n if j < 0 else j
            continue
        if src[i] == '"':
            j = i + 1
            while j < n and src[j] != '"':
                j += 2 if src[j] == "\\" else 1
            out.append('""')
            i = j + 1
            continue
        out.append(src[i])
        i += 1
    return "".join(out)


def decls_of(mod):
    """[(line, kind, name)] of theorem/example declarations in a module (comments stripped)"""
    try:
        src = strip_lean_comments(open(module_path(mod)).read())
    except OSError:
        return []
    out = []
    for ln, line in enumerate(src.split("\n"), 1):
        m = DECL_RE.match(line)
        if m:
            out.append((ln, m.group(1), m.group(2) or "example@%d" % ln))
    return out


def imports_of(mod):
    try:
        src = open(module_path(mod)).read()
    except OSError:
        return []
    return [m for m in re.findall(r"^import\s+(GA[\w.]*)", src, re.M)]


def closure(mods):
    seen, todo = [], list(mods)
    while todo:
        m = todo.pop()
        if m in seen:
            continue
        seen.append(m)
        todo.extend(imports_of(m))
    return seen


FORBIDDEN = re.compile(r"\bsorry\b|\badmit\b|^\s*axiom\s|native_decide|bv_decide|implemented_by|\bunsafe\s|maxHeartbeats\s+0\b", re.M)


def forbidden_tokens(mods):
    hits = []
    for m in mods:
        try:
            src = strip_lean_comments(open(module_path(m)).read())
        except OSError:
            continue
        for mm in FORBIDDEN.finditer(src):
            hits.append("%s: %s" % (m, mm.group(0).strip()))
    return hits


def lake_build(targets):
    with Lock(".lean.lock"):
        rc, out = sh(["lake", "build"] + targets, cwd=LEAN, timeout=3000)
    return rc, out


def proof_obligations(prop_mods):
    """build the property modules; classify every theorem/example in the Props/Bridge/Lemmas closure"""
    mods = closure(prop_mods)
    proof_mods = [m for m in mods if re.match(r"GA\.(Props|Bridge|Lemmas)\.", m)]
    rc, out = lake_build(prop_mods)
    errors = []  # (module, line, message)
    for m in re.finditer(r"^error: ([\w/]+)\.lean:(\d+):(\d+): (.*)$", out, re.M):
        errors.append((m.group(1).replace("/", "."), int(m.group(2)), m.group(4)))
    failed_mods = set(re.findall(r"^✖ \[\d+/\d+\] Building ([\w.]+)", out, re.M))
    failed_mods |= set(e[0] for e in errors)
    # modules that (transitively) import a failed module were never checked
    blocked = set()
    for m in mods:
        if m not in failed_mods and any(d in failed_mods for d in closure([m]) if d != m):
            blocked.add(m)
    obligations, failed = [], []
    for m in proof_mods:
        ds = [d for d in decls_of(m) if d[1] in ("theorem", "lemma", "example")]
        errs = sorted(e for e in errors if e[0] == m)
        for k, (ln, kind, name) in enumerate(ds):
            nxt = ds[k + 1][0] if k + 1 < len(ds) else 10 ** 9
            full = "%s:%s" % (m, name)
            obligations.append(full)
            mine = [e for e in errs if ln <= e[1] < nxt]
            if mine:
                failed.append({"obligation": full, "why": mine[0][2][:300], "line": mine[0][1]})
            elif m in blocked:
                failed.append({"obligation": full, "why": "not checked: an imported module failed to build", "line": ln})
            elif m in failed_mods and not errs:
                failed.append({"obligation": full, "why": "module failed to build", "line": ln})
    if rc != 0 and not failed:
        failed.append({"obligation": "lake build " + " ".join(prop_mods), "why": out[-600:], "line": 0})
    # axioms
    axioms = {}
    for m in re.finditer(r"'([\w.']+)' depends on axioms: \[([^\]]*)\]", out):
        axioms[m.group(1)] = [a.strip() for a in m.group(2).split(",") if a.strip()]
    for m in re.finditer(r"'([\w.']+)' does not depend on any axioms", out):
        axioms[m.group(1)] = []
    bad_axioms = {k: v for k, v in axioms.items() if not set(v) <= ALLOWED_AXIOMS}
    for k, v in bad_axioms.items():
        failed.append({"obligation": k, "why": "disallowed axioms %s" % v, "line": 0})
    forb = forbidden_tokens(mods + ["Main"])
    for h in forb:
        failed.append({"obligation": "source-audit", "why": "forbidden token " + h, "line": 0})
    return {"obligations": obligations, "failed": failed, "axioms": axioms, "log": out, "modules": proof_mods}


# ------------------------------------------------------------------------------------------------
# Step 3: correspondence
# ------------------------------------------------------------------------------------------------

def cargo_build(bins, features=(), release=False):
    cmd = ["cargo", "build", "--offline", "--quiet"]
    if release:
        cmd.append("--release")
    for b in bins:
        cmd += ["--bin", b]
    if features:
        cmd += ["--features", ",".join(features)]
    with Lock(".cargo.lock"):
        rc, out = sh(cmd, cwd=HARNESS, timeout=3000)
    return rc, out


def bin_path(name, release=False):
    return os.path.join(BUILD, "cargo", "release" if release else "debug", name)


def driver_path():
    return os.path.join(LEAN, ".lake", "build", "bin", "driver")


def run_lines(exe, lines, timeout=1800, args=()):
    inp = "\n".join(lines) + "\n"
    p = subprocess.run([exe] + list(args), input=inp, stdout=subprocess.PIPE, stderr=subprocess.PIPE, text=True, timeout=timeout)
    ans = {}
    for l in p.stdout.split("\n"):
        if not l.strip():
            continue
        seq, _, rest = l.partition(" ")
        ans[seq] = rest
    return p.returncode, ans, p.stderr


STALL_FIRST, STALL_NEXT, MAX_RESTARTS = 150, 30, 6


def run_lines_resilient(exe, lines, args=()):
    """Implementation side. The engine answers line by line (GA_FLUSH); a scenario on which the real crate does not
    return (no answer within the stall limit) or that kills the process is recorded as `<hang>` / `<crash>` for that
    scenario alone, and the engine is restarted on the scenarios after it. A changed crate that loops for ever is a
    finding with a replay, not a check that times out."""
    import threading, queue, time
    ans, err_all, rc_last = {}, "", 0
    pos, restarts, stall = 0, 0, STALL_FIRST
    env = dict(ENV, GA_FLUSH="1")
    while pos < len(lines):
        chunk = lines[pos:]
        p = subprocess.Popen([exe] + list(args), stdin=subprocess.PIPE, stdout=subprocess.PIPE, stderr=subprocess.PIPE, text=True, env=env)
        q = queue.Queue()

        def feed(p=p, chunk=chunk):
            try:
                p.stdin.write("\n".join(chunk) + "\n")
                p.stdin.close()
            except (BrokenPipeError, OSError, ValueError):
                pass

        def read(p=p, q=q):
            for l in p.stdout:
                q.put(l)
            q.put(None)

        errbuf = []

        def readerr(p=p, errbuf=errbuf):
            try:
                errbuf.append(p.stderr.read()[-4000:])
            except (OSError, ValueError):
                pass

        ts = [threading.Thread(target=f, daemon=True) for f in (feed, read, readerr)]
        for t in ts:
            t.start()
        got, hung, last_seq = 0, False, None
        while True:
            try:
                l = q.get(timeout=stall)
            except queue.Empty:
                hung = True
                p.kill()
                break
            if l is None:
                break
            if not l.strip():
                continue
            seq, _, rest = l.rstrip("\n").partition(" ")
            if not seq.isdigit():
                # continuation of a multi-line answer (the harness flattens panic messages; this keeps the oracle
                # verdict attached to its scenario even if some other text slips through)
                if last_seq is not None:
                    ans[last_seq] += "_" + l.strip().replace(" ", "_") if " | orc=" not in l else " " + l.strip()
                continue
            ans[seq] = rest
            last_seq = seq
            got += 1
        p.wait()
        for t in ts:
            t.join(timeout=5)
        rc_last = p.returncode
        err_all += "".join(errbuf)[-1000:]
        if got >= len(chunk) and not hung:
            break
        # the first scenario without an answer is the one that hung / crashed
        seq = chunk[got].split(" ", 1)[0] if got < len(chunk) else None
        if seq is None:
            break
        ans[seq] = ("<hang: no answer within %d s>" % stall if hung else "<crash: engine exited rc=%s %s>" % (p.returncode, "".join(errbuf)[-160:].replace("\n", " "))) + " | orc=" + ("hang" if hung else "crash")
        pos += got + 1
        restarts += 1
        stall = STALL_NEXT
        if restarts >= MAX_RESTARTS:
            break
    return rc_last, ans, err_all


def split_orc(ans):
    body, _, orc = ans.partition(" | orc=")
    return body.strip(), (orc.strip() or "ok")


# ------------------------------------------------------------------------------------------------
# Known findings
# ------------------------------------------------------------------------------------------------

def known_findings(pid):
    out = []
    try:
        for line in open(os.path.join(ROOT, "KNOWN_FINDINGS.txt")):
            line = line.strip()
            m = re.match(r"open:\s+property=(\w+)\s+sig=(\S+)\s+(.*)", line)
            if m and m.group(1) == pid:
                out.append({"sig": m.group(2), "what": m.group(3)})
    except OSError:
        pass
    return out


# ------------------------------------------------------------------------------------------------
# The pipeline
# ------------------------------------------------------------------------------------------------

class Engine:
    def __init__(self, name, gen, features=(), sig=None, release=False, bin=None, compare=True, miri=0, runner=None, body_view=False):
        self.name = name
        self.bin = bin or name
        self.gen = gen            # (tier, seed, params) -> list of scenario strings (without seq)
        self.features = tuple(features)
        self.sig = sig or (lambda line: line.split()[0] if line else "")
        self.release = release
        self.compare = compare
        self.miri = miri          # number of sampled scenario lines replayed under Miri (thorough tier / widened search)
        self.runner = runner      # optional callable(lines) -> {seq: answer}: the implementation side is a compiler-verdict corpus
        self.body_view = body_view  # also compare with the driver's `--body` view (answers computed by interpreting the regenerated function bodies)


class Prop:
    def __init__(self, pid, lean, engines, trusted, assumptions, nontrivial=None, extra=None, title=""):
        self.pid, self.lean, self.engines = pid, lean, engines
        self.trusted, self.assumptions = trusted, assumptions
        self.nontrivial = nontrivial or (lambda scen, impl: True)
        self.extra = extra  # optional callable(ctx) -> dict(result) for corpus-style checks
        self.title = title


def write_replay(pid, payload):
    d = os.path.join(REPLAYS, pid)
    os.makedirs(d, exist_ok=True)
    blob = json.dumps(payload, sort_keys=True, indent=1)
    h = hashlib.sha1(blob.encode()).hexdigest()[:12]
    path = os.path.join(d, h + ".json")
    with open(path, "w") as f:
        f.write(blob)
    return os.path.relpath(path, ROOT)


def run_engine(eng, lines, tag):
    """returns dict with M mismatches and O failures for the scenario lines"""
    numbered = ["%d %s %s" % (k, eng.name, l) for k, l in enumerate(lines)]
    if eng.runner is not None:
        with Lock(".cargo.lock"):
            impl = eng.runner(lines)
        rc_i, err_i = 0, ""
    else:
        rc_b, out_b = cargo_build([eng.bin], eng.features, eng.release)
        if rc_b != 0:
            return {"build_error": out_b[-2000:], "M": [], "O": [], "n": len(lines), "impl": {}, "model": {}, "nbody": 0}
        rc_i, impl, err_i = run_lines_resilient(bin_path(eng.bin, eng.release), numbered)
    model = {}
    body_ans = {}
    nbody = 0
    if eng.compare:
        rc_m, model, err_m = run_lines(driver_path(), numbered)
        if eng.body_view:
            rc_b2, body_ans, err_b2 = run_lines(driver_path(), numbered, args=("--body",))
    M, O = [], []
    for k, l in enumerate(lines):
        a = impl.get(str(k))
        if a is None:
            O.append({"engine": eng.name, "scenario": l, "impl": "<no answer: harness crashed rc=%s %s>" % (rc_i, err_i[-200:]), "oracle": "crash"})
            continue
        body, orc = split_orc(a)
        if orc != "ok":
            O.append({"engine": eng.name, "scenario": l, "impl": body, "oracle": orc})
        if eng.compare:
            mb = model.get(str(k))
            if mb is None or mb.strip() != body:
                M.append({"engine": eng.name, "scenario": l, "impl": body, "model": mb})
            if eng.body_view:
                bb = body_ans.get(str(k))
                if bb is not None and bb.strip() == "n/a":
                    continue
                nbody += 1
                if bb is None or bb.strip() != body:
                    M.append({"engine": eng.name, "scenario": l, "impl": body, "model": "(interpreted body) %s" % bb})
    return {"M": M, "O": O, "n": len(lines), "impl": impl, "model": model, "nbody": nbody}


def run_miri(eng, lines, seed, prefer=()):
    """replay a sample of scenario lines on the real crate under Miri; UB -> oracle failure.
    `prefer`: scenario lines on which model and implementation disagree — up to three per operation (the largest
    lengths first) are replayed before the random sample, so that a change Miri alone can see (provenance) is looked
    for where the tie broke."""
    import random
    rng = random.Random(seed)
    sample = lines if len(lines) <= eng.miri else rng.sample(lines, eng.miri)
    if prefer and len(lines) > eng.miri:
        byop = {}
        for l in prefer:
            byop.setdefault(l.split()[0], []).append(l)

        def nval(l):
            m = re.search(r"\bn=(\d+)", l)
            return int(m.group(1)) if m else 0
        first = []
        for op in sorted(byop):
            cands = sorted(set(byop[op]), key=lambda l: (-min(nval(l), 40), l))
            first += cands[:3]
        first = first[: max(1, eng.miri // 2)]
        sample = first + [l for l in sample if l not in first][: eng.miri - len(first)]
    numbered = ["%d %s %s" % (k, eng.name, l) for k, l in enumerate(sample)]
    env = dict(ENV, MIRIFLAGS="-Zmiri-disable-isolation -Zmiri-ignore-leaks", CARGO_TARGET_DIR=os.path.join(BUILD, "miri"), GA_FLUSH="1")
    cmd = ["cargo", "+nightly", "miri", "run", "--offline", "--quiet", "--bin", eng.bin]
    if eng.features:
        cmd += ["--features", ",".join(eng.features)]
    with Lock(".miri.lock"):
        p = subprocess.run(cmd, cwd=HARNESS, input="\n".join(numbered) + "\n", stdout=subprocess.PIPE, stderr=subprocess.PIPE, text=True, env=env, timeout=3000)
    answered = [l for l in p.stdout.split("\n") if l.strip()]
    out = []
    if p.returncode != 0 and ("Undefined Behavior" in p.stderr or "error:" in p.stderr):
        k = len(answered)
        msg = next((l for l in p.stderr.split("\n") if "Undefined Behavior" in l or l.startswith("error")), "miri error")
        if k < len(sample):
            out.append({"engine": eng.name, "scenario": sample[k], "impl": "<miri: %s>" % msg[:300], "oracle": "miri-UB"})
        else:
            out.append({"engine": eng.name, "scenario": "<after last scenario>", "impl": "<miri: %s>" % msg[:300], "oracle": "miri-UB"})
    return out, len(sample)


def check(prop, tier, seed, params):
    t0 = time.time()
    notes = []
    mark = os.path.join(ROOT, "seeded", "IN_FLIGHT")
    if os.path.exists(mark) and not os.environ.get("GA_SEEDTEST"):
        # an interrupted tools/seedtest.sh: the tree is decided as it stands (a seeded change left in it IS a violation),
        # but say where it came from
        print("NOTE seed-in-flight marker present (%s): /repo may still carry that seeded change; tools/seedrecover.sh undoes it"
              % open(mark).read().strip())
    status, xout = run_extract()
    degraded = sorted(k for k, v in status.items() if v["status"] != "ok")
    for line in xout.split("\n"):
        if line.startswith("NOTE"):
            print(line)
    # --- P
    P = proof_obligations(prop.lean)
    # driver must exist for the correspondence; build it even if a proof failed
    rc_d, out_d = lake_build(["driver"])
    driver_ok = rc_d == 0 and os.path.exists(driver_path())
    if not driver_ok:
        P["failed"].append({"obligation": "driver", "why": "model driver does not build: " + out_d[-500:], "line": 0})
    if tier == "thorough":
        for m in P["modules"]:
            if not any(f["obligation"].startswith(m + ":") for f in P["failed"]):
                with Lock(".lean.lock"):
                    rc, out = sh(["lake", "env", "leanchecker", m], cwd=LEAN, timeout=3000)
                if rc != 0:
                    P["failed"].append({"obligation": m, "why": "leanchecker: " + out[-300:], "line": 0})
    # --- M / O
    widen = bool(P["failed"]) or bool(degraded)
    results = []
    all_M, all_O = [], []
    evaluations = 0
    distinct = set()
    samples = []
    dist = {}
    build_errors = []
    for eng in prop.engines:
        lines = eng.gen("thorough" if (widen and tier == "quick") else tier, seed, params)
        lines = list(dict.fromkeys(lines))
        if not lines:
            continue
        r = run_engine(eng, lines, tier) if driver_ok or not eng.compare else {"M": [], "O": [], "n": 0, "impl": {}, "model": {}, "nbody": 0}
        if r.get("nbody"):
            notes.append("body view: %d scenarios of engine %s also answered by interpreting the regenerated function bodies" % (r["nbody"], eng.name))
        if "build_error" in r:
            build_errors.append({"engine": eng.name, "error": r["build_error"]})
        evaluations += r["n"]
        for k, l in enumerate(lines):
            a = r["impl"].get(str(k), "")
            if prop.nontrivial(l, a):
                distinct.add(eng.name + " " + l)
            s = eng.sig(l)
            dist[eng.name + ":" + s] = dist.get(eng.name + ":" + s, 0) + 1
        for k in range(0, len(lines), max(1, len(lines) // 3))[:4]:
            samples.append({"engine": eng.name, "scenario": lines[k], "impl": split_orc(r["impl"].get(str(k), ""))[0][:300],
                            "model": (r["model"].get(str(k)) or "")[:300]})
        all_M += r["M"]
        all_O += r["O"]
        if eng.miri and (tier == "thorough" or widen) and "build_error" not in r:
            mo, mn = run_miri(eng, lines, seed, prefer=[m["scenario"] for m in r["M"]])
            all_O += mo
            evaluations += mn
            notes.append("miri: %d scenarios of engine %s replayed, %d UB reports" % (mn, eng.name, len(mo)))
    extra = None
    if prop.extra is not None:
        extra = prop.extra({"tier": tier, "seed": seed, "widen": widen})
        evaluations += extra.get("evaluations", 0)
        all_O += extra.get("O", [])
        all_M += extra.get("M", [])
        samples += extra.get("samples", [])[:4]
        for s in extra.get("distinct", []):
            distinct.add(s)
        if extra.get("build_error"):
            build_errors.append({"engine": "corpus", "error": extra["build_error"]})
    # --- decision
    known = known_findings(prop.pid)
    violations = []
    known_hit = []

    def is_known(o):
        for kf in known:
            if re.fullmatch(kf["sig"].replace("*", ".*"), "%s/%s" % (o["engine"], o["scenario"].replace(" ", "/"))):
                return kf
        return None

    new_O = []
    for o in all_O:
        kf = is_known(o)
        if kf:
            known_hit.append(kf)
        else:
            new_O.append(o)
    for kf in known:
        print("KNOWN-FINDING: property=%s %s" % (prop.pid, kf["what"]))
    if new_O:
        path = write_replay(prop.pid, {"kind": "implementation-vs-oracle", "property": prop.pid, "seed": seed,
                                       "failing": new_O[:10], "count": len(new_O)})
        violations.append((path, ""))
    elif P["failed"] or all_M or build_errors:
        # a tie broke and no oracle failure was found on the (widened) lattice
        Mk = [m for m in all_M if not is_known(m)]
        if P["failed"] or Mk or build_errors:
            path = write_replay(prop.pid, {"kind": "tie-broken", "property": prop.pid, "seed": seed,
                                           "proof_obligations_not_discharged": P["failed"][:20],
                                           "model_vs_implementation": Mk[:10], "model_vs_implementation_count": len(Mk),
                                           "harness_build_errors": build_errors,
                                           "searched": "%d scenarios on the widened lattice, no oracle failure" % evaluations})
            violations.append((path, " no-failing-input-found"))
    wall = time.time() - t0
    discharged = len(P["obligations"]) - len(set(f["obligation"] for f in P["failed"] if f["obligation"] in P["obligations"]))
    ev = {
        "property_id": prop.pid,
        "tier": tier,
        "seed": seed,
        "level": "proof",
        "coverage": {
            "obligations": len(P["obligations"]),
            "discharged": discharged,
            "checker_cmd": "cd lean && lake build %s driver%s" % (" ".join(prop.lean), " && lake env leanchecker <each proof module>" if tier == "thorough" else ""),
            "trusted_base": prop.trusted,
            "theorems": [o for o in P["obligations"] if ".Props." in o],
            "axioms": P["axioms"],
            "not_discharged": P["failed"][:20],
            "fragments_regenerated": len(status),
            "fragments_degraded": degraded,
            "evaluations": evaluations,
            "distinct_nontrivial": len(distinct),
            "rule": params.get("rule", ""),
            "samples": samples[:12],
            "input_distribution": dict(sorted(dist.items())[:60]),
            "model_vs_impl_disagreements": len(all_M),
            "impl_vs_oracle_failures": len(all_O),
            "known_findings_matched": len(known_hit),
            "exhaustive": False,
            "notes": notes,
        },
        "assumptions": prop.assumptions + (["extraction degraded for: " + ", ".join(degraded)] if degraded else []),
        "wall_s": round(wall, 2),
        "violations": len(violations),
    }
    os.makedirs(EVID, exist_ok=True)
    with open(os.path.join(EVID, prop.pid + ".json"), "w") as f:
        json.dump(ev, f, indent=1, sort_keys=True)
    print("%s %s: obligations %d/%d discharged; correspondence %d scenarios, %d model-vs-impl, %d impl-vs-oracle; %.1fs" % (
        prop.pid, tier, discharged, len(P["obligations"]), evaluations, len(all_M), len(all_O), wall))
    for f in P["failed"][:8]:
        print("  NOT-DISCHARGED %s: %s" % (f["obligation"], f["why"].split("\n")[0][:200]))
    for m in all_M[:5]:
        print("  MODEL-VS-IMPL %s %s\n     impl : %s\n     model: %s" % (m["engine"], m["scenario"], m["impl"], m["model"]))
    for o in all_O[:5]:
        print("  IMPL-VS-ORACLE %s %s\n     impl : %s\n     oracle: %s" % (o["engine"], o["scenario"], o["impl"], o["oracle"]))
    for b in build_errors:
        print("  HARNESS-BUILD-ERROR %s: %s" % (b["engine"], b["error"][-400:]))
    for path, suffix in violations:
        print("VIOLATION property=%s replay=%s%s" % (prop.pid, path, suffix))
    return 1 if violations else 0


def replay(prop, path):
    data = json.load(open(os.path.join(ROOT, path) if not os.path.isabs(path) else path))
    print(json.dumps(data, indent=1)[:4000])
    items = data.get("failing", []) + data.get("model_vs_implementation", [])
    run_extract()
    lake_build(["driver"])
    rc = 0
    for it in items:
        eng = next((e for e in prop.engines if e.name == it["engine"]), None)
        if eng is None:
            continue
        r = run_engine(eng, [it["scenario"]], "replay")
        print("replay %s %s" % (eng.name, it["scenario"]))
        print("  impl : %s" % r["impl"].get("0"))
        print("  model: %s" % r["model"].get("0"))
        if r["O"] or r["M"]:
            rc = 1
    return rc


def main():
    import props
    args = sys.argv[1:]
    if not args:
        print("usage: check <ID> [quick|thorough] [--replay path]")
        return 2
    pid = args[0]
    prop = props.PROPS.get(pid)
    if prop is None:
        print("unknown property", pid)
        return 2
    if "--replay" in args:
        return replay(prop, args[args.index("--replay") + 1])
    tier = os.environ.get("VERIF_TIER") or (args[1] if len(args) > 1 else "quick")
    if len(args) > 1 and args[1] in ("quick", "thorough"):
        tier = args[1]
    seed = int(os.environ.get("VERIF_SEED", "1") or 1)
    return check(prop, tier, seed, props.PARAMS.get(pid, {}))


if __name__ == "__main__":
    sys.exit(main())
