#!/bin/sh
# usage: tools/seedtest.sh <property id> <patch file> [tier]   — apply a seeded change to /repo, run the check, undo.
# The evidence file of the property is saved and restored (evidence must come from the unchanged tree).
#
# /repo must never keep a seeded change.  The patch in flight is recorded in seeded/IN_FLIGHT (tracked directory, so a snapshot of /verif keeps it; a copy of the patch
# next to it) BEFORE it is applied and removed only after /repo is clean again; the undo also runs from a trap on
# EXIT/INT/TERM/HUP.  A run that is killed outright (SIGKILL, sandbox stop) leaves the marker behind: the next seedtest
# — and tools/seedrecover.sh, and every ./check, which prints a NOTE naming the patch while the marker is there — sees it.
cd /verif
PID=$1; PATCH=$(realpath $2); TIER=${3:-quick}
MARK=seeded/IN_FLIGHT
mkdir -p build
if [ -e $MARK ]; then tools/seedrecover.sh || exit 2; fi
git -C /repo diff --quiet || { echo "repo not clean"; exit 2; }
cp evidence/$PID.json build/evidence_$PID.bak 2>/dev/null
undo() {
  trap - EXIT INT TERM HUP
  git -C /repo checkout -- . && rm -f $MARK $MARK.diff
  python3 tools/extract.py > /dev/null; python3 tools/bodyx.py > /dev/null; python3 tools/seqbody.py > /dev/null
  [ -e build/evidence_$PID.bak ] && mv build/evidence_$PID.bak evidence/$PID.json
}
cp "$PATCH" $MARK.diff && echo "$PID $PATCH $(git -C /repo rev-parse HEAD)" > $MARK
trap 'undo; exit 130' INT TERM HUP
trap undo EXIT
git -C /repo apply "$PATCH" || { echo "PATCH-DOES-NOT-APPLY $PATCH"; exit 3; }
GA_SEEDTEST=1 ./check $PID $TIER > /tmp/seedtest.out 2>&1; rc=$?
undo
grep -a -E "^VIOLATION|obligations|KNOWN" /tmp/seedtest.out | head -5
rm -rf replays/$PID
echo "seedtest $PID $(basename $(dirname $PATCH))/$(basename $PATCH): exit=$rc"
exit $rc
