#!/bin/sh
# usage: tools/seedtest.sh <property id> <patch file> [tier]   — apply a seeded change to /repo, run the check, undo.
# The evidence file of the property is saved and restored (evidence must come from the unchanged tree).
cd /verif
PID=$1; PATCH=$(realpath $2); TIER=${3:-quick}
git -C /repo diff --quiet || { echo "repo not clean"; exit 2; }
cp evidence/$PID.json /tmp/evidence_$PID.bak 2>/dev/null
git -C /repo apply "$PATCH" || { echo "PATCH-DOES-NOT-APPLY $PATCH"; exit 3; }
./check $PID $TIER > /tmp/seedtest.out 2>&1; rc=$?
git -C /repo checkout -- .
python3 tools/extract.py > /dev/null; python3 tools/bodyx.py > /dev/null; python3 tools/seqbody.py > /dev/null
cp /tmp/evidence_$PID.bak evidence/$PID.json 2>/dev/null
grep -a -E "^VIOLATION|obligations|KNOWN" /tmp/seedtest.out | head -5
rm -rf replays/$PID
echo "seedtest $PID $(basename $(dirname $PATCH))/$(basename $PATCH): exit=$rc"
exit $rc
