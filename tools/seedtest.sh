#!/bin/sh
# usage: tools/seedtest.sh <property id> <patch file> [tier]   — apply a seeded change to /repo, run the check, undo
cd /verif
PID=$1; PATCH=$2; TIER=${3:-quick}
git -C /repo diff --quiet || { echo "repo not clean"; exit 2; }
git -C /repo apply "$(realpath $PATCH)" || { echo "PATCH-DOES-NOT-APPLY $PATCH"; exit 3; }
./check $PID $TIER > /tmp/seedtest.out 2>&1; rc=$?
git -C /repo checkout -- .
grep -E "^VIOLATION|obligations|KNOWN" /tmp/seedtest.out | head -5
rm -rf replays/$PID
echo "seedtest $PID $(basename $(dirname $PATCH))/$(basename $PATCH): exit=$rc"
