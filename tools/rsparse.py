"""Minimal Rust tokenizer / item locator / expression parser used by the translator (extract.py).

Deliberately small: it does not parse Rust in general, only the fragment languages of DESIGN.md §3.1.
Anything outside them raises Unparsed and the fragment falls back to degraded mode.
"""
import re


class Unparsed(Exception):
    pass


class Tok:
    __slots__ = ("k", "s", "pos")

    def __init__(self, k, s, pos):
        self.k, self.s, self.pos = k, s, pos

    def __repr__(self):
        return self.s


PUNCT3 = ["..=", "<<=", ">>=", "..."]
PUNCT2 = ["::", "->", "=>", "==", "!=", "<=", ">=", "&&", "||", "+=", "-=", "*=", "/=", "..", "|=", "&=", "^=", "%="]


def tokenize(src):
    toks = []
    i, n = 0, len(src)
    while i < n:
        c = src[i]
        if c.isspace():
            i += 1
            continue
        if src.startswith("//", i):
            j = src.find("\n", i)
            i = n if j < 0 else j
            continue
        if src.startswith("/*", i):
            depth, j = 1, i + 2
            while j < n and depth:
                if src.startswith("/*", j):
                    depth += 1
                    j += 2
                elif src.startswith("*/", j):
                    depth -= 1
                    j += 2
                else:
                    j += 1
            i = j
            continue
        if c == '"' or (c == "b" and i + 1 < n and src[i + 1] == '"'):
            j = i + (2 if c == "b" else 1)
            while j < n and src[j] != '"':
                j += 2 if src[j] == "\\" else 1
            toks.append(Tok("str", src[i : j + 1], i))
            i = j + 1
            continue
        if c == "r" and re.match(r'r#*"', src[i:]):
            m = re.match(r'r(#*)"', src[i:])
            end = src.find('"' + m.group(1), i + len(m.group(0)))
            toks.append(Tok("str", src[i : end + 1 + len(m.group(1))], i))
            i = end + 1 + len(m.group(1))
            continue
        if c == "'":
            m = re.match(r"'(\\.|[^\\'])'", src[i:])
            if m:
                toks.append(Tok("char", m.group(0), i))
                i += len(m.group(0))
                continue
            m = re.match(r"'[A-Za-z_][A-Za-z0-9_]*", src[i:])
            if m:
                toks.append(Tok("life", m.group(0), i))
                i += len(m.group(0))
                continue
        m = re.match(r"[A-Za-z_][A-Za-z0-9_]*", src[i:])
        if m:
            toks.append(Tok("id", m.group(0), i))
            i += len(m.group(0))
            continue
        m = re.match(r"0x[0-9A-Fa-f_]+[A-Za-z0-9_]*|[0-9][0-9_]*(\.[0-9]+)?[A-Za-z0-9_]*", src[i:])
        if m:
            toks.append(Tok("num", m.group(0), i))
            i += len(m.group(0))
            continue
        for p in PUNCT3 + PUNCT2:
            if src.startswith(p, i):
                toks.append(Tok("p", p, i))
                i += len(p)
                break
        else:
            toks.append(Tok("p", c, i))
            i += 1
    return toks


OPEN = {"(": ")", "[": "]", "{": "}"}
CLOSE = {v: k for k, v in OPEN.items()}


def match_close(toks, i):
    """toks[i] is an opening bracket; return index of its closing partner."""
    depth = 0
    for j in range(i, len(toks)):
        s = toks[j].s
        if toks[j].k == "p" and s in OPEN:
            depth += 1
        elif toks[j].k == "p" and s in CLOSE:
            depth -= 1
            if depth == 0:
                return j
    raise Unparsed("unbalanced bracket")


def text(toks):
    return " ".join(t.s for t in toks)


def compact(toks):
    return "".join(t.s for t in toks)


def find_seq(toks, pat, start=0, end=None):
    """index of first occurrence of token-string sequence `pat` in toks[start:end], or -1"""
    end = len(toks) if end is None else end
    L = len(pat)
    for i in range(start, end - L + 1):
        if all(toks[i + j].s == pat[j] for j in range(L)):
            return i
    return -1


def find_all_seq(toks, pat, start=0, end=None):
    out = []
    i = start
    while True:
        j = find_seq(toks, pat, i, end)
        if j < 0:
            return out
        out.append(j)
        i = j + 1


class Item:
    def __init__(self, toks, header, body_lo, body_hi):
        self.toks = toks
        self.header = header  # tokens from keyword to before '{'
        self.lo, self.hi = body_lo, body_hi  # body token range (exclusive of braces)

    @property
    def body(self):
        return self.toks[self.lo : self.hi]

    def header_text(self):
        return compact(self.header)


def items(toks, kw, start=0, end=None):
    """all items introduced by keyword `kw` (impl / fn / struct / macro_rules) with a brace body"""
    end = len(toks) if end is None else end
    out = []
    i = start
    while i < end:
        t = toks[i]
        if t.k == "id" and t.s == kw:
            # walk to '{' or ';' at bracket depth 0 (angle brackets ignored; parens/brackets tracked)
            j = i + 1
            depth = 0
            while j < end:
                s = toks[j].s
                if toks[j].k == "p" and s in ("(", "["):
                    depth += 1
                elif toks[j].k == "p" and s in (")", "]"):
                    depth -= 1
                elif toks[j].k == "p" and depth == 0 and s in ("{", ";"):
                    break
                j += 1
            if j < end and toks[j].s == "{":
                c = match_close(toks, j)
                out.append(Item(toks, toks[i:j], j + 1, c))
                i = c + 1
                continue
        i += 1
    return out


def find_impl(toks, *needles, nth=0):
    """impl block whose compacted header contains all needles"""
    found = [it for it in items(toks, "impl") if all(nd in it.header_text() for nd in needles)]
    if len(found) <= nth:
        raise Unparsed("impl not found: %s" % (needles,))
    return found[nth]


def find_fn(toks, name, lo=0, hi=None, nth=0):
    hi = len(toks) if hi is None else hi
    found = []
    i = lo
    while i < hi:
        if toks[i].k == "id" and toks[i].s == "fn" and i + 1 < hi and toks[i + 1].s == name:
            j = i + 2
            depth = 0
            while j < hi:
                s = toks[j].s
                if toks[j].k == "p" and s in ("(", "["):
                    depth += 1
                elif toks[j].k == "p" and s in (")", "]"):
                    depth -= 1
                elif toks[j].k == "p" and depth == 0 and s in ("{", ";"):
                    break
                j += 1
            if j < hi and toks[j].s == "{":
                c = match_close(toks, j)
                found.append(Item(toks, toks[i:j], j + 1, c))
                i = c + 1
                continue
        i += 1
    if len(found) <= nth:
        raise Unparsed("fn not found: %s" % name)
    return found[nth]


def split_top(toks, sep):
    """split token list at separator `sep` at bracket depth 0.  Angle brackets are tracked when they
    open right after a type-like identifier (capitalised) or `::` — generic arguments in casts/paths."""
    out, cur, depth, angle = [], [], 0, 0
    prev = None
    for t in toks:
        if t.k == "p" and t.s in OPEN:
            depth += 1
        elif t.k == "p" and t.s in CLOSE:
            depth -= 1
        elif t.k == "p" and t.s == "<" and prev is not None and ((prev.k == "id" and prev.s[:1].isupper()) or prev.s == "::"):
            angle += 1
        elif t.k == "p" and t.s == ">" and angle > 0:
            angle -= 1
        if depth == 0 and angle == 0 and t.k == "p" and t.s == sep:
            out.append(cur)
            cur = []
        else:
            cur.append(t)
        prev = t
    out.append(cur)
    return out


def until_top(toks, i, stops):
    """tokens from i up to (not including) the first token in `stops` at bracket depth 0"""
    depth = 0
    j = i
    while j < len(toks):
        t = toks[j]
        if depth == 0 and t.s in stops:
            break
        if t.k == "p" and t.s in OPEN:
            depth += 1
        elif t.k == "p" and t.s in CLOSE:
            if depth == 0:
                break
            depth -= 1
        j += 1
    return toks[i:j], j


def method_call_args(toks, name, start=0):
    """first `.name(` (or `name(`) call at/after start: (list of arg token lists, index of name)"""
    for i in range(start, len(toks) - 1):
        if toks[i].s == name and toks[i + 1].s == "(" and toks[i].k == "id":
            args, _ = call_args(toks, i + 1)
            return args, i
    raise Unparsed("no call of %s" % name)


def call_args(toks, i):
    """toks[i] is '(' : return list of argument token lists and index after ')'"""
    c = match_close(toks, i)
    inner = toks[i + 1 : c]
    args = [a for a in split_top(inner, ",") if a]
    return args, c + 1


# ------------------------------------------------------------------------------------------------
# Expression parser (precedence climbing) -> AST tuples
#   ('num', int) ('path', 'a::b') ('field', e, name) ('call', fn_ast, [args]) ('method', e, name, [args])
#   ('bin', op, l, r) ('un', op, e) ('range', lo|None, hi|None) ('index', e, idx) ('tuple', [..])
# ------------------------------------------------------------------------------------------------

BINPREC = [
    ["||"],
    ["&&"],
    ["==", "!=", "<", ">", "<=", ">="],
    ["|"],
    ["^"],
    ["&"],
    ["<<", ">>"],
    ["+", "-"],
    ["*", "/", "%"],
]


class ExprParser:
    def __init__(self, toks):
        self.t = list(toks)
        self.i = 0

    def peek(self, k=0):
        return self.t[self.i + k] if self.i + k < len(self.t) else None

    def eat(self, s=None):
        tok = self.peek()
        if tok is None or (s is not None and tok.s != s):
            raise Unparsed("expected %r at %r" % (s, text(self.t[self.i : self.i + 4])))
        self.i += 1
        return tok

    def at_end(self):
        return self.i >= len(self.t)

    def parse(self):
        e = self.expr(0, no_struct=False)
        if not self.at_end():
            raise Unparsed("trailing tokens: " + text(self.t[self.i :]))
        return e

    def binop_at(self, level):
        tok = self.peek()
        if tok is None or tok.k != "p":
            return None
        s = tok.s
        # shifts are lexed as two adjacent single-char tokens
        if s in ("<", ">") and self.peek(1) is not None and self.peek(1).s == s and self.peek(1).pos == tok.pos + 1:
            if (s + s) in BINPREC[level]:
                return (s + s, 2)
            return None
        if s in BINPREC[level]:
            return (s, 1)
        return None

    def expr(self, level, no_struct=False):
        if level == 0:
            # range expressions (lowest precedence)
            if self.peek() is not None and self.peek().s in ("..", "..="):
                self.eat()
                hi = None
                if not self.at_end() and self.peek().s not in (")", "]", ",", ";"):
                    hi = self.expr(1)
                return ("range", None, hi)
            lo = self.expr(1)
            if self.peek() is not None and self.peek().s in ("..", "..="):
                self.eat()
                hi = None
                if not self.at_end() and self.peek().s not in (")", "]", ",", ";"):
                    hi = self.expr(1)
                return ("range", lo, hi)
            return lo
        idx = level - 1
        if idx >= len(BINPREC):
            return self.unary()
        l = self.expr(level + 1)
        while True:
            b = self.binop_at(idx)
            if b is None:
                return l
            op, ntok = b
            self.i += ntok
            r = self.expr(level + 1)
            l = ("bin", op, l, r)

    def unary(self):
        tok = self.peek()
        if tok is None:
            raise Unparsed("unexpected end")
        if tok.k == "p" and tok.s in ("!", "-", "*", "&"):
            self.eat()
            if tok.s == "&" and self.peek() is not None and self.peek().s == "mut":
                self.eat()
            e = self.unary()
            return ("un", tok.s, e)
        if tok.k == "p" and tok.s == "&&":
            self.eat()
            return ("un", "&", ("un", "&", self.unary()))
        e = self.postfix(self.primary())
        while self.peek() is not None and self.peek().s == "as":
            self.eat()
            ty = self.parse_type()
            e = ("cast", e, ty)
            e = self.postfix(e)
        return e

    def parse_type(self):
        """consume a type after `as`; returns its compact text"""
        out = []
        tok = self.peek()
        if tok is None:
            raise Unparsed("type expected")
        if tok.s == "*":
            out.append(self.eat().s)
            if self.peek() is not None and self.peek().s in ("const", "mut"):
                out.append(self.eat().s)
            return "".join(out) + self.parse_type()
        if tok.s == "&":
            out.append(self.eat().s)
            if self.peek() is not None and self.peek().k == "life":
                out.append(self.eat().s)
            if self.peek() is not None and self.peek().s == "mut":
                out.append(self.eat().s)
            return "".join(out) + self.parse_type()
        if tok.s in ("[", "("):
            c = match_close(self.t, self.i)
            txt = compact(self.t[self.i : c + 1])
            self.i = c + 1
            return txt
        if tok.s == "_":
            self.eat()
            return "_"
        # path with generic arguments
        while True:
            tk = self.peek()
            if tk is None:
                break
            if tk.k == "id":
                out.append(self.eat().s)
            elif tk.s == "<":
                depth = 0
                while True:
                    t2 = self.eat()
                    out.append(t2.s)
                    if t2.s == "<":
                        depth += 1
                    elif t2.s == ">":
                        depth -= 1
                        if depth == 0:
                            break
            else:
                break
            if self.peek() is not None and self.peek().s == "::":
                out.append(self.eat().s)
                continue
            if self.peek() is not None and self.peek().s == "<":
                continue
            break
        if not out:
            raise Unparsed("type expected at " + text(self.t[self.i : self.i + 3]))
        return "".join(out)

    def path(self):
        parts = []
        while True:
            tok = self.peek()
            if tok is not None and tok.s == "<":
                # qualified / turbofish generic args: skip to matching '>'
                depth = 0
                seg = []
                while True:
                    tk = self.eat()
                    seg.append(tk.s)
                    if tk.s == "<":
                        depth += 1
                    elif tk.s == ">":
                        depth -= 1
                        if depth == 0:
                            break
                    elif tk.s == ">>":
                        depth -= 2
                        if depth <= 0:
                            break
                parts.append("".join(seg))
            elif tok is not None and tok.k == "id":
                parts.append(self.eat().s)
            else:
                raise Unparsed("bad path at " + text(self.t[self.i : self.i + 3]))
            if self.peek() is not None and self.peek().s == "::":
                self.eat()
                continue
            break
        return ("path", "::".join(parts))

    def primary(self):
        tok = self.peek()
        if tok.k == "num":
            self.eat()
            s = tok.s.replace("_", "")
            m = re.match(r"(0x[0-9A-Fa-f]+|[0-9]+)", s)
            return ("num", int(m.group(1), 0))
        if tok.k == "str":
            self.eat()
            return ("str", tok.s)
        if tok.k == "p" and tok.s == "(":
            c = match_close(self.t, self.i)
            inner = self.t[self.i + 1 : c]
            self.i = c + 1
            parts = [p for p in split_top(inner, ",")]
            if len(parts) == 1:
                return ExprParser(parts[0]).parse()
            return ("tuple", [ExprParser(p).parse() for p in parts if p])
        if tok.k == "id" and tok.s == "unsafe" and self.peek(1) is not None and self.peek(1).s == "{":
            self.eat()
            c = match_close(self.t, self.i)
            inner = self.t[self.i + 1 : c]
            self.i = c + 1
            return ExprParser(inner).parse()
        if tok.k == "id" or (tok.k == "p" and tok.s == "<"):
            return self.path()
        raise Unparsed("bad primary at " + text(self.t[self.i : self.i + 3]))

    def postfix(self, e):
        while True:
            tok = self.peek()
            if tok is None:
                return e
            if tok.s == ".":
                nxt = self.peek(1)
                if nxt is None or nxt.k not in ("id", "num"):
                    return e
                self.eat()
                name = self.eat().s
                if self.peek() is not None and self.peek().s == "::":
                    # turbofish on method
                    self.eat()
                    self.path_generic_skip()
                if self.peek() is not None and self.peek().s == "(":
                    args, j = call_args(self.t, self.i)
                    self.i = j
                    e = ("method", e, name, [ExprParser(a).parse() for a in args])
                else:
                    e = ("field", e, name)
            elif tok.s == "(":
                args, j = call_args(self.t, self.i)
                self.i = j
                e = ("call", e, [ExprParser(a).parse() for a in args])
            elif tok.s == "[":
                c = match_close(self.t, self.i)
                inner = self.t[self.i + 1 : c]
                self.i = c + 1
                e = ("index", e, ExprParser(inner).parse())
            elif tok.s == "?":
                self.eat()
                e = ("try", e)
            else:
                return e

    def path_generic_skip(self):
        depth = 0
        while True:
            tk = self.eat()
            if tk.s == "<":
                depth += 1
            elif tk.s == ">":
                depth -= 1
                if depth == 0:
                    return


def parse_expr(toks):
    return ExprParser(toks).parse()


def canon(ast):
    """canonical string of simple path/field chains: self.index, N::USIZE, *position …"""
    k = ast[0]
    if k == "path":
        return ast[1]
    if k == "field":
        return canon(ast[1]) + "." + ast[2]
    if k == "un" and ast[1] in ("*", "&"):
        return canon(ast[2])
    if k == "cast":
        return canon(ast[1])
    if k == "method" and not ast[3]:
        return canon(ast[1]) + "." + ast[2] + "()"
    raise Unparsed("not a simple place: %r" % (ast,))


OVF_SINK = None      # when a list: every `+` / `*` / `<<` translated adds "the result fits a machine word" to it
WORD = "18446744073709551616"


def to_lean(ast, env, boolean=False, side=None):
    """Translate an arithmetic / boolean AST into a Lean term over Nat.
    env: canonical place string -> Lean term.  Raises Unparsed for anything else.
    side: optional list collecting no-underflow / no-division-by-zero side conditions (Lean Bool terms)."""
    _tl = lambda a, e=env, b=False: to_lean(a, e, b, side)
    k = ast[0]
    if k == "num":
        return str(ast[1])
    if k == "sym":
        return ast[1]
    if k in ("path", "field", "cast") or (k == "un" and ast[1] in ("*", "&")) or (k == "method" and not ast[3]):
        try:
            c = canon(ast)
        except Unparsed:
            c = None
        if c is not None and c in env:
            return env[c]
        if k == "cast":
            return _tl(ast[1], env, boolean)
        if k == "un":
            return _tl(ast[2], env, boolean)
        if k == "path" and re.fullmatch(r"(\w+::)*(true|false)", ast[1]):
            return ast[1].split("::")[-1]
        if k == "method" and ast[2] == "is_empty":
            return "(decide (%s = 0))" % _tl(("method", ast[1], "len", []), env)
        raise Unparsed("unknown place %s" % (c,))
    if k == "bin":
        op = ast[1]
        if op in ("+", "-", "*", "/", "%"):
            l, r = _tl(ast[2], env), _tl(ast[3], env)
            if side is not None and op == "-":
                side.append("decide (%s ≤ %s)" % (r, l))
            if side is not None and op in ("/", "%"):
                side.append("decide (0 < %s)" % r)
            if OVF_SINK is not None and op in ("+", "*"):
                OVF_SINK.append("decide (%s %s %s < %s)" % (l, op, r, WORD))
            return "(%s %s %s)" % (l, op, r)
        if op == ">>":
            return "(%s >>> %s)" % (_tl(ast[2], env), _tl(ast[3], env))
        if op == "<<":
            return "(%s <<< %s)" % (_tl(ast[2], env), _tl(ast[3], env))
        if op == "&":
            return "(%s &&& %s)" % (_tl(ast[2], env), _tl(ast[3], env))
        if op == "|":
            return "(%s ||| %s)" % (_tl(ast[2], env), _tl(ast[3], env))
        if op in ("==", "!=", "<", ">", "<=", ">="):
            lop = {"==": "=", "!=": "≠", "<": "<", ">": ">", "<=": "≤", ">=": "≥"}[op]
            return "(decide (%s %s %s))" % (_tl(ast[2], env), lop, _tl(ast[3], env))
        if op in ("&&", "||"):
            return "(%s %s %s)" % (_tl(ast[2], env, True), op, _tl(ast[3], env, True))
    if k == "un" and ast[1] == "!":
        return "(!%s)" % _tl(ast[2], env, True)
    if k == "call":
        fn = ast[1]
        if fn[0] == "path":
            base = fn[1].split("::")[-1]
            if base in ("min", "max") and len(ast[2]) == 2:
                return "(%s %s %s)" % (base, _tl(ast[2][0], env), _tl(ast[2][1], env))
            if re.fullmatch(r"(core::)?(mem::)?size_of::<.*>", fn[1]) and fn[1] in env:
                return env[fn[1]]
    if k == "method":
        name, args = ast[2], ast[3]
        if name in ("min", "max") and len(args) == 1:
            return "(%s %s %s)" % (name, _tl(ast[1], env), _tl(args[0], env))
        if name in ("saturating_sub", "wrapping_sub") and len(args) == 1 and name == "saturating_sub":
            return "(%s - %s)" % (_tl(ast[1], env), _tl(args[0], env))
        if name in ("wrapping_add", "saturating_add") and len(args) == 1:
            return "(%s + %s)" % (_tl(ast[1], env), _tl(args[0], env))
    raise Unparsed("untranslatable expression %r" % (ast,))


def contains_place(ast, place):
    try:
        if canon(ast) == place:
            return True
    except Unparsed:
        pass
    for x in ast[1:]:
        if isinstance(x, tuple) and contains_place(x, place):
            return True
        if isinstance(x, list) and any(isinstance(y, tuple) and contains_place(y, place) for y in x):
            return True
    return False


# ------------------------------------------------------------------------------------------------
# Straight-line symbolic execution over a statement list
# ------------------------------------------------------------------------------------------------

def subst(ast, env):
    """replace every simple place that env knows by its symbolic value"""
    if not isinstance(ast, tuple):
        return ast
    if ast[0] == "sym":
        return ast
    try:
        c = canon(ast)
        if c in env:
            v = env[c]
            return v(env) if callable(v) else v
    except Unparsed:
        pass
    out = []
    for x in ast:
        if isinstance(x, tuple):
            out.append(subst(x, env))
        elif isinstance(x, list):
            out.append([subst(y, env) if isinstance(y, tuple) else y for y in x])
        else:
            out.append(x)
    return tuple(out)


def walk(ast):
    if isinstance(ast, tuple):
        yield ast
        for x in ast[1:]:
            if isinstance(x, tuple):
                yield from walk(x)
            elif isinstance(x, list):
                for y in x:
                    if isinstance(y, tuple):
                        yield from walk(y)


def statements(body):
    """split a block body into statements; `unsafe { … }` statement blocks are flattened.
    Returns list of token lists; the last may be a trailing expression (flagged by caller)."""
    out = []
    cur = []
    depth = 0
    i = 0
    toks = list(body)
    while i < len(toks):
        t = toks[i]
        if depth == 0 and not cur and t.s == "unsafe" and i + 1 < len(toks) and toks[i + 1].s == "{":
            c = match_close(toks, i + 1)
            # statement-position unsafe block (followed by ';' or nothing or another statement)
            nxt = toks[c + 1].s if c + 1 < len(toks) else None
            if nxt in (";", None) or (nxt is not None and nxt not in (".", "?", "as")):
                inner = statements(toks[i + 2 : c])
                out.extend(inner)
                i = c + 1
                if nxt == ";":
                    i += 1
                continue
        if depth == 0 and not cur and t.s == "{":
            c = match_close(toks, i)
            out.extend(statements(toks[i + 1 : c]))
            i = c + 1
            continue
        if t.k == "p" and t.s in OPEN:
            depth += 1
        elif t.k == "p" and t.s in CLOSE:
            depth -= 1
        if depth == 0 and t.s == ";":
            if cur:
                out.append(cur)
            cur = []
        else:
            cur.append(t)
        i += 1
    if cur:
        out.append(cur)
    return out


ASSIGN_OPS = {"=": None, "+=": "+", "-=": "-", "*=": "*", "/=": "/"}


def symexec(body, env, markers=()):
    """Symbolically run straight-line statements.
    env: dict place -> AST (use ('sym', name) for inputs); updated in place.
    markers: callee names (last path segment or method name) whose calls are recorded.
    Returns (events, result_ast_or_None); events are ('assign', place, value) or
    ('call', name, [args substituted], whole_ast) in program order."""
    events = []
    result = None
    stmts = statements(body)
    for idx, st in enumerate(stmts):
        if not st:
            continue
        if st[0].s == "let":
            j = 1
            if st[j].s == "mut":
                j += 1
            name = st[j].s
            eq = None
            depth = 0
            for q in range(j + 1, len(st)):
                if st[q].k == "p" and st[q].s in OPEN:
                    depth += 1
                elif st[q].k == "p" and st[q].s in CLOSE:
                    depth -= 1
                elif depth == 0 and st[q].s == "=":
                    eq = q
                    break
            if eq is None:
                continue
            try:
                val = subst(parse_expr(st[eq + 1 :]), env)
            except Unparsed:
                env.pop(name, None)
                events.append(("opaque", text(st)))
                continue
            record_calls(val, markers, events)
            env[name] = val
            continue
        # assignment?
        depth = 0
        done = False
        for q, t in enumerate(st):
            if t.k == "p" and t.s in OPEN:
                depth += 1
            elif t.k == "p" and t.s in CLOSE:
                depth -= 1
            elif depth == 0 and t.k == "p" and t.s in ASSIGN_OPS and q > 0:
                try:
                    place = canon(parse_expr(st[:q]))
                    rhs = subst(parse_expr(st[q + 1 :]), env)
                except Unparsed:
                    break
                record_calls(rhs, markers, events)
                op = ASSIGN_OPS[t.s]
                if op is None:
                    val = rhs
                else:
                    cur = env.get(place, ("path", place))
                    val = ("bin", op, cur, rhs)
                env[place] = val
                events.append(("assign", place, val))
                done = True
                break
        if done:
            continue
        try:
            e = subst(parse_expr(st), env)
        except Unparsed:
            events.append(("opaque", text(st)))
            continue
        record_calls(e, markers, events)
        if idx == len(stmts) - 1:
            result = e
    return events, result


def record_calls(ast, markers, events):
    for node in walk(ast):
        if node[0] == "call" and node[1][0] == "path":
            nm = node[1][1].split("::")[-1]
            if nm in markers:
                events.append(("call", nm, node[2], node))
        elif node[0] == "method" and node[2] in markers:
            events.append(("call", node[2], [node[1]] + node[3], node))
