"""Statement-level Rust parser for whole function bodies (used by the body translator, bodyx.py).

Extends rsparse.ExprParser with blocks, `let`, assignment, `if`/`else`, `match`, closures, struct
literals, `for` loops and `return`.  AST nodes (tuples), in addition to those of rsparse:
  ('block', [stmt...], tail_expr|None)
  ('let', pattern, init_expr|None)            pattern: ('pbind', name, mode) | ('ptuple',[..]) | ('pstruct', path, [(field, pattern)]) | ('pwild',) | ('pother', text)
  ('assign', op, place_expr, value_expr)      op in '=', '+=', '-=', ...
  ('expr', e)                                 expression statement (with ';')
  ('if', cond, then_block, else_block|None)
  ('match', scrutinee, [(pattern_text, guard_expr|None, body_expr)])
  ('closure', [param patterns], body_expr)
  ('struct', path, [(field, expr)])
  ('for', pattern, iter_expr, body_block)
  ('return', e|None)
  ('macro', name, [arg exprs]|None, text)
Anything else raises rsparse.Unparsed.
"""
from rsparse import (ExprParser, Unparsed, match_close, split_top, call_args, text, compact, BINPREC)

ASSIGN = ("=", "+=", "-=", "*=", "/=", "%=", "|=", "&=", "^=", "<<=", ">>=")


class BodyParser(ExprParser):
    # ---------------------------------------------------------------- helpers
    def sub(self, toks):
        return self.__class__(toks)

    def peek_s(self, k=0):
        t = self.peek(k)
        return None if t is None else t.s

    def parse_list(self, inner):
        """comma-separated expressions (closure-aware: parsed sequentially, not split on commas)"""
        p = self.sub(inner)
        out = []
        while not p.at_end():
            out.append(p.expr_stmt())
            if p.at_end():
                break
            p.eat(",")
        return out

    def paren_args(self):
        """current token is '(' : parse the argument list, advance past ')'"""
        c = match_close(self.t, self.i)
        inner = self.t[self.i + 1 : c]
        self.i = c + 1
        return self.parse_list(inner)

    # ---------------------------------------------------------------- blocks and statements
    def parse_block_tokens(self):
        """current token is '{': parse the block, advance past '}'"""
        if self.peek_s() != "{":
            raise Unparsed("block expected at " + text(self.t[self.i : self.i + 4]))
        c = match_close(self.t, self.i)
        inner = self.t[self.i + 1 : c]
        self.i = c + 1
        return self.sub(inner).block_body()

    def block_body(self):
        stmts = []
        tail = None
        while not self.at_end():
            s = self.peek_s()
            if s == ";":
                self.eat()
                continue
            if s == "#":
                # attribute on a statement: skip `#[...]` / `#![...]`
                self.eat()
                if self.peek_s() == "!":
                    self.eat()
                c = match_close(self.t, self.i)
                self.i = c + 1
                continue
            if s == "let":
                stmts.append(self.let_stmt())
                continue
            if s in ("struct", "union", "enum", "fn", "impl", "use", "const", "static", "type", "trait") and not (
                s == "const" and self.peek_s(1) == "{"
            ):
                stmts.append(self.item_stmt())
                continue
            e = self.expr_stmt()
            if self.peek_s() == ";":
                self.eat()
                stmts.append(e if e[0] in ("assign", "for", "return") else ("expr", e))
            elif self.at_end():
                if e[0] in ("assign", "for"):
                    stmts.append(e)
                else:
                    tail = e
            else:
                # block-like expression statement without ';' (if/match/for/unsafe block/plain block)
                if e[0] in ("if", "match", "for", "block", "assign", "return"):
                    stmts.append(e if e[0] in ("assign", "for", "return") else ("expr", e))
                else:
                    raise Unparsed("statement separator expected at " + text(self.t[self.i : self.i + 4]))
        return ("block", stmts, tail)

    def item_stmt(self):
        """a nested item (struct/union/fn …): kept as opaque text"""
        start = self.i
        depth = 0
        while not self.at_end():
            t = self.peek()
            if t.k == "p" and t.s in ("(", "["):
                depth += 1
            elif t.k == "p" and t.s in (")", "]"):
                depth -= 1
            elif depth == 0 and t.s == ";":
                self.eat()
                break
            elif depth == 0 and t.s == "{":
                c = match_close(self.t, self.i)
                self.i = c + 1
                break
            self.eat()
        return ("item", text(self.t[start : self.i]))

    def let_stmt(self):
        self.eat("let")
        # pattern runs to ':' or '=' or ';' at depth 0
        j = self.i
        depth = 0
        while j < len(self.t):
            t = self.t[j]
            if t.k == "p" and t.s in ("(", "[", "{"):
                depth += 1
            elif t.k == "p" and t.s in (")", "]", "}"):
                depth -= 1
            elif depth == 0 and t.s in (":", "=", ";"):
                break
            j += 1
        pat = parse_pattern(self.t[self.i : j])
        self.i = j
        typ = None
        if self.peek_s() == ":":
            # type annotation: skip to '=' or ';' at depth 0 (angle brackets tracked)
            depth = 0
            self.eat()
            t0 = self.i
            while not self.at_end():
                t = self.peek()
                if t.k == "p" and t.s in ("(", "[", "{", "<"):
                    depth += 1
                elif t.k == "p" and t.s in (")", "]", "}", ">"):
                    depth -= 1
                elif depth <= 0 and t.s in ("=", ";"):
                    break
                self.eat()
            typ = "".join(t.s for t in self.t[t0 : self.i])
        init = None
        if self.peek_s() == "=":
            self.eat()
            init = self.expr(0)
            if self.peek_s() == "else":
                raise Unparsed("let-else")
        if self.peek_s() == ";":
            self.eat()
        elif not self.at_end():
            raise Unparsed("`;` expected after let at " + text(self.t[self.i : self.i + 4]))
        return ("let", pat, init, typ)

    def expr_stmt(self):
        s = self.peek_s()
        if s == "return":
            self.eat()
            if self.at_end() or self.peek_s() == ";":
                return ("return", None)
            return ("return", self.expr(0))
        if s == "for":
            return self.for_expr()
        e = self.expr(0)
        if self.peek_s() in ASSIGN:
            op = self.eat().s
            rhs = self.expr(0)
            return ("assign", op, e, rhs)
        return e

    def for_expr(self):
        self.eat("for")
        j = self.i
        depth = 0
        while j < len(self.t):
            t = self.t[j]
            if t.k == "p" and t.s in ("(", "[", "{"):
                depth += 1
            elif t.k == "p" and t.s in (")", "]", "}"):
                depth -= 1
            elif depth == 0 and t.s == "in":
                break
            j += 1
        pat = parse_pattern(self.t[self.i : j])
        self.i = j
        self.eat("in")
        it = self.expr(0, no_struct=True)
        body = self.parse_block_tokens()
        return ("for", pat, it, body)

    # ---------------------------------------------------------------- expressions
    def expr(self, level, no_struct=False):
        # thread no_struct through a member so that primary() can see it
        saved = getattr(self, "_no_struct", False)
        if level == 0:
            self._no_struct = no_struct
        try:
            if level == 0:
                if self.peek() is not None and self.peek().s in ("..", "..="):
                    self.eat()
                    hi = None
                    if not self.at_end() and self.peek().s not in (")", "]", ",", ";", "}"):
                        hi = self.expr(1)
                    return ("range", None, hi)
                lo = self.expr(1)
                if self.peek() is not None and self.peek().s in ("..", "..="):
                    self.eat()
                    hi = None
                    if not self.at_end() and self.peek().s not in (")", "]", ",", ";", "}", "{"):
                        hi = self.expr(1)
                    return ("range", lo, hi)
                return lo
            idx = level - 1
            if idx >= len(BINPREC):
                return self.unary()
            l = self.expr(level + 1)
            while True:
                b = self.binop_at(idx)
                if b is None:
                    return l
                op, ntok = b
                # `a < b` vs generic: the parent parser's rule is kept
                self.i += ntok
                r = self.expr(level + 1)
                l = ("bin", op, l, r)
        finally:
            if level == 0:
                self._no_struct = saved

    def binop_at(self, level):
        tok = self.peek()
        if tok is None or tok.k != "p":
            return None
        # compound assignment tokens are not binary operators
        if tok.s in ASSIGN:
            return None
        if tok.s == "|" and self.peek(1) is not None and self.peek(1).s == "=" and self.peek(1).pos == tok.pos + 1:
            return None
        return ExprParser.binop_at(self, level)

    def unary(self):
        tok = self.peek()
        if tok is None:
            raise Unparsed("unexpected end")
        if tok.k == "p" and tok.s in ("!", "-", "*", "&"):
            self.eat()
            if tok.s == "&" and self.peek() is not None and self.peek().s == "mut":
                self.eat()
                e = self.unary()
                return ("un", "&mut", e)
            e = self.unary()
            return ("un", tok.s, e)
        if tok.k == "p" and tok.s == "&&":
            self.eat()
            return ("un", "&", ("un", "&", self.unary()))
        e = self.postfix(self.primary())
        while self.peek() is not None and self.peek().s == "as":
            self.eat()
            ty = self.parse_type()
            e = ("cast", e, ty)
            e = self.postfix(e)
        return e

    def closure(self):
        if self.peek_s() == "move":
            self.eat()
        params = []
        if self.peek_s() == "||":
            self.eat()
        else:
            self.eat("|")
            j = self.i
            depth = 0
            while j < len(self.t):
                t = self.t[j]
                if t.k == "p" and t.s in ("(", "[", "{"):
                    depth += 1
                elif t.k == "p" and t.s in (")", "]", "}"):
                    depth -= 1
                elif depth == 0 and t.s == "|":
                    break
                j += 1
            inner = self.t[self.i : j]
            self.i = j
            self.eat("|")
            for p in split_top(inner, ","):
                if not p:
                    continue
                # strip a type annotation
                q = []
                depth = 0
                for t in p:
                    if t.k == "p" and t.s in ("(", "[", "{"):
                        depth += 1
                    elif t.k == "p" and t.s in (")", "]", "}"):
                        depth -= 1
                    if depth == 0 and t.s == ":":
                        break
                    q.append(t)
                params.append(parse_pattern(q))
        if self.peek_s() == "->":
            self.eat()
            self.parse_type()
        body = self.expr(0)
        return ("closure", params, body)

    def primary(self):
        tok = self.peek()
        if tok is None:
            raise Unparsed("unexpected end")
        s = tok.s
        if tok.k == "p" and s == "{":
            return self.parse_block_tokens()
        if tok.k == "id" and s == "unsafe" and self.peek_s(1) == "{":
            self.eat()
            return self.parse_block_tokens()
        if tok.k == "id" and s == "const" and self.peek_s(1) == "{":
            self.eat()
            return self.parse_block_tokens()
        if tok.k == "id" and s == "if":
            return self.if_expr()
        if tok.k == "id" and s == "match":
            return self.match_expr()
        if tok.k == "id" and s in ("loop", "while"):
            raise Unparsed("loop construct `%s`" % s)
        if (tok.k == "p" and s in ("|", "||")) or (tok.k == "id" and s == "move"):
            return self.closure()
        if tok.k == "p" and s == "(":
            c = match_close(self.t, self.i)
            inner = self.t[self.i + 1 : c]
            self.i = c + 1
            if not inner:
                return ("tuple", [])
            parts = self.parse_list(inner)
            if len(parts) == 1 and inner[-1].s != ",":
                return parts[0]
            return ("tuple", parts)
        if tok.k == "p" and s == "[":
            c = match_close(self.t, self.i)
            inner = self.t[self.i + 1 : c]
            self.i = c + 1
            parts = split_top(inner, ";")
            if len(parts) == 2:
                return ("repeat", self.sub(parts[0]).parse(), self.sub(parts[1]).parse())
            return ("array", self.parse_list(inner))
        if tok.k in ("num", "str", "char"):
            if tok.k == "char":
                self.eat()
                return ("char", tok.s)
            return ExprParser.primary(self)
        if tok.k == "id" or (tok.k == "p" and s == "<"):
            p = self.path()
            # macro invocation
            if self.peek_s() == "!" and self.peek(1) is not None and self.peek(1).s in ("(", "[", "{"):
                self.eat()
                c = match_close(self.t, self.i)
                inner = self.t[self.i + 1 : c]
                self.i = c + 1
                try:
                    args = self.parse_list(inner)
                except Unparsed:
                    args = None
                return ("macro", p[1], args, text(inner))
            # struct literal
            if self.peek_s() == "{" and not getattr(self, "_no_struct", False) and p[1].split("::")[-1][:1].isupper():
                c = match_close(self.t, self.i)
                inner = self.t[self.i + 1 : c]
                self.i = c + 1
                fields = []
                for part in split_top(inner, ","):
                    if not part:
                        continue
                    if part[0].s == "..":
                        fields.append(("..", self.sub(part[1:]).parse()))
                    elif len(part) >= 2 and part[1].s == ":":
                        fields.append((part[0].s, self.sub(part[2:]).parse()))
                    else:
                        fields.append((part[0].s, ("path", part[0].s)))
                return ("struct", p[1], fields)
            return p
        raise Unparsed("bad primary at " + text(self.t[self.i : self.i + 3]))

    def if_expr(self):
        self.eat("if")
        if self.peek_s() == "let":
            raise Unparsed("if-let")
        cond = self.expr(0, no_struct=True)
        then = self.parse_block_tokens()
        els = None
        if self.peek_s() == "else":
            self.eat()
            if self.peek_s() == "if":
                els = ("block", [], self.if_expr())
            else:
                els = self.parse_block_tokens()
        return ("if", cond, then, els)

    def match_expr(self):
        self.eat("match")
        scrut = self.expr(0, no_struct=True)
        if self.peek_s() != "{":
            raise Unparsed("match body expected")
        c = match_close(self.t, self.i)
        inner = self.t[self.i + 1 : c]
        self.i = c + 1
        arms = []
        p = self.sub(inner)
        while not p.at_end():
            # pattern up to '=>' at depth 0, optional `if guard`
            j = p.i
            depth = 0
            guard_at = None
            while j < len(p.t):
                t = p.t[j]
                if t.k == "p" and t.s in ("(", "[", "{"):
                    depth += 1
                elif t.k == "p" and t.s in (")", "]", "}"):
                    depth -= 1
                elif depth == 0 and t.s == "if" and guard_at is None:
                    guard_at = j
                elif depth == 0 and t.s == "=>":
                    break
                j += 1
            if j >= len(p.t):
                raise Unparsed("match arm without =>")
            pat_toks = p.t[p.i : (guard_at if guard_at is not None else j)]
            guard = None
            if guard_at is not None:
                guard = p.sub(p.t[guard_at + 1 : j]).parse()
            p.i = j + 1
            body = p.expr_stmt()
            if p.peek_s() == ",":
                p.eat()
            arms.append((compact(pat_toks), guard, body))
        return ("match", scrut, arms)

    def postfix(self, e):
        while True:
            tok = self.peek()
            if tok is None:
                return e
            if tok.s == ".":
                nxt = self.peek(1)
                if nxt is None or nxt.k not in ("id", "num"):
                    return e
                self.eat()
                name = self.eat().s
                if self.peek() is not None and self.peek().s == "::":
                    self.eat()
                    t0 = self.i
                    self.path_generic_skip()
                    if name == "next_element":
                        # the element type decides what the call builds (`next_element::<Dummy>()`)
                        name += "::" + "".join(t.s for t in self.t[t0 : self.i])
                if self.peek() is not None and self.peek().s == "(":
                    e = ("method", e, name, self.paren_args())
                else:
                    e = ("field", e, name)
            elif tok.s == "(":
                e = ("call", e, self.paren_args())
            elif tok.s == "[":
                c = match_close(self.t, self.i)
                inner = self.t[self.i + 1 : c]
                self.i = c + 1
                e = ("index", e, self.sub(inner).parse())
            elif tok.s == "?":
                self.eat()
                e = ("try", e)
            else:
                return e

    def parse(self):
        e = self.expr_stmt()
        if not self.at_end():
            raise Unparsed("trailing tokens: " + text(self.t[self.i :]))
        return e


def parse_pattern(toks):
    toks = list(toks)
    if not toks:
        raise Unparsed("empty pattern")
    if len(toks) == 1 and toks[0].s == "_":
        return ("pwild",)
    if toks[0].s == "&":
        return parse_pattern(toks[1:])
    mode = ""
    i = 0
    while i < len(toks) and toks[i].s in ("ref", "mut"):
        mode += ("ref " if toks[i].s == "ref" else "mut ")
        i += 1
    rest = toks[i:]
    if len(rest) == 1 and rest[0].k == "id":
        return ("pbind", rest[0].s, mode.strip())
    if rest and rest[0].s == "(" and match_close(rest, 0) == len(rest) - 1 and not mode:
        return ("ptuple", [parse_pattern(p) for p in split_top(rest[1:-1], ",") if p])
    # struct pattern  Path { a, ref b, c: pat }
    for k, t in enumerate(rest):
        if t.s == "{" and match_close(rest, k) == len(rest) - 1 and not mode:
            path = compact(rest[:k])
            fields = []
            for part in split_top(rest[k + 1 : -1], ","):
                if not part:
                    continue
                if part[0].s == "..":
                    fields.append(("..", ("pwild",)))
                    continue
                # `name: pattern` or shorthand `[ref] [mut] name`
                colon = next((q for q, tt in enumerate(part) if tt.s == ":"), None)
                if colon is not None:
                    fields.append((part[0].s, parse_pattern(part[colon + 1 :])))
                else:
                    pb = parse_pattern(part)
                    if pb[0] != "pbind":
                        raise Unparsed("struct pattern field")
                    fields.append((pb[1], pb))
            return ("pstruct", path, fields)
    return ("pother", compact(toks))


def parse_body(toks):
    """parse the tokens of a fn body (without the outer braces)"""
    return BodyParser(toks).block_body()


def walk(ast):
    """pre-order walk over every tuple node"""
    if isinstance(ast, tuple):
        yield ast
        for x in ast[1:]:
            if isinstance(x, tuple):
                yield from walk(x)
            elif isinstance(x, list):
                for y in x:
                    if isinstance(y, tuple):
                        yield from walk(y)
                        for z in y:
                            if isinstance(z, list):
                                for w in z:
                                    if isinstance(w, tuple):
                                        yield from walk(w)
