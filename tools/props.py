"""Registry: property id -> what decides it."""
from orchestrate import Engine, Prop
import scen
import corpora

KERNEL = "Lean 4.33.0 kernel (lake build; leanchecker re-check in the thorough tier); axioms per theorem audited ⊆ {propext, Quot.sound, Classical.choice}"
TRANSLATOR = "tools/extract.py + tools/rsparse.py (translator: Rust fragments -> lean/GA/Gen/*.lean, regenerated every run)"
BODYTIE = "tools/bodyx.py + tools/rsbody.py (whole-body translator: every statement of the functions of src/iter.rs, of the drop guards / new / extend / is_full / finish / iter_position of src/internal.rs and of try_from_iter / from_iter / generate of src/lib.rs -> body IR in lean/GA/Gen/Body.lean, regenerated every run) and the body-IR interpreter lean/GA/Model/Body.lean (its semantics of ptr::read, get_unchecked, drop_in_place, mem::forget, slice fold/rfold/zip loops, scope-end and unwinding drops is the model of Rust that the body-level theorems rest on)"
HARNESS = "harness/ (Rust correspondence harness calling the real crate in-process) + tools/scen.py + canonicalisation in tools/orchestrate.py"

PROPS = {}
PARAMS = {}

PROPS["C06"] = Prop(
    "C06", ["GA.Props.C06", "GA.Props.Body"],
    [Engine("iterq", scen.iterq, body_view=True, sig=lambda l: "n=" + l.split()[0].split("=")[1] if int(l.split()[0].split("=")[1]) > 8 else "small"),
     Engine("own", lambda t, s, p: [x for x in scen.own_c05(t, s, p) if x.startswith("op=iter_")], sig=lambda l: own_sig(l), body_view=True)],
    trusted=[KERNEL, TRANSLATOR, BODYTIE, HARNESS,
             "modelled, not verified: ptr::read / get_unchecked / slice iteration semantics of core; VecDeque is the independent oracle"],
    assumptions=["elements are plain u64 values (Clone copies the value)",
                 "correspondence covers the length lattice only; the theorems cover every N"],
    nontrivial=lambda scen_line, impl: "some(" in impl,
)
PARAMS["C06"] = {"rule": "exhaustive: for N in 0..=8, every reachable (front, back), directly and via a clone, every operation with every argument 0..=len+2, bracketed by the passive observers; plus seeded random operation sequences (length ≤ 64) over the length lattice. Distinct = distinct scenario lines; non-trivial = at least one operation returned Some(_)."}

PROPS["C01"] = Prop(
    "C01", ["GA.Props.C01", "GA.Props.C16", "GA.Props.BodyBoxed", "GA.Props.C19", "GA.Props.C10", "GA.Props.BodyViewsChunks", "GA.Props.BodyViewsSlices"],
    [Engine("layout", scen.layout, sig=lambda l: l.split()[0]),
     Engine("layout", scen.layout_full, bin="layout_full", sig=lambda l: l.split()[0]),
     Engine("xmute", scen.xmute, sig=lambda l: "xmute"),
     Engine("heap", scen.heap_c01, sig=lambda l: "heap/" + l.split()[2], body_view=True),
     # observe_at: "arrays built field-by-field through ConstDefault, read back through the slice view"; zeroize walks the
     # array as raw memory between two canaries ("never touches ... memory outside the array")
     Engine("fill", scen.fill, sig=lambda l: "fill/" + l.split()[0]),
     # "viewing the array as a slice or native array never touches ... memory outside the array": the chunk views regroup
     # a slice into arrays on the strength of the layout identity; a sample runs here, under Miri when the tie is broken
     Engine("chunks", lambda t, s, p: [x for k, x in enumerate(scen.chunks(t, s, p)) if k % 6 == 0], sig=lambda l: "chunks/" + l.split()[0], miri=60, body_view=True)],
    trusted=[KERNEL, TRANSLATOR, BODYTIE, HARNESS,
             "modelled, not verified: rustc's implementation of repr(C), repr(transparent), [T; 0] and PhantomData layout (the Rust Reference's algorithm is the model); validated against size_of/align_of on the grid"],
    assumptions=["every Rust type has 0 < align and align | size (language guarantee); element layouts are abstracted to (size, align)",
                 "the oracle [T; N] is represented by the language-guaranteed N * size_of::<T>() / align_of::<T>()"],
    nontrivial=lambda scen_line, impl: " n=0" not in scen_line and "tsize=0" not in scen_line,
)
PARAMS["C01"] = {"rule": "19 element layouts (sizes 0..64, aligns 1..64, padded tuples, packed, aligned ZSTs, nested GenericArrays) x the length lattice (quick) or every N in 0..=1025 plus every 2^k, 2^k-1, 10^k up to 2^62 for ZST and 2^60 for u8 (thorough). Distinct = distinct (type, N); non-trivial = N > 0 and size > 0."}

OWN_TRUST = "modelled, not verified: Rust's unwinding (live locals dropped once, innermost frame first), slice drop glue continuing after a panicking element, core's Zip/Map/Enumerate/for_each/fold, alloc's Vec/vec::IntoIter ownership"


def own_sig(l):
    kv = dict(t.split("=", 1) for t in l.split() if "=" in t)
    return "%s/%s/%s" % (kv.get("op"), kv.get("form", "") + kv.get("form2", ""), kv.get("fault", "none").split(":")[0])


PROPS["C04"] = Prop(
    "C04", ["GA.Props.C04", "GA.Props.Body", "GA.Props.BodyCollect", "GA.Props.BodyBoxed", "GA.Props.BodyZip", "GA.Props.BodyClone"],
    [Engine("own", scen.own_c04, sig=own_sig, body_view=True),
     Engine("heap", scen.heap_c04, sig=lambda l: l.split()[0] + "/" + l.split()[2], body_view=True)],
    trusted=[KERNEL, TRANSLATOR, BODYTIE, HARNESS, OWN_TRUST],
    assumptions=["element ids are distinct; caller code is a function of the call index (one injected panic per run)",
                 "a second panic during unwinding aborts the process and is outside the property",
                 "correspondence covers N in {0..8, 16, 17, 33}; the theorems cover every N and every panic index"],
    nontrivial=lambda s, impl: "fault=none" not in s and "res=panicked" in impl,
)
PARAMS["C04"] = {"rule": "every operation (generate, default, map x4 forms, zip x10 forms, fold x4 forms, clone, iterator clone/fold/rfold from every (front, back), collect stack/boxed x try/panicking) x N in {0..8,16,17,33} x an injected panic at every call index (N <= 8; first/middle/last above) and the panic-free run. Distinct = distinct scenario lines; non-trivial = a panic was injected and propagated."}

PROPS["C05"] = Prop(
    "C05", ["GA.Props.C05", "GA.Props.Body", "GA.Props.BodyCollectBad"],
    [Engine("own", scen.own_c05, sig=own_sig, body_view=True)],
    trusted=[KERNEL, TRANSLATOR, BODYTIE, HARNESS, OWN_TRUST],
    assumptions=["exactly one element's destructor panics per run (a second panic while unwinding aborts the process)",
                 "element ids are distinct", "elements abandoned by unwinding may leak (allowed by the property); the oracle only rejects a second drop"],
    nontrivial=lambda s, impl: "fault=dtor" in s and "panicked" in impl,
)
PARAMS["C05"] = {"rule": "iterator nth / nth_back / last / count / drop from every reachable (front, back) for N <= 6 (thorough: 8), every skip count 0..=len+1, every choice of the element whose destructor panics (and none); boundary positions for N in {16,17,33}. Non-trivial = a destructor panicked."}

PROPS["C07"] = Prop(
    "C07", ["GA.Props.C07", "GA.Props.BodyCollect"],
    [Engine("own", scen.own_c07, sig=own_sig, body_view=True),
     Engine("heap", scen.heap_c07, sig=lambda l: l.split()[0] + "/" + l.split()[3])],
    trusted=[KERNEL, TRANSLATOR, BODYTIE, HARNESS, OWN_TRUST, "modelled, not verified: Vec::with_capacity/extend/Take of alloc and core for the boxed form"],
    assumptions=["the source is modelled as the list of answers its next() calls give plus a size_hint; answers after the first None may be Some again (not fused)",
                 "correspondence covers N in {0..8,16,17,33}; theorems cover every N, every script, every hint"],
    nontrivial=lambda s, impl: "res=ok" in impl or "res=err" in impl,
)
PARAMS["C07"] = {"rule": "N in {0..8,16,17,33} x item counts 0..=N+3 x nine size hints (exact, loose, absent-upper, lying low/high, excluding N) x fused / non-fused / never-ending scripts x stack/boxed x try/panicking form x a panic at every poll; plus seeded random scripts. Non-trivial = the call returned Ok or Err (not a panic)."}

PROPS["C08"] = Prop(
    "C08", ["GA.Props.C08", "GA.Props.BodyCollect", "GA.Props.BodyBoxed", "GA.Props.BodyZip", "GA.Props.BodyClone"],
    [Engine("own", scen.own_c08, sig=own_sig, body_view=True), Engine("heap", scen.heap_c08, sig=lambda l: l.split()[0] + "/" + l.split()[2], body_view=True)],
    trusted=[KERNEL, TRANSLATOR, HARNESS, OWN_TRUST],
    assumptions=["caller code does not panic in this property (C04 covers panics); closures are stateful recorders in the harness",
                 "correspondence covers N in {0..8,16,17,33}; theorems cover every N"],
    nontrivial=lambda s, impl: " n=0 " not in s,
)
PARAMS["C08"] = {"rule": "generate, Default, Clone, map x4 receiver forms, fold x4 forms, zip x10 form pairs, each for drop-tracked and plain (no-drop) element types on either side (selecting the needs_drop branches), N in {0..8,16,17,33}; the ordered call log (call index, arguments) and the result are compared. Non-trivial = N > 0."}

PROPS["C09"] = Prop(
    "C09", ["GA.Props.C09", "GA.Props.BodySeq"],
    [Engine("seq", scen.seq, sig=lambda l: l.split()[0] + "/" + l.split()[-1], miri=80, body_view=True)],
    trusted=[KERNEL, TRANSLATOR, HARNESS,
             "modelled, not verified: ptr::read/ptr::write/ptr::copy/slice::swap semantics; the result types' lengths (Add1/Sub1/Diff/Sum) are typenum's; layout facts come from C01"],
    assumptions=["element values are abstracted to ids; blocks are addressed in whole elements (C01 gives stride = size_of::<T>())",
                 "correspondence covers N in {0..8,16,17,33}; theorems cover every N, K, M, index"],
    nontrivial=lambda s, impl: " n=0 " not in s,
)
PARAMS["C09"] = {"rule": "append, prepend, pop_back, pop_front, split at every K <= N (owned, & and &mut), concat for every N + M <= 8, remove / swap_remove at every index 0..=N+1 and usize::MAX, for N in 0..=8 plus 16/17/33, element kinds of size 0 (drop-counted), 1, 8, 24 bytes and a drop-tracked one; compared with the Vec operation, pointer extents of the reference split, and per-element drop counts."}

MEM_TRUST = "modelled, not verified: slice::from_raw_parts(_mut), reference transmutes and pointer casts produce a view at the computed address with the computed length; layouts from C01"

PROPS["C02"] = Prop(
    "C02", ["GA.Props.C02", "GA.Props.BodyViewsSlices"],
    [Engine("views", scen.views, sig=lambda l: l.split()[0], miri=80, body_view=True), Engine("xmute", scen.xmute, sig=lambda l: "xmute")],
    trusted=[KERNEL, TRANSLATOR, HARNESS, MEM_TRUST],
    assumptions=["a view is described by (address offset, element count); aliasing rules beyond address equality (Stacked/Tree Borrows) are not modelled",
                 "correspondence covers the length lattice incl. every tuple length 1..=12; theorems cover every N and every source length L"],
    nontrivial=lambda s, impl: " n=0 " not in s,
)
PARAMS["C02"] = {"rule": "ten borrowed views x length lattice x 5 element kinds (address offset and length vs the array); six checked reinterpretations x source lengths {0, N-1, N, N+1, 2N+1}; AsRef/AsMut<[T;N]>, From<&[T;N]>, array and tuple round trips for every const length; write through each mutable view, read through each view (all ordered pairs)."}

PROPS["C10"] = Prop(
    "C10", ["GA.Props.C10", "GA.Props.BodyViewsChunks"],
    [Engine("chunks", scen.chunks, sig=lambda l: l.split()[0], miri=80, body_view=True)],
    trusted=[KERNEL, TRANSLATOR, HARNESS, MEM_TRUST],
    assumptions=["slice_from_chunks on zero-sized elements with k*N >= 2^64 (the multiplication can wrap; no memory is involved) is outside the theorem's hypothesis",
                 "const-evaluator agreement is covered by C18"],
    nontrivial=lambda s, impl: " n=0 " not in s and " l=0 " not in s,
)
PARAMS["C10"] = {"rule": "chunks_from_slice(_mut) for every L in 0..=4N+3, N in {0,1,2,3,7,8,16,33}, element kinds of 0/1/4/24 bytes: pointer and length of both parts vs the source; slice_from_chunks(_mut), from_chunks(_mut), into_chunks(_mut) for several chunk counts."}

PROPS["C11"] = Prop(
    "C11", ["GA.Props.C11", "GA.Props.BodyViewsRegroup"],
    [Engine("regroup", scen.regroup, sig=lambda l: l.split()[0], miri=60, body_view=True)],
    trusted=[KERNEL, TRANSLATOR, HARNESS, MEM_TRUST, "typenum's Prod/Quot"],
    assumptions=["unflatten is claimed over evenly divisible lengths (its documented domain); other lengths hit the size check (owned) and are shown to stay within the source (by reference)"],
    nontrivial=lambda s, impl: " n=0 " not in s and " m=0 " not in s,
)
PARAMS["C11"] = {"rule": "flatten / unflatten, owned, & and &mut, for every (N, M) in 0..=6 squared (N >= 1 for unflatten) plus (1,1024), (1024,1), (16,64); 5 element kinds incl. zero-sized and drop-tracked; element order, address and extent of the regrouped value/view."}

PROPS["C03"] = Prop(
    "C03", ["GA.Props.C03", "GA.Props.Body", "GA.Props.BodyCollect", "GA.Props.BodySeq", "GA.Props.C17", "GA.Props.BodySerde",
            "GA.Bridge.Surface.ImplSerde"],
    [Engine("hist", scen.hist, sig=lambda l: "len%d" % min(40, 5 * (l.count(";") // 5)), miri=12),
     Engine("seq", scen.seq, sig=lambda l: l.split()[0] + "/" + l.split()[-1], body_view=True),
     # construction by deserialization (drop-tracked elements): accepted or rejected, every element read is released once
     Engine("serde", lambda t, s, p: [x for k, x in enumerate(scen.serde(t, s, p)) if not x.startswith("op=de_script") or k % 4 == 0],
            sig=lambda l: l.split()[0], body_view=True),
     Engine("regroup", lambda t, s, p: [x for x in scen.regroup(t, s, p) if "kind=tr" in x], sig=lambda l: l.split()[0]),
     Engine("own", scen.own_c08, sig=own_sig, body_view=True),
     Engine("heap", lambda t, s, p: [x for x in scen.heap_c15(t, s, p) if "kind=tr" in x or "kind=z" in x], sig=lambda l: l.split()[0])],
    trusted=[KERNEL, TRANSLATOR, BODYTIE, HARNESS, OWN_TRUST, MEM_TRUST],
    assumptions=["histories are panic-free (C04/C05 cover panics); element ids are assigned in creation order",
                 "flatten/unflatten are modelled at pool level as regrouping of rows (C11 gives the element order); conversions to/from native arrays, tuples, Vec and Box keep the elements (C15/C16 cover the heap side)",
                 "the correspondence pool holds arrays of length 0..=8; the theorem covers every length and every finite history"],
    nontrivial=lambda s, impl: s.count(";") >= 3,
)
PARAMS["C03"] = {"rule": "seeded random chains (quick: 300 chains of <= 14 ops; thorough: 20000 chains of <= 40 ops) of all 33 pool operations over drop-tracked elements, outputs of one operation feeding the next; full final state (arrays, live iterator ranges, caller-held elements, drop log) compared with the model, then everything is dropped and every created id must have been dropped exactly once. Plus all single sequence / regroup operations with drop-tracked and drop-counted zero-sized elements."}

PROPS["C14"] = Prop(
    "C14", ["GA.Props.C14"],
    [Engine("hex", scen.hex_, sig=lambda l: l.split()[0]),
     Engine("hex", scen.hex_, features=("faster-hex",), sig=lambda l: l.split()[0] + "/faster-hex")],
    trusted=[KERNEL, TRANSLATOR, HARNESS,
             "modelled, not verified: core::fmt (precision delivery, write_str), faster-hex's hex_encode contract (needs dst.len() >= 2*src.len(), writes exactly 2*src.len() digits at the front) — validated by building and running the engine with the feature on"],
    assumptions=["byte values are < 256; output characters are compared as strings (long outputs by length, 24-char head and tail, and an FNV digest computed on both sides)"],
    nontrivial=lambda s, impl: " n=0 " not in s and "prec=0 " not in s,
)
PARAMS["C14"] = {"rule": "N in 0..=17, 31..=33, 1023, 1024, 1025, 2047..=2049, 3000, 4096 (covering the three strategies and their thresholds +-1) x every precision 0..=2N+2 for N <= 33, boundary and seeded precisions above x both cases x 2-3 byte patterns (never all-zero), with the faster-hex feature off and on. Non-trivial = N > 0 and precision != 0."}

PROPS["C13"] = Prop(
    "C13", ["GA.Props.C13"],
    [Engine("cmp", scen.cmp_, sig=lambda l: " ".join(l.split()[:2]) + ("/same" if "same=1" in l else ""))],
    trusted=[KERNEL, TRANSLATOR, HARNESS,
             "modelled, not verified: core's `[T]` impls of PartialEq/PartialOrd/Ord/Hash/Debug (lexicographic order, length prefix, debug_list + PadAdapter) and the elements' own Debug output under each option set (tools/rustfmt.py) — both validated on every run by comparing the model's results with the real slice's; HashMap/BTreeMap are modelled as first-match search on hash+eq / order"],
    assumptions=["`same` (what core::ptr::eq(self, other) answers) implies the operands are equal; zero-sized element arrays sharing an address are not generated",
                 "the hasher stream is compared after flattening `write` call boundaries (write_usize is kept distinct as the length prefix)"],
    nontrivial=lambda s, impl: " n=0 " not in s,
)
PARAMS["C13"] = {"rule": "element types u8, i32, f64 (NaN, +-inf, -0.0), String, GenericArray<i32,U2>, GenericArray<f64,U2>: all ordered pairs over a 3-letter alphabet for N in 0..=3 (N = 4: 2 letters in quick, 3 in thorough) plus every array against itself as the same object; seeded near-equal pairs for N in {2,3,4,8,16,33,100}; ==, !=, partial_cmp, <, <=, >, >=, cmp; recording-Hasher stream and DefaultHasher value for every array; Debug under 15 option sets ({:?}, {:#?}, width/alignment/fill, +, 0-pad, x/X, #x, precision) x 6 element types; HashMap and BTreeMap lookups by &[T]."}

PROPS["C19"] = Prop(
    "C19", ["GA.Props.C19"],
    [Engine("fill", scen.fill, sig=lambda l: " ".join(l.split()[:2])),
     Engine("filldefault", scen.filldefault, runner=corpora.filldefault_runner, sig=lambda l: " ".join(l.split()[:2]))],
    trusted=[KERNEL, TRANSLATOR, HARNESS,
             "modelled, not verified: zeroize's `IterMut<Z>: Zeroize` (calls the element's zeroize on every item), the const-default crate's impls for primitives and `[T; 0]`, const evaluation of struct literals; field placement is C01's layout result (repr(C), no padding)"],
    assumptions=["the element's own zeroize / DEFAULT are parameters of the theorems (any function, any value); the engine instantiates them with five element types"],
    nontrivial=lambda s, impl: " n=0 " not in s and not s.endswith(" n=0"),
)
PARAMS["C19"] = {"rule": "every N in 0..=64 and {96,127,128,129,255,256,257,511,512,513,1000,1023,1024} (every even/odd storage shape to depth 10) x element types u8, u64, [u8;3], Slot{id kept, wiped set, secret cleared; DEFAULT not all-zero}, GenericArray<Slot,U3>: const_default() element-wise vs T::DEFAULT, vs Default::default(), vs the compile-time evaluated associated constants; zeroize() on seeded non-zero contents element-wise vs zeroizing each element by hand."}

PROPS["C20"] = Prop(
    "C20", ["GA.Props.C20"],
    [Engine("arrmac", scen.arrmac, sig=lambda l: " ".join(t for t in l.split() if t.split("=")[0] in ("op", "box", "kind"))),
     Engine("arrconst", scen.arrconst, runner=corpora.arrconst_runner, sig=lambda l: " ".join(t for t in l.split() if t.split("=")[0] in ("form", "pos")))],
    trusted=[KERNEL, TRANSLATOR, HARNESS,
             "modelled, not verified: macro_rules! matching (first arm whose matcher accepts), evaluation order of array literals / repeat expressions / vec!, which std functions are const fn; the program corpus runner (tools/corpus.py) reports rustc's verdict on const items built from the macro"],
    assumptions=["an element expression is a value plus an effect on a log; the engine's expressions push their index",
                 "lengths are limited to those typenum's Const<N> table supports (<= 1024), as the macro's documentation says"],
    nontrivial=lambda s, impl: " k=0 " not in s and " n=0 " not in s,
)
PARAMS["C20"] = {"rule": "list form: every element count 0..=64, 100, 128, 255, 256 x {arr!, box_arr!} x {Copy, non-Copy elements} with index-logging element expressions, trailing commas 0/1/2 at small and boundary counts; both repeat forms x N in {0..8,16,17,31,32,33,64,97,255,256,1000,1023,1024} x {arr!, box_arr! (Copy and Clone-only elements)}: type-level length, values, evaluation log. Const positions: each list count and each repeat length as a const item (plus static and const fn bodies), compiled against the crate and compared with the literal at run time."}

PROPS["C18"] = Prop(
    "C18", ["GA.Props.C18", "GA.Props.C20", "GA.Props.C19", "GA.Props.BodyViewsSlices", "GA.Props.BodyViewsChunks"],
    [Engine("constapi", scen.constapi, runner=corpora.constapi_runner, sig=lambda l: " ".join(t for t in l.split() if t.split("=")[0] in ("fn", "ty"))),
     Engine("arrconst", scen.arrconst_c18, runner=corpora.arrconst_runner, sig=lambda l: " ".join(t for t in l.split() if t.split("=")[0] in ("form", "pos"))),
     Engine("filldefault", scen.filldefault_c18, runner=corpora.filldefault_runner, sig=lambda l: " ".join(l.split()[:2]))],
    trusted=[KERNEL, TRANSLATOR, HARNESS,
             "modelled, not verified: the compile-time interpreter's judgement is reduced to (a) references stay inside the allocation they were derived from, (b) a &mut is derived from the unique borrow, (c) documented panics, (d) only const fns are called; rustc's actual interpreter is the implementation side of the correspondence (tools/corpus.py compiles every generated const item against the crate and runs the value comparison)",
             "arr! and const_default in const positions are decided by C20 and C19"],
    assumptions=["element sizes enter only through the const_transmute size check; alignment is C01's result"],
    nontrivial=lambda s, impl: " n=0 " not in s,
)
PARAMS["C18"] = {"rule": "one const item (final value validated by the interpreter, contents compared with the same call at run time and with natively computed expectations) per const fn x length x argument: chunks_from_slice(_mut) for N in {0..5,7,8} x every slice length 0..=3N+2 (N in {16,17,33}: boundary lengths in quick, all in thorough); from_slice/from_mut_slice/try_ forms incl. the documented panics (expected E0080 'evaluation panicked'); slice_from_chunks(_mut), from_chunks(_mut), into_chunks(_mut) for N in {0..5,7,8} x 0..=3 chunks; from_array/into_array, as_slice, as_mut_slice (written through), uninit+assume_init, len over the lattice up to 1024; element types u8, u32, (u8,u16), (); every mutable form writes through the result."}

PROPS["C12"] = Prop(
    "C12", ["GA.Props.C12"],
    [Engine("types", scen.types, runner=corpora.types_runner,
            sig=lambda l: " ".join(t for t in l.split() if t.split("=")[0] in ("op", "form", "trait", "target", "prog")))],
    trusted=[KERNEL, TRANSLATOR, HARNESS,
             "modelled, not verified: rustc's trait solver and borrow checker (they are the implementation side of the correspondence); typenum's operators are read as arithmetic with definedness (Sub1 needs >= 1, Diff<N,K> needs K <= N, Quot needs a non-zero divisor); lifetime elision rules; `&X: Send iff X: Sync`",
             "the sealed-ness of ArrayLength is observed only through the corpus (no foreign impl can be written)"],
    assumptions=["result lengths are observed through type annotations: a program annotated with the right length compiles, with any other length it does not",
                 "lengths in the corpus are 0..=4 (0..=6 thorough), tuples 0..=13; the theorems cover all lengths"],
    nontrivial=lambda s, impl: impl.startswith("reject"),
)
PARAMS["C12"] = {"rule": "accept/reject pairs differing in one length, bound or lifetime: append/prepend/pop_back/pop_front/remove/swap_remove/split (owned, &, &mut)/concat/flatten/unflatten/zip for all length pairs in 0..=4, each with inferred result and with the right, +1 and -1 annotated result length; ==, partial_cmp, cmp, from_array/into_array, From/Into/AsRef/AsMut with native arrays, from/into_chunks(_mut) for all (N, U) pairs; tuples 0..=13 fields vs lengths 0..=13; Send/Sync/Clone/Copy of the array, a reference and the by-value iterator for element types u8, Rc, Cell, MutexGuard, String and a non-Clone type at N in {0,1,3,4}; for each of 36 reference-returning APIs: use in scope (accept), return as 'static (reject), overwrite the source while the view lives (reject), two live views (reject for &mut, accept for &). Non-trivial = a rejected program."}

PROPS["C17"] = Prop(
    "C17", ["GA.Props.C17", "GA.Props.BodySerde"],
    [Engine("serde", scen.serde, sig=lambda l: l.split()[0] + "/" + ("script" if "steps=" in l else "fmt"), body_view=True)],
    trusted=[KERNEL, TRANSLATOR, BODYTIE, HARNESS,
             "modelled, not verified: serde's SeqAccess / SerializeTuple contracts, serde_json and bincode themselves (their framing is observed by running them), IntrusiveArrayBuilder's drop guard (C04/C07 model, regenerated)"],
    assumptions=["a source that reports Some(0) remaining after N reads while still holding elements is outside the claim (the model follows the code there and the oracle does not judge it)"],
    nontrivial=lambda s, impl: " n=0 " not in s and "res=err" in impl or "op=ser" in s and " n=0" not in s,
)
PARAMS["C17"] = {"rule": "N in {0..8,16,17,33,64,97}: serialize through JSON and bincode (framing, round trip); deserialize from JSON text, serde_json::Value and bincode with {0,N-1,N,N+1,N+2} elements and a malformed element at several positions; scripted SeqAccess sources: every delivered count 0..N+2 x terminator {end, error, error-then-more, end-then-more, exhausted} x up-front hint {none,0,N-1,N,N+1,count} x closing hint {none,0,1,surplus}, plus random scripts with errors in the middle; drop-tracked elements, full event order (polls, element creations, drops). Non-trivial = a rejected input with N > 0, or a serialisation with N > 0."}

HEAP_TRUST = "modelled, not verified: alloc's Vec/Box allocation contract (with_capacity, into_boxed_slice, Vec::from(Box<[T]>), Box::into_raw/from_raw, Box drop releasing a block iff the type has non-zero size), handle_alloc_error; the recording global allocator and the child-process observation of allocation failure are harness code"

PROPS["C16"] = Prop(
    "C16", ["GA.Props.C16", "GA.Props.BodyBoxed"],
    [Engine("heap", scen.heap_c16, sig=lambda l: l.split()[0] + "/" + next((t for t in l.split() if t.startswith("fault=")), "fault=none").split(":")[0], body_view=True)],
    trusted=[KERNEL, TRANSLATOR, BODYTIE, HARNESS, HEAP_TRUST],
    assumptions=["boxed generate / default_boxed is the only place the crate calls the allocator directly; all other alloc-feature operations go through Vec/Box and are checked by the recording allocator's discipline oracle",
                 "the panic runtime's own exception object is allocated and released by std and is not attributed to the crate"],
    nontrivial=lambda s, impl: "fault=none" not in s or " n=0 " in s,
)
PARAMS["C16"] = {"rule": "boxed generate / default_boxed x N in {0,1,2,3,4,5,7,8,16,17,33,256,1024} x 6 element kinds (sizes 0,3,4,8; drop-tracked, zero-sized drop-counted) x {no fault, a panic at every generator call, allocation failure (child process)}; Box map / zip with a panic at every call; every heap conversion x source lengths {0,N-1,N,N+1}. Recorded: size/align of every request, zero-size requests, releases not matching a live block and layout, blocks live at the end. Non-trivial = a fault was injected or N = 0."}

PROPS["C15"] = Prop(
    "C15", ["GA.Props.C15", "GA.Props.BodyBoxed"],
    [Engine("heap", scen.heap_c15, sig=lambda l: l.split()[0])],
    trusted=[KERNEL, TRANSLATOR, HARNESS, HEAP_TRUST,
             "what rustc does with stack temporaries in general is not modelled: the multi-MiB constructors on a 256 KiB-stack thread are the evidence for that clause"],
    assumptions=["same_block is reported for the conversions documented as O(1) (into_boxed_slice, into_vec, try_from_boxed_slice, try_from_vec with len == capacity): same address and zero allocator calls"],
    nontrivial=lambda s, impl: " n=0 " not in s,
)
PARAMS["C15"] = {"rule": "try_from_vec (with and without spare capacity), try_from_boxed_slice, TryFrom<Vec>/TryFrom<Box<[T]>>, boxed collect x N in the heap lattice x source lengths {0,N-1,N,N+1}; into_boxed_slice, into_vec, From<GenericArray> for Box<[T]>/Vec, Box IntoIterator; 6 element kinds; contents, Ok/Err, block address before/after, allocator call count, per-element drops; 4 MiB default_boxed / boxed generate / box_arr! / boxed collect / into_vec on a 256 KiB stack (child process)."}

# ------------------------------------------------------------------------------------------------
# Function inventory (GA.Bridge.Surface.*): every property owns the inventory of its anchor files
# (properties.jsonl `anchors.files`); C05 ("an intermediate value of any operation") additionally owns C04's.
# A function that is new in one of these files is code no model covers: the obligation fails and the check widens.
# ------------------------------------------------------------------------------------------------
# whole-body fingerprints of src/impl_alloc.rs (GA.Bridge.AllocBodies) for every property anchored there
ALLOC_BODY_PROPS = ("C03", "C04", "C05", "C07", "C08", "C15", "C16")
SURFACE_MOD = {"src/lib.rs": "Lib", "src/iter.rs": "Iter", "src/internal.rs": "Internal", "src/impls.rs": "Impls",
               "src/sequence.rs": "Sequence", "src/functional.rs": "Functional", "src/impl_alloc.rs": "ImplAlloc",
               "src/impl_serde.rs": "ImplSerde", "src/impl_zeroize.rs": "ImplZeroize", "src/impl_const_default.rs": "ImplConstDefault",
               "src/hex.rs": "Hex", "src/arr.rs": "Arr"}


def _anchor_files():
    import json, os
    out = {}
    root = os.path.dirname(os.path.dirname(os.path.abspath(__file__)))
    for line in open(os.path.join(root, "properties.jsonl")):
        line = line.strip()
        if line:
            p = json.loads(line)
            out[p["id"]] = list(p.get("anchors", {}).get("files", []))
    return out


_AF = _anchor_files()
_AF["C05"] = sorted(set(_AF.get("C05", [])) | set(_AF.get("C04", [])))
_AF["C01"] = sorted(set(_AF.get("C01", [])) | {"src/impl_zeroize.rs"})
PROPS["C14"].lean.append("GA.Bridge.HexBodies")
for _pid in ALLOC_BODY_PROPS:
    if "GA.Bridge.AllocBodies" not in PROPS[_pid].lean:
        PROPS[_pid].lean.append("GA.Bridge.AllocBodies")
for _pid, _pr in PROPS.items():
    for _f in _AF.get(_pid, []):
        _m = "GA.Bridge.Surface." + SURFACE_MOD[_f] if _f in SURFACE_MOD else None
        if _m and _m not in _pr.lean:
            _pr.lean.append(_m)
