#!/usr/bin/env python3
"""Program-corpus runner: compile small Rust programs against generic-array *as built from /repo's
working tree* and report rustc's verdict (accept, or reject with error codes), optionally run them.

Used by the properties whose observable is the compiler's verdict (C12, C18, C20 const positions).
The crate is built once per check run through the harness package (same features as the engines);
each program is then compiled with a direct `rustc` call against that rlib.
"""
import concurrent.futures
import hashlib
import json
import os
import subprocess

ROOT = os.path.dirname(os.path.dirname(os.path.abspath(__file__)))
BUILD = os.path.join(ROOT, "build")
HARNESS = os.path.join(ROOT, "harness")
WORK = os.path.join(BUILD, "corpus")
ENV = dict(os.environ, CARGO_NET_OFFLINE="true", CARGO_TARGET_DIR=os.path.join(BUILD, "cargo"))

_EXTERNS = None


def externs():
    """build the harness lib (hence generic-array from /repo) and return (deps dir, {crate: rlib})"""
    global _EXTERNS
    if _EXTERNS is not None:
        return _EXTERNS
    p = subprocess.run(["cargo", "build", "--offline", "--lib", "--message-format=json"], cwd=HARNESS, env=ENV,
                       stdout=subprocess.PIPE, stderr=subprocess.PIPE, text=True)
    libs = {}
    for line in p.stdout.split("\n"):
        if not line.startswith("{"):
            continue
        try:
            m = json.loads(line)
        except ValueError:
            continue
        if m.get("reason") == "compiler-artifact":
            for f in m.get("filenames", []):
                if f.endswith(".rlib"):
                    libs[m["target"]["name"].replace("-", "_")] = f
    if p.returncode != 0 or "generic_array" not in libs:
        _EXTERNS = (None, {"error": (p.stderr or p.stdout)[-3000:]})
    else:
        _EXTERNS = (os.path.join(BUILD, "cargo", "debug", "deps"), libs)
    return _EXTERNS


WANTED = ("generic_array", "zeroize", "const_default", "serde")


def rustc_cmd(src, out, kind):
    deps, libs = externs()
    cmd = ["rustc", "--edition", "2021", "--error-format=json", "-A", "warnings", "-L", "dependency=" + deps]
    for k in WANTED:
        if k in libs:
            cmd += ["--extern", "%s=%s" % (k, libs[k])]
    if kind == "check":
        cmd += ["--crate-type", "lib", "--emit=metadata", "-o", out + ".rmeta"]
    else:
        cmd += ["--crate-type", "bin", "-C", "opt-level=0", "-C", "debuginfo=0", "-o", out]
    return cmd + [src]


def compile_one(code, kind="check", run=False):
    """-> dict(ok, errors=[{code, message, line}], stdout)"""
    deps, libs = externs()
    if deps is None:
        return {"ok": False, "errors": [{"code": "crate-build", "message": libs["error"], "line": 0}], "stdout": ""}
    os.makedirs(WORK, exist_ok=True)
    h = hashlib.sha1((kind + code).encode()).hexdigest()[:16]
    src = os.path.join(WORK, "p_%s.rs" % h)
    out = os.path.join(WORK, "p_%s" % h)
    with open(src, "w") as f:
        f.write(code)
    p = subprocess.run(rustc_cmd(src, out, kind), stdout=subprocess.PIPE, stderr=subprocess.PIPE, text=True)
    errors = []
    for line in p.stderr.split("\n"):
        if not line.startswith("{"):
            continue
        try:
            m = json.loads(line)
        except ValueError:
            continue
        if m.get("level") == "error" and m.get("spans"):
            sp = [s for s in m["spans"] if s.get("is_primary")] or m["spans"]
            errors.append({"code": (m.get("code") or {}).get("code") or "error", "message": m.get("message", "")[:300],
                           "line": sp[0].get("line_start", 0)})
        elif m.get("level") == "error" and not m.get("message", "").startswith("aborting"):
            errors.append({"code": (m.get("code") or {}).get("code") or "error", "message": m.get("message", "")[:300], "line": 0})
    res = {"ok": p.returncode == 0, "errors": errors, "stdout": ""}
    if p.returncode != 0 and not errors:
        res["errors"] = [{"code": "rustc", "message": p.stderr[-500:], "line": 0}]
    if res["ok"] and run and kind == "bin":
        try:
            q = subprocess.run([out], stdout=subprocess.PIPE, stderr=subprocess.PIPE, text=True, timeout=600)
            res["stdout"] = q.stdout
            res["rc"] = q.returncode
            if q.returncode != 0:
                res["stderr"] = q.stderr[-500:]
        except subprocess.TimeoutExpired:
            res["rc"] = -1
    for f in (src, out, out + ".rmeta"):
        try:
            os.remove(f)
        except OSError:
            pass
    return res


def compile_many(codes, kind="check", workers=16):
    with concurrent.futures.ThreadPoolExecutor(max_workers=workers) as ex:
        return list(ex.map(lambda c: compile_one(c, kind), codes))


PRELUDE = """#![allow(unused, non_upper_case_globals, non_snake_case, clippy::all)]
use generic_array::typenum::*;
use generic_array::sequence::*;
use generic_array::functional::*;
use generic_array::{arr, ArrayLength, GenericArray, GenericArrayIter, IntoArrayLength, ConstArrayLength};
"""


def accept_bundle(items, run=True):
    """items: list of (name, module-level code defining `pub fn check() -> bool`).
    Compiles all items as one program (each in its own module) and runs the checks.
    -> (per-item verdict {name: 'ok' | 'FAIL(value)' | 'reject:<codes>: msg'}, evaluations)
    When the bundle does not compile, every item is compiled on its own to find the culprits."""
    mods = []
    calls = []
    for k, (name, code) in enumerate(items):
        mods.append("mod m%d {\n    use super::*;\n%s\n}" % (k, "\n".join("    " + l for l in code.split("\n"))))
        calls.append('    println!("%d {}", if m%d::check() { "ok" } else { "FAIL(value)" });' % (k, k))
    prog = PRELUDE + "\n".join(mods) + "\nfn main() {\n" + "\n".join(calls) + "\n}\n"
    r = compile_one(prog, "bin", run=run)
    verdict = {}
    if r["ok"]:
        got = {}
        for line in r["stdout"].split("\n"):
            a, _, b = line.partition(" ")
            if a.isdigit():
                got[int(a)] = b
        for k, (name, _) in enumerate(items):
            verdict[name] = got.get(k, "FAIL(no-answer rc=%s %s)" % (r.get("rc"), r.get("stderr", "")[-120:]))
        return verdict, len(items)
    # isolate
    singles = [PRELUDE + code + "\n" for _, code in items]
    rs = compile_many(singles, "check")
    for (name, _), x in zip(items, rs):
        if x["ok"]:
            verdict[name] = "ok-alone"
        else:
            e = x["errors"][0]
            verdict[name] = "reject:%s: %s" % (",".join(sorted(set(y["code"] for y in x["errors"]))), e["message"][:160])
    if all(v == "ok-alone" for v in verdict.values()):
        verdict["<bundle>"] = "reject:%s" % (r["errors"][0]["message"][:200] if r["errors"] else "?")
    return verdict, 2 * len(items)


if __name__ == "__main__":
    import sys
    print(compile_one(PRELUDE + sys.stdin.read(), "check"))
