#!/usr/bin/env python3
"""Re-run kept seeded changes (seeded/<id>/patch.diff) through their property's quick check and refresh
check_result in meta.json.  usage: seedone.py C01-8 [C05-8 ...] [--prop C19]"""
import json, os, re, subprocess, sys, time
ROOT = os.path.dirname(os.path.dirname(os.path.abspath(__file__)))


def main():
    args = sys.argv[1:]
    over = None
    if "--prop" in args:
        i = args.index("--prop")
        over = args[i + 1]
        del args[i:i + 2]
    rc_all = 0
    for sid in args:
        d = os.path.join(ROOT, "seeded", sid)
        meta = json.load(open(os.path.join(d, "meta.json")))
        prop = over or meta["property"]
        t0 = time.time()
        p = subprocess.run([os.path.join(ROOT, "tools", "seedtest.sh"), prop, os.path.join(d, "patch.diff")], stdout=subprocess.PIPE, stderr=subprocess.STDOUT, text=True)
        out = p.stdout
        viol = [l for l in out.split("\n") if l.startswith("VIOLATION")]
        summ = [l for l in out.split("\n") if "obligations" in l]
        detected = bool(viol)
        concrete = detected and "no-failing-input-found" not in viol[0]
        res = {"exit": p.returncode, "detected": detected, "concrete_failing_input": concrete,
               "summary": summ[0] if summ else "", "violation_line": re.sub(r"replay=\S+", "replay=<path>", viol[0]) if viol else ""}
        if over is None:
            meta["check_result"] = res
            meta["wall_s"] = round(time.time() - t0, 1)
            meta["applies_to_current_head"] = "PATCH-DOES-NOT-APPLY" not in out
        else:
            meta.setdefault("also_run_against", {})[over] = res
        json.dump(meta, open(os.path.join(d, "meta.json"), "w"), indent=1)
        print("%s [%s] detected=%s concrete=%s  %s  (%.0fs)" % (sid, prop, detected, concrete, summ[0] if summ else "", time.time() - t0), flush=True)
        if not concrete:
            rc_all = 1
    return rc_all


if __name__ == "__main__":
    sys.exit(main())
