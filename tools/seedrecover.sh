#!/bin/sh
# usage: tools/seedrecover.sh   — undo a seeded change that an interrupted tools/seedtest.sh left in /repo.
# seeded/IN_FLIGHT names the patch (copy in seeded/IN_FLIGHT.diff) and the /repo commit it was applied to.
cd /verif
MARK=seeded/IN_FLIGHT
[ -e $MARK ] || { echo "seedrecover: no seeded change in flight"; exit 0; }
echo "seedrecover: marker says: $(cat $MARK)"
if git -C /repo apply -R --check "$PWD/$MARK.diff" 2>/dev/null; then
  git -C /repo apply -R "$PWD/$MARK.diff" || exit 2
  if git -C /repo diff --quiet; then
    echo "seedrecover: seeded change removed from /repo's working tree"
  else
    echo "seedrecover: the seeded change had been COMMITTED in /repo; it is now reverted in the working tree —"
    echo "             review 'git -C /repo diff' and commit the revert (a fix: commit; log it in KNOWN_FINDINGS.txt)"
  fi
else
  echo "seedrecover: the patch is not present in /repo (nothing to undo)"
fi
rm -f $MARK $MARK.diff
python3 tools/extract.py > /dev/null; python3 tools/bodyx.py > /dev/null; python3 tools/seqbody.py > /dev/null
exit 0
