#!/bin/sh
# Build the whole framework offline from files on disk (run once after a fresh restore).
set -e
cd "$(dirname "$0")"
export CARGO_NET_OFFLINE=true CARGO_TARGET_DIR="$PWD/build/cargo"
mkdir -p build evidence replays
python3 tools/extract.py
python3 tools/bodyx.py
(cd lean && lake build GA driver)
(cd harness && cargo build --offline --bins)
echo "setup done"
