import GA.Props.C06
