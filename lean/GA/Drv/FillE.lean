import GA.Drv.Util
import GA.Model.Fill
namespace GA.Drv.FillE
open GA.Drv GA.Fill

/-- an element as its observable fields -/
abbrev Elem := List Nat

def val (seed i j : Nat) : Nat := (seed * 31 + i * 7 + j * 3 + 1) % 251 + 1

def slotMake (s i : Nat) : Elem := [val s i 0, val s i 1 % 2, val s i 2]
def make (kind : String) (s i : Nat) : Elem :=
  match kind with
  | "u8" => [val s i 0]
  | "u64" => [val s i 0 * 4294967296 + val s i 0]
  | "b3" => [val s i 0, val s i 1, val s i 2]
  | "slot" => slotMake s i
  | "p2" => [val s i 0, val s i 1]
  | "w1" => [val s i 0]
  | _ => slotMake s (3 * i) ++ slotMake s (3 * i + 1) ++ slotMake s (3 * i + 2)

def slotZ : Elem → Elem
  | [id, _, _] => [id, 1, 0]
  | e => e
/-- the element type's own `zeroize` -/
def zOf (kind : String) (e : Elem) : Elem :=
  match kind with
  | "slot" => slotZ e
  | "w1" => [255]
  | "nest" => slotZ (e.take 3) ++ slotZ ((e.drop 3).take 3) ++ slotZ (e.drop 6)
  | _ => e.map fun _ => 0

/-- the element type's `ConstDefault::DEFAULT` -/
def dOf (kind : String) : Elem :=
  match kind with
  | "unit" => []
  | "u8" | "u64" => [0]
  | "b3" => [0, 0, 0]
  | "p2" => [17, 34]
  | "w1" => [51]
  | "slot" => [7, 0, 4660]
  | _ => [7, 0, 4660, 7, 0, 4660, 7, 0, 4660]

def describe (a : List Elem) : String :=
  let h := a.flatten.foldl (fun h v => (h * 1000003 + v + 1) % 18446744073709551557) 0
  let sh (l : List Elem) := ",".intercalate (l.map fun e => ":".intercalate (e.map toString))
  let k := a.length
  s!"len={k} digest={h} head=[{sh (a.take 3)}] tail=[{sh (a.drop (k - min k 3))}]"

def answer (kv : KV) : String :=
  match kv.nat? "n" with
  | none => "bad-op"
  | some n =>
    let kind := kv.getD "kind" ""
    match kv.getD "op" "" with
    | "zeroize" =>
      let seed := kv.natD "seed" 0
      let a := (List.range n).map (make kind seed)
      match zeroize (zOf kind) n a with
      | some r => describe r
      | none => "unknown"
    | "const_item" =>
      -- a const item holding `const_default()`: accepted, N elements, every one the element default
      match constDefault (dOf kind) n with
      | some r => s!"len={r.length} all_default={if r.all (· == dOf kind) then 1 else 0}"
      | none => "unknown"
    | "const_default" =>
      match constDefault (dOf kind) n with
      | some r => describe r
      | none => "unknown"
    | _ => "bad-op"

end GA.Drv.FillE
