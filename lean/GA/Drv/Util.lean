/-! Line-protocol helpers for the driver (no imports beyond core). -/
namespace GA.Drv

abbrev KV := List (String × String)

def parseKV (toks : List String) : KV :=
  toks.filterMap fun t =>
    match t.splitOn "=" with
    | k :: rest@(_ :: _) => some (k, "=".intercalate rest)
    | _ => none

def KV.get (kv : KV) (k : String) : Option String := (kv.find? (·.1 == k)).map (·.2)
def KV.getD (kv : KV) (k : String) (d : String) : String := (kv.get k).getD d
def KV.nat? (kv : KV) (k : String) : Option Nat := (kv.get k).bind String.toNat?
def KV.natD (kv : KV) (k : String) (d : Nat) : Nat := (kv.nat? k).getD d

def splitNonEmpty (s : String) (sep : String) : List String :=
  (s.splitOn sep).filter (· ≠ "")

def natList? (s : String) : Option (List Nat) :=
  (splitNonEmpty s ",").mapM String.toNat?

def showNats (l : List Nat) : String := ",".intercalate (l.map toString)
def showOptNat : Option Nat → String
  | some x => s!"some({x})"
  | none => "none"

end GA.Drv
