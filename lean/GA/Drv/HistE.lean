import GA.Drv.Util
import GA.Drv.OwnE
import GA.Model.Pool
namespace GA.Drv.HistE
open GA.Drv GA.Pool

def parseOp (s : String) : Option Op :=
  match s.splitOn ":" with
  | ["gen", n] => n.toNat?.map .gen
  | ["rotA"] => some .rotA | ["rotI"] => some .rotI | ["rotH"] => some .rotH
  | ["intoIter"] => some .intoIter
  | ["next"] => some .next | ["nextBack"] => some .nextBack
  | ["nth", n] => n.toNat?.map .nth | ["nthBack", n] => n.toNat?.map .nthBack
  | ["iterClone"] => some .iterClone | ["iterDrop"] => some .iterDrop | ["iterCount"] => some .iterCount
  | ["iterLast"] => some .iterLast | ["iterFold"] => some .iterFold | ["iterRfold"] => some .iterRfold
  | ["map"] => some .map | ["zip"] => some .zip | ["fold"] => some .fold | ["clone"] => some .clone
  | ["append"] => some .append | ["prepend"] => some .prepend | ["popBack"] => some .popBack | ["popFront"] => some .popFront
  | ["split", k] => k.toNat?.map .split | ["concat"] => some .concat
  | ["remove", i] => i.toNat?.map .remove | ["swapRemove", i] => i.toNat?.map .swapRemove
  | ["flatten2"] => some .flatten2 | ["unflatten", n] => n.toNat?.map .unflatten
  | ["collect", n] => n.toNat?.map .collect
  | ["roundtrip"] => some .roundtrip | ["dropArr"] => some .dropArr | ["dropHeld"] => some .dropHeld
  | _ => none

def answer (kv : KV) : String :=
  match (splitNonEmpty (kv.getD "ops" "") ";").mapM parseOp with
  | none => "bad-op"
  | some ops =>
    let p := run Pool.empty ops
    let arrs := "".intercalate (p.arrays.map fun a => s!"[{showNats a}]")
    let its := "".intercalate (p.iters.map fun it => s!"[{showNats (GA.Iter.asSlice it)}]")
    if kv.getD "kind" "tr" = "z" then
      let arrsz := "".intercalate (p.arrays.map fun a => s!"[{a.length}]")
      let itsz := "".intercalate (p.iters.map fun it => s!"[{(GA.Iter.asSlice it).length}]")
      s!"next={p.next} arrays={arrsz} iters={itsz} held={p.held.length} dropped={p.dropped.length}"
    else
      s!"next={p.next} arrays={arrs} iters={its} held=[{showNats p.held}] dropped=[{showNats (OwnE.sortNats p.dropped)}]"

end GA.Drv.HistE
