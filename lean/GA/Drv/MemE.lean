import GA.Drv.Util
import GA.Model.Mem
import GA.Gen.SeqBody
namespace GA.Drv.MemE
open GA.Drv GA.Mem

def eszOf : String → Nat
  | "u8" => 1 | "u32" => 4 | "w24" => 24 | "tr" => 8 | _ => 0

def parseKind : String → Option ViewKind
  | "as_slice" => some .asSlice | "as_mut_slice" => some .asMutSlice | "deref" => some .deref
  | "deref_mut" => some .derefMut | "borrow" => some .borrow | "borrow_mut" => some .borrowMut
  | "as_ref" => some .asRef | "as_mut" => some .asMut | "ref_iter" => some .refIter | "mut_iter" => some .mutIter
  | "as_ref_arr" => some .asRefArray | "as_mut_arr" => some .asMutArray
  | "index" => some .deref | "index_mut" => some .derefMut
  | _ => none

def showRes (esz : Nat) : Res View → String
  | .ok v => s!"res=ok off={v.off * esz} len={v.len}"
  | .err => "res=err"
  | .panic => "res=panic(slice_len)"
  | .ub => "res=ub"

def views (kv : KV) : String :=
  match kv.nat? "n" with
  | none => "bad-op"
  | some n =>
    let kind := kv.getD "kind" "u32"
    let esz := eszOf kind
    let idOf (i : Nat) : Nat := if kind = "unit" then 0 else if kind = "u8" then i % 256 else i
    match kv.getD "op" "" with
    | "view" => match (parseKind (kv.getD "kind2" "")).bind (fun k => view k n) with
      | some v => s!"res=ok off={v.off * esz} len={v.len}"
      | none => "unsupported"
    | "as_ref_arr" => match view .asRefArray n with
      | some v => s!"res=ok off={v.off * esz} len={v.len}" | none => "unsupported"
    | "as_mut_arr" => match view .asMutArray n with
      | some v => s!"res=ok off={v.off * esz} len={v.len}" | none => "unsupported"
    | "from_arr_ref" => s!"res=ok off={GA.Gen.Mem.fromArrayRefOff * esz} len={n}"
    | "from_arr_mut" => s!"res=ok off={GA.Gen.Mem.fromArrayMutOff * esz} len={n}"
    | "write_read" =>
      match (parseKind (kv.getD "via" "")).bind (fun k => view k n), (parseKind (kv.getD "read" "")).bind (fun k => view k n), kv.nat? "i" with
      | some va, some vb, some i =>
        let cells := ((List.range n).map (· + 1)).set (va.off + i) 77
        match (cells.drop vb.off)[i]? with
        | some x => s!"res=ok val={idOf x}"
        | none => "res=panic(oob)"
      | _, _, _ => "unsupported"
    | "from_slice" => showRes esz (fromSlice (kv.natD "l" 0) n)
    | "try_from_slice" => showRes esz (tryFromSlice (kv.natD "l" 0) n)
    | "from_mut_slice" => showRes esz (fromMutSlice (kv.natD "l" 0) n)
    | "try_from_mut_slice" => showRes esz (tryFromMutSlice (kv.natD "l" 0) n)
    | "try_from" => showRes esz (tryFrom (kv.natD "l" 0) n)
    | "try_from_mut" => showRes esz (tryFromMut (kv.natD "l" 0) n)
    | "array_roundtrip" | "tuple_roundtrip" =>
      if GA.Gen.Mem.fromArrayIsTransmute && GA.Gen.Mem.intoArrayIsTransmute then
        s!"res=ok out=[{showNats ((List.range n).map (fun i => idOf (i + 1)))}]"
      else "unsupported"
    | _ => "bad-op"

/-- `xmute pair=<k> sa=<size_of A> sb=<size_of B>`: the regenerated size check of `const_transmute` -/
def xmute (kv : KV) : String :=
  match kv.nat? "sa", kv.nat? "sb" with
  | some a, some b => (match constTransmute a b with | .ok _ => "res=ok" | _ => "res=panic")
  | _, _ => "bad-op"

def chunks (kv : KV) : String :=
  match kv.nat? "n", kv.nat? "l" with
  | some n, some l =>
    let esz := eszOf (kv.getD "kind" "u32")
    let showC (r : ChunksRes) : String := match r with
      | .ok c rm => s!"res=ok c_off={c.off * esz} c_len={c.len} r_off={rm.off * esz} r_len={rm.len}"
      | .empties => "res=empties"
      | .panic => "res=panic(n_zero)"
      | .ub => "res=ub"
    let showV (o : Option View) (scale : Nat) : String := match o with
      | some v => s!"res=ok off={v.off * scale} len={v.len}"
      | none => "unsupported"
    match kv.getD "op" "" with
    | "chunks" => showC (chunksFromSlice l n)
    | "chunks_mut" => showC (chunksFromSliceMut l n)
    | "flat" => showV (some (sliceFromChunks l n)) esz
    | "flat_mut" => showV (some (sliceFromChunksMut l n)) esz
    | "from_chunks" => showV (reinterpretChunks GA.Gen.Mem.fromChunksIsTransmute GA.Gen.Mem.fromChunksLenTied l) (n * esz)
    | "from_chunks_mut" => showV (reinterpretChunks GA.Gen.Mem.fromChunksMutIsTransmute GA.Gen.Mem.fromChunksMutLenTied l) (n * esz)
    | "into_chunks" => showV (reinterpretChunks GA.Gen.Mem.intoChunksIsTransmute GA.Gen.Mem.intoChunksLenTied l) (n * esz)
    | "into_chunks_mut" => showV (reinterpretChunks GA.Gen.Mem.intoChunksMutIsTransmute GA.Gen.Mem.intoChunksMutLenTied l) (n * esz)
    | _ => "bad-op"
  | _, _ => "bad-op"

def regroup (kv : KV) : String :=
  match kv.nat? "n", kv.nat? "m" with
  | some n, some m =>
    let kind := kv.getD "kind" "u32"
    let esz := eszOf kind
    let idOf (i : Nat) : Nat := if kind = "unit" then 0 else if kind = "u8" then i % 256 else i
    let rows : List (List Nat) := (List.range m).map fun i => (List.range n).map fun j => 1 + i * n + j
    let flat : List Nat := (List.range (n * m)).map (· + 1)
    let sh (l : List Nat) : String := showNats (l.map idOf)
    let shRows (r : List (List Nat)) : String := "".intercalate (r.map fun x => s!"[{sh x}]")
    match kv.getD "op" "" with
    | "flatten" => match flattenOwned rows n esz with
      | .ok l => s!"res=ok out=[{sh l}]"
      | .panic => "res=panic(size_mismatch)"
      | _ => "res=ub"
    | "flatten_ref" => let v := flattenRef n m
      s!"res=ok off={v.off * esz} len={v.len} out=[{sh (flat.take v.len)}]"
    | "flatten_mut" => let v := flattenMut n m
      s!"res=ok off={v.off * esz} len={v.len} out=[{sh (flat.take v.len)}]"
    | "unflatten" => match unflattenOwned flat n esz with
      | .ok r => s!"res=ok rows={shRows r}"
      | .panic => "res=panic(size_mismatch)"
      | _ => "res=ub"
    | "unflatten_ref" => let v := unflattenRef (n * m) n
      s!"res=ok off={v.off * esz} len={v.len} rows={shRows (chunk n (v.len / (if n = 0 then 1 else n)) flat)}"
    | "unflatten_mut" => let v := unflattenMut (n * m) n
      s!"res=ok off={v.off * esz} len={v.len} rows={shRows (chunk n (v.len / (if n = 0 then 1 else n)) flat)}"
    | _ => "bad-op"
  | _, _ => "bad-op"

/-- `--body` view of the `chunks` engine: `chunks_from_slice(_mut)` / `slice_from_chunks(_mut)` answered by
    interpreting the regenerated statement lists (`GA.Gen.SeqBody`) with pointer provenance -/
def chunksBody (kv : KV) : String :=
  match kv.nat? "n", kv.nat? "l" with
  | some n, some l =>
    let esz := eszOf (kv.getD "kind" "u32")
    let showC (wr : Bool) (o : GA.MemBody.VOut) : String := match o with
      | .views [c, r] =>
        if c.wr != wr || r.wr != wr then "res=wrong-mutability"
        else if n = 0 then (if c.len = 0 && r.len = 0 then "res=empties" else "res=ub")
        else if c.len % n != 0 then "res=ub"
        else s!"res=ok c_off={c.off * esz} c_len={c.len / n} r_off={r.off * esz} r_len={r.len}"
      | .views _ => "res=wrong-shape"
      | .panic => "res=panic(n_zero)"
      | .err => "res=err"
      | .ub => "res=ub"
    let showF (wr : Bool) (o : GA.MemBody.VOut) : String := match o with
      | .views [v] => if v.wr != wr then "res=wrong-mutability" else s!"res=ok off={v.off * esz} len={v.len}"
      | .views _ => "res=wrong-shape"
      | .panic => "res=panic"
      | .err => "res=err"
      | .ub => "res=ub"
    match kv.getD "op" "" with
    | "chunks" => showC false (GA.MemBody.runViews false GA.Gen.SeqBody.chunksFromSlice ⟨n, l, 0⟩)
    | "chunks_mut" => showC true (GA.MemBody.runViews true GA.Gen.SeqBody.chunksFromSliceMut ⟨n, l, 0⟩)
    | "flat" => showF false (GA.MemBody.runViews false GA.Gen.SeqBody.sliceFromChunks ⟨n, l, 0⟩)
    | "flat_mut" => showF true (GA.MemBody.runViews true GA.Gen.SeqBody.sliceFromChunksMut ⟨n, l, 0⟩)
    | _ => "n/a"
  | _, _ => "n/a"

/-- `--body` view of the `regroup` engine for the by-reference forms -/
def regroupBody (kv : KV) : String :=
  match kv.nat? "n", kv.nat? "m" with
  | some n, some m =>
    let kind := kv.getD "kind" "u32"
    let esz := eszOf kind
    let idOf (i : Nat) : Nat := if kind = "unit" then 0 else if kind = "u8" then i % 256 else i
    let flat : List Nat := (List.range (n * m)).map (· + 1)
    let sh (l : List Nat) : String := showNats (l.map idOf)
    let shRows (r : List (List Nat)) : String := "".intercalate (r.map fun x => s!"[{sh x}]")
    let one (wr : Bool) (o : GA.MemBody.VOut) : Option GA.MemBody.View := match o with
      | .views [v] => if v.wr == wr then some v else none
      | _ => none
    match kv.getD "op" "" with
    | "flatten_ref" => match one false (GA.MemBody.runViews false GA.Gen.SeqBody.flattenRef ⟨n, m, 0⟩) with
      | some v => s!"res=ok off={v.off * esz} len={v.len} out=[{sh (flat.take v.len)}]"
      | none => "res=ub"
    | "flatten_mut" => match one true (GA.MemBody.runViews true GA.Gen.SeqBody.flattenMut ⟨n, m, 0⟩) with
      | some v => s!"res=ok off={v.off * esz} len={v.len} out=[{sh (flat.take v.len)}]"
      | none => "res=ub"
    | "unflatten_ref" => match one false (GA.MemBody.runViews false GA.Gen.SeqBody.unflattenRef ⟨n, n * m, 0⟩) with
      | some v => s!"res=ok off={v.off * esz} len={v.len} rows={shRows (chunk n (v.len / (if n = 0 then 1 else n)) flat)}"
      | none => "res=ub"
    | "unflatten_mut" => match one true (GA.MemBody.runViews true GA.Gen.SeqBody.unflattenMut ⟨n, n * m, 0⟩) with
      | some v => s!"res=ok off={v.off * esz} len={v.len} rows={shRows (chunk n (v.len / (if n = 0 then 1 else n)) flat)}"
      | none => "res=ub"
    | _ => "n/a"
  | _, _ => "n/a"

/-- `--body` view of the `views` engine for the checked slice → array-reference conversions -/
def viewsBody (kv : KV) : String :=
  match kv.nat? "n" with
  | none => "n/a"
  | some n =>
    let esz := eszOf (kv.getD "kind" "u32")
    let l := kv.natD "l" 0
    let sh (wr : Bool) (o : GA.MemBody.VOut) : String := match o with
      | .views [v] => if v.wr != wr then "res=wrong-mutability" else s!"res=ok off={v.off * esz} len={v.len}"
      | .views _ => "res=wrong-shape"
      | .err => "res=err"
      | .panic => "res=panic(slice_len)"
      | .ub => "res=ub"
    match kv.getD "op" "" with
    | "view" =>
      match kv.getD "kind2" "" with
      | "as_slice" => sh false (GA.MemBody.runViews false GA.Gen.SeqBody.asSlice ⟨n, l, 0⟩)
      | "as_mut_slice" => sh true (GA.MemBody.runViews true GA.Gen.SeqBody.asMutSlice ⟨n, l, 0⟩)
      | _ => "n/a"
    | "from_slice" => sh false (GA.MemBody.runViews false GA.Gen.SeqBody.fromSlice ⟨n, l, 0⟩)
    | "try_from_slice" => sh false (GA.MemBody.runViews false GA.Gen.SeqBody.tryFromSlice ⟨n, l, 0⟩)
    | "from_mut_slice" => sh true (GA.MemBody.runViews true GA.Gen.SeqBody.fromMutSlice ⟨n, l, 0⟩)
    | _ => "n/a"

end GA.Drv.MemE
