import GA.Drv.Util
import GA.Model.Seq
import GA.Gen.SeqBody
namespace GA.Drv.SeqE
open GA.Drv GA.Seq

def answer (kv : KV) : String :=
  match kv.nat? "n" with
  | none => "bad-op"
  | some n =>
    let kind := kv.getD "kind" "u64"
    let zst := kind = "z"
    let esz := match kind with | "u8" => 1 | "u64" => 8 | "w24" => 24 | "tr" => 8 | _ => 0
    let sh (l : List Nat) : String := showNats (if zst then l.map (fun _ => 0) else l)
    let sh1 (x : Nat) : Nat := if zst then 0 else x
    let xs := (List.range n).map (· + 1)
    let k := kv.natD "k" 0
    let i := kv.natD "i" 0
    match kv.getD "op" "" with
    | "append" => match append xs 90 with
      | some r => s!"res=ok out=[{sh r}]"
      | none => "res=ub"
    | "prepend" => match prepend xs 90 with
      | some r => s!"res=ok out=[{sh r}]"
      | none => "res=ub"
    | "pop_back" => match popBack xs with
      | some (r, e) => s!"res=ok elem={sh1 e} out=[{sh r}]"
      | none => "res=ub"
    | "pop_front" => match popFront xs with
      | some (e, r) => s!"res=ok elem={sh1 e} out=[{sh r}]"
      | none => "res=ub"
    | "split" => match split xs k with
      | some (h, t) => s!"res=ok out=[{sh h}]|[{sh t}]"
      | none => "res=ub"
    | "split_ref" =>
      let r := splitRef n k
      match readAt xs r.1.1 r.1.2, readAt xs r.2.1 r.2.2 with
      | some h, some t => s!"res=ok offs={r.1.1 * esz},{r.2.1 * esz} lens={r.1.2},{r.2.2} out=[{sh h}]|[{sh t}]"
      | _, _ => "res=ub"
    | "split_mut" =>
      let r := splitMut n k
      match readAt xs r.1.1 r.1.2, readAt xs r.2.1 r.2.2 with
      | some h, some t => s!"res=ok offs={r.1.1 * esz},{r.2.1 * esz} lens={r.1.2},{r.2.2} out=[{sh h}]|[{sh t}]"
      | _, _ => "res=ub"
    | "concat" => match concat xs ((List.range k).map (· + 101)) with
      | some r => s!"res=ok out=[{sh r}]"
      | none => "res=ub"
    | "remove" => match remove xs i with
      | .ok e r => s!"res=ok elem={sh1 e} out=[{sh r}]"
      | .panic => "res=panic(index_oob)"
      | .ub => "res=ub"
    | "swap_remove" => match swapRemove xs i with
      | .ok e r => s!"res=ok elem={sh1 e} out=[{sh r}]"
      | .panic => "res=panic(index_oob)"
      | .ub => "res=ub"
    | _ => "bad-op"

/-- `--body` view: the same scenarios answered by interpreting the regenerated statement lists of
    `GA.Gen.SeqBody` (by-reference `split` has no body to interpret: a pointer computation, covered by the fragment tie) -/
def answerBody (kv : KV) : String :=
  match kv.nat? "n" with
  | none => "bad-op"
  | some n =>
    let kind := kv.getD "kind" "u64"
    let zst := kind = "z"
    let sh (l : List Nat) : String := showNats (if zst then l.map (fun _ => 0) else l)
    let sh1 (l : List Nat) : Nat := if zst then 0 else l.headD 0
    let xs := (List.range n).map (· + 1)
    let k := kv.natD "k" 0
    let i := kv.natD "i" 0
    let one (o : GA.MemBody.Out) : String :=
      match o with
      | .ok [r] [] => s!"res=ok out=[{sh r}]"
      | .ok _ _ => "res=ok-but-wrong-shape-or-drops"
      | .panic _ => "res=panic"
      | .ub => "res=ub"
    let elemFirst (o : GA.MemBody.Out) : String :=
      match o with
      | .ok [e, r] [] => s!"res=ok elem={sh1 e} out=[{sh r}]"
      | .ok _ _ => "res=ok-but-wrong-shape-or-drops"
      | .panic d => if d == xs then "res=panic(index_oob)" else "res=panic-with-wrong-drops"
      | .ub => "res=ub"
    match kv.getD "op" "" with
    | "append" => one (GA.MemBody.run GA.Gen.SeqBody.append ⟨n, k, i⟩ xs [90])
    | "prepend" => one (GA.MemBody.run GA.Gen.SeqBody.prepend ⟨n, k, i⟩ xs [90])
    | "concat" => one (GA.MemBody.run GA.Gen.SeqBody.concat ⟨n, k, i⟩ xs ((List.range k).map (· + 101)))
    | "pop_back" =>
      match GA.MemBody.run GA.Gen.SeqBody.popBack ⟨n, k, i⟩ xs [] with
      | .ok [r, e] [] => s!"res=ok elem={sh1 e} out=[{sh r}]"
      | .ok _ _ => "res=ok-but-wrong-shape-or-drops"
      | .panic _ => "res=panic"
      | .ub => "res=ub"
    | "pop_front" => elemFirst (GA.MemBody.run GA.Gen.SeqBody.popFront ⟨n, k, i⟩ xs [])
    | "split" =>
      match GA.MemBody.run GA.Gen.SeqBody.split ⟨n, k, i⟩ xs [] with
      | .ok [h, t] [] => s!"res=ok out=[{sh h}]|[{sh t}]"
      | .ok _ _ => "res=ok-but-wrong-shape-or-drops"
      | .panic _ => "res=panic"
      | .ub => "res=ub"
    | "remove" => elemFirst (GA.MemBody.run GA.Gen.SeqBody.remove ⟨n, k, i⟩ xs [])
    | "swap_remove" => elemFirst (GA.MemBody.run GA.Gen.SeqBody.swapRemove ⟨n, k, i⟩ xs [])
    | "split_ref" | "split_mut" =>
      let mutable := kv.getD "op" "" = "split_mut"
      let esz := match kind with | "u8" => 1 | "u64" => 8 | "w24" => 24 | "tr" => 8 | _ => 0
      match GA.MemBody.runViews mutable (if mutable then GA.Gen.SeqBody.splitMut else GA.Gen.SeqBody.splitRef) ⟨n, k, i⟩ with
      | .views [h, t] =>
        if h.wr != mutable || t.wr != mutable then "res=wrong-mutability" else
        match readAt xs h.off h.len, readAt xs t.off t.len with
        | some a, some b => s!"res=ok offs={h.off * esz},{t.off * esz} lens={h.len},{t.len} out=[{sh a}]|[{sh b}]"
        | _, _ => "res=ub"
      | .views _ => "res=wrong-shape"
      | _ => "res=ub"
    | _ => "n/a"

end GA.Drv.SeqE
