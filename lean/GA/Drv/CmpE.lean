import GA.Drv.Util
import GA.Model.Cmp
namespace GA.Drv.CmpE
open GA.Drv GA.Cmp

def hexVal (c : Char) : Nat :=
  if c.isDigit then c.toNat - 48 else if 'a' ≤ c ∧ c ≤ 'f' then c.toNat - 87 else c.toNat - 55

def unhex (s : String) : List Nat :=
  if s = "-" then [] else
  let rec go : List Char → List Nat
    | a :: b :: t => (16 * hexVal a + hexVal b) :: go t
    | _ => []
  go s.toList

def unhexStr (s : String) : String := String.ofList ((unhex s).map Char.ofNat)

def hexDigit (n : Nat) : Char := if n < 10 then Char.ofNat (48 + n) else Char.ofNat (87 + n)
def hexOf (s : String) : String :=
  if s.isEmpty then "-" else String.ofList (s.toUTF8.toList.flatMap fun b => [hexDigit (b.toNat / 16), hexDigit (b.toNat % 16)])

def leafKey (kind : String) (tok : String) : Option Leaf :=
  match kind with
  | "u8" => tok.toNat?.map .u8
  | "i32" | "nesti" => tok.toInt?.map .i32
  | "f64" | "nestf" =>
    match tok with
    | "nan" => some (.f64 none)
    | "inf" => some (.f64 (some 4000000000000))
    | "ninf" => some (.f64 (some (-4000000000000)))
    | "nz" => some (.f64 (some 0))
    | _ => tok.toInt?.map fun q => .f64 (some q)
  | "str" => some (.str (unhex tok))
  | _ => none

def nested (kind : String) : Bool := kind = "nesti" || kind = "nestf"

/-- an array as rows of leaves (a flat array is rows of one leaf) -/
def parseArr (kind : String) (a e e0 : String) : Option (List (List LeafV)) :=
  if a = "_" then some [] else
  let els := a.splitOn ","
  let es := if e = "" then els.map (fun _ => "") else e.splitOn ","
  let e0s := if e0 = "" then els.map (fun _ => "") else e0.splitOn ","
  (els.zip (es.zip e0s)).mapM fun (el, (x, x0)) =>
    let leaves := el.splitOn ":"
    let xs := if x = "" then leaves.map (fun _ => "-") else x.splitOn ":"
    let x0s := if x0 = "" then leaves.map (fun _ => "-") else x0.splitOn ":"
    (leaves.zip (xs.zip x0s)).mapM fun (l, (d, d0)) => (leafKey kind l).map fun k => ⟨k, unhexStr d, unhexStr d0⟩

def flat (rows : List (List LeafV)) : List LeafV := rows.filterMap List.head?

def showOrd : Ordering → String | .lt => "lt" | .eq => "eq" | .gt => "gt"
def showPOrd : Option Ordering → String | some o => showOrd o | none => "none"
def b01 (b : Bool) : String := if b then "1" else "0"

def showStream (l : List HTok) : String :=
  if l.isEmpty then "-" else
  ",".intercalate (l.map fun
    | .len n => s!"L{n}"
    | .byte b => String.ofList [hexDigit (b / 16), hexDigit (b % 16)])

def showIdx : Option Nat → String | some i => toString i | none => "none"

def cmpAns {α} (O : ElemOps α) (same : Bool) (totalOrd : Bool) (a b : α) : String :=
  let eq := O.eq same a b
  let pc := O.pcmp same a b
  let is (o : Ordering) := pc == some o
  s!"eq={b01 eq} ne={b01 (!eq)} pcmp={showPOrd pc} lt={b01 (is .lt)} le={b01 (is .lt || is .eq)} gt={b01 (is .gt)} ge={b01 (is .gt || is .eq)} cmp={if totalOrd then showOrd (O.cmp same a b) else "-"}"

def answer (kv : KV) : String :=
  let kind := kv.getD "kind" ""
  let op := kv.getD "op" ""
  let nest := nested kind
  let total := !(kind = "f64" || kind = "nestf")
  let OF := arrayOps leafOps
  let ON := arrayOps (arrayOps leafOps)
  match op with
  | "cmp" =>
    match parseArr kind (kv.getD "a" "") "" "", parseArr kind (kv.getD "b" "") "" "" with
    | some a, some b =>
      let same := kv.getD "same" "0" = "1"
      let b := if same then a else b
      if nest then cmpAns ON same total a b else cmpAns OF same total (flat a) (flat b)
    | _, _ => "bad-op"
  | "hash" =>
    match parseArr kind (kv.getD "a" "") "" "" with
    | some a => s!"stream={showStream (if nest then ON.hash a else OF.hash (flat a))}"
    | none => "bad-op"
  | "dbg" =>
    match parseArr kind (kv.getD "a" "") (kv.getD "e" "") (kv.getD "e0" "") with
    | some a =>
      let fname := kv.getD "flags" "d"
      let fl : Flags := ⟨fname = "alt" || fname = "ax" || fname = "altp1", fname = "d"⟩
      s!"out={hexOf (if nest then ON.dbg fl a else OF.dbg fl (flat a))}"
    | none => "bad-op"
  | "map" =>
    match ((kv.getD "keys" "").splitOn "|").mapM (fun k => parseArr kind k "" ""), parseArr kind (kv.getD "q" "") "" "" with
    | some keys, some q =>
      if nest then s!"hget={showIdx (hashMapGet (arrayOps leafOps) keys q)} bget={showIdx (btreeGet (arrayOps leafOps) keys q)}"
      else s!"hget={showIdx (hashMapGet leafOps (keys.map flat) (flat q))} bget={showIdx (btreeGet leafOps (keys.map flat) (flat q))}"
    | _, _ => "bad-op"
  | _ => "bad-op"

end GA.Drv.CmpE
