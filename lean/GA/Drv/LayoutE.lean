import GA.Drv.Util
import GA.Model.Layout
namespace GA.Drv.LayoutE
open GA.Drv GA.Layout

/-- `layout ty=<name> tsize=<s> talign=<a> n=<N>` -/
def answer (kv : KV) : String :=
  match kv.nat? "tsize", kv.nat? "talign", kv.nat? "n" with
  | some s, some a, some n =>
    match wrapper ⟨s, a⟩ (Digits.ofNat n) with
    | some l =>
      let lastOff := if n = 0 then 0 else elemOffset ⟨s, a⟩ (GA.Gen.Layout.asSliceLen n - 1)
      s!"size={l.size} align={l.align} last_off={lastOff}"
    | none => "unspecified"
  | _, _, _ => "bad-op"

end GA.Drv.LayoutE
