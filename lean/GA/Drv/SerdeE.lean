import GA.Drv.Util
import GA.Drv.OwnE
import GA.Model.Serde
namespace GA.Drv.SerdeE
open GA.Drv GA.Serde GA.Own

def optNat (s : String) : Option Nat := s.toNat?

def answer (kv : KV) (vs : Nat → Serde.Script → List Ev × VRes := visitSeq) (only : Bool := false) : String :=
  match kv.nat? "n" with
  | none => "bad-op"
  | some n =>
    let op := kv.getD "op" ""
    let reduced (r : List Ev × VRes) : String :=
      let res := match r.2 with | .ok _ => "ok" | .err => "err"
      s!"res={res} out=[{showNats r.2.ids}] takes={(takes r.1).length} drops=[{showNats (OwnE.sortNats (drops r.1))}]"
    match op with
    | "de_script" =>
      let steps : List Step := (kv.getD "steps" "").toList.zipIdx.map fun (c, k) =>
        if c = 'e' then .elem (500 + k) else if c = 'x' then .fail else .none
      -- the scripted source's hint is a function of how many elements were read: with N = 0 the
      -- closing hint is asked in the same state as the up-front one
      let h0 := optNat (kv.getD "hint0" "none")
      let hE := if n = 0 then h0 else optNat (kv.getD "hintend" "none")
      let r := vs n ⟨h0, steps, hE, 0⟩
      let res := match r.2 with | .ok _ => "ok" | .err => "err"
      s!"res={res} ev={",".intercalate (OwnE.canonEvs r.1)} out=[{showNats r.2.ids}]"
    | "ser" => if only then "n/a" else
      let toks := serialize ((List.range n).map (· + 1))
      let elems := elemsOf toks
      let len := match toks with | .tupleStart l :: _ => l | _ => 0
      -- JSON renders a tuple as an array of its elements; bincode writes the elements only
      s!"json=[{showNats elems}] bincode_len={8 * elems.length}{if len = elems.length then "" else " (declared " ++ toString len ++ ")"}"
    | "de_json" | "de_value" | "de_bincode" =>
      let cnt := kv.natD "cnt" n
      let bad := kv.nat? "bad"
      let body (m : Nat) : List Step := (List.range m).map fun i => if bad = some i then .fail else .elem (500 + i)
      let sc : Serde.Script :=
        if op = "de_json" then ⟨none, body cnt ++ [.none], none, 0⟩
        else if op = "de_value" then ⟨some cnt, body cnt ++ [.none], some (cnt - n), 0⟩
        else ⟨some n, body (min cnt n) ++ (if cnt < n then [.fail] else []), some 0, 0⟩
      reduced (vs n sc)
    | _ => "bad-op"

end GA.Drv.SerdeE
