import GA.Drv.Util
import GA.Model.Ops
import GA.Model.IterOwn
namespace GA.Drv.OwnE
open GA.Drv GA.Own GA.Ops GA.IterOwn GA.Iter

def showEv : Ev → Option String
  | .give c x => some s!"g{c}:{x}"
  | .lend c x => some s!"l{c}:{x}"
  | .take c x => some s!"t{c}:{x}"
  | .drop x => some s!"d{x}"
  | .panic c => some s!"p{c}"
  | .poll k => some s!"q{k}"
  | .dropUninit => some "U"
  | .lenFail => none

/-- insertion sort (ids are few) -/
def insertSorted (x : Nat) : List Nat → List Nat
  | [] => [x]
  | y :: t => if x ≤ y then x :: y :: t else y :: insertSorted x t
def sortNats (l : List Nat) : List Nat := l.foldr insertSorted []

/-- canonical form: maximal runs of drops are sorted (drop order inside one teardown is not part of
    any property; exactly-once is) -/
def canonEvs (evs : List Ev) : List String :=
  let flush (run : List Nat) : List String := (sortNats run).map fun d => s!"d{d}"
  let rec go (l : List Ev) (run : List Nat) (acc : List String) : List String :=
    match l with
    | [] => acc ++ flush run
    | .drop x :: t => go t (x :: run) acc
    | e :: t =>
      match showEv e with
      | some s => go t [] (acc ++ flush run ++ [s])
      | none => go t run acc
  go evs [] []

def showRes : Res → String
  | .ok _ => "ok"
  | .err => "err"
  | .panicked => "panicked"

def parseForm : String → Option Form
  | "o" => some .owned
  | "r" => some .ref
  | "m" => some .mutRef
  | "b" => some .boxed
  | _ => none

def faultIdx (fault pre : String) : Option Nat :=
  match fault.splitOn ":" with
  | [p, k] => if p = pre then k.toNat? else none
  | _ => none

def fmt (res : String) (evs : List String) (out : List Nat) : String :=
  s!"res={res} ev={",".intercalate evs} out=[{showNats out}]"

def showNth : NthRes → String
  | .item (some x) => s!"item:some({x})"
  | .item none => "item:none"
  | .panicked => "panicked"
  | .ub => "ub"

def answer (kv : KV) : String :=
  match kv.nat? "n" with
  | none => "bad-op"
  | some n =>
    let fault := kv.getD "fault" "none"
    let callBad := faultIdx fault "call"
    let f : Nat → Option Id := fun i => if callBad = some i then none else some (1000 + i)
    let fb : Nat → Bool := fun i => !(callBad = some i)
    let cloneBad := faultIdx fault "clone"
    let fc : Nat → Option Id := fun i => if cloneBad = some i then none else some (1000 + i)
    let bad := faultIdx fault "dtor"
    let xs := (List.range n).map (· + 1)
    let ys := (List.range n).map (· + 101)
    let op := kv.getD "op" ""
    let form := parseForm (kv.getD "form" "o")
    let form2 := parseForm (kv.getD "form2" "o")
    let plA := kv.getD "kind" "tr" = "pl" || kv.getD "kind" "tr" = "zu"
    let plB := kv.getD "kind2" "tr" = "pl"
    -- plain element kinds have no destructor: their drop events do not exist
    let visible (e : Ev) : Bool :=
      match e with
      | .drop x => !((plA && decide (1 ≤ x) && decide (x ≤ 100)) || (plB && decide (101 ≤ x) && decide (x ≤ 999)) ||
                    (plA && op = "clone" && decide (1000 ≤ x)))
      | _ => true
    let simple (r : List Ev × Res) : String := fmt (showRes r.2) (canonEvs (r.1.filter visible)) r.2.ids
    -- results of type `()` (zero-sized, no destructor): same events, the results' drops do not exist
    let visibleU (e : Ev) : Bool :=
      match e with
      | .drop x => visible e && !decide (1000 ≤ x)
      | _ => true
    let simpleU (r : List Ev × Res) : String := fmt (showRes r.2) (canonEvs (r.1.filter visibleU)) r.2.ids
    match op, form, form2 with
    | "generate_unit", _, _ => simpleU (generate f n)
    | "boxed_generate_unit", _, _ => simpleU (generate f n)
    | "map_unit", some fm, _ => simpleU (mapOp fm f xs)
    | "zip_unit", some fa, some fb' => simpleU (zipOp fa fb' (!plA) (!plB) f xs ys)
    | "generate", _, _ => simple (generate f n)
    | "default", _, _ => simple (defaultOp f n)
    | "map", some fm, _ => simple (mapOp fm f xs)
    | "clone", _, _ => simple (cloneOp fc xs)
    | "clone_from", _, _ =>
      match cloneFromOp fc xs ys bad with
      | some r =>
        let natsC (l : List Nat) := ":".intercalate (l.map toString)
        s!"res={showRes r.res}/final:{natsC r.final} ev={",".intercalate (canonEvs r.ev ++ ["|"] ++ canonEvs (r.final.map .drop))} out=[]"
      | none => "unknown"
    | "zip", some fa, some fb' => simple (zipOp fa fb' (!plA) (!plB) f xs ys)
    | "fold", some fm, _ =>
      let r := foldOp fm fb xs
      fmt (if r.2 then "ok" else "panicked") (canonEvs (r.1.filter visible)) []
    | "collect", _, _ =>
      let script := (kv.getD "script" "").toList.zipIdx.map fun (c, k) => if c = 's' then some (500 + k) else none
      let hint : Nat × Option Nat :=
        match (kv.getD "hint" "0,none").splitOn "," with
        | [lo, hi] => (lo.toNat?.getD 0, hi.toNat?)
        | _ => (0, none)
      simple (collectOpD (kv.getD "boxed" "0" = "1") (kv.getD "try" "1" = "1") n hint
        ⟨script, 0, faultIdx fault "poll"⟩ bad)
    | _, _, _ =>
      let front := kv.natD "front" 0
      let back := kv.natD "back" n
      let k := kv.natD "arg" 0
      let it : Iter := ⟨xs, front, back⟩
      match op with
      | "iter_nth" | "iter_nth_back" =>
        let r := if op = "iter_nth" then nthD it k bad else nthBackD it k bad
        let fired := r.2.1 = .panicked
        let rest := dropIter r.2.2
        let second := if !fired && panics (asSlice r.2.2) bad then "panicked" else "ok"
        s!"res={showNth r.2.1}/{second} ev={",".intercalate (canonEvs r.1 ++ ["|"] ++ canonEvs rest)} out=[]"
      | "iter_last" =>
        let r := lastD it bad
        fmt (showNth r.2) (canonEvs r.1) []
      | "iter_count" =>
        let r := countD it bad
        let res := match r.2 with
          | .item (some c) => s!"num:{c}"
          | x => showNth x
        fmt res (canonEvs r.1) []
      | "iter_drop" =>
        let r := countD it bad
        fmt (if r.2 = .panicked then "panicked" else "ok") (canonEvs r.1) []
      | "iter_clone" => simple (cloneD it fc)
      | "iter_fold" =>
        let r := foldD it fb
        fmt (if r.2 then "ok" else "panicked") (canonEvs r.1) []
      | "iter_rfold" =>
        let r := rfoldD it fb
        fmt (if r.2 then "ok" else "panicked") (canonEvs r.1) []
      | _ => "bad-op"

end GA.Drv.OwnE
