import GA.Drv.Util
import GA.Model.Iter
namespace GA.Drv.Iterq
open GA.Drv GA.Iter

def parseOp (s : String) : Option IOp :=
  match s.splitOn ":" with
  | ["next"] => some .next
  | ["next_back"] => some .nextBack
  | ["nth", n] => n.toNat?.map .nth
  | ["nth_back", n] => n.toNat?.map .nthBack
  | ["len"] => some .len
  | ["size_hint"] => some .sizeHint
  | ["as_slice"] => some .asSlice
  | ["write", i, v] => do some (.write (← i.toNat?) (← v.toNat?))
  | ["clone"] => some .clone
  | ["fold"] => some .fold
  | ["rfold"] => some .rfold
  | ["count"] => some .count
  | ["last"] => some .last
  | ["debug"] => some .debug
  | ["fold!"] => some .foldSelf
  | ["rfold!"] => some .rfoldSelf
  | ["count!"] => some .countSelf
  | ["last!"] => some .lastSelf
  | _ => none

def showOut : IOut → String
  | .item o => s!"item:{showOptNat o}"
  | .num n => s!"num:{n}"
  | .hint lo hi => s!"hint:{lo},{showOptNat hi}"
  | .items l => s!"items:[{showNats l}]"
  | .unit => "unit"
  | .oob => "oob"
  | .ub => "ub"

/-- `iterq n=<N> ops=<op;op;…>`: elements are `10, 11, …`. -/
def answer (kv : KV) : String :=
  match kv.nat? "n", (splitNonEmpty (kv.getD "ops" "") ";").mapM parseOp with
  | some n, some ops =>
    let it0 := Iter.ofList ((List.range n).map (· + 10))
    let r := run it0 ops
    let outs := "/".intercalate (r.1.map showOut)
    s!"outs={outs} rest=[{showNats (asSlice r.2)}] len={GA.Gen.Iter.len r.2.front r.2.back}"
  | _, _ => "bad-op"

end GA.Drv.Iterq
