import GA.Drv.Util
import GA.Model.Types
namespace GA.Drv.TypesE
open GA.Drv GA.Types

def opOf (form : String) (a b : Nat) : Option Op :=
  match form with
  | "append" | "prepend" => some (.append a)
  | "pop_back" | "pop_front" => some (.pop a)
  | "remove" | "swap_remove" => some (.remove a)
  | "split" => some (.split a b)
  | "split_ref" => some (.splitRef a b)
  | "split_mut" => some (.splitMut a b)
  | "concat" => some (.concat a b)
  | "flatten" => some (.flatten a b)
  | "unflatten" => some (.unflatten a b)
  | "zip" => some (.zip a b)
  | "eq" | "partial_cmp" | "cmp" => some (.cmp a b)
  -- comparison with a native array of another length (generated for a ≠ b only)
  | "eq_native" | "eq_native_rev" | "eq_native_ref" | "lt_native" => some (.cmp a b)
  | "from_array" => some (.fromArray b a)
  | "into_array" => some (.intoArray a b)
  | "from_native" | "into_native" | "ref_native" | "mutref_native" | "asref_native" | "asmut_native" => some (.native b a)
  | "from_chunks" => some (.fromChunks b a)
  | "from_chunks_mut" => some (.fromChunksMut b a)
  | "into_chunks" => some (.intoChunks b a)
  | "into_chunks_mut" => some (.intoChunksMut b a)
  | "from_tuple" | "into_tuple" => some (.tuple b a)
  | _ => none

def caps : String → Option Caps
  | "u8" => some ⟨true, true, true, true⟩
  | "rc" => some ⟨false, false, false, true⟩
  | "cell" => some ⟨true, false, false, true⟩
  | "guard" => some ⟨false, true, false, false⟩
  | "string" => some ⟨true, true, false, true⟩
  | "noclone" => some ⟨true, true, false, false⟩
  | _ => none

def verdict (b : Option Bool) : String :=
  match b with | some true => "accept" | some false => "reject" | none => "unknown"

def answer (kv : KV) : String :=
  match kv.getD "op" "" with
  | "len" =>
    match opOf (kv.getD "form" "") (kv.natD "a" 0) (kv.natD "b" 0) with
    | none => "bad-op"
    | some op =>
      match check op with
      | none => "reject"
      | some outs =>
        match (kv.getD "ann" "infer").toNat? with
        | none => "accept"
        | some l => if outs.getLast? == some l || outs.isEmpty then "accept" else "reject"
  | "auto" =>
    match caps (kv.getD "elem" "") with
    | none => "bad-op"
    | some e =>
      match kv.getD "trait" "", kv.getD "target" "" with
      | "send", "array" => verdict (arraySend e)
      | "sync", "array" => verdict (arraySync e)
      | "send", "ref" => verdict (refSend e)
      | "sync", "ref" => verdict (arraySync e)
      | "send", "iter" => verdict (iterSend e)
      | "sync", "iter" => verdict (iterSync e)
      | "clone", "array" => verdict (some (arrayClone e))
      | "copy", "array" => verdict (some (arrayCopy e))
      | "clone", "iter" => verdict (some (iterClone e))
      | "copy", "iter" => verdict (some iterCopy)
      | _, _ => "bad-op"
  | "life" =>
    match kv.getD "prog" "" with
    | "ok" => "accept"
    | "alias" =>
      -- two live views of one source: fine for shared views, an error for unique ones
      if kv.getD "uniq" "0" = "1" then
        (match tied (kv.getD "api" "") with | some true => "reject" | some false => "accept" | none => "unknown")
      else "accept"
    | _ => match tied (kv.getD "api" "") with
      | some true => "reject"
      | some false => "accept"
      | none => "unknown"
  | _ => "bad-op"

end GA.Drv.TypesE
