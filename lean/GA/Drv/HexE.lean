import GA.Drv.Util
import GA.Model.Hex
namespace GA.Drv.HexE
open GA.Drv GA.Hex

def byteAt (i a b : Nat) : Nat := (i * a + b + i / 251) % 256

def fnv (s : List Nat) : UInt32 :=
  s.foldl (fun h c => (h ^^^ (UInt32.ofNat c)) * 16777619) 0x811c9dc5

def hex8 (v : UInt32) : String :=
  let digs := "0123456789abcdef".toList
  let n := v.toNat
  String.ofList ((List.range 8).reverse.map fun k => digs.getD ((n / 16 ^ k) % 16) '0')

def answer (kv : KV) : String :=
  match kv.nat? "n" with
  | none => "bad-op"
  | some n =>
    let a := kv.natD "a" 1
    let b := kv.natD "b" 1
    let bytes := (List.range n).map fun i => byteAt i a b
    match genericHex (kv.getD "upper" "0" = "1") bytes (kv.nat? "prec") with
    | none => "out=<ub>"
    | some out =>
      let str (l : List Nat) : String := String.ofList (l.map Char.ofNat)
      if out.length > 80 then
        s!"out=len{out.length}:{str (out.take 24)}:{str (out.drop (out.length - 24))}:{hex8 (fnv out)}"
      else s!"out={str out}"

end GA.Drv.HexE
