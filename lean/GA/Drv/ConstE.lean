import GA.Drv.Util
import GA.Model.ConstEval
namespace GA.Drv.ConstE
open GA.Drv GA.ConstEval

def showV : Verdict → String
  | .accept => "accept" | .panic => "panic" | .ub => "ub" | .notConst => "notconst"

def answer (kv : KV) : String :=
  let n := kv.natD "n" 0
  let len := kv.natD "len" 0
  let k := kv.natD "k" 0
  let esz := kv.natD "esz" 1
  let call : Option Call := match kv.getD "fn" "" with
    | "len" => some (.len n)
    | "as_slice" => some (.asSlice n)
    | "as_mut_slice" => some (.asMutSlice n)
    | "from_slice" => some (.fromSlice n len)
    | "try_from_slice" => some (.tryFromSlice n len)
    | "from_mut_slice" => some (.fromMutSlice n len)
    | "try_from_mut_slice" => some (.tryFromMutSlice n len)
    | "chunks_from_slice" => some (.chunks n len)
    | "chunks_from_slice_mut" => some (.chunksMut n len)
    | "slice_from_chunks" => some (.flat n k)
    | "slice_from_chunks_mut" => some (.flatMut n k)
    | "from_array" => some (.fromArray n esz)
    | "into_array" => some (.intoArray n esz)
    | "from_chunks" => some (.fromChunks n k)
    | "from_chunks_mut" => some (.fromChunksMut n k)
    | "into_chunks" => some (.intoChunks n k)
    | "into_chunks_mut" => some (.intoChunksMut n k)
    | "uninit" => some (.uninitAssumeInit n)
    | "const_transmute" => some (.transmute (kv.natD "sa" 0) (kv.natD "sb" 0) (kv.natD "aa" 1) (kv.natD "ab" 1))
    | _ => none
  match call with
  | some c => showV (eval c)
  | none => "bad-op"

end GA.Drv.ConstE
