import GA.Drv.Util
import GA.Drv.OwnE
import GA.Model.Heap
namespace GA.Drv.HeapE
open GA.Drv GA.Heap GA.Own GA.Ops

def layoutOf : String → Nat × Nat
  | "u32" => (4, 4) | "u64" => (8, 8) | "b3" => (3, 1) | "tr" => (8, 8) | "dc" => (8, 8) | "z8" => (0, 8) | _ => (0, 1)

def answer (kv : KV) (bg : Nat → Nat → Nat → (Nat → Option Id) → Bool → BoxedOut := boxedGenerate)
    (only : Bool := false) : String :=
  let op := kv.getD "op" ""
  if op.startsWith "big_" then "res=ok" else
  match kv.nat? "n" with
  | none => "bad-op"
  | some n =>
    let kind := kv.getD "kind" "u32"
    let (esz, al) := layoutOf kind
    let tracked := kind = "tr" || kind = "z"
    let zst := kind = "z" || kind = "unit" || kind = "z8"
    let idOf (i : Nat) : Nat := if zst then 0 else if kind = "b3" then i % 256 else i
    let showDrops (l : List Nat) : String :=
      if !tracked then "" else
      if kind = "z" then s!" drops=[{",".intercalate (l.map fun _ => "z")}]"
      else s!" drops=[{showNats (OwnE.sortNats l)}]"
    let fault := kv.getD "fault" "none"
    let callBad := OwnE.faultIdx fault "call"
    let f : Nat → Option Id := fun i => if callBad = some i then none else some (1000 + i)
    let l := kv.natD "l" n
    let cap := max (kv.natD "cap" l) l
    let src := (List.range l).map (· + 1)
    let arr := (List.range n).map (· + 1)
    if only && op != "boxed_generate" && op != "default_boxed" then "n/a" else
    match op with
    | "boxed_generate" | "default_boxed" =>
      let allocOk := !(fault.startsWith "alloc:")
      let r := bg esz al n f allocOk
      match r.res with
      | .aborted => "res=abort(alloc_error)"
      | .ub => "res=abort(ub)"
      | _ =>
        let req := (r.atrace.filter fun e => match e with | .alloc .. => true | .allocFail .. => true | _ => false).length
        let fre := (r.atrace.filter fun e => match e with | .dealloc .. => true | _ => false).length
        let zr := (r.atrace.filter fun e => match e with | .alloc _ 0 _ => true | .allocFail 0 _ => true | _ => false).length
        let (res, items) := match r.res with
          | .ok a => ("ok", a)
          | _ => ("panicked", [])
        let ncalls := (r.etrace.filter fun e => match e with | .take .. => true | .panic .. => true | _ => false).length
        let al := if res = "ok" then " aligned=1" else ""     -- a misaligned box is `.ub` above
        s!"res={res} items=[{showNats (items.map idOf)}] calls={ncalls} block_req={req} block_free={fre} zero_req={zr}{al}{showDrops (drops r.etrace)}"
    | "try_from_vec" =>
      match tryFromVec src cap n with
      | .ok it same => s!"res=ok items=[{showNats (it.map idOf)}]{if l = cap then s!" same_block={if same then 1 else 0}" else ""}{showDrops it}"
      | .err d => s!"res=err items=[]{showDrops d}"
    | "try_from_boxed_slice" =>
      match tryFromBoxedSlice src n with
      | .ok it same => s!"res=ok items=[{showNats (it.map idOf)}] same_block={if same then 1 else 0}{showDrops it}"
      | .err d => s!"res=err items=[]{showDrops d}"
    | "vec_try_into" | "box_slice_try_into" =>
      match tryFromVecOwned src n with
      | .ok it _ => s!"res=ok items=[{showNats (it.map idOf)}]{showDrops it}"
      | .err d => s!"res=err items=[]{showDrops d}"
    | "into_boxed_slice" =>
      match intoBoxedSlice arr with
      | .ok it same => s!"res=ok items=[{showNats (it.map idOf)}] same_block={if same then 1 else 0}{showDrops it}"
      | .err d => s!"res=err items=[]{showDrops d}"
    | "into_vec" =>
      match intoVec arr with
      | .ok it same => s!"res=ok items=[{showNats (it.map idOf)}] same_block={if same then 1 else 0}{showDrops it}"
      | .err d => s!"res=err items=[]{showDrops d}"
    | "from_ga_box_slice" | "from_ga_vec" | "box_into_iter" =>
      s!"res=ok items=[{showNats (arr.map idOf)}]{showDrops arr}"
    | "boxed_collect" =>
      let script : List (Option Id) := src.map some
      -- the harness source is `iter::from_fn` (size hint `(0, None)`), optionally panicking on its k-th call
      let r := collectOp true true n (0, none) ⟨script, 0, OwnE.faultIdx fault "poll"⟩
      let res := match r.2 with | .ok _ => "ok" | .err => "err" | .panicked => "panicked"
      -- `Vec::with_capacity(N)` is the one allocation: if it fails, std ends the process through handle_alloc_error
      if fault.startsWith "alloc:" && n * esz > 0 then "res=abort(alloc_error)" else
      s!"res={res} items=[{showNats (r.2.ids.map idOf)}] polls={polls r.1}{showDrops (drops r.1 ++ r.2.ids)}"
    | "box_map" =>
      let r := mapOp .boxed f arr
      let res := match r.2 with | .ok _ => "ok" | .err => "err" | .panicked => "panicked"
      s!"res={res} items=[{showNats (r.2.ids.map idOf)}]{showDrops (gives r.1 ++ drops r.1 ++ r.2.ids)}"
    | "box_zip" =>
      let r := zipOp .boxed .boxed true true f arr ((List.range n).map (· + 101))
      let res := match r.2 with | .ok _ => "ok" | .err => "err" | .panicked => "panicked"
      s!"res={res} items=[{showNats (r.2.ids.map idOf)}]{showDrops (gives r.1 ++ drops r.1 ++ r.2.ids)}"
    | _ => "bad-op"

end GA.Drv.HeapE
