import GA.Drv.Util
import GA.Model.ArrMac
namespace GA.Drv.ArrE
open GA.Drv GA.Arr

def digest (l : List Nat) : Nat := l.foldl (fun h v => (h * 1000003 + v + 1) % 18446744073709551557) 0

def showOut (zst : Bool := false) : Option Out → String
  | some o => s!"len={o.len} vals={digest (if zst then o.vals.map (fun _ => 0) else o.vals)} log={digest o.log} nlog={o.log.length}"
  | none => "unknown"

def answer (kv : KV) : String :=
  let boxed := kv.getD "box" "0" = "1"
  let ev (i : Inv) := if boxed then evalBox i else evalArr i
  -- zero-sized elements carry no value: the harness reports 0 for each
  let zst := kv.getD "kind" "" = "zst"
  match kv.getD "op" "" with
  | "constpos" =>
    -- is the `arr!` form usable in a const position?
    let inv : Option Inv := match kv.getD "form" "" with
      | "list" => (kv.nat? "k").map fun k => .list ((List.range k).map fun i => ⟨1000 + 7 * i, []⟩) (kv.natD "trail" 0)
      | "repty" => (kv.nat? "n").map fun n => .repTy ⟨1000, []⟩ n
      | "repconst" => (kv.nat? "n").map fun n => .repConst ⟨1000, []⟩ n
      | _ => none
    match inv.bind evalArr with
    | some o => if o.const then "accept" else "reject"
    | none => "unknown"
  | "noncopy" =>
    -- what `[x; n]` accepts: a const-item operand of any type, or any value for n ≤ 1
    if kv.getD "operand" "" = "constitem" || kv.natD "n" 2 ≤ 1 then "accept" else "reject"
  | "hygiene" =>
    -- an element expression that is the caller's own item / variable `name`: captured by the
    -- expansion iff the expansion defines an item of that name
    if GA.Gen.Arr.helperNames.contains (kv.getD "name" "") then "captured" else "accept"
  | "list" =>
    match kv.nat? "k" with
    | some k => showOut zst (ev (.list ((List.range k).map fun i => ⟨1000 + 7 * i, [i]⟩) (kv.natD "trail" 0)))
    | none => "bad-op"
  | "repty" =>
    match kv.nat? "n" with
    | some n => showOut zst (ev (.repTy ⟨1000, [0]⟩ n))
    | none => "bad-op"
  | "repconst" =>
    match kv.nat? "n" with
    | some n => showOut zst (ev (.repConst ⟨1000, [0]⟩ n))
    | none => "bad-op"
  | _ => "bad-op"

end GA.Drv.ArrE
