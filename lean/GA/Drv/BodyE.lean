import GA.Drv.Iterq
import GA.Drv.OwnE
import GA.Drv.HeapE
import GA.Drv.SerdeE
import GA.Model.BodyIter
/-!
`--body` view of the driver: the `iterq` scenarios and the iterator operations of the `own` engine
are answered by *interpreting the regenerated function bodies* (`GA.Gen.Body`) instead of the
hand-written models.  Other scenarios are answered `n/a` (the orchestrator skips them).
-/
namespace GA.Drv.BodyE
open GA.Drv GA.Body GA.Iter GA.Own GA.BodyIter

def iterq (kv : KV) : String :=
  match kv.nat? "n", (splitNonEmpty (kv.getD "ops" "") ";").mapM Iterq.parseOp with
  | some n, some ops =>
    match GA.BodyIter.intoIter ((List.range n).map (· + 10)) with
    | none => "ub-into-iter"
    | some it0 =>
      let r := GA.BodyIter.run it0 ops
      let outs := "/".intercalate (r.1.map Iterq.showOut)
      let rest := match sliceVia r.2 Gen.Body.asSlice with
        | some (lo, hi) => showNats (sliceOf r.2.slots lo hi)
        | none => "ub"
      let len := match (method r.2 Gen.Body.len []).1 with
        | .num k => toString k
        | _ => "ub"
      s!"outs={outs} rest=[{rest}] len={len}"
  | _, _ => "bad-op"

def showR : R → String
  | .ret (.some (.elem x)) => s!"item:some({x})"
  | .ret .none => "item:none"
  | .ret (.nat c) => s!"num:{c}"
  | .ret _ => "ok"
  | .panicked => "panicked"
  | .ub => "ub"

def retGive : R → List Ev
  | .ret (.some (.elem x)) => [.give 0 x]
  | _ => []

def own (kv : KV) : String :=
  match kv.nat? "n" with
  | none => "bad-op"
  | some n =>
    let fault := kv.getD "fault" "none"
    let callBad := OwnE.faultIdx fault "call"
    let cloneBad := OwnE.faultIdx fault "clone"
    let bad := OwnE.faultIdx fault "dtor"
    let c : Ctx := ⟨n, bad, fun i => callBad = some i, fun i => if cloneBad = some i then none else some (1000 + i), fun _ => .done, (0, none), {}⟩
    let xs := (List.range n).map (· + 1)
    let op := kv.getD "op" ""
    let plA := kv.getD "kind" "tr" = "pl" || kv.getD "kind" "tr" = "zu"
    let visible (e : Ev) : Bool :=
      match e with
      | .drop x => !(plA && decide (1 ≤ x) && decide (x ≤ 100))
      | _ => true
    let front := kv.natD "front" 0
    let back := kv.natD "back" n
    let k := kv.natD "arg" 0
    let st := ofIter ⟨xs, front, back⟩
    let D := Gen.Body.dropIter.body
    match op with
    | "iter_nth" | "iter_nth_back" =>
      let r := runFn c D (if op = "iter_nth" then Gen.Body.nth else Gen.Body.nthBack) [.nat k] st
      let fired := r.2.1 == .panicked
      let d := runFn c D Gen.Body.dropIter [] r.2.2
      let second := if !fired && d.2.1 == .panicked then "panicked" else "ok"
      s!"res={showR r.2.1}/{second} ev={",".intercalate (OwnE.canonEvs (r.1 ++ retGive r.2.1) ++ ["|"] ++ OwnE.canonEvs d.1)} out=[]"
    | "iter_last" =>
      let r := runFn c D Gen.Body.last [] st
      OwnE.fmt (showR r.2.1) (OwnE.canonEvs (retGive r.2.1 ++ r.1)) []
    | "iter_count" =>
      let r := runFn c D Gen.Body.count [] st
      OwnE.fmt (showR r.2.1) (OwnE.canonEvs r.1) []
    | "iter_drop" =>
      let r := runFn c D Gen.Body.dropIter [] st
      OwnE.fmt (if r.2.1 == .panicked then "panicked" else if r.2.1 == .ub then "ub" else "ok") (OwnE.canonEvs r.1) []
    | "iter_clone" =>
      let r := runFn c D Gen.Body.clone [] st
      let out := if r.2.1 == .ret .obj then sliceOf r.2.2.out.slots r.2.2.out.index r.2.2.out.indexBack else []
      OwnE.fmt (showR r.2.1) (OwnE.canonEvs (r.1.filter visible)) out
    | "iter_fold" | "iter_rfold" =>
      let r := runFn c D (if op = "iter_fold" then Gen.Body.fold else Gen.Body.rfold) [] st
      OwnE.fmt (showR r.2.1) (OwnE.canonEvs r.1) []
    | "fold" =>
      if kv.getD "form" "o" ≠ "o" then "n/a" else
      let cc : Ctx := { n := n, bad := none, fpan := fun i => callBad = some i, cl := fun _ => none }
      let r := runFn cc Gen.Body.consumerDrop.body Gen.Body.gaFold []
        ⟨⟨xs, 0, 0, 0, []⟩, ⟨[], 0, 0, 0, []⟩, false, 0, false, 0, false, {}⟩
      OwnE.fmt (match r.2.1 with | .ret _ => "ok" | .panicked => "panicked" | .ub => "ub") (OwnE.canonEvs (r.1.filter visible)) []
    | "map" =>
      if kv.getD "form" "o" ≠ "o" then "n/a" else
      let f : Nat → Option Nat := fun i => if callBad = some i then none else some (1000 + i)
      let cc : Ctx := { n := n, bad := none, fpan := fun _ => false, cl := f }
      let r := runFn2 cc Gen.Body.consumerDrop.body Gen.Body.intrusiveDrop.body Gen.Body.gaMap []
        ⟨⟨xs, 0, 0, 0, []⟩, ⟨[], 0, 0, 0, []⟩, false, 0, false, 0, false, {}⟩
      let (res, out) : String × List Nat := match r.2.1 with
        | .ret (.arr l) => ("ok", l)
        | .panicked => ("panicked", [])
        | _ => ("ub", [])
      OwnE.fmt res (OwnE.canonEvs (r.1.filter visible)) out
    | "clone" =>
      -- `Clone for GenericArray`: the trait-default `map` on `&self` with `Clone::clone`
      let r := runFn c Gen.Body.intrusiveDrop.body Gen.Body.gaClone []
        ⟨⟨xs, 0, 0, 0, []⟩, ⟨[], 0, 0, 0, []⟩, false, 0, false, 0, false, {}⟩
      let visibleC (e : Ev) : Bool :=
        match e with
        | .drop x => !((plA && decide (1 ≤ x) && decide (x ≤ 100)) || (plA && decide (1000 ≤ x)))
        | _ => true
      let (res, out) : String × List Nat := match r.2.1 with
        | .ret (.arr l) => ("ok", l)
        | .panicked => ("panicked", [])
        | _ => ("ub", [])
      OwnE.fmt res (OwnE.canonEvs (r.1.filter visibleC)) out
    | "zip" =>
      -- two owned arrays: `b.inverted_zip(a, f)` with `a` the receiver of `zip`
      if kv.getD "form" "o" ≠ "o" || kv.getD "form2" "o" ≠ "o" then "n/a" else
      let plB := kv.getD "kind2" "tr" = "pl"
      let ys := (List.range n).map (· + 101)
      let f : Nat → Option Nat := fun i => if callBad = some i then none else some (1000 + i)
      let cc : Ctx := { n := n, bad := none, fpan := fun _ => false, cl := f, ext := { ndSelf := !plB, ndOther := !plA } }
      let r := runFn3 cc Gen.Body.consumerDrop.body Gen.Body.intrusiveDrop.body Gen.Body.gaIzip []
        ⟨⟨ys, 0, 0, 0, []⟩, ⟨[], 0, 0, 0, []⟩, false, 0, false, 0, false, { other := ⟨xs, 0, 0, 0, []⟩ }⟩
      let visible2 (e : Ev) : Bool :=
        match e with
        | .drop x => !((plA && decide (1 ≤ x) && decide (x ≤ 100)) || (plB && decide (101 ≤ x) && decide (x ≤ 999)))
        | _ => true
      let (res, out) : String × List Nat := match r.2.1 with
        | .ret (.arr l) => ("ok", l)
        | .panicked => ("panicked", [])
        | _ => ("ub", [])
      OwnE.fmt res (OwnE.canonEvs (r.1.filter visible2)) out
    | "generate" =>
      let f : Nat → Option Nat := fun i => if callBad = some i then none else some (1000 + i)
      let cc : Ctx := { n := n, bad := none, fpan := fun _ => false, cl := f }
      let r := runFn cc Gen.Body.intrusiveDrop.body Gen.Body.generate []
        ⟨⟨[], 0, 0, 0, []⟩, ⟨[], 0, 0, 0, []⟩, false, 0, false, 0, false, {}⟩
      let (res, out) : String × List Nat := match r.2.1 with
        | .ret (.arr l) => ("ok", l)
        | .panicked => ("panicked", [])
        | _ => ("ub", [])
      OwnE.fmt res (OwnE.canonEvs (r.1.filter visible)) out
    | "collect" =>
      if kv.getD "boxed" "0" = "1" then "n/a" else
      let answers := (kv.getD "script" "").toList.zipIdx.map fun (ch, k) => if ch = 's' then some (500 + k) else none
      let hint : Nat × Option Nat :=
        match (kv.getD "hint" "0,none").splitOn "," with
        | [lo, hi] => (lo.toNat?.getD 0, hi.toNat?)
        | _ => (0, none)
      let pollAt := OwnE.faultIdx fault "poll"
      let src : Nat → Poll := fun j =>
        if pollAt = some j then .panic
        else match answers[j]? with
          | some (some x) => .yield x
          | _ => .done
      let cc : Ctx := { n := n, bad := bad, fpan := fun _ => false, cl := fun _ => none, src := src, hint := hint }
      let f := if kv.getD "try" "1" = "1" then Gen.Body.tryFromIter else Gen.Body.fromIter
      let r := runFn cc Gen.Body.intrusiveDrop.body f []
        ⟨⟨[], 0, 0, 0, []⟩, ⟨[], 0, 0, 0, []⟩, false, 0, false, 0, false, {}⟩
      let (res, out) : String × List Nat := match r.2.1 with
        | .ret (.ok (.arr l)) => ("ok", l)
        | .ret (.arr l) => ("ok", l)
        | .ret .err => ("err", [])
        | .panicked => ("panicked", [])
        | _ => ("ub", [])
      OwnE.fmt res (OwnE.canonEvs (r.1.filter visible)) out
    | _ => "n/a"

/-- boxed `generate` through the interpreted bodies of `generate` (src/impl_alloc.rs) and
    `Drop for DeallocOnDrop`, in the shape the heap engine reports; the later drop of the returned
    box (elements, then the block when the layout has a size) is `alloc`'s and appended here -/
def bodyBoxed (esz al n : Nat) (f : Nat → Option GA.Own.Id) (allocOk : Bool) : GA.Heap.BoxedOut :=
  let c : Ctx := { n := n, bad := none, fpan := fun _ => false, cl := f,
                   ext := { esz := esz, ealign := al, allocOk := allocOk } }
  let r := runFnB c Gen.Body.intrusiveDrop.body Gen.Body.deallocGuardDrop.body Gen.Body.boxedGenerate []
    ⟨⟨[], 0, 0, 0, []⟩, ⟨[], 0, 0, 0, []⟩, false, 0, false, 0, false, {}⟩
  let conv : AEv → GA.Heap.AEv
    | .alloc b s a => .alloc b s a
    | .allocFail s a => .allocFail s a
    | .dealloc b s a => .dealloc b s a
    | .handleAllocError => .handleAllocError
    | .nullDeref => .nullDeref
  let at0 := r.2.2.ext.atrace.map conv
  match r.2.1 with
  | .ret (.boxed _ out) =>
    ⟨at0 ++ (if n * esz = 0 then [] else [.dealloc 1 (n * esz) al]), r.1 ++ out.map .drop, .ok out⟩
  | .panicked => ⟨at0, r.1, if r.2.2.ext.aborted then .aborted else .panicked⟩
  | _ => ⟨at0, r.1, .ub⟩

def heap (kv : KV) : String := HeapE.answer kv bodyBoxed true

/-- `visit_seq` through the interpreted body (src/impl_serde.rs), in the shape the serde engine reports -/
def bodyVisit (n : Nat) (s : GA.Serde.Script) : List Ev × GA.Serde.VRes :=
  let stepAns : GA.Serde.Step → Poll := fun a => match a with | .elem x => .yield x | .fail => .panic | .none => .done
  let c : Ctx := { n := n, bad := none, fpan := fun _ => false, cl := fun _ => none,
                   src := fun j => match s.steps[j - s.k]? with | some a => stepAns a | none => .done,
                   ext := { shint0 := s.hint0, shintEnd := s.hintEnd } }
  let r := runFn c Gen.Body.intrusiveDrop.body Gen.Body.visitSeq []
    ⟨⟨[], 0, 0, 0, []⟩, ⟨[], 0, 0, 0, []⟩, false, 0, false, s.k, false, {}⟩
  match r.2.1 with
  | .ret (.ok (.arr l)) => (r.1, .ok l)
  | _ => (r.1, .err)

def serde (kv : KV) : String := SerdeE.answer kv bodyVisit true

end GA.Drv.BodyE
