import GA.Bridge.BodyCollect
import GA.Props.C07
import GA.Props.C08
/-!
# C07 on the interpreted bodies of `try_from_iter` / `from_iter`

`GA.Gen.Body.tryFromIter` / `fromIter` are the whole bodies of `GenericArray::try_from_iter` and
`FromIterator::from_iter` (src/lib.rs) with `IntrusiveArrayBuilder::{new, extend, is_full, finish}`
(src/internal.rs) inlined, lowered statement by statement on every run.  The theorems state the
property for the *interpretation* of these bodies over an arbitrary scripted caller iterator.
-/
namespace GA.Props.BodyCollect
open GA.Body GA.Own GA.Bridge.BodyCollect
open GA.Bridge.Body (foldSpec)

/-- the caller's iterator as the interpreter sees it: the script's answers, its `size_hint()` -/
def scriptCtx (n : Nat) (hint : Nat × Option Nat) (sc : Script) : Ctx :=
  { n := n, bad := none, fpan := fun _ => false, cl := fun _ => none, src := fun j => pollOf sc (j - sc.k), hint := hint }

def st0 (sc : Script) : St := ⟨⟨[], 0, 0, 0, []⟩, ⟨[], 0, 0, 0, []⟩, false, 0, false, sc.k, false, {}⟩

theorem scriptCtx_src (n : Nat) (hint : Nat × Option Nat) (sc : Script) (j : Nat) :
    (scriptCtx n hint sc).src (sc.k + j) = pollOf sc j := by
  simp [scriptCtx]

/-- interpreting the regenerated `try_from_iter` body = the ownership model's `tryFromIter` -/
theorem try_run (n : Nat) (hn : n < word) (hint : Nat × Option Nat) (sc : Script) :
    let r := runFn (scriptCtx n hint sc) Gen.Body.intrusiveDrop.body Gen.Body.tryFromIter [] (st0 sc)
    (r.1, resOf r.2.1) = ((tryFromIter canonFrags scriptSrc n hint sc).1, some (tryFromIter canonFrags scriptSrc n hint sc).2) :=
  tryFromIter_body n hn hint sc (scriptCtx n hint sc) rfl rfl (scriptCtx_src n hint sc) rfl _

theorem from_run (n : Nat) (hn : n < word) (hint : Nat × Option Nat) (sc : Script) :
    let r := runFn (scriptCtx n hint sc) Gen.Body.intrusiveDrop.body Gen.Body.fromIter [] (st0 sc)
    (r.1, resOf r.2.1) = ((fromIter canonFrags scriptSrc n hint sc).1, some (fromIter canonFrags scriptSrc n hint sc).2) :=
  fromIter_body n hn hint sc (scriptCtx n hint sc) rfl rfl (scriptCtx_src n hint sc) rfl _

/-- **C07, `Ok` only for exactly N items, in order** — on the interpreted body, for every N below
    `2^64`, every script (fused or not), every size hint (truthful or not). -/
theorem C07_body_ok_iff (n : Nat) (hn : n < word) (hint : Nat × Option Nat) (answers : List (Option Id)) (arr : List Id) :
    resOf (runFn (scriptCtx n hint ⟨answers, 0, none⟩) Gen.Body.intrusiveDrop.body Gen.Body.tryFromIter []
        (st0 ⟨answers, 0, none⟩)).2.1 = some (.ok arr) ↔
      hintReject canonFrags hint n = false ∧ arr.length = n ∧ answers.take n = arr.map some ∧
      (∀ x, answers[n]? ≠ some (some x)) := by
  have h := congrArg Prod.snd (try_run n hn hint ⟨answers, 0, none⟩)
  simp only at h
  rw [h, Option.some.injEq]
  exact GA.Props.C07.ok_iff n hint answers arr

/-- **at most N + 1 polls**, never one after the array is known to be over-full; every path -/
theorem C07_body_polls_le (n : Nat) (hn : n < word) (hint : Nat × Option Nat) (sc : Script) :
    polls (runFn (scriptCtx n hint sc) Gen.Body.intrusiveDrop.body Gen.Body.tryFromIter [] (st0 sc)).1 ≤ n + 1 := by
  have h := congrArg Prod.fst (try_run n hn hint sc)
  simp only at h
  rw [h]
  exact GA.Props.C07.polls_le n hint sc

/-- **`from_iter` panics with the length message exactly when `try_from_iter` says `Err`** -/
theorem C07_body_from_iter (n : Nat) (hn : n < word) (hint : Nat × Option Nat) (sc : Script) :
    let f := runFn (scriptCtx n hint sc) Gen.Body.intrusiveDrop.body Gen.Body.fromIter [] (st0 sc)
    let t := runFn (scriptCtx n hint sc) Gen.Body.intrusiveDrop.body Gen.Body.tryFromIter [] (st0 sc)
    (Ev.lenFail ∈ f.1 ∧ resOf f.2.1 = some .panicked) ↔
      (resOf t.2.1 = some .err ∨ (Ev.lenFail ∈ t.1 ∧ resOf t.2.1 = some .panicked)) := by
  have hf := from_run n hn hint sc
  have ht := try_run n hn hint sc
  have hf1 := congrArg Prod.fst hf
  have hf2 := congrArg Prod.snd hf
  have ht1 := congrArg Prod.fst ht
  have ht2 := congrArg Prod.snd ht
  simp only at hf1 hf2 ht1 ht2
  simp only [hf1, hf2, ht1, ht2, Option.some.injEq]
  exact GA.Props.C07.from_iter_panics_iff n hint sc

/-- **every pulled item is in the result or dropped exactly once**, on every path (Ok, too few,
    too many, rejected by the hint, a panic at any poll), and no never-written slot is dropped -/
theorem C07_body_ledger (n : Nat) (hn : n < word) (hint : Nat × Option Nat) (sc : Script) :
    let r := runFn (scriptCtx n hint sc) Gen.Body.intrusiveDrop.body Gen.Body.tryFromIter [] (st0 sc)
    ∃ res, resOf r.2.1 = some res ∧ (gives r.1 ++ drops r.1 ++ res.ids).Perm (takes r.1) ∧ uninitDrops r.1 = 0 := by
  have h := try_run n hn hint sc
  have h1 := congrArg Prod.fst h
  have h2 := congrArg Prod.snd h
  simp only at h1 h2
  refine ⟨_, h2, ?_⟩
  rw [h1]
  have := GA.Props.C04.collect_ledger false true n hint sc
  simp only [GA.Ops.collectOp, GA.Ops.collectFrags, if_true, Bool.false_eq_true, if_false, libFrags_eq] at this
  obtain ⟨hp, hu⟩ := this
  refine ⟨?_, hu⟩
  simpa using hp

/-! ## C08 / C04 — `generate`, on the interpreted body -/

def genCtx (n : Nat) (f : Nat → Option Id) : Ctx :=
  { n := n, bad := none, fpan := fun _ => false, cl := f }

def gst0 : St := ⟨⟨[], 0, 0, 0, []⟩, ⟨[], 0, 0, 0, []⟩, false, 0, false, 0, false, {}⟩

theorem gen_run (f : Nat → Option Id) (n : Nat) (hn : n < word) :
    (runFn (genCtx n f) Gen.Body.intrusiveDrop.body Gen.Body.generate [] gst0).1 = (GA.Ops.generate f n).1 ∧
    resOf (runFn (genCtx n f) Gen.Body.intrusiveDrop.body Gen.Body.generate [] gst0).2.1 = some (GA.Ops.generate f n).2 := by
  have h := generate_body (genCtx n f) hn rfl ⟨[], 0, 0, 0, []⟩
  exact ⟨congrArg Prod.fst h, congrArg Prod.snd h⟩

/-- **C08: `generate` applies the function once per index, in index order, and stores result `i`
    at position `i`** — on the interpreted body, for every N below `2^64` -/
theorem C08_body_generate (g : Nat → Id) (n : Nat) (hn : n < word) :
    let r := runFn (genCtx n fun i => some (g i)) Gen.Body.intrusiveDrop.body Gen.Body.generate [] gst0
    resOf r.2.1 = some (.ok ((List.range n).map g)) ∧
    GA.Func.rets r.1 = (List.range n).map (fun i => (i, g i)) := by
  obtain ⟨h1, h2⟩ := gen_run (fun i => some (g i)) n hn
  obtain ⟨a, b⟩ := GA.Props.C08.generate_spec g n
  exact ⟨by rw [h2]; exact congrArg some a, by rw [h1]; exact b⟩

/-- **C04: a generator that panics at any index loses nothing**: the values produced before are
    dropped exactly once, no never-written slot is touched -/
theorem C04_body_generate (f : Nat → Option Id) (n : Nat) (hn : n < word) :
    let r := runFn (genCtx n f) Gen.Body.intrusiveDrop.body Gen.Body.generate [] gst0
    ∃ res, resOf r.2.1 = some res ∧ (gives r.1 ++ drops r.1 ++ res.ids).Perm (takes r.1) ∧ uninitDrops r.1 = 0 := by
  obtain ⟨h1, h2⟩ := gen_run f n hn
  refine ⟨_, h2, ?_⟩
  rw [h1]
  obtain ⟨hp, hu⟩ := GA.Props.C04.generate_ledger f n
  exact ⟨by simpa using hp, hu⟩

/-! ## C08 / C04 — `FunctionalSequence::fold` on an owned array, on the interpreted body -/

def foldCtx (n : Nat) (f : Nat → Bool) : Ctx :=
  { n := n, bad := none, fpan := fun k => !f k, cl := fun _ => none }

def fst0 (xs : List Id) : St := ⟨⟨xs, 0, 0, 0, []⟩, ⟨[], 0, 0, 0, []⟩, false, 0, false, 0, false, {}⟩

/-- interpreting the regenerated `fold` body (with `ArrayConsumer::new` / `iter_position` inlined and
    the regenerated `Drop for ArrayConsumer` run at scope end) = the model's `foldOp .owned` -/
theorem ga_fold_run (f : Nat → Bool) (xs : List Id) (hw : xs.length < word) :
    let r := runFn (foldCtx xs.length f) Gen.Body.consumerDrop.body Gen.Body.gaFold [] (fst0 xs)
    r.1 = (GA.Ops.foldOp .owned f xs).1 ∧ (r.2.1 = R.ret .unit ↔ (GA.Ops.foldOp .owned f xs).2 = true) ∧ r.2.1 ≠ R.ub := by
  have h := gaFold_body xs hw (foldCtx xs.length f) rfl 0
  have h1 : (runFn (foldCtx xs.length f) Gen.Body.consumerDrop.body Gen.Body.gaFold [] (fst0 xs)).1
      = (foldSpec (fun k => !f k) xs 0).1 := congrArg Prod.fst h
  have h2 : (runFn (foldCtx xs.length f) Gen.Body.consumerDrop.body Gen.Body.gaFold [] (fst0 xs)).2.1
      = (if (foldSpec (fun k => !f k) xs 0).2 = true then R.ret V.unit else R.panicked) := congrArg Prod.snd h
  rw [foldOp_owned_eq]
  refine ⟨h1, ?_, ?_⟩
  · rw [h2]
    cases (foldSpec (fun k => !f k) xs 0).2 <;> simp
  · rw [h2]
    cases (foldSpec (fun k => !f k) xs 0).2 <;> simp

/-- **C04**: whichever call of the closure panics, every element is handed to the closure or
    dropped exactly once; **C08**: without panics the closure sees `(0, x₀), (1, x₁), …` in order -/
theorem C04_C08_body_ga_fold (f : Nat → Bool) (xs : List Id) (hw : xs.length < word) :
    let r := runFn (foldCtx xs.length f) Gen.Body.consumerDrop.body Gen.Body.gaFold [] (fst0 xs)
    (gives r.1 ++ drops r.1).Perm (xs ++ takes r.1) ∧ uninitDrops r.1 = 0 ∧
    ((∀ k, f k = true) → GA.Func.args r.1 = (List.range xs.length).zip xs) := by
  obtain ⟨h1, _, _⟩ := ga_fold_run f xs hw
  obtain ⟨hp, hu⟩ := GA.Props.C04.fold_ledger .owned f xs
  refine ⟨by rw [h1]; simpa [GA.Props.C04.ownedInputs] using hp, by rw [h1]; exact hu, fun hall => ?_⟩
  have hf : f = fun _ => true := funext hall
  subst hf
  rw [h1]
  exact (GA.Props.C08.fold_spec .owned xs).2

/-! ## C08 / C04 — `FunctionalSequence::map` on an owned array, on the interpreted body -/

def mapCtx (n : Nat) (f : Nat → Option Id) : Ctx :=
  { n := n, bad := none, fpan := fun _ => false, cl := f }

theorem ga_map_run (f : Nat → Option Id) (xs : List Id) (hw : xs.length < word) :
    (runFn2 (mapCtx xs.length f) Gen.Body.consumerDrop.body Gen.Body.intrusiveDrop.body Gen.Body.gaMap [] (fst0 xs)).1
      = (GA.Ops.mapOp .owned f xs).1 ∧
    resOf (runFn2 (mapCtx xs.length f) Gen.Body.consumerDrop.body Gen.Body.intrusiveDrop.body Gen.Body.gaMap [] (fst0 xs)).2.1
      = some (GA.Ops.mapOp .owned f xs).2 := by
  have h := gaMap_body xs hw (mapCtx xs.length f) rfl rfl 0
  exact ⟨congrArg Prod.fst h, congrArg Prod.snd h⟩

/-- **C08: `map` applies the function to `a[0], a[1], …` once each, in order, and stores result `i`
    at position `i`** — on the interpretation of the whole call chain `map → from_iter →
    try_from_iter → extend` with the `Map` adaptor's closure, regenerated from the current source -/
theorem C08_body_map (g : Nat → Id) (xs : List Id) (hw : xs.length < word) :
    let r := runFn2 (mapCtx xs.length fun i => some (g i)) Gen.Body.consumerDrop.body Gen.Body.intrusiveDrop.body
      Gen.Body.gaMap [] (fst0 xs)
    resOf r.2.1 = some (.ok ((List.range xs.length).map g)) ∧
    GA.Func.args r.1 = (List.range xs.length).zip xs ∧
    GA.Func.rets r.1 = (List.range xs.length).map (fun i => (i, g i)) := by
  obtain ⟨h1, h2⟩ := ga_map_run (fun i => some (g i)) xs hw
  obtain ⟨a, b, c⟩ := GA.Props.C08.map_spec .owned g xs
  exact ⟨by rw [h2]; exact congrArg some a, by rw [h1]; exact b, by rw [h1]; exact c⟩

/-- **C04: whichever call of the mapping function panics**, every input element is handed to it or
    dropped, every result is in the returned array or dropped — exactly once; no never-written slot
    is dropped or returned -/
theorem C04_body_map (f : Nat → Option Id) (xs : List Id) (hw : xs.length < word) :
    let r := runFn2 (mapCtx xs.length f) Gen.Body.consumerDrop.body Gen.Body.intrusiveDrop.body Gen.Body.gaMap [] (fst0 xs)
    ∃ res, resOf r.2.1 = some res ∧ (gives r.1 ++ drops r.1 ++ res.ids).Perm (xs ++ takes r.1) ∧ uninitDrops r.1 = 0 := by
  obtain ⟨h1, h2⟩ := ga_map_run f xs hw
  refine ⟨_, h2, ?_⟩
  rw [h1]
  obtain ⟨hp, hu⟩ := GA.Props.C04.map_ledger .owned f xs
  exact ⟨by simpa using hp, hu⟩

-- non-vacuity: the interpreter runs the translated body
example : resOf (runFn (scriptCtx 3 (0, none) ⟨[some 7, some 8, some 9, none], 0, none⟩) Gen.Body.intrusiveDrop.body
    Gen.Body.tryFromIter [] (st0 ⟨[some 7, some 8, some 9, none], 0, none⟩)).2.1 = some (.ok [7, 8, 9]) := by decide
example : (runFn (scriptCtx 3 (0, none) ⟨[some 7, some 8, some 9, some 1], 0, none⟩) Gen.Body.intrusiveDrop.body
    Gen.Body.tryFromIter [] (st0 ⟨[some 7, some 8, some 9, some 1], 0, none⟩)).2.1 = R.ret .err := by decide
/-- `map` with the function panicking on its third call: the two results are dropped by the builder,
    the unread input by the consumer, the element in flight was given to the closure -/
example :
    let r := runFn2 (mapCtx 4 fun i => if i = 2 then none else some (100 + i)) Gen.Body.consumerDrop.body
      Gen.Body.intrusiveDrop.body Gen.Body.gaMap [] (fst0 [1, 2, 3, 4])
    (gives r.1, drops r.1, r.2.1) = ([1, 2, 3], [100, 101, 4], R.panicked) := by decide
example : drops (runFn (scriptCtx 3 (0, none) ⟨[some 7, some 8, some 9, some 1], 0, none⟩) Gen.Body.intrusiveDrop.body
    Gen.Body.tryFromIter [] (st0 ⟨[some 7, some 8, some 9, some 1], 0, none⟩)).1 = [1, 7, 8, 9] := by decide

end GA.Props.BodyCollect

#print axioms GA.Props.BodyCollect.C07_body_ok_iff
#print axioms GA.Props.BodyCollect.C07_body_polls_le
#print axioms GA.Props.BodyCollect.C07_body_from_iter
#print axioms GA.Props.BodyCollect.C07_body_ledger
#print axioms GA.Bridge.BodyCollect.exec_failOnErr
#print axioms GA.Props.BodyCollect.C08_body_generate
#print axioms GA.Props.BodyCollect.C04_body_generate
#print axioms GA.Props.BodyCollect.C04_C08_body_ga_fold
#print axioms GA.Props.BodyCollect.C08_body_map
#print axioms GA.Props.BodyCollect.C04_body_map
