import GA.Model.Fill
import GA.Bridge.Fill
import GA.Bridge.Layout
import GA.Props.C01
import GA.Props.C08
/-!
# C19 — zeroize and const-default reach every one of the N elements
-/
namespace GA.Props.C19
open GA.Fill GA.Layout GA.Gen GA.Bridge.Fill

variable {α : Type}

def weight (k : Nat) : FieldKind → Nat
  | .child => k
  | .elem => 1
  | _ => 0

theorem fieldMem_of_ok (d : α) (k : Nat) (fk : FieldKind) (init : Option InitKind) (h : initOk fk init = true) :
    fieldMem d (some (List.replicate k d)) fk init = some (List.replicate (weight k fk) d) := by
  cases fk <;> cases init with
  | none => simp [initOk] at h
  | some i => cases i <;> simp_all [initOk, fieldMem, weight]

theorem appendMem_some (a m : List α) : appendMem (some a) (some m) = some (a ++ m) := rfl

theorem sum_weight (k : Nat) (fields : List FieldKind) :
    (fields.map (weight k)).sum = k * fields.count .child + fields.count .elem := by
  induction fields with
  | nil => simp
  | cons f fs ih =>
    cases f <;> simp [weight, ih, List.count_cons, Nat.mul_add] <;> omega

theorem foldl_ok (d : α) (k : Nat) (inits : List (String × InitKind)) (l : List (FieldKind × String)) (m : Nat)
    (hok : l.all (fun fn => initOk fn.1 (inits.lookup fn.2)) = true) :
    l.foldl (fun acc fn => appendMem acc (fieldMem d (some (List.replicate k d)) fn.1 (inits.lookup fn.2)))
        (some (List.replicate m d))
      = some (List.replicate (m + ((l.map (·.1)).map (weight k)).sum) d) := by
  induction l generalizing m with
  | nil => simp
  | cons fn l ih =>
    simp only [List.all_cons, Bool.and_eq_true] at hok
    simp only [List.foldl_cons, fieldMem_of_ok d k fn.1 _ hok.1, appendMem_some, List.replicate_append_replicate]
    rw [ih _ hok.2]
    simp only [List.map_cons, List.sum_cons, Nat.add_assoc]

/-- a struct literal that initialises every declared field with its type's default holds
    `k·(children) + (element fields)` copies of the element default and nothing else -/
theorem structMem_ok (d : α) (k : Nat) (fields : List FieldKind) (names : List String)
    (inits : List (String × InitKind)) (h : literalOk fields names inits = true) :
    structMem d (some (List.replicate k d)) fields names inits
      = some (List.replicate (k * fields.count .child + fields.count .elem) d) := by
  unfold literalOk at h
  simp only [Bool.and_eq_true, decide_eq_true_eq] at h
  unfold structMem
  have := foldl_ok d k inits (fields.zip names) 0 h.2
  simp only [List.replicate_zero] at this
  rw [this, List.map_fst_zip (by omega), sum_weight]
  simp

theorem storageDefault_all (d : α) (D : Digits) : storageDefault d D = some (List.replicate D.val d) := by
  induction D with
  | term => rfl
  | b0 h ih =>
    simp only [storageDefault, ih, Bridge.Layout.b0Node_eq, nodeDefault]
    rw [structMem_ok d _ _ _ _ even_literal_ok, Bridge.Layout.even_children, Bridge.Layout.even_elems]
    simp only [Digits.val]; congr 2; omega
  | b1 h ih =>
    simp only [storageDefault, ih, Bridge.Layout.b1Node_eq, nodeDefault]
    rw [structMem_ok d _ _ _ _ odd_literal_ok, Bridge.Layout.odd_children, Bridge.Layout.odd_elems]
    simp only [Digits.val]; congr 2; omega

/-- the memory of `GenericArray::<T, N>::DEFAULT` is exactly `N` slots, each the element default:
    no slot skipped, none counted twice, for every shape of the recursive storage -/
theorem constDefaultMem_all (d : α) (D : Digits) : constDefaultMem d D = some (List.replicate D.val d) := by
  unfold constDefaultMem
  simp only [ga_bridge, Bridge.Layout.wrapperSingle_eq, Bool.and_self, if_true, storageDefault_all]
  rw [structMem_ok d _ _ _ _ wrapper_literal_ok]
  simp

/-- **const-default**: for every length `n`, the array seen through the slice view is `n` copies of
    the element's constant default -/
theorem const_default_all (d : α) (n : Nat) : constDefault d n = some (List.replicate n d) := by
  unfold constDefault sliceView
  simp only [constDefaultMem_all, C01.ofNat_val, Option.bind_some, ga_bridge, if_true]
  simp

/-- … and equals `Default::default()` (= `generate(|_| T::default())`, C08) when the element's two
    defaults coincide -/
theorem const_default_eq_default (d : GA.Own.Id) (n : Nat) :
    (GA.Ops.defaultOp (fun _ => some d) n).2 = .ok ((constDefault d n).getD []) := by
  rw [const_default_all, C08.default_spec (fun _ => d) n]
  simp only [Option.getD_some]
  congr 1
  induction n with
  | zero => rfl
  | succ n ih => rw [List.range_succ, List.map_append, ih, List.replicate_succ']; rfl

/-- **zeroize**: for every length and prior content, every element is replaced by its own
    zeroized value -/
theorem zeroize_all (z : α → α) (n : Nat) (a : List α) (h : a.length = n) : zeroize z n a = some (a.map z) := by
  unfold zeroize
  simp only [ga_bridge, Bool.and_self, if_true, ← h, List.take_length, List.drop_length, List.append_nil]

theorem zeroize_each (z : α → α) (n : Nat) (a : List α) (h : a.length = n) :
    ∃ r, zeroize z n a = some r ∧ r.length = n ∧ ∀ i (hi : i < n), r[i]? = (a[i]?).map z := by
  refine ⟨a.map z, zeroize_all z n a h, by simp [h], ?_⟩
  intro i _
  simp

/-- wiping twice is wiping once, when the element's `zeroize` is idempotent -/
theorem zeroize_idempotent (z : α → α) (hz : ∀ x, z (z x) = z x) (n : Nat) (a : List α) (h : a.length = n) :
    (zeroize z n a).bind (zeroize z n) = zeroize z n a := by
  rw [zeroize_all z n a h, Option.bind_some, zeroize_all z n _ (by simp [h])]
  simp [hz]

-- non-vacuity
example : constDefault 7 5 = some [7, 7, 7, 7, 7] := const_default_all 7 5
example : constDefaultMem 7 (.b1 (.b0 (.b1 .term))) = some [7, 7, 7, 7, 7] := by decide
example : zeroize (fun (x : Nat × Nat) => (x.1, 0)) 3 [(1, 9), (2, 8), (3, 7)] = some [(1, 0), (2, 0), (3, 0)] := by decide

end GA.Props.C19

#print axioms GA.Props.C19.structMem_ok
#print axioms GA.Props.C19.storageDefault_all
#print axioms GA.Props.C19.constDefaultMem_all
#print axioms GA.Props.C19.const_default_all
#print axioms GA.Props.C19.const_default_eq_default
#print axioms GA.Props.C19.zeroize_all
#print axioms GA.Props.C19.zeroize_each
#print axioms GA.Props.C19.zeroize_idempotent
