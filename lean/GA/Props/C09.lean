import GA.Model.Seq
import GA.Bridge.Seq
/-!
# C09 — lengthen / shorten / split / concat / remove equal the corresponding `Vec` operations

The models perform the block reads and writes of src/sequence.rs at the *regenerated* element
offsets; the theorems say the result is the `List` (= `Vec`) operation, for every length, and that
no read or write leaves the buffer and no slot is left uninitialised (`some …`).
-/
namespace GA.Props.C09
open GA.Seq GA.Gen

theorem assumeInit_map_some (l : List Nat) : assumeInit (l.map some) = some l := by
  unfold assumeInit
  induction l with
  | nil => rfl
  | cons x t ih => simp [List.mapM_cons, ih]

theorem uninit_length (n : Nat) : (uninit n).length = n := by simp [uninit]

theorem uninit_add (a b : Nat) : uninit (a + b) = uninit a ++ uninit b := by
  simp [uninit, List.replicate_append_replicate]

/-- writing a block exactly over an uninitialised gap between a prefix and a suffix -/
theorem writeAt_gap (p s : Buf) (ys : List Nat) (off : Nat) (hoff : off = p.length) :
    writeAt (p ++ uninit ys.length ++ s) off ys = some (p ++ ys.map some ++ s) := by
  subst hoff
  unfold writeAt
  have hl : p.length + ys.length ≤ (p ++ uninit ys.length ++ s).length := by
    simp only [List.length_append, uninit_length]; omega
  rw [if_pos hl]
  have h1 : List.take p.length (p ++ uninit ys.length ++ s) = p := by
    rw [List.append_assoc]; exact List.take_left' rfl
  have h2 : List.drop (p.length + ys.length) (p ++ uninit ys.length ++ s) = s := by
    exact List.drop_left' (by simp only [List.length_append, uninit_length])
  rw [h1, h2]

/-- `append` = `Vec::push` -/
theorem append_spec (xs : List Nat) (x : Nat) : append xs x = some (xs ++ [x]) := by
  unfold append
  simp only [ga_bridge, Option.bind_eq_bind]
  have e1 : uninit (xs.length + 1) = [] ++ uninit xs.length ++ uninit 1 := by rw [uninit_add]; rfl
  rw [e1, writeAt_gap [] (uninit 1) xs 0 rfl, Option.bind_some]
  have e2 : [] ++ xs.map some ++ uninit 1 = xs.map some ++ uninit [x].length ++ [] := by simp
  rw [e2, writeAt_gap (xs.map some) [] [x] xs.length (by simp), Option.bind_some]
  have : List.map some xs ++ List.map some [x] ++ [] = (xs ++ [x]).map some := by simp
  rw [this, assumeInit_map_some]

/-- `prepend` = `Vec::insert(0, _)` -/
theorem prepend_spec (xs : List Nat) (x : Nat) : prepend xs x = some (x :: xs) := by
  unfold prepend
  simp only [ga_bridge, Option.bind_eq_bind]
  have e1 : uninit (xs.length + 1) = [] ++ uninit [x].length ++ uninit xs.length := by
    rw [Nat.add_comm, uninit_add]; rfl
  rw [e1, writeAt_gap [] (uninit xs.length) [x] 0 rfl, Option.bind_some]
  have e2 : [] ++ [x].map some ++ uninit xs.length = [x].map some ++ uninit xs.length ++ [] := by simp
  rw [e2, writeAt_gap ([x].map some) [] xs 1 (by simp), Option.bind_some]
  have : List.map some [x] ++ List.map some xs ++ [] = (x :: xs).map some := by simp
  rw [this, assumeInit_map_some]

/-- `concat` = `Vec::extend` -/
theorem concat_spec (xs ys : List Nat) : concat xs ys = some (xs ++ ys) := by
  unfold concat
  simp only [ga_bridge, Option.bind_eq_bind]
  have e1 : uninit (xs.length + ys.length) = [] ++ uninit xs.length ++ uninit ys.length := by rw [uninit_add]; rfl
  rw [e1, writeAt_gap [] (uninit ys.length) xs 0 rfl, Option.bind_some]
  have e2 : [] ++ xs.map some ++ uninit ys.length = xs.map some ++ uninit ys.length ++ [] := by simp
  rw [e2, writeAt_gap (xs.map some) [] ys xs.length (by simp), Option.bind_some]
  have : List.map some xs ++ List.map some ys ++ [] = (xs ++ ys).map some := by simp
  rw [this, assumeInit_map_some]

/-- `pop_back` = `Vec::pop` (typed only for `N ≥ 1`) -/
theorem pop_back_spec (xs : List Nat) (x : Nat) : popBack (xs ++ [x]) = some (xs, x) := by
  unfold popBack readAt
  simp only [ga_bridge, List.length_append, List.length_cons, List.length_nil]
  have h1 : 0 + (xs.length + (0 + 1) - 1) ≤ xs.length + (0 + 1) := by omega
  have h2 : xs.length + (0 + 1) - 1 + 1 ≤ xs.length + (0 + 1) := by omega
  simp only [h1, h2, if_true, Option.bind_eq_bind, Option.bind_some, List.drop_zero]
  have e1 : xs.length + (0 + 1) - 1 = xs.length := by omega
  rw [e1, List.take_append_of_le_length (Nat.le_refl _), List.take_length, List.drop_append_of_le_length (Nat.le_refl _),
    List.drop_length]
  simp

/-- `pop_front` = `Vec::remove(0)` -/
theorem pop_front_spec (xs : List Nat) (x : Nat) : popFront (x :: xs) = some (x, xs) := by
  unfold popFront readAt
  simp only [ga_bridge, List.length_cons]
  have h1 : 0 + 1 ≤ xs.length + 1 := by omega
  have h2 : 1 + (xs.length + 1 - 1) ≤ xs.length + 1 := by omega
  simp only [h1, h2, if_true, Option.bind_eq_bind, Option.bind_some, List.drop_zero]
  simp

/-- owned `split` at `K ≤ N` = `split_at(K)` -/
theorem split_spec (xs : List Nat) (k : Nat) (hk : k ≤ xs.length) : split xs k = some (xs.take k, xs.drop k) := by
  unfold split readAt
  simp only [ga_bridge]
  have h1 : 0 + k ≤ xs.length := by omega
  have h2 : k + (xs.length - k) ≤ xs.length := by omega
  simp only [h1, h2, if_true, Option.bind_eq_bind, Option.bind_some, List.drop_zero]
  congr 2
  apply List.take_of_length_le; simp

/-- `remove(i)` for `i < N` = `Vec::remove(i)` -/
theorem remove_spec (xs : List Nat) (i : Nat) (hi : i < xs.length) :
    remove xs i = .ok xs[i] (xs.eraseIdx i) := by
  unfold remove readAt copyWithin
  simp only [ga_bridge, Bridge.Seq.removeCopyCountOk_of _ _ hi, hi, decide_true, Bool.not_true, Bool.false_eq_true,
    if_false]
  have h1 : i + 1 ≤ xs.length := by omega
  have h2 : i + 1 + (xs.length - i - 1) ≤ xs.length ∧ i + (xs.length - i - 1) ≤ xs.length := by omega
  simp only [h1, h2, and_self, if_true]
  have hd : List.take 1 (List.drop i xs) = [xs[i]] := by
    rw [List.drop_eq_getElem_cons hi]; rfl
  rw [hd]
  simp only []
  congr 1
  rw [List.eraseIdx_eq_take_drop_succ]
  have e1 : List.take (xs.length - i - 1) (List.drop (i + 1) xs) = List.drop (i + 1) xs := by
    apply List.take_of_length_le; simp; omega
  rw [e1]
  have e2 : List.take (xs.length - 1) (List.take i xs ++ List.drop (i + 1) xs ++ List.drop (i + (xs.length - i - 1)) xs) =
      List.take i xs ++ List.drop (i + 1) xs := by
    rw [List.take_append_of_le_length (by simp; omega)]
    apply List.take_of_length_le; simp; omega
  exact e2

/-- `remove(i)` / `swap_remove(i)` with `i ≥ N` panic before the array is taken apart, so the
    array's own drop glue releases every element exactly once -/
theorem remove_oob (xs : List Nat) (i : Nat) (hi : xs.length ≤ i) : remove xs i = .panic ∧ swapRemove xs i = .panic := by
  unfold remove swapRemove
  have : ¬ i < xs.length := by omega
  simp [ga_bridge, this]

/-- `swap_remove(i)` for `i < N` = `Vec::swap_remove(i)`: the removed value is `a[i]`, the last
    element takes its place, everything else keeps its position -/
theorem swap_remove_spec (xs : List Nat) (i : Nat) (hi : i < xs.length) :
    swapRemove xs i = .ok xs[i] ((xs.set i (xs[xs.length - 1]'(by omega))).take (xs.length - 1)) := by
  unfold swapRemove swapAt readAt
  simp only [ga_bridge, Bridge.Seq.swapRemoveOk_of _ _ hi, hi, decide_true, Bool.not_true, Bool.false_eq_true, if_false]
  have hl : xs.length - 1 < xs.length := by omega
  simp only [List.getElem?_eq_getElem hi, List.getElem?_eq_getElem hl, List.length_set]
  have h1 : xs.length - 1 + 1 ≤ xs.length := by omega
  simp only [h1, if_true]
  have hd : List.take 1 (List.drop (xs.length - 1) ((xs.set i xs[xs.length - 1]).set (xs.length - 1) xs[i])) = [xs[i]] := by
    rw [List.drop_eq_getElem_cons (by simp; omega)]
    simp
  rw [hd]
  simp only []
  congr 1
  rw [List.take_set_of_le (Nat.le_refl _)]

/-- by-reference `split`: the two halves are sub-ranges of the original storage — the first starts
    at the array's address, they are adjacent, disjoint, and together cover exactly the `N` elements -/
theorem split_ref_partition (n k : Nat) (hk : k ≤ n) :
    let h := (splitRef n k).1; let t := (splitRef n k).2
    h.1 = 0 ∧ h.1 + h.2 = t.1 ∧ t.1 + t.2 = n ∧ splitMut n k = splitRef n k := by
  simp only [splitRef, splitMut, ga_bridge]
  exact ⟨trivial, by omega, by omega, trivial⟩

-- non-vacuity / sanity
example : remove [10, 11, 12, 13] 2 = .ok 12 [10, 11, 13] := by decide
example : swapRemove [10, 11, 12, 13] 1 = .ok 11 [10, 13, 12] := by decide
example : swapRemove [10] 0 = .ok 10 [] := by decide
example : remove [10, 11] 2 = .panic := by decide

end GA.Props.C09

#print axioms GA.Props.C09.append_spec
#print axioms GA.Props.C09.prepend_spec
#print axioms GA.Props.C09.concat_spec
#print axioms GA.Props.C09.pop_back_spec
#print axioms GA.Props.C09.pop_front_spec
#print axioms GA.Props.C09.split_spec
#print axioms GA.Props.C09.remove_spec
#print axioms GA.Props.C09.remove_oob
#print axioms GA.Props.C09.swap_remove_spec
#print axioms GA.Props.C09.split_ref_partition
