import GA.Lemmas.Pool
/-!
# C03 — every element is dropped exactly once across any history of ownership moves

`GA.Pool` chains the models of all ownership-moving operations: construction, by-value iteration
(front, back, skipping, cloning, abandoning early, fold/rfold/count/last), map/zip/fold/clone,
append/prepend/pop/split/concat/remove/swap_remove, flatten/unflatten (as regrouping), conversions
(as identity on the elements).  Outputs of one operation are inputs of the next; element ids are
`0, 1, 2, …` in creation order, so "the elements that ever existed" is `List.range next`.
-/
namespace GA.Props.C03
open GA.Pool GA.Own GA.Iter

/-- **the ledger holds after every finite history**: each element created so far is in exactly one
    place — a live array, the live range of a live iterator, the caller's hands, or the drop log -/
theorem history_ledger (ops : List Op) (p : Pool) (h : Ledger p) : Ledger (run p ops) := by
  induction ops generalizing p with
  | nil => exact h
  | cons op ops ih => exact ih (step p op) (step_ledger p h op)

theorem empty_ledger : Ledger Pool.empty := by
  refine ⟨by simp [Pool.empty, Pool.owned], ?_⟩
  intro it hit; simp [Pool.empty] at hit

/-- **exactly once**: when everything has gone out of scope, the drop log is a permutation of the
    elements ever created — none missing (no leak), none twice (no double drop) -/
theorem history_final (ops : List Op) :
    (dropAll (run Pool.empty ops)).dropped.Perm (List.range (run Pool.empty ops).next) ∧
    (dropAll (run Pool.empty ops)).dropped.Nodup := by
  obtain ⟨hp, hi⟩ := history_ledger ops Pool.empty empty_ledger
  generalize run Pool.empty ops = p at *
  have hmap : p.iters.map asSlice = p.iters.map abs := by
    apply List.map_congr_left; intro it _; exact asSlice_eq it
  have hperm : (dropAll p).dropped.Perm (List.range p.next) := by
    refine List.Perm.trans ?_ hp
    refine Own.perm_of_counts fun a => ?_
    simp only [dropAll, hmap, Pool.owned, List.count_append]; omega
  exact ⟨hperm, hperm.nodup_iff.mpr List.nodup_range⟩

/-- **never observed after being dropped**: an element in the drop log is not in any live array,
    live iterator range or the caller's hands — at every point of every history -/
theorem no_use_after_drop (ops : List Op) (x : Id) (hx : x ∈ (run Pool.empty ops).dropped) :
    x ∉ (run Pool.empty ops).arrays.flatten ∧ x ∉ ((run Pool.empty ops).iters.map abs).flatten ∧
    x ∉ (run Pool.empty ops).held ∧ (run Pool.empty ops).dropped.count x = 1 := by
  obtain ⟨hp, _⟩ := history_ledger ops Pool.empty empty_ledger
  generalize run Pool.empty ops = p at *
  have hnd : p.owned.Nodup := hp.nodup_iff.mpr List.nodup_range
  have hc : p.owned.count x ≤ 1 := List.nodup_iff_count.mp hnd x
  have hd : 1 ≤ p.dropped.count x := List.count_pos_iff.mpr hx
  rw [owned_count] at hc
  refine ⟨?_, ?_, ?_, by omega⟩ <;> (intro hm; have := List.count_pos_iff.mpr hm; omega)

/-- elements handed to the caller stay live until the caller drops them -/
theorem held_live (ops : List Op) (x : Id) (hx : x ∈ (run Pool.empty ops).held) :
    x ∉ (run Pool.empty ops).dropped := by
  intro hd
  exact (no_use_after_drop ops x hd).2.2.1 hx

-- non-vacuity: a concrete chained history touching most operation kinds
example : (dropAll (run Pool.empty
    [.gen 3, .gen 2, .concat, .intoIter, .next, .nthBack 1, .iterClone, .iterDrop, .gen 4, .map, .popBack,
     .remove 1, .split 1, .rotA, .dropArr, .rotI, .iterFold, .append, .swapRemove 0, .gen 2, .gen 2, .zip])).dropped.length
    = (run Pool.empty
    [.gen 3, .gen 2, .concat, .intoIter, .next, .nthBack 1, .iterClone, .iterDrop, .gen 4, .map, .popBack,
     .remove 1, .split 1, .rotA, .dropArr, .rotI, .iterFold, .append, .swapRemove 0, .gen 2, .gen 2, .zip]).next := by decide

end GA.Props.C03

#print axioms GA.Props.C03.history_ledger
#print axioms GA.Props.C03.history_final
#print axioms GA.Props.C03.no_use_after_drop
#print axioms GA.Props.C03.held_live
