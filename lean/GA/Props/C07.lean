import GA.Lemmas.Ops
import GA.Props.C04
/-!
# C07 — collecting from an iterator yields an array only for exactly N items

The source is a script: the list of answers its `next()` calls will give (`none` may be followed by
`some` again — not fused), any `size_hint` (truthful or lying), optionally one poll that panics.
`collectOp boxed try_` is `try_from_iter` / `from_iter`, stack or boxed, with the conditions
regenerated from src/lib.rs, src/internal.rs and src/impl_alloc.rs.
-/
namespace GA.Props.C07
open GA.Own GA.Ops GA.Gen

theorem step_some (x : Id) (t : List (Option Id)) (j : Nat) :
    scriptSrc.step ⟨some x :: t, j, none⟩ = .yield [.poll j, .take j x] x ⟨t, j + 1, none⟩ := by simp [scriptSrc]
theorem step_none (t : List (Option Id)) (j : Nat) :
    scriptSrc.step ⟨none :: t, j, none⟩ = .done [.poll j] ⟨t, j + 1, none⟩ := by simp [scriptSrc]
theorem step_nil (j : Nat) :
    scriptSrc.step ⟨[], j, none⟩ = .done [.poll j] ⟨[], j + 1, none⟩ := by simp [scriptSrc]

/-- the builder loop over a script that does not panic: it ends `full` exactly when the next `k`
    answers are all `Some`, and then holds exactly those items and has polled exactly `k` times -/
theorem fill_full_iff (k : Nat) (rest : List (Option Id)) (j : Nat) (out o : List Id) (s : Script) :
    (fillLoop true true scriptSrc k ⟨rest, j, none⟩ out).2 = .full o s ↔
      ∃ items, items.length = k ∧ rest.take k = items.map some ∧ o = out ++ items ∧
        s = ⟨rest.drop k, j + k, none⟩ := by
  induction k generalizing rest j out with
  | zero =>
    simp only [fillLoop, if_true, FillRes.full.injEq]
    constructor
    · rintro ⟨rfl, rfl⟩; exact ⟨[], rfl, by simp, by simp, by simp⟩
    · rintro ⟨items, hl, _, ho, hs⟩
      have : items = [] := List.eq_nil_of_length_eq_zero hl
      subst this; simp at ho hs; exact ⟨ho.symm, hs.symm⟩
  | succ k ih =>
    cases rest with
    | nil =>
      simp only [fillLoop, step_nil]
      constructor
      · intro h; cases h
      · rintro ⟨items, hl, ht, _, _⟩
        cases items with
        | nil => simp at hl
        | cons a t => simp at ht
    | cons a t =>
      cases a with
      | none =>
        simp only [fillLoop, step_none]
        constructor
        · intro h; cases h
        · rintro ⟨items, hl, ht, _, _⟩
          cases items with
          | nil => simp at hl
          | cons b u => simp at ht
      | some x =>
        simp only [fillLoop, step_some]
        rw [ih t (j + 1) (out ++ [x])]
        constructor
        · rintro ⟨items, hl, ht, ho, hs⟩
          refine ⟨x :: items, by simp [hl], by simp [ht], by simp [ho], ?_⟩
          rw [hs]; simp; omega
        · rintro ⟨items, hl, ht, ho, hs⟩
          cases items with
          | nil => simp at hl
          | cons b u =>
            simp only [List.take_succ_cons, List.map_cons, List.cons.injEq, Option.some.injEq] at ht
            obtain ⟨rfl, ht⟩ := ht
            refine ⟨u, by simpa using hl, ht, by simp [ho], ?_⟩
            rw [hs]; simp; omega

/-- **Ok only for exactly N items, in order** — for every N, every script, every size hint. -/
theorem ok_iff (n : Nat) (hint : Nat × Option Nat) (answers : List (Option Id)) (arr : List Id) :
    (tryFromIter canonFrags scriptSrc n hint ⟨answers, 0, none⟩).2 = .ok arr ↔
      hintReject canonFrags hint n = false ∧ arr.length = n ∧ answers.take n = arr.map some ∧
      (∀ x, answers[n]? ≠ some (some x)) := by
  unfold tryFromIter
  by_cases hr : hintReject canonFrags hint n = true
  · simp [hr]
  · simp only [hr, Bool.false_eq_true, if_false]
    have hfull := fill_full_iff n answers 0 []
    have hlen := fillLoop_len true scriptSrc n ⟨answers, 0, none⟩ []
    simp only [canonFrags] at *
    revert hfull hlen
    cases hf : fillLoop true true scriptSrc n ⟨answers, 0, none⟩ [] with
    | mk tr r =>
      cases r with
      | panicked =>
        intro hfull _
        simp only [reduceCtorEq, false_iff, not_and, Bool.not_eq_true]
        intro _ hl ht hx
        have := (hfull arr ⟨answers.drop n, 0 + n, none⟩).mpr ⟨arr, hl, ht, by simp, rfl⟩
        cases this
      | short out s =>
        intro hfull _
        simp only [Bool.not_true, Bool.and_false, Bool.false_eq_true, if_false, reduceCtorEq, false_iff, not_and]
        intro _ hl ht hx
        have := (hfull arr ⟨answers.drop n, 0 + n, none⟩).mpr ⟨arr, hl, ht, by simp, rfl⟩
        cases this
      | full out s =>
        intro hfull hlen
        obtain ⟨items, hl, ht, ho, hs⟩ := (hfull out s).mp rfl
        simp only [List.nil_append] at ho
        subst ho hs
        simp only [List.length_nil, Nat.zero_add] at hlen
        simp only [hlen, decide_true, Bool.not_true, Bool.false_eq_true, if_false, scriptSrc, reduceCtorEq]
        have hn : answers[n]? = (answers.drop n).head? := by simp [List.head?_drop]
        cases hd : answers.drop n with
        | nil =>
          simp only [Res.ok.injEq]
          rw [hn, hd]
          constructor
          · rintro rfl; exact ⟨by simpa using hr, hl, ht, by simp⟩
          · rintro ⟨_, hl', ht', _⟩
            rw [ht] at ht'
            exact (List.map_inj_right (fun _ _ h => Option.some.inj h)).mp ht'
        | cons a t =>
          rw [hn, hd]
          cases a with
          | none =>
            simp only [Res.ok.injEq]
            constructor
            · rintro rfl; exact ⟨by simpa using hr, hl, ht, by simp⟩
            · rintro ⟨_, hl', ht', _⟩
              rw [ht] at ht'
              exact (List.map_inj_right (fun _ _ h => Option.some.inj h)).mp ht'
          | some x =>
            simp only [reduceCtorEq, false_iff, not_and, List.head?_cons]
            intro _ _ _ h
            exact absurd rfl (h x)

/-- a source with a truthful size hint that produces exactly N items is accepted -/
theorem truthful_complete (n : Nat) (items : List Id) (hl : items.length = n) (hint : Nat × Option Nat)
    (hlo : hint.1 ≤ n) (hhi : ∀ h, hint.2 = some h → n ≤ h) (tail : List (Option Id)) :
    (tryFromIter canonFrags scriptSrc n hint ⟨items.map some ++ none :: tail, 0, none⟩).2 = .ok items := by
  rw [ok_iff]
  refine ⟨?_, hl, ?_, ?_⟩
  · unfold hintReject canonFrags
    rcases hint with ⟨lo, hi⟩
    cases hi with
    | none => simp at hlo ⊢; omega
    | some h => have := hhi h rfl; simp at hlo ⊢; omega
  · rw [List.take_append_of_le_length (by simp [hl])]; exact List.take_of_length_le (by simp [hl])
  · intro x; rw [List.getElem?_append_right (by simp [hl])]; simp [hl]

/-- **At most N + 1 polls**, whatever the source does (lying hints, not fused, panicking). -/
theorem step_polls (s : Script) :
    (match scriptSrc.step s with
      | .yield evs _ _ => polls evs
      | .done evs _ => polls evs
      | .panic evs _ => polls evs) ≤ 1 := by
  rcases s with ⟨ans, k, pa⟩
  by_cases hp : pa = some k
  · simp [scriptSrc, hp, polls]
  · cases ans with
    | nil => simp [scriptSrc, hp, polls]
    | cons a t => cases a <;> simp [scriptSrc, hp, polls]

theorem script_drop_polls (s : Script) : polls (scriptSrc.dropEv s) = 0 := rfl
theorem script_owns : scriptSrc.owns = true := rfl

theorem fill_polls (k : Nat) (s : Script) (out : List Id) :
    polls (fillLoop true true scriptSrc k s out).1 ≤ k := by
  induction k generalizing s out with
  | zero => simp [fillLoop, polls]
  | succ k ih =>
    have hs := step_polls s
    cases hstep : scriptSrc.step s with
    | yield evs x s' =>
      simp only [hstep] at hs
      simp only [fillLoop, hstep, polls_append]
      have := ih s' (out ++ [x]); omega
    | done evs s' => simp only [hstep] at hs; simp only [fillLoop, hstep]; omega
    | panic evs s' =>
      simp only [hstep] at hs
      simp only [fillLoop, hstep, polls_append, builderDrop_true, polls_map_drop, script_drop_polls]
      omega

theorem polls_le (n : Nat) (hint : Nat × Option Nat) (sc : Script) :
    polls (tryFromIter canonFrags scriptSrc n hint sc).1 ≤ n + 1 := by
  unfold tryFromIter
  by_cases hr : hintReject canonFrags hint n = true
  · simp [hr, script_drop_polls]
  · simp only [hr, Bool.false_eq_true, if_false]
    have hf := fill_polls n sc []
    have e1 : canonFrags.writeBeforeCount = true := rfl
    have e2 : canonFrags.destFirst = true := rfl
    have e3 : canonFrags.fullBeforePoll = true := rfl
    have e4 : canonFrags.finishAfterProbe = true := rfl
    rw [e1, e2]
    rcases hfl : fillLoop true true scriptSrc n sc [] with ⟨tr, r⟩
    rw [hfl] at hf
    simp only [] at hf
    cases r with
    | panicked => exact Nat.le_succ_of_le hf
    | short out s =>
      simp only [e3, Bool.not_true, Bool.and_false, Bool.false_eq_true, if_false, polls_append, polls_map_drop,
        script_drop_polls]
      omega
    | full out s =>
      by_cases hfu : canonFrags.isFull out.length n = true
      · simp only [hfu, Bool.not_true, Bool.false_eq_true, if_false, e4, if_true]
        have hs := step_polls s
        cases hstep : scriptSrc.step s with
        | yield evs x s' =>
          simp only [hstep] at hs
          simp only [polls_append, polls_map_drop, script_drop_polls, script_owns, polls, if_true]
          omega
        | done evs s' => simp only [hstep] at hs; simp only [polls_append, script_drop_polls]; omega
        | panic evs s' =>
          simp only [hstep] at hs
          simp only [polls_append, polls_map_drop, script_drop_polls]; omega
      · simp only [hfu, Bool.not_false, if_true, polls_append, polls_map_drop, script_drop_polls]
        omega

/-- every pulled item is in the result or dropped exactly once, on every path — and the boxed form
    and `from_iter` are the same function of the script (same result class, items, polls) -/
theorem pulled_ledger (boxed try_ : Bool) (n : Nat) (hint : Nat × Option Nat) (sc : Script) :
    C04.Ledger [] (collectOp boxed try_ n hint sc) := C04.collect_ledger boxed try_ n hint sc

theorem boxed_agrees (try_ : Bool) (n : Nat) (hint : Nat × Option Nat) (sc : Script) :
    collectOp true try_ n hint sc = collectOp false try_ n hint sc := by
  unfold collectOp; simp only [collectFrags_eq]

/-- `from_iter` / `collect` panic with the length message exactly when `try_from_iter` says `Err` -/
theorem from_iter_panics_iff (n : Nat) (hint : Nat × Option Nat) (sc : Script) :
    (Ev.lenFail ∈ (fromIter canonFrags scriptSrc n hint sc).1 ∧ (fromIter canonFrags scriptSrc n hint sc).2 = .panicked) ↔
      (tryFromIter canonFrags scriptSrc n hint sc).2 = .err ∨
      (Ev.lenFail ∈ (tryFromIter canonFrags scriptSrc n hint sc).1 ∧ (tryFromIter canonFrags scriptSrc n hint sc).2 = .panicked) := by
  unfold fromIter
  cases h : tryFromIter canonFrags scriptSrc n hint sc with
  | mk tr r => cases r <;> simp

-- non-vacuity: exactly 3, too few, too many, lying-low hint, a non-fused source
example : (tryFromIter canonFrags scriptSrc 3 (0, none) ⟨[some 7, some 8, some 9, none], 0, none⟩).2 = .ok [7, 8, 9] := by decide
example : (tryFromIter canonFrags scriptSrc 3 (0, none) ⟨[some 7, some 8, none, some 9], 0, none⟩).2 = .err := by decide
example : (tryFromIter canonFrags scriptSrc 3 (0, none) ⟨[some 7, some 8, some 9, some 1], 0, none⟩).2 = .err := by decide
example : (tryFromIter canonFrags scriptSrc 3 (4, none) ⟨[some 7, some 8, some 9, none], 0, none⟩).2 = .err := by decide

end GA.Props.C07

#print axioms GA.Props.C07.ok_iff
#print axioms GA.Props.C07.truthful_complete
#print axioms GA.Props.C07.polls_le
#print axioms GA.Props.C07.pulled_ledger
#print axioms GA.Props.C07.boxed_agrees
#print axioms GA.Props.C07.from_iter_panics_iff
