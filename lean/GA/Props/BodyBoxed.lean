import GA.Bridge.BodyBoxed
import GA.Props.C16
import GA.Props.C08
/-!
# C16 (and C04/C08) on the interpreted body of boxed `generate`

`GA.Gen.Body.boxedGenerate` is the whole body of
`<Box<GenericArray<T, N>> as GenericSequence<T>>::generate` (src/impl_alloc.rs), and
`GA.Gen.Body.deallocGuardDrop` the whole `Drop for DeallocOnDrop`, lowered statement by statement on
every run.  The theorems state the allocator discipline for the *interpretation* of these bodies:
for every length, element size and alignment, every generator (returning or panicking at any call)
and either allocator outcome.
-/
namespace GA.Props.BodyBoxed
open GA.Body GA.Own GA.Bridge.BodyBoxed GA.Bridge.BodyCollect

/-- generator `f`, element layout `esz`/`ealign`, allocator outcome -/
def boxCtx (n esz ealign : Nat) (f : Nat → Option Id) (allocOk : Bool) : Ctx :=
  { n := n, bad := none, fpan := fun _ => false, cl := f,
    ext := { esz := esz, ealign := ealign, allocOk := allocOk } }

def bst0 : St := ⟨⟨[], 0, 0, 0, []⟩, ⟨[], 0, 0, 0, []⟩, false, 0, false, 0, false, {}⟩

/-- running the regenerated body, with the regenerated guard and builder destructors while unwinding -/
def boxRun (n esz ealign : Nat) (f : Nat → Option Id) (allocOk : Bool) : List Ev × R × St :=
  runFnB (boxCtx n esz ealign f allocOk) Gen.Body.intrusiveDrop.body Gen.Body.deallocGuardDrop.body
    Gen.Body.boxedGenerate [] bst0

/-- allocator events over the whole life of the result: those of the body, then — when a box was
    returned — the release `Box`'s own destructor performs (non-zero-size layouts only; that part is
    `alloc`'s, not this crate's) -/
def lifeTrace (n esz ealign : Nat) (r : List Ev × R × St) : List GA.Heap.AEv :=
  r.2.2.ext.atrace.map toH ++
    (match r.2.1 with
     | .ret (.boxed _ _) => if n * esz = 0 then [] else [.dealloc 1 (n * esz) ealign]
     | _ => [])

/-- the interpreted body's allocator life cycle is the heap model's, and it ends in a box or a panic -/
theorem life_eq (n : Nat) (hn : n < word) (esz ealign : Nat) (f : Nat → Option Id) (allocOk : Bool) :
    lifeTrace n esz ealign (boxRun n esz ealign f allocOk) = (GA.Heap.boxedGenerate esz ealign n f allocOk).atrace ∧
    ((∃ blk out, (boxRun n esz ealign f allocOk).2.1 = .ret (.boxed blk out)) ∨ (boxRun n esz ealign f allocOk).2.1 = .panicked) := by
  have h := boxedGenerate_body (boxCtx n esz ealign f allocOk) hn rfl ⟨[], 0, 0, 0, []⟩
  unfold boxRun lifeTrace bst0
  rcases hr : runFnB (boxCtx n esz ealign f allocOk) Gen.Body.intrusiveDrop.body Gen.Body.deallocGuardDrop.body
    Gen.Body.boxedGenerate [] ⟨⟨[], 0, 0, 0, []⟩, ⟨[], 0, 0, 0, []⟩, false, 0, false, 0, false, {}⟩ with ⟨tr, res, st⟩
  simp only [hr] at h
  cases res with
  | ret v => cases v <;> simp_all [boxCtx] <;> (by_cases hz : n * esz = 0 <;> simp [hz])
  | panicked => simp_all [boxCtx]
  | ub => simp_all [boxCtx]

/-- **C16, only non-zero-size requests** — on the interpreted body -/
theorem C16_body_requests_nonzero (n : Nat) (hn : n < word) (esz ealign : Nat) (f : Nat → Option Id) (allocOk : Bool) :
    GA.Heap.requestsNonzero (lifeTrace n esz ealign (boxRun n esz ealign f allocOk)) = true := by
  rw [(life_eq n hn esz ealign f allocOk).1]; exact GA.Props.C16.requests_nonzero ..

/-- **C16, every release names a live block with its size and alignment** — on the interpreted body
    and the interpreted `Drop for DeallocOnDrop` -/
theorem C16_body_release_matches (n : Nat) (hn : n < word) (esz ealign : Nat) (f : Nat → Option Id) (allocOk : Bool) :
    GA.Heap.releasesMatch (lifeTrace n esz ealign (boxRun n esz ealign f allocOk)) = true := by
  rw [(life_eq n hn esz ealign f allocOk).1]; exact GA.Props.C16.release_matches ..

/-- **C16, nothing stays allocated** — including when the generator panics at any call -/
theorem C16_body_no_leak (n : Nat) (hn : n < word) (esz ealign : Nat) (f : Nat → Option Id) (allocOk : Bool) :
    GA.Heap.liveAfter (lifeTrace n esz ealign (boxRun n esz ealign f allocOk)) = [] := by
  rw [(life_eq n hn esz ealign f allocOk).1]; exact GA.Props.C16.no_leak ..

/-- **C16, allocation failure**: the interpreted body ends through `handle_alloc_error`, calls the
    generator never, and never forms a reference to the null block -/
theorem C16_body_alloc_failure (n : Nat) (esz ealign : Nat) (f : Nat → Option Id) (hz : n * esz ≠ 0) :
    let r := boxRun n esz ealign f false
    r.2.1 = .panicked ∧ r.2.2.ext.aborted = true ∧ r.1 = [] ∧
    r.2.2.ext.atrace = [.allocFail (n * esz) ealign, .handleAllocError] := by
  have hz' : (boxCtx n esz ealign f false).n * (boxCtx n esz ealign f false).ext.esz ≠ 0 := hz
  have hok : (boxCtx n esz ealign f false).ext.allocOk = false := rfl
  have hb : (boxCtx n esz ealign f false).bad = none := rfl
  unfold boxRun bst0
  boxed_simp [Gen.Body.boxedGenerate, Gen.Body.intrusiveDrop, Gen.Body.deallocGuardDrop, hz', hb, hok]
  simp [boxCtx]


/-- **C08 for boxed `generate`** — on the interpreted body: with a generator that returns at every
    call and an allocator that succeeds (or is not needed), the returned box holds `g 0 … g (N-1)`
    and the generator was called exactly once per index, in index order. -/
theorem C08_body_boxed_generate (n : Nat) (hn : n < word) (esz ealign : Nat) (g : Nat → Id) :
    let r := boxRun n esz ealign (fun i => some (g i)) true
    r.2.1 = .ret (.boxed (if n * esz = 0 then none else some 1) ((List.range n).map g)) ∧
    GA.Func.rets r.1 = (List.range n).map (fun i => (i, g i)) := by
  have h := boxedGenerate_body (boxCtx n esz ealign (fun i => some (g i)) true) hn rfl ⟨[], 0, 0, 0, []⟩
  obtain ⟨h1, h2⟩ := GA.Props.C08.boxed_generate_spec esz ealign g n
  unfold boxRun bst0
  rcases hr : runFnB (boxCtx n esz ealign (fun i => some (g i)) true) Gen.Body.intrusiveDrop.body
    Gen.Body.deallocGuardDrop.body Gen.Body.boxedGenerate []
    ⟨⟨[], 0, 0, 0, []⟩, ⟨[], 0, 0, 0, []⟩, false, 0, false, 0, false, {}⟩ with ⟨tr, res, st⟩
  simp only [hr] at h
  cases res with
  | ret v =>
    cases v <;> simp_all [boxCtx]
    by_cases hz : n * esz = 0 <;> simp [hz]
  | panicked => simp_all [boxCtx]; split at h <;> simp_all
  | ub => simp_all


/-- **C15, built in place**: with a non-zero-size layout and a working allocator the interpreted
    body performs exactly one allocator request, of the whole array's layout, and the box it returns
    *is* that block — the builder was placed over it (`IntrusiveArrayBuilder::new(&mut *ptr)`) and
    every generated element was written straight into its slot; nothing is built elsewhere and moved. -/
theorem C15_body_built_in_block (n : Nat) (hn : n < word) (esz ealign : Nat) (g : Nat → Id) (hz : n * esz ≠ 0) :
    let r := boxRun n esz ealign (fun i => some (g i)) true
    r.2.1 = .ret (.boxed (some 1) ((List.range n).map g)) ∧ r.2.2.ext.atrace = [.alloc 1 (n * esz) ealign] := by
  have h := C08_body_boxed_generate n hn esz ealign g
  have hb := boxedGenerate_body (boxCtx n esz ealign (fun i => some (g i)) true) hn rfl ⟨[], 0, 0, 0, []⟩
  have hm : (GA.Heap.boxedGenerate esz ealign n (fun i => some (g i)) true).atrace =
      [.alloc 1 (n * esz) ealign, .dealloc 1 (n * esz) ealign] := by
    have := GA.Props.C08.boxed_generate_spec esz ealign g n
    unfold GA.Heap.boxedGenerate at this ⊢
    simp only [GA.Props.C16.noAlloc_iff, GA.Bridge.Heap.boxedWriteBeforeCount_eq, GA.Bridge.HeapGen.boxedDanglingAligned_eq] at this ⊢
    rcases GA.Props.C16.fill_cases (fun i => some (g i)) n with ⟨tr, out, s, hf⟩ | ⟨tr, hf⟩ <;> simp_all
  unfold boxRun bst0 at h ⊢
  rcases hr : runFnB (boxCtx n esz ealign (fun i => some (g i)) true) Gen.Body.intrusiveDrop.body
    Gen.Body.deallocGuardDrop.body Gen.Body.boxedGenerate []
    ⟨⟨[], 0, 0, 0, []⟩, ⟨[], 0, 0, 0, []⟩, false, 0, false, 0, false, {}⟩ with ⟨tr, res, st⟩
  simp only [hr] at h hb
  obtain ⟨h1, _⟩ := h
  subst h1
  simp only [hz, if_false] at hb ⊢
  refine ⟨trivial, ?_⟩
  obtain ⟨_, _, _, ha⟩ := hb
  simp only [boxCtx] at ha
  rw [hm] at ha
  have ha' : st.ext.atrace.map toH ++ [GA.Heap.AEv.dealloc 1 (n * esz) ealign] =
      [.alloc 1 (n * esz) ealign, .dealloc 1 (n * esz) ealign] := by
    have := ha.symm
    simpa [hz] using this
  have h3 : st.ext.atrace.map toH = [.alloc 1 (n * esz) ealign] := by
    have := congrArg List.dropLast ha'
    simpa using this
  cases hst : st.ext.atrace with
  | nil => simp [hst] at h3
  | cons e t =>
    cases t with
    | nil =>
      rw [hst] at h3
      cases e <;> simp [toH] at h3
      obtain ⟨rfl, rfl, rfl⟩ := h3
      rfl
    | cons _ _ => simp [hst] at h3

/-! Non-vacuity: concrete runs of the interpreted body (tests, labelled as tests). -/
-- a successful run with a real block
example : (boxRun 2 4 4 (fun i => some (10 + i)) true).2.1 = .ret (.boxed (some 1) [10, 11]) ∧
    (boxRun 2 4 4 (fun i => some (10 + i)) true).2.2.ext.atrace = [.alloc 1 8 4] := by decide
-- a zero-sized element type: no allocator traffic at all
example : (boxRun 3 0 1 (fun i => some i) true).2.2.ext.atrace = [] := by decide
-- the generator panics at the second call: the first element is dropped, then the block released
example : (boxRun 3 4 4 (fun i => if i = 1 then none else some (10 + i)) true).1 =
      [.take 0 10, .panic 1, .drop 10] ∧
    (boxRun 3 4 4 (fun i => if i = 1 then none else some (10 + i)) true).2.2.ext.atrace =
      [.alloc 1 12 4, .dealloc 1 12 4] := by decide
-- the allocator fails
example : (boxRun 3 4 4 (fun i => some i) false).2.2.ext.atrace = [.allocFail 12 4, .handleAllocError] := by decide

end GA.Props.BodyBoxed

#print axioms GA.Props.BodyBoxed.C16_body_requests_nonzero
#print axioms GA.Props.BodyBoxed.C16_body_release_matches
#print axioms GA.Props.BodyBoxed.C16_body_no_leak
#print axioms GA.Props.BodyBoxed.C16_body_alloc_failure
#print axioms GA.Props.BodyBoxed.C08_body_boxed_generate
#print axioms GA.Props.BodyBoxed.C15_body_built_in_block
