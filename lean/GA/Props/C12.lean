import GA.Model.Types
import GA.Bridge.Types
/-!
# C12 — length, thread-safety and lifetime errors are rejected at compile time
-/
namespace GA.Props.C12
open GA.Types GA.Gen GA.Bridge.Types

/-- **lengths**: for every public operation that relates two lengths and for all lengths, the
    regenerated where-clauses and associated types accept a program exactly when the lengths agree,
    and then infer exactly the result lengths of the specification -/
theorem check_eq_spec (op : Op) : check op = spec op := by
  cases op with
  | append n => simp [check, spec, ga_bridge]
  | pop n => simp [check, spec, ga_bridge]
  | remove n => simp [check, spec, ga_bridge]
  | split n k => simp [check, spec, ga_bridge]
  | splitRef n k => simp [check, spec, ga_bridge]
  | splitMut n k => simp [check, spec, ga_bridge]
  | concat n m => simp [check, spec, ga_bridge]
  | flatten n m => simp [check, spec, ga_bridge]
  | unflatten nm n => simp [check, spec, ga_bridge]
  | zip n m => simp [check, spec, needEq, ga_bridge]
  | cmp n m => simp [check, spec, needEq, ga_bridge]
  | fromArray u n => simp [check, spec, needEq, ga_bridge]
  | intoArray n u => simp [check, spec, needEq, ga_bridge]
  | native u n => simp [check, spec, needEq, ga_bridge]
  | fromChunks u n => simp [check, spec, needEq, ga_bridge]
  | fromChunksMut u n => simp [check, spec, needEq, ga_bridge]
  | intoChunks u n => simp [check, spec, needEq, ga_bridge]
  | intoChunksMut u n => simp [check, spec, needEq, ga_bridge]
  | tuple k n =>
    simp only [check, spec]
    by_cases h : k = n ∧ 1 ≤ k ∧ k ≤ 12
    · rw [if_pos ((tupleTable_spec n k).mpr h), if_pos h]
    · have : ¬ (Types.tupleTable.contains (n, k) = true) := fun hc => h ((tupleTable_spec n k).mp hc)
      rw [if_neg this, if_neg h]

/-- rejected means rejected: splitting past the end, popping or removing from an empty array,
    zipping or comparing different lengths, wrong native/tuple lengths are type errors -/
theorem rejects (n k : Nat) :
    (n < k → check (.split n k) = none) ∧ check (.pop 0) = none ∧ check (.remove 0) = none ∧
    (n ≠ k → check (.zip n k) = none ∧ check (.cmp n k) = none ∧ check (.fromArray k n) = none ∧
      check (.intoArray n k) = none ∧ check (.native k n) = none ∧ check (.intoChunks k n) = none ∧ check (.tuple k n) = none) := by
  simp only [check_eq_spec, spec]
  refine ⟨fun h => by simp; omega, by simp, by simp, fun h => ?_⟩
  have h' : ¬ k = n := fun e => h e.symm
  simp [h, h']

/-- **auto traits**: the array, a reference to it and its by-value iterator are Send / Sync /
    Clone / Copy exactly when the element type is; the iterator is never `Copy` -/
theorem auto_traits (e : Caps) :
    arraySend e = some e.send ∧ arraySync e = some e.sync ∧ refSend e = some e.sync ∧
    iterSend e = some e.send ∧ iterSync e = some e.sync ∧
    arrayClone e = e.clone ∧ arrayCopy e = e.copy ∧ iterClone e = e.clone ∧ iterCopy = false := by
  simp [arraySend, arraySync, refSend, iterSend, iterSync, autoFor, autoImpls_eq, arrayClone, arrayCopy, iterClone, iterCopy,
    arrayCloneBounds_eq, arrayCopyBounds_eq, iterCloneBounds_eq, holds, ga_bridge]

/-- **lifetimes**: every API that returns a reference built from a raw pointer or a transmute
    ties the result's lifetime to the borrow of its source -/
theorem lifetimes_tied (api : String) (h : api ∈ apis) : tied api = some true := by
  unfold tied
  rw [lifetimes_all api h]; rfl

-- non-vacuity
example : check (.split 5 2) = some [2, 3] := by rw [check_eq_spec]; rfl
example : check (.split 2 5) = none := by rw [check_eq_spec]; rfl
example : arraySync ⟨true, false, false, true⟩ = some false := (auto_traits _).2.1
example : tied "from_array_mut" = some true := lifetimes_tied _ (by decide)

end GA.Props.C12

#print axioms GA.Props.C12.check_eq_spec
#print axioms GA.Props.C12.rejects
#print axioms GA.Props.C12.auto_traits
#print axioms GA.Props.C12.lifetimes_tied
