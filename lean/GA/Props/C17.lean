import GA.Model.Serde
import GA.Bridge.Serde
import GA.Lemmas.Own
/-!
# C17 — serde round-trips arrays as fixed-size tuples and rejects any other length
-/
namespace GA.Props.C17
open GA.Serde GA.Own GA.Gen

/-- **serialisation shape**: a tuple of exactly `N` elements in index order — no length prefix -/
theorem serialize_shape (a : List Id) :
    serialize a = [.tupleStart a.length] ++ a.map .elem ++ [.tupleEnd] := by
  simp [serialize, ga_bridge]

theorem step_elem (h0 he : Option Nat) (x : Id) (t : List Step) (j : Nat) :
    src.step ⟨h0, .elem x :: t, he, j⟩ = .yield [.poll j, .take j x] x ⟨h0, t, he, j + 1⟩ := rfl
theorem step_fail (h0 he : Option Nat) (t : List Step) (j : Nat) :
    src.step ⟨h0, .fail :: t, he, j⟩ = .panic [.poll j, .panic j] ⟨h0, t, he, j + 1⟩ := rfl
theorem step_none (h0 he : Option Nat) (t : List Step) (j : Nat) :
    src.step ⟨h0, .none :: t, he, j⟩ = .done [.poll j] ⟨h0, t, he, j + 1⟩ := rfl
theorem step_nil (h0 he : Option Nat) (j : Nat) :
    src.step ⟨h0, [], he, j⟩ = .done [.poll j] ⟨h0, [], he, j + 1⟩ := rfl

/-- the fill loop ends full exactly when the next `k` answers are all elements -/
theorem fill_full_iff (k : Nat) (h0 he : Option Nat) (steps : List Step) (j : Nat) (out o : List Id) (s : Serde.Script) :
    (fillLoop true true src k ⟨h0, steps, he, j⟩ out).2 = .full o s ↔
      ∃ items, items.length = k ∧ steps.take k = items.map .elem ∧ o = out ++ items ∧
        s = ⟨h0, steps.drop k, he, j + k⟩ := by
  induction k generalizing steps j out with
  | zero =>
    simp only [fillLoop, if_true, FillRes.full.injEq]
    constructor
    · rintro ⟨rfl, rfl⟩; exact ⟨[], rfl, by simp, by simp, by simp⟩
    · rintro ⟨items, hl, _, ho, hs⟩
      have : items = [] := List.eq_nil_of_length_eq_zero hl
      subst this; simp at ho hs; exact ⟨ho.symm, hs.symm⟩
  | succ k ih =>
    cases steps with
    | nil =>
      simp only [fillLoop, step_nil]
      constructor
      · intro h; cases h
      · rintro ⟨items, hl, ht, _, _⟩
        cases items with
        | nil => simp at hl
        | cons a t => simp at ht
    | cons a t =>
      cases a with
      | none =>
        simp only [fillLoop, step_none]
        constructor
        · intro h; cases h
        · rintro ⟨items, hl, ht, _, _⟩
          cases items with
          | nil => simp at hl
          | cons b u => simp at ht
      | fail =>
        simp only [fillLoop, step_fail]
        constructor
        · intro h; cases h
        · rintro ⟨items, hl, ht, _, _⟩
          cases items with
          | nil => simp at hl
          | cons b u => simp at ht
      | elem x =>
        simp only [fillLoop, step_elem]
        rw [ih t (j + 1) (out ++ [x])]
        constructor
        · rintro ⟨items, hl, ht, ho, hs⟩
          refine ⟨x :: items, by simp [hl], by simp [ht], by simp [ho], ?_⟩
          rw [hs]; simp; omega
        · rintro ⟨items, hl, ht, ho, hs⟩
          cases items with
          | nil => simp at hl
          | cons b u =>
            simp only [List.take_succ_cons, List.map_cons, List.cons.injEq, Step.elem.injEq] at ht
            obtain ⟨rfl, ht⟩ := ht
            refine ⟨u, by simpa using hl, ht, by simp [ho], ?_⟩
            rw [hs]; simp; omega

/-- is the up-front hint compatible with `N`? -/
def hintAdmits (h : Option Nat) (n : Nat) : Prop := h = none ∨ h = some n

/-- what the source says when asked for one more element -/
def noSurplus (he : Option Nat) (rest : List Step) : Prop :=
  he = some 0 ∨ probeRejects rest = false

theorem hintRejects_iff (h : Option Nat) (n : Nat) : hintRejects h n = false ↔ hintAdmits h n := by
  unfold hintRejects hintAdmits
  cases h with
  | none => simp
  | some k =>
    simp only [ga_bridge, reduceCtorEq, Option.some.injEq, false_or, decide_eq_false_iff_not, ne_eq]
    exact Decidable.not_not

theorem tailFull_ok (n : Nat) (tr : List Ev) (out : List Id) (s' : Serde.Script) (hl : out.length = n) (arr : List Id) :
    (tailFull n tr out s').2 = .ok arr ↔ arr = out ∧ noSurplus s'.hintEnd s'.steps := by
  unfold tailFull probes noSurplus
  simp only [ga_bridge, hl, decide_true, Bool.not_true, Bool.false_eq_true, if_false, Bool.true_and, if_true]
  by_cases hz : s'.hintEnd = some 0
  · simp only [hz, decide_true, Bool.not_true, Bool.not_false, if_true, VRes.ok.injEq, true_or, and_true]
    exact eq_comm
  · simp only [hz, decide_false, Bool.not_false, Bool.not_true, Bool.false_eq_true, if_false, false_or]
    cases hp : probeRejects s'.steps
    · simp only [Bool.false_eq_true, if_false, VRes.ok.injEq, and_true]; exact eq_comm
    · simp only [if_true, reduceCtorEq, false_iff, not_and, Bool.true_eq_false, not_false_eq_true, implies_true]

/-- **Ok exactly for N elements**: accepted iff the up-front hint does not contradict `N`, exactly `N`
    elements are delivered, and then the source either reports "nothing left" by its size hint (the
    carve-out in the property) or answers the surplus probe with "nothing" -/
theorem ok_iff (n : Nat) (h0 he : Option Nat) (steps : List Step) (arr : List Id) :
    (visitSeq n ⟨h0, steps, he, 0⟩).2 = .ok arr ↔
      hintAdmits h0 n ∧ arr.length = n ∧ steps.take n = arr.map .elem ∧ noSurplus he (steps.drop n) := by
  unfold visitSeq
  simp only [ga_bridge]
  by_cases hr : hintRejects h0 n = true
  · have : ¬ hintAdmits h0 n := by
      intro ha; rw [(hintRejects_iff h0 n).mpr ha] at hr; cases hr
    simp [hr, this]
  · have ha : hintAdmits h0 n := (hintRejects_iff h0 n).mp (by simpa using hr)
    simp only [hr, Bool.false_eq_true, if_false, ha, true_and]
    have hfull := fill_full_iff n h0 he steps 0 []
    have hlen := fillLoop_len true src n ⟨h0, steps, he, 0⟩ []
    have inj : ∀ a b : List Id, a.map Step.elem = b.map Step.elem → a = b :=
      fun a b h => (List.map_inj_right (fun _ _ h => Step.elem.inj h)).mp h
    revert hfull hlen
    cases hf : fillLoop true true src n ⟨h0, steps, he, 0⟩ [] with
    | mk tr r =>
      cases r with
      | panicked =>
        intro hfull _
        simp only [reduceCtorEq, false_iff, not_and]
        intro hl ht
        have := (hfull arr ⟨h0, steps.drop n, he, 0 + n⟩).mpr ⟨arr, hl, ht, by simp, rfl⟩
        cases this
      | short out s =>
        intro hfull hlen
        simp only [List.length_nil, Nat.zero_add] at hlen
        have hne : ¬ out.length = n := by omega
        simp only [tailShort, ga_bridge, hne, decide_false, Bool.false_eq_true, if_false, reduceCtorEq, false_iff, not_and]
        intro hl ht
        have := (hfull arr ⟨h0, steps.drop n, he, 0 + n⟩).mpr ⟨arr, hl, ht, by simp, rfl⟩
        cases this
      | full out s =>
        intro hfull hlen
        obtain ⟨items, hl, ht, ho, hs⟩ := (hfull out s).mp rfl
        simp only [List.nil_append] at ho
        subst ho hs
        simp only [List.length_nil, Nat.zero_add] at hlen
        rw [tailFull_ok n tr _ _ hlen]
        simp only []
        constructor
        · rintro ⟨rfl, hn⟩; exact ⟨hl, ht, hn⟩
        · rintro ⟨_, ht', hn⟩; rw [ht] at ht'; exact ⟨(inj _ _ ht').symm, hn⟩

/-- no partially filled array is ever returned -/
theorem no_partial (n : Nat) (h0 he : Option Nat) (steps : List Step) (arr : List Id)
    (h : (visitSeq n ⟨h0, steps, he, 0⟩).2 = .ok arr) : arr.length = n :=
  ((ok_iff n h0 he steps arr).mp h).2.1

theorem elemsOf_serialize (a : List Id) : elemsOf (serialize a) = a := by
  rw [serialize_shape]
  have h : ∀ l : List Id, elemsOf (l.map Tok.elem ++ [Tok.tupleEnd]) = l := by
    intro l; induction l with
    | nil => rfl
    | cons x t ih => simp [elemsOf, ih]
  simp only [List.cons_append, List.nil_append, elemsOf]
  exact h a

/-- **round trip**: deserialising what was serialised, through any faithful format (with or without
    size hints), gives the array back -/
theorem roundtrip (a : List Id) (hinted : Bool) :
    (visitSeq (Serde.deTupleLen a.length) (replay (serialize a) hinted)).2 = .ok a := by
  rw [Bridge.Serde.deTupleLen_eq]
  unfold replay
  rw [elemsOf_serialize, ok_iff]
  refine ⟨?_, rfl, ?_, ?_⟩
  · cases hinted <;> simp [hintAdmits]
  · exact List.take_of_length_le (by simp)
  · right
    rw [List.drop_eq_nil_of_le (by simp)]
    rfl

theorem src_contract : Contract src (fun _ => []) (fun _ => True) where
  yield := by
    intro s evs x s' _ h
    rcases s with ⟨h0, steps, he, k⟩
    cases steps with
    | nil => cases h
    | cons a t => cases a <;> cases h; simp [gives, drops, takes, uninitDrops, src]
  done := by
    intro s evs s' _ h
    rcases s with ⟨h0, steps, he, k⟩
    cases steps with
    | nil => cases h; simp [gives, drops, takes, uninitDrops]
    | cons a t => cases a <;> cases h; simp [gives, drops, takes, uninitDrops]
  panic := by
    intro s evs s' _ h
    rcases s with ⟨h0, steps, he, k⟩
    cases steps with
    | nil => cases h
    | cons a t => cases a <;> cases h; simp [gives, drops, takes, uninitDrops]
  drop := by intro s; simp [src]

/-- **error paths drop what was read exactly once**: on every path (accepted, too short, too long,
    hint mismatch, element error at any index) every element that was read is in the returned array
    or dropped exactly once, and no never-written slot is touched -/
theorem read_ledger (n : Nat) (s : Serde.Script) :
    (drops (visitSeq n s).1 ++ (visitSeq n s).2.ids).Perm (takes (visitSeq n s).1) ∧
    uninitDrops (visitSeq n s).1 = 0 := by
  unfold visitSeq
  simp only [ga_bridge]
  by_cases hr : hintRejects s.hint0 n = true
  · simp [hr, VRes.ids]
  · simp only [hr, Bool.false_eq_true, if_false]
    obtain ⟨hp, hu, _⟩ := fillLoop_ledger src (fun _ => []) (fun _ => True) src_contract rfl n s trivial []
    have hlen := fillLoop_len true src n s []
    have hg : gives (fillLoop true true src n s []).1 = [] := fill_gives n s []
    rw [hg] at hp
    revert hp hu hlen
    cases hf : fillLoop true true src n s [] with
    | mk tr r =>
      cases r with
      | panicked => intro hp hu _; simpa [FillRes.ids, FillRes.rest, VRes.ids] using And.intro hp hu
      | short out s' =>
        intro hp hu hlen
        simp only [List.length_nil, Nat.zero_add] at hlen
        have hne : ¬ out.length = n := by omega
        simp only [FillRes.ids, FillRes.rest, List.nil_append, List.append_nil] at hp
        simp only [tailShort, ga_bridge, hne, decide_false, Bool.false_eq_true, if_false, drops_append, takes_append,
          uninit_append, drops_map_drop, takes_map_drop, uninit_map_drop, VRes.ids, List.append_nil, hu]
        exact ⟨hp, trivial⟩
      | full out s' =>
        intro hp hu hlen
        simp only [List.length_nil, Nat.zero_add] at hlen
        simp only [FillRes.ids, FillRes.rest, List.nil_append, List.append_nil] at hp
        unfold tailFull
        simp only [ga_bridge, hlen, decide_true, Bool.not_true, Bool.false_eq_true, if_false, if_true]
        by_cases h1 : probes s'.hintEnd = true
        · simp only [h1, Bool.not_true, Bool.false_eq_true, if_false]
          have hpe : drops (probeEv s'.steps s'.k) = [] ∧ takes (probeEv s'.steps s'.k) = [] ∧
              uninitDrops (probeEv s'.steps s'.k) = 0 := by
            unfold probeEv; split <;> simp [drops, takes, uninitDrops]
          cases h2 : probeRejects s'.steps <;>
            simp only [Bool.false_eq_true, if_false, if_true, drops_append, takes_append, uninit_append, drops_map_drop,
              takes_map_drop, uninit_map_drop, hpe.1, hpe.2.1, hpe.2.2, VRes.ids, List.append_nil, hu] <;>
            exact ⟨by simpa using hp, trivial⟩
        · simp only [h1, Bool.not_false, if_true, VRes.ids]
          exact ⟨hp, hu⟩
where
  fill_gives (k : Nat) (s : Serde.Script) (out : List Id) : gives (fillLoop true true src k s out).1 = [] := by
    induction k generalizing s out with
    | zero => simp [fillLoop]
    | succ k ih =>
      rcases s with ⟨h0, steps, he, j⟩
      cases steps with
      | nil => simp [fillLoop, step_nil, gives]
      | cons a t =>
        cases a with
        | elem x => simp only [fillLoop, step_elem, gives_append, ih]; simp [gives]
        | fail => simp [fillLoop, step_fail, gives, src]
        | none => simp [fillLoop, step_none, gives]

-- non-vacuity: exact, short, long, contradicted hint, element error, the `Some(0)` carve-out
example : (visitSeq 2 ⟨none, [.elem 7, .elem 8], none, 0⟩).2 = .ok [7, 8] := by decide
example : (visitSeq 2 ⟨none, [.elem 7], none, 0⟩).2 = .err := by decide
example : (visitSeq 2 ⟨none, [.elem 7, .elem 8, .elem 9], none, 0⟩).2 = .err := by decide
example : (visitSeq 2 ⟨some 3, [.elem 7, .elem 8, .elem 9], none, 0⟩).2 = .err := by decide
example : (visitSeq 2 ⟨none, [.elem 7, .fail], none, 0⟩) = ([.poll 0, .take 0 7, .poll 1, .panic 1, .drop 7], .err) := by decide
example : (visitSeq 1 ⟨none, [.elem 7, .fail], none, 0⟩) = ([.poll 0, .take 0 7, .poll 1, .panic 1, .drop 7], .err) := by decide
example : (visitSeq 2 ⟨some 2, [.elem 7, .elem 8, .elem 9], some 0, 0⟩).2 = .ok [7, 8] := by decide

end GA.Props.C17

#print axioms GA.Props.C17.serialize_shape
#print axioms GA.Props.C17.ok_iff
#print axioms GA.Props.C17.no_partial
#print axioms GA.Props.C17.roundtrip
#print axioms GA.Props.C17.read_ledger
