import GA.Bridge.RegroupBody
/-!
# C11 on the interpreted bodies of the by-reference `flatten` / `unflatten` impls (src/sequence.rs)

`tools/seqbody.py` lowers the functions statement by statement (guards, pure `let`s inlined, every `as_ptr()` / `as_mut_ptr()`,
every `from_raw_parts(_mut)` / `&*(… as *const _)` / reference transmute) into `GA.Gen.SeqBody`; `MemBody.runViews` interprets
them with pointer provenance.  The theorems say what the returned references are — for every `N` and every length.
One module per function family (see `GA.Bridge.SeqBody`): a change to one family's bodies fails only the properties about it.
-/
namespace GA.Props.BodyViews
open GA.MemBody GA.Gen GA.Bridge.SeqBody

/-- **C11** by-reference `flatten` / `unflatten` on the interpreted bodies: the regrouped reference is the receiver reference
    retyped — same address, the same `N·M` (resp. `NM`) elements, shared for `&`, writable for `&mut` — so reads and writes
    through it are reads and writes of the original storage -/
theorem C11_body_regroup_views (n m nm i : Nat) :
    runViews false SeqBody.flattenRef ⟨n, m, i⟩ = .views [⟨0, n * m, false⟩] ∧
    runViews true SeqBody.flattenMut ⟨n, m, i⟩ = .views [⟨0, n * m, true⟩] ∧
    runViews false SeqBody.unflattenRef ⟨n, nm, i⟩ = .views [⟨0, nm, false⟩] ∧
    runViews true SeqBody.unflattenMut ⟨n, nm, i⟩ = .views [⟨0, nm, true⟩] :=
  ⟨(regroupRef_body n m i).1, (regroupRef_body n m i).2.1, (regroupRef_body n nm i).2.2.1, (regroupRef_body n nm i).2.2.2⟩

/-! A body that differs by one statement. -/
-- a `&mut` regrouped view made from `self.as_ptr()` (seed C11-11): not writable
example : runViews true [.ptrArg 0 false .k, .viewAt 0 0 (.lit 0) .k true, .retViews [0]] ⟨3, 12, 0⟩ = .ub := by decide

end GA.Props.BodyViews

#print axioms GA.Props.BodyViews.C11_body_regroup_views
