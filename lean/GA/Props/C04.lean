import GA.Lemmas.Ops
import GA.Lemmas.IterOwn
import GA.Bridge.Iter
import GA.Bridge.IterOwn
/-!
# C04 — a panic in caller-supplied code never loses or double-drops an element

Caller code is `f : Nat → Option Id` (call index ↦ returned value, `none` = panic on that call) and
is universally quantified, so each theorem covers *every* panic index at once.  The ledger
`gives ++ drops ++ result ~ inputs ++ takes` says: every element that ever existed — inputs and
everything caller code returned — is exactly once handed to caller code by value, dropped, or part
of the returned array; `uninitDrops = 0` says no never-written slot is dropped or returned.
-/
namespace GA.Props.C04
open GA.Own GA.Ops GA.Gen

/-- the ledger predicate for an operation's trace and result -/
def Ledger (inputs : List Id) (r : List Ev × Res) : Prop :=
  (gives r.1 ++ drops r.1 ++ r.2.ids).Perm (inputs ++ takes r.1) ∧ uninitDrops r.1 = 0

/-- `generate` (also `Default`): for every generator, panicking at any index or never. -/
theorem generate_ledger (f : Nat → Option Id) (n : Nat) : Ledger [] (generate f n) := by
  unfold Ledger generate
  rw [Bridge.Lib.generateWriteBeforeCount_eq]
  have h := fillLoop_ledger (genSrc f) (fun _ => []) (fun _ => True) (genSrc_contract f) rfl n 0 trivial []
  have hns := fillLoop_not_short true (genSrc f) (genSrc_never_done f) n 0 []
  revert h hns
  cases fillLoop true true (genSrc f) n 0 [] with
  | mk tr r =>
    cases r with
    | full out s =>
      intro ⟨hp, hu, _⟩ _
      simpa [FillRes.ids, FillRes.rest, Res.ids] using And.intro hp hu
    | short out s => intro _ hns; exact absurd rfl (hns out s)
    | panicked =>
      intro ⟨hp, hu, _⟩ _
      simpa [FillRes.ids, FillRes.rest, Res.ids] using And.intro hp hu

/-- no partially filled array is ever returned by `generate`: `Ok` means all `n` slots written -/
theorem generate_complete (f : Nat → Option Id) (n : Nat) (arr : List Id)
    (h : (generate f n).2 = .ok arr) : arr.length = n := by
  unfold generate at h
  have hl := fillLoop_len Lib.generateWriteBeforeCount (genSrc f) n 0 []
  have hns := fillLoop_not_short Lib.generateWriteBeforeCount (genSrc f) (genSrc_never_done f) n 0 []
  revert h hl hns
  cases fillLoop Lib.generateWriteBeforeCount true (genSrc f) n 0 [] with
  | mk tr r =>
    cases r with
    | full out s => intro h hl _; cases h; simpa using hl
    | short out s => intro _ _ hns; exact absurd rfl (hns out s)
    | panicked => intro h; cases h

/-- `map` for every receiver form (owned, `&`, `&mut`, `Box`) and every closure. -/
theorem map_ledger (form : Form) (f : Nat → Option Id) (xs : List Id) :
    Ledger (if form = .ref ∨ form = .mutRef then [] else xs) (mapOp form f xs) := by
  unfold Ledger mapOp
  cases form with
  | owned =>
    simp only [libFrags_eq, reduceCtorEq, or_self, if_false]
    have hg := consumer_side_good Lib.mapPosNew Lib.mapAdvBeforeCall Bridge.Lib.mapAdvBeforeCall_eq Bridge.Lib.mapPosNew_eq
    have := fromIter_ledger _ _ _ (mapSrc_contract _ hg f) rfl xs.length (xs.length, some xs.length)
      (Consumer.ofList xs) (ofList_sync xs)
    rwa [ownedOf_ofList _ xs rfl (by simp)] at this
  | boxed =>
    simp only [boxFrags_eq, reduceCtorEq, or_self, if_false]
    have := fromIter_ledger _ _ _ (mapSrc_contract .owned trivial f) rfl xs.length (xs.length, some xs.length)
      (Consumer.ofList xs) (ofList_sync xs)
    rwa [ownedOf_ofList _ xs rfl (by simp)] at this
  | ref =>
    simp only [libFrags_eq, true_or, if_true]
    exact fromIter_ledger _ _ _ (mapSrc_contract .borrowed trivial f) rfl xs.length (xs.length, some xs.length)
      (Consumer.ofList xs) (ofList_sync xs)
  | mutRef =>
    simp only [libFrags_eq, or_true, if_true]
    exact fromIter_ledger _ _ _ (mapSrc_contract .borrowed trivial f) rfl xs.length (xs.length, some xs.length)
      (Consumer.ofList xs) (ofList_sync xs)

/-- `Clone` (element `Clone::clone` panicking at any index) -/
theorem clone_ledger (f : Nat → Option Id) (xs : List Id) : Ledger [] (cloneOp f xs) := by
  have := map_ledger .ref f xs
  simpa [cloneOp] using this

/-- the sides the dispatch selects are all position-correct when both element types need drop -/
theorem zipSides_good (fa fb : Form) : (zipSides fa fb true true).1.GoodA ∧ (zipSides fa fb true true).2.GoodA := by
  cases fa <;> cases fb <;>
    simp only [zipSides, Bridge.Lib.izipDropBranch_eq, Bridge.Lib.izip2DropBranch_eq, Bool.or_self, if_true] <;>
    refine ⟨?_, ?_⟩ <;>
    first
      | exact sideOf_good _
      | exact consumer_side_good _ _ Bridge.Lib.izipLeftAdvBeforeCall_eq Bridge.Lib.izipLeftPosNew_eq
      | exact consumer_side_good _ _ Bridge.Lib.izipRightAdvBeforeCall_eq Bridge.Lib.izipRightPosNew_eq
      | exact consumer_side_good _ _ Bridge.Lib.defIzipLeftAdvBeforeCall_eq Bridge.Lib.defIzipLeftPosNew_eq
      | exact consumer_side_good _ _ Bridge.Lib.izip2RightAdvBeforeCall_eq Bridge.Lib.izip2RightPosNew_eq

/-- which inputs an operand form hands over by value -/
def ownedInputs (form : Form) (xs : List Id) : List Id :=
  if form = .ref ∨ form = .mutRef then [] else xs

theorem zipSides_owned (fa fb : Form) (xs ys : List Id) :
    Zip2.owned (zipSides fa fb true true).1 (zipSides fa fb true true).2 ⟨Consumer.ofList xs, Consumer.ofList ys⟩ =
      ownedInputs fb ys ++ ownedInputs fa xs := by
  cases fa <;> cases fb <;>
    simp [zipSides, Bridge.Lib.izipDropBranch_eq, Bridge.Lib.izip2DropBranch_eq, Zip2.owned, Side.ownedOf,
      Consumer.owned, Consumer.ofList, sideOf, ownedInputs]

/-- `zip` for all sixteen receiver × argument forms (nine stack forms, the boxed ones) and every
    closure, for drop-tracked element types on both sides. -/
theorem zip_ledger (fa fb : Form) (f : Nat → Option Id) (xs ys : List Id) (hlen : xs.length = ys.length) :
    Ledger (ownedInputs fb ys ++ ownedInputs fa xs) (zipOp fa fb true true f xs ys) := by
  unfold Ledger zipOp
  obtain ⟨ga, gb⟩ := zipSides_good fa fb
  simp only [collectFrags_eq]
  have := fromIter_ledger _ _ _ (zipSrc_contract _ _ f ga gb) rfl xs.length (xs.length, some xs.length)
    ⟨Consumer.ofList xs, Consumer.ofList ys⟩ ⟨rfl, rfl, rfl, hlen⟩
  rwa [zipSides_owned] at this

theorem foldSide_owned (form : Form) (xs : List Id) :
    (foldSide form).ownedOf (Consumer.ofList xs) = ownedInputs form xs ∧ (foldSide form).GoodA := by
  cases form <;> simp [foldSide, Side.ownedOf, Consumer.owned, Consumer.ofList, ownedInputs, Side.GoodA,
    Bridge.Lib.foldAdvBeforeCall_eq, Bridge.Lib.foldPosNew_eq]

/-- `fold` for every receiver form; `f i = false` = the closure panics on call `i`: every element
    handed over by value was given to the closure or dropped, exactly once. -/
theorem fold_ledger (form : Form) (f : Nat → Bool) (xs : List Id) :
    (gives (foldOp form f xs).1 ++ drops (foldOp form f xs).1).Perm
        (ownedInputs form xs ++ takes (foldOp form f xs).1) ∧
      uninitDrops (foldOp form f xs).1 = 0 := by
  unfold foldOp
  obtain ⟨ho, hg⟩ := foldSide_owned form xs
  generalize foldSide form = sd at *
  obtain ⟨hp, hu⟩ := foldLoop_ledger (foldSrc sd f) sd.ownedOf Consumer.Sync (foldSrc_contract sd hg f) rfl
    (xs.length + 1) (Consumer.ofList xs) (ofList_sync xs)
  rw [ho] at hp
  simp only []
  cases hok : (foldLoop (foldSrc sd f) (xs.length + 1) (Consumer.ofList xs)).2.1
  · simp only [hok, Bool.false_eq_true, if_false, List.append_nil] at hp ⊢
    exact ⟨hp, hu⟩
  · obtain ⟨d1, d2, d3, d4⟩ := side_dropEv sd (foldLoop (foldSrc sd f) (xs.length + 1) (Consumer.ofList xs)).2.2
    have hde : ∀ c, (foldSrc sd f).dropEv c = sd.dropEv c := fun _ => rfl
    simp only [hok, if_true, gives_append, drops_append, takes_append, uninit_append, hde, d1, d2, d3, d4,
      List.append_nil, hu] at hp ⊢
    refine ⟨perm_of_counts fun a => ?_, trivial⟩
    have c := List.perm_iff_count.mp hp a
    simp only [List.count_append] at c ⊢
    omega

/-- collecting from a user iterator that may panic at any poll, lie in its size hint, or be unfused:
    stack and boxed forms, `try_from_iter` and `from_iter`. -/
theorem collect_ledger (boxed try_ : Bool) (n : Nat) (hint : Nat × Option Nat) (sc : Script) :
    Ledger [] (collectOp boxed try_ n hint sc) := by
  unfold Ledger collectOp
  simp only [collectFrags_eq]
  cases try_
  · simpa using fromIter_ledger scriptSrc (fun _ => []) (fun _ => True) scriptSrc_contract rfl n hint sc trivial
  · simpa using tryFromIter_ledger scriptSrc (fun _ => []) (fun _ => True) scriptSrc_contract rfl n hint sc trivial

/-! ### the by-value iterator's own closure-driven methods -/

theorem foldLoop_takes_nil (sd : Side) (f : Nat → Bool) (k : Nat) (c : Consumer) :
    takes (foldLoop (foldSrc sd f) k c).1 = [] := by
  induction k generalizing c with
  | zero => simp [foldLoop]
  | succ k ih =>
    simp only [foldLoop]
    cases hx : c.slots[c.idx]? with
    | none => simp [foldSrc, hx]
    | some x =>
      by_cases hf : f c.idx = true
      · have : (foldSrc sd f).step c = .yield [arg sd.owns c.idx x] x (sd.after c c.pos true) := by simp [foldSrc, hx, hf]
        rw [this]
        simp only [takes_append, ih]
        cases sd.owns <;> simp [arg, takes]
      · have : (foldSrc sd f).step c = .panic [arg sd.owns c.idx x, Ev.panic c.idx] (sd.after c c.pos false) := by
          simp [foldSrc, hx, hf]
        rw [this]
        have hd : takes ((foldSrc sd f).dropEv (sd.after c c.pos false)) = [] := by
          show takes (sd.dropEv _) = []
          exact (side_dropEv sd _).2.2.1
        simp only [takes_append, hd]
        cases sd.owns <;> simp [arg, takes]

/-- with enough fuel, a fold that did not panic has read its consumer to the end -/
theorem fold_ok_exhausts (sd : Side) (hg : sd.GoodA) (f : Nat → Bool) (k : Nat) (c : Consumer) (hs : c.Sync)
    (hk : c.slots.length - c.idx < k) (hok : (foldLoop (foldSrc sd f) k c).2.1 = true) :
    sd.ownedOf (foldLoop (foldSrc sd f) k c).2.2 = [] := by
  induction k generalizing c with
  | zero => omega
  | succ k ih =>
    cases hx : c.slots[c.idx]? with
    | none =>
      have hlen : c.slots.length ≤ c.idx := List.getElem?_eq_none_iff.mp hx
      have : (foldSrc sd f).step c = .done [] c := by simp [foldSrc, hx]
      simp only [foldLoop, this]
      unfold Consumer.Sync at hs
      cases sd <;> simp [Side.ownedOf, Consumer.owned] <;> omega
    | some x =>
      by_cases hf : f c.idx = true
      · have hstep : (foldSrc sd f).step c = .yield [arg sd.owns c.idx x] x (sd.after c c.pos true) := by simp [foldSrc, hx, hf]
        obtain ⟨hs', _, _⟩ := side_after_A sd hg c hs true hx c.pos rfl
        have i1 : (sd.after c c.pos true).idx = c.idx + 1 := by cases sd <;> rfl
        have i2 : (sd.after c c.pos true).slots = c.slots := by cases sd <;> rfl
        simp only [foldLoop, hstep] at hok ⊢
        have hlt : c.idx < c.slots.length := (List.getElem?_eq_some_iff.mp hx).1
        exact ih _ hs' (by rw [i1, i2]; omega) hok
      · have hstep : (foldSrc sd f).step c = .panic [arg sd.owns c.idx x, Ev.panic c.idx] (sd.after c c.pos false) := by
          simp [foldSrc, hx, hf]
        simp [foldLoop, hstep] at hok

/-- a fold over an owning, position-correct consumer of `l` with a closure that may panic at any
    call: every element of `l` is given to the closure or dropped, exactly once -/
theorem consumer_fold_ledger (sd : Side) (hg : sd.GoodA) (hown : sd.owns = true) (hm : sd ≠ .manual)
    (f : Nat → Bool) (l : List Id) :
    (gives (foldLoop (foldSrc sd f) (l.length + 1) (Consumer.ofList l)).1 ++
        drops (foldLoop (foldSrc sd f) (l.length + 1) (Consumer.ofList l)).1).Perm l ∧
      uninitDrops (foldLoop (foldSrc sd f) (l.length + 1) (Consumer.ofList l)).1 = 0 := by
  obtain ⟨hp, hu⟩ := foldLoop_ledger (foldSrc sd f) sd.ownedOf Consumer.Sync (foldSrc_contract sd hg f) rfl
    (l.length + 1) (Consumer.ofList l) (ofList_sync l)
  rw [ownedOf_ofList sd l hown hm, foldLoop_takes_nil, List.append_nil] at hp
  cases hok : (foldLoop (foldSrc sd f) (l.length + 1) (Consumer.ofList l)).2.1
  · simp only [hok, Bool.false_eq_true, if_false, List.append_nil] at hp
    exact ⟨hp, hu⟩
  · -- the closure never panicked: the consumer was read to the end, nothing is left in it
    refine ⟨?_, hu⟩
    simp only [hok, if_true] at hp
    rw [fold_ok_exhausts sd hg f _ _ (ofList_sync l) (by simp [Consumer.ofList]) hok, List.append_nil] at hp
    exact hp

/-- `GenericArrayIter::fold` with a closure that panics at any call (the iterator, still owned by
    the frame, is dropped while unwinding): every remaining element is given or dropped once -/
theorem iter_fold_ledger (it : GA.Iter.Iter) (f : Nat → Bool) :
    (gives (GA.IterOwn.foldD it f).1 ++ drops (GA.IterOwn.foldD it f).1).Perm (GA.Iter.abs it) ∧
      uninitDrops (GA.IterOwn.foldD it f).1 = 0 := by
  unfold GA.IterOwn.foldD GA.Iter.abs
  simp only [ga_bridge]
  exact consumer_fold_ledger (.consumer (fun p _ => p + 1) true) (consumer_side_good _ _ rfl (fun _ => rfl)) rfl
    (by simp) f _

/-- `GenericArrayIter::rfold`, likewise (the elements are visited back to front) -/
theorem iter_rfold_ledger (it : GA.Iter.Iter) (f : Nat → Bool) :
    (gives (GA.IterOwn.rfoldD it f).1 ++ drops (GA.IterOwn.rfoldD it f).1).Perm (GA.Iter.abs it) ∧
      uninitDrops (GA.IterOwn.rfoldD it f).1 = 0 := by
  unfold GA.IterOwn.rfoldD GA.Iter.abs
  simp only [ga_bridge]
  generalize GA.Iter.sliceOf it.slots it.front it.back = live
  cases hl : live with
  | nil => simp [foldLoop, foldSrc, Consumer.ofList, gives, drops, uninitDrops]
  | cons x t =>
    rw [← hl]
    have hpos : 0 < live.reverse.length := by rw [hl]; simp
    have := consumer_fold_ledger (.consumer (fun p _ => p + (live.reverse.length - (live.reverse.length - 1))) true)
      (consumer_side_good _ _ rfl (fun p => by omega)) rfl (by simp) f live.reverse
    exact ⟨this.1.trans (List.reverse_perm _), this.2⟩

/-- `Clone for GenericArrayIter` with an element `clone` that panics at any index: the clones made
    so far are dropped exactly once, the originals are only lent -/
theorem iter_clone_ledger (it : GA.Iter.Iter) (f : Nat → Option Id) :
    (drops (GA.IterOwn.cloneD it f).1 ++ (GA.IterOwn.cloneD it f).2.ids).Perm (takes (GA.IterOwn.cloneD it f).1) ∧
      gives (GA.IterOwn.cloneD it f).1 = [] ∧ uninitDrops (GA.IterOwn.cloneD it f).1 = 0 := by
  unfold GA.IterOwn.cloneD
  rw [GA.Bridge.IterOwn.cloneGuarded_eq]
  have := GA.IterOwn.cloneLoop_ledger f (GA.Iter.asSlice it) 0 []
  simpa using this

/-! The property distinguishes: if a consumer's position were stored *after* the closure call
    (the mutation the anchors warn about), an element handed to a panicking closure would also be
    dropped by the consumer — refuted by evaluation. -/
example : ¬ Ledger [0, 1, 2]
    (fromIter canonFrags (mapSrc (.consumer (fun p _ => p + 1) false) (fun i => if i = 1 then none else some (100 + i)))
      3 (3, some 3) (Consumer.ofList [0, 1, 2])) := by
  unfold Ledger; decide
-- … and the statement is not vacuous: a concrete panicking run of the real order
example : (mapOp .owned (fun i => if i = 2 then none else some (100 + i)) [0, 1, 2, 3]).2 = .panicked := by decide

end GA.Props.C04

#print axioms GA.Props.C04.generate_ledger
#print axioms GA.Props.C04.generate_complete
#print axioms GA.Props.C04.map_ledger
#print axioms GA.Props.C04.clone_ledger
#print axioms GA.Props.C04.zip_ledger
#print axioms GA.Props.C04.fold_ledger
#print axioms GA.Props.C04.collect_ledger
#print axioms GA.Props.C04.iter_fold_ledger
#print axioms GA.Props.C04.iter_rfold_ledger
#print axioms GA.Props.C04.iter_clone_ledger
