import GA.Bridge.ChunkBody
/-!
# C10 on the interpreted bodies of `chunks_from_slice(_mut)` / `slice_from_chunks(_mut)` (src/lib.rs)

`tools/seqbody.py` lowers the functions statement by statement (guards, pure `let`s inlined, every `as_ptr()` / `as_mut_ptr()`,
every `from_raw_parts(_mut)` / `&*(… as *const _)` / reference transmute) into `GA.Gen.SeqBody`; `MemBody.runViews` interprets
them with pointer provenance.  The theorems say what the returned references are — for every `N` and every length.
One module per function family (see `GA.Bridge.SeqBody`): a change to one family's bodies fails only the properties about it.
-/
namespace GA.Props.BodyViews
open GA.MemBody GA.Gen GA.Bridge.SeqBody

/-- **C10** `chunks_from_slice` / `chunks_from_slice_mut`, `N > 0`: the two views partition the slice exactly —
    the chunk view starts at the slice's address and holds `len / N` whole chunks, the remainder begins where it ends,
    holds fewer than `N` elements, and ends where the slice ends; both are made from pointers to the argument slice
    (the interpretation is defined), and the mutable ones do not overlap -/
theorem C10_body_chunks_partition (n len i : Nat) (hn : 0 < n) :
    ∃ q r, q * n + r = len ∧ r < n ∧
      runViews false SeqBody.chunksFromSlice ⟨n, len, i⟩ = .views [⟨0, q * n, false⟩, ⟨q * n, r, false⟩] ∧
      runViews true SeqBody.chunksFromSliceMut ⟨n, len, i⟩ = .views [⟨0, q * n, true⟩, ⟨q * n, r, true⟩] := by
  refine ⟨len / n, len - len / n * n, ?_, ?_, chunksFromSlice_body n len i hn, chunksFromSliceMut_body n len i hn⟩
  · have := Nat.div_mul_le_self len n; omega
  · have h := Nat.div_add_mod len n
    have hm := Nat.mod_lt len hn
    have : len / n * n = n * (len / n) := Nat.mul_comm _ _
    omega

/-- **C10** `N = 0`: an empty slice gives two empty views, a non-empty one is refused by the assertion -/
theorem C10_body_chunks_zero (len i : Nat) :
    runViews false SeqBody.chunksFromSlice ⟨0, len, i⟩ = (if len = 0 then .views [⟨0, 0, false⟩, ⟨0, 0, false⟩] else .panic) ∧
    runViews true SeqBody.chunksFromSliceMut ⟨0, len, i⟩ = (if len = 0 then .views [⟨0, 0, true⟩, ⟨0, 0, true⟩] else .panic) :=
  ⟨chunksFromSlice_body_zero len i, chunksFromSliceMut_body_zero len i⟩

/-- **C10** `slice_from_chunks(_mut)`: the flat view is the whole storage of the `len` chunks, `len · N` elements -/
theorem C10_body_flat (n len i : Nat) :
    runViews false SeqBody.sliceFromChunks ⟨n, len, i⟩ = .views [⟨0, len * n, false⟩] ∧
    runViews true SeqBody.sliceFromChunksMut ⟨n, len, i⟩ = .views [⟨0, len * n, true⟩] :=
  sliceFromChunks_body n len i

/-! Runs, and bodies that differ by one statement. -/
example : runViews false SeqBody.chunksFromSlice ⟨3, 11, 0⟩ = .views [⟨0, 9, false⟩, ⟨9, 2, false⟩] := by decide
example : runViews true SeqBody.chunksFromSliceMut ⟨4, 3, 0⟩ = .views [⟨0, 0, true⟩, ⟨0, 3, true⟩] := by decide
-- the pinned tree's `chunks_from_slice_mut` took `slice.as_mut_ptr()` twice: the second reborrow ends the first view
-- (the defect found by Miri and repaired in /repo, KNOWN_FINDINGS.txt) — here it is `ub` by evaluation
example : runViews true [.emptyIf (.eq .n (.lit 0)) (.eq .k (.lit 0)) 2 true,
    .ptrArg 0 true .k, .viewAt 0 0 (.lit 0) (.mul (.div .k .n) .n) true,
    .ptrArg 1 true .k, .viewAt 1 1 (.mul (.div .k .n) .n) (.sub .k (.mul (.div .k .n) .n)) true,
    .retViews [0, 1]] ⟨3, 11, 0⟩ = .ub := by decide
-- the remainder made from a pointer derived from the chunk view (same address, good for the chunks only)
example : runViews false [.emptyIf (.eq .n (.lit 0)) (.eq .k (.lit 0)) 2 false,
    .ptrArg 0 false .k, .viewAt 0 0 (.lit 0) (.mul (.div .k .n) .n) false,
    .ptrOfView 1 0 false, .viewAt 1 1 (.mul (.div .k .n) .n) (.sub .k (.mul (.div .k .n) .n)) false,
    .retViews [0, 1]] ⟨3, 11, 0⟩ = .ub := by decide
-- a remainder offset counted in bytes of an 8-byte element instead of elements leaves the slice
example : runViews false [.ptrArg 0 false .k, .viewAt 0 0 (.lit 0) (.mul (.div .k .n) .n) false,
    .ptrArg 1 false .k, .viewAt 1 1 (.mul (.mul (.div .k .n) .n) (.lit 8)) (.sub .k (.mul (.div .k .n) .n)) false,
    .retViews [0, 1]] ⟨3, 11, 0⟩ = .ub := by decide

end GA.Props.BodyViews

#print axioms GA.Props.BodyViews.C10_body_chunks_partition
#print axioms GA.Props.BodyViews.C10_body_chunks_zero
#print axioms GA.Props.BodyViews.C10_body_flat
