import GA.Model.Mem
import GA.Bridge.Mem
/-!
# C11 — flatten and unflatten regroup elements in row-major order over the same storage
-/
namespace GA.Props.C11
open GA.Mem GA.Gen

/-- all rows have length `n` -/
def Uniform (n : Nat) (xss : List (List Nat)) : Prop := ∀ r ∈ xss, r.length = n

/-- owned `flatten` never trips the size check (`M * (N * s) = (N * M) * s`) and yields the rows
    concatenated in order -/
theorem flatten_ok (xss : List (List Nat)) (n esz : Nat) : flattenOwned xss n esz = .ok xss.flatten := by
  unfold flattenOwned constTransmute
  simp only [ga_bridge]
  have : xss.length * (n * esz) = n * xss.length * esz := by
    rw [Nat.mul_assoc n, Nat.mul_left_comm]
  rw [this]; simp

/-- **row-major order**: row `i` of the input is the block `[i*N, (i+1)*N)` of the flattened array,
    hence element `i*N + j` of the result is element `j` of inner array `i` -/
theorem flatten_row (xss : List (List Nat)) (n : Nat) (hu : Uniform n xss) (i : Nat) (hi : i < xss.length) :
    (xss.flatten.drop (i * n)).take n = xss[i] := by
  induction xss generalizing i with
  | nil => simp at hi
  | cons r t ih =>
    have hr : r.length = n := hu r (by simp)
    have ht : Uniform n t := fun x hx => hu x (by simp [hx])
    cases i with
    | zero =>
      simp only [Nat.zero_mul, List.drop_zero, List.flatten_cons, List.getElem_cons_zero]
      rw [List.take_append_of_le_length (by omega)]
      exact List.take_of_length_le (by omega)
    | succ i =>
      simp only [List.flatten_cons, List.getElem_cons_succ]
      have e : (i + 1) * n = r.length + i * n := by rw [Nat.succ_mul, hr]; omega
      rw [e, List.drop_append, List.drop_eq_nil_of_le (by omega), List.nil_append, Nat.add_sub_cancel_left]
      exact ih ht i (by simpa using hi)

theorem flatten_index (xss : List (List Nat)) (n : Nat) (hu : Uniform n xss) (i j : Nat)
    (hi : i < xss.length) (hj : j < n) :
    xss.flatten[i * n + j]? = xss[i][j]? := by
  have h := flatten_row xss n hu i hi
  rw [← h, List.getElem?_take_of_lt hj, List.getElem?_drop]

theorem flatten_length (xss : List (List Nat)) (n : Nat) (hu : Uniform n xss) :
    xss.flatten.length = n * xss.length := by
  induction xss with
  | nil => simp
  | cons r t ih =>
    have hr : r.length = n := hu r (by simp)
    have ht : Uniform n t := fun x hx => hu x (by simp [hx])
    simp [ih ht, hr, Nat.mul_succ]; omega

theorem chunk_flatten (n : Nat) (hn : 0 < n) (xss : List (List Nat)) (hu : Uniform n xss) :
    chunk n xss.length xss.flatten = xss := by
  induction xss with
  | nil => simp [chunk]
  | cons r t ih =>
    have hr : r.length = n := hu r (by simp)
    have ht : Uniform n t := fun x hx => hu x (by simp [hx])
    simp only [List.length_cons, chunk, List.flatten_cons]
    rw [List.take_append_of_le_length (by omega), List.take_of_length_le (by omega)]
    have e : List.drop n (r ++ t.flatten) = t.flatten := by rw [← hr]; exact List.drop_left
    rw [e, ih ht]

theorem flatten_chunk (n k : Nat) (xs : List Nat) (hl : xs.length = k * n) : (chunk n k xs).flatten = xs := by
  induction k generalizing xs with
  | zero => simp [chunk]; exact List.eq_nil_of_length_eq_zero (by simpa using hl)
  | succ k ih =>
    simp only [chunk, List.flatten_cons]
    rw [ih (xs.drop n) (by simp [hl, Nat.succ_mul]), List.take_append_drop]

theorem chunk_uniform (n k : Nat) (xs : List Nat) (hl : xs.length = k * n) : Uniform n (chunk n k xs) ∧ (chunk n k xs).length = k := by
  induction k generalizing xs with
  | zero => simp [chunk, Uniform]
  | succ k ih =>
    obtain ⟨h1, h2⟩ := ih (xs.drop n) (by simp [hl, Nat.succ_mul])
    refine ⟨?_, by simp [chunk, h2]⟩
    intro r hr
    simp only [chunk, List.mem_cons] at hr
    rcases hr with rfl | hr
    · simp [hl, Nat.succ_mul]
    · exact h1 r hr

/-- **`unflatten` is the exact inverse of `flatten`** (over evenly divisible lengths, its documented
    domain), in both directions -/
theorem unflatten_flatten (xss : List (List Nat)) (n esz : Nat) (hn : 0 < n) (hu : Uniform n xss) :
    unflattenOwned xss.flatten n esz = .ok xss := by
  unfold unflattenOwned constTransmute
  have hl := flatten_length xss n hu
  have hne : ¬ n = 0 := by omega
  simp only [ga_bridge, hne, if_false, hl, Nat.mul_div_cancel_left _ hn]
  have : n * xss.length * esz = xss.length * (n * esz) := by rw [Nat.mul_assoc n, Nat.mul_left_comm]
  simp only [this, ne_eq, not_true_eq_false, decide_false, Bool.false_eq_true, if_false]
  rw [chunk_flatten n hn xss hu]

theorem flatten_unflatten (xs : List Nat) (n k esz : Nat) (hn : 0 < n) (hl : xs.length = k * n) :
    ∃ xss, unflattenOwned xs n esz = .ok xss ∧ Uniform n xss ∧ flattenOwned xss n esz = .ok xs := by
  refine ⟨chunk n k xs, ?_, (chunk_uniform n k xs hl).1, ?_⟩
  · unfold unflattenOwned constTransmute
    have hne : ¬ n = 0 := by omega
    simp only [ga_bridge, hne, if_false, hl, Nat.mul_div_cancel _ hn]
    have : k * n * esz = k * (n * esz) := Nat.mul_assoc _ _ _
    simp [this]
  · rw [flatten_ok, flatten_chunk n k xs hl]

/-- **by-reference forms are views of the same memory**: same address, and the flattened view has
    exactly the `M * N` elements of the nested array — same total extent -/
theorem flatten_ref_same_extent (n m : Nat) :
    flattenRef n m = ⟨0, m * n⟩ ∧ flattenMut n m = ⟨0, m * n⟩ := by
  simp only [flattenRef, flattenMut, ga_bridge, Nat.mul_comm]
  exact ⟨trivial, trivial⟩

/-- the unflattened view never extends past the source, and has the same extent exactly when `N`
    divides the length (the documented domain) -/
theorem unflatten_ref_within (nm n : Nat) (hn : 0 < n) :
    (unflattenRef nm n).off = 0 ∧ (unflattenRef nm n).len ≤ nm ∧ ((unflattenRef nm n).len = nm ↔ n ∣ nm) ∧
    unflattenMut nm n = unflattenRef nm n := by
  simp only [unflattenRef, unflattenMut, ga_bridge]
  refine ⟨trivial, Nat.div_mul_le_self nm n, ?_, trivial⟩
  constructor
  · intro h; exact ⟨nm / n, by rw [Nat.mul_comm]; exact h.symm⟩
  · intro h; exact Nat.div_mul_cancel h

/-- writes through a mutable regrouped view reach the original: the view is derived from `self`
    with mutable provenance (a reference transmute or `as_mut_ptr`, never a shared pointer) -/
theorem regrouped_provenance :
    Mem.flattenRefProvenanceOk = true ∧ Mem.flattenMutProvenanceOk = true ∧
    Mem.unflattenRefProvenanceOk = true ∧ Mem.unflattenMutProvenanceOk = true := by
  simp [ga_bridge]

-- non-vacuity
example : flattenOwned [[1, 2], [3, 4], [5, 6]] 2 4 = .ok [1, 2, 3, 4, 5, 6] := by decide
example : unflattenOwned [1, 2, 3, 4, 5, 6] 2 4 = .ok [[1, 2], [3, 4], [5, 6]] := by decide
example : unflattenOwned [1, 2, 3, 4, 5] 2 4 = .panic := by decide    -- outside the documented domain: size check fires

end GA.Props.C11

#print axioms GA.Props.C11.flatten_ok
#print axioms GA.Props.C11.flatten_row
#print axioms GA.Props.C11.flatten_index
#print axioms GA.Props.C11.unflatten_flatten
#print axioms GA.Props.C11.flatten_unflatten
#print axioms GA.Props.C11.flatten_ref_same_extent
#print axioms GA.Props.C11.unflatten_ref_within
#print axioms GA.Props.C11.regrouped_provenance
