import GA.Model.Mem
import GA.Bridge.Mem
import GA.Bridge.Layout
import GA.Props.C01
/-!
# C02 — borrowed views alias the array's storage; reinterpretation needs exact length
-/
namespace GA.Props.C02
open GA.Mem GA.Gen

/-- **every borrowed view** — `as_slice`/`as_mut_slice`, `Deref(Mut)`, `Borrow(Mut)`, `AsRef`/`AsMut` to
    `[T]` and to `[T; N]`, by-reference iteration — starts at the array's own address and has exactly
    `N` elements -/
theorem view_same (k : ViewKind) (n : Nat) : view k n = some ⟨0, n⟩ := by
  cases k <;> simp [view, asSlice, asMutSlice, ga_bridge, Bridge.Layout.asSliceLen_eq, Bridge.Layout.asMutSliceLen_eq,
    Bridge.Layout.asSliceBaseIsSelf_eq, Bridge.Layout.asMutSliceBaseIsSelf_eq]

/-- a write through any mutable view is seen through every other view: they all denote the same `N`
    cells (cell `i` of view `a` is cell `i` of view `b`) -/
theorem write_through (a b : ViewKind) (n i : Nat) (cells : List Nat) (x : Nat) (hn : cells.length = n) (hi : i < n) :
    ∃ va vb, view a n = some va ∧ view b n = some vb ∧
      ((cells.set (va.off + i) x).drop vb.off)[i]? = some x := by
  refine ⟨⟨0, n⟩, ⟨0, n⟩, view_same a n, view_same b n, ?_⟩
  simp [List.getElem?_set, hn, hi]

/-- **reinterpreting a slice needs exactly `N` elements** — all six checked forms: the panicking
    ones panic otherwise, the fallible ones return `LengthError`, and success aliases the source
    (offset 0, `N` elements: neither out of bounds nor truncated) -/
theorem reinterpret_exact (len n : Nat) :
    (fromSlice len n = (if len = n then .ok ⟨0, n⟩ else .panic)) ∧
    (tryFromSlice len n = (if len = n then .ok ⟨0, n⟩ else .err)) ∧
    (fromMutSlice len n = (if len = n then .ok ⟨0, n⟩ else .panic)) ∧
    (tryFromMutSlice len n = (if len = n then .ok ⟨0, n⟩ else .err)) ∧
    (tryFrom len n = (if len = n then .ok ⟨0, n⟩ else .err)) ∧
    (tryFromMut len n = (if len = n then .ok ⟨0, n⟩ else .err)) := by
  unfold fromSlice tryFromSlice tryFromMutSlice fromMutSlice tryFrom tryFromMut tryFromSlice tryFromMutSlice fromMutSlice
  by_cases h : len = n <;> simp [ga_bridge, h]

theorem reinterpret_within (len n : Nat) (v : View)
    (h : fromSlice len n = .ok v ∨ tryFromSlice len n = .ok v ∨ fromMutSlice len n = .ok v ∨ tryFromMutSlice len n = .ok v) :
    v.off = 0 ∧ v.off + v.len = len := by
  obtain ⟨h1, h2, h3, h4, _, _⟩ := reinterpret_exact len n
  rw [h1, h2, h3, h4] at h
  by_cases hl : len = n
  · simp only [hl, if_true, Res.ok.injEq] at h
    rcases h with h | h | h | h <;> subst h <;> simp [hl]
  · simp [hl] at h

/-- references to native arrays convert at the same address (`From<&[T; N]>`, `From<&mut [T; N]>`) -/
theorem array_ref_same : Mem.fromArrayRefOff = 0 ∧ Mem.fromArrayMutOff = 0 := by
  simp [ga_bridge]

/-- by-value conversion to/from `[T; N]` is a size-checked bit copy: the size check never fires
    because the layouts agree (C01), and a bit copy keeps every element at its position -/
theorem array_roundtrip (t : Layout.Lay) (ha : 0 < t.align) (hs : t.align ∣ t.size) (n : Nat) :
    Mem.fromArrayIsTransmute = true ∧ Mem.intoArrayIsTransmute = true ∧
    (∀ l, Layout.wrapper t (Layout.Digits.ofNat n) = some l → constTransmute (n * t.size) l.size = .ok ()) := by
  refine ⟨by simp [ga_bridge], by simp [ga_bridge], ?_⟩
  intro l hl
  rw [C01.layout_all_lengths t ha hs n] at hl
  cases hl
  simp [constTransmute, ga_bridge]

/-- the size check of `const_transmute` is exact -/
theorem transmute_checked (a b : Nat) : constTransmute a b = (if a = b then .ok () else .panic) := by
  unfold constTransmute
  by_cases h : a = b <;> simp [ga_bridge, h]

-- non-vacuity
example : fromSlice 4 3 = .panic ∧ tryFromSlice 2 3 = .err ∧ tryFromMutSlice 3 3 = .ok ⟨0, 3⟩ := by decide

end GA.Props.C02

#print axioms GA.Props.C02.view_same
#print axioms GA.Props.C02.write_through
#print axioms GA.Props.C02.reinterpret_exact
#print axioms GA.Props.C02.reinterpret_within
#print axioms GA.Props.C02.array_ref_same
#print axioms GA.Props.C02.array_roundtrip
#print axioms GA.Props.C02.transmute_checked
