import GA.Bridge.Body
import GA.Lemmas.Iter
import GA.Lemmas.IterOwn
/-!
# Property theorems for the *interpreted function bodies* (C03, C04, C05, C06)

`GA.Gen.Body` holds the whole bodies of the functions of src/iter.rs and of the drop guards of
src/internal.rs, lowered statement by statement into the body IR by `tools/bodyx.py` on every run.
`GA.BodyIter.step` drives the iterator by *interpreting* those bodies.  The theorems below state the
properties for that interpretation, for every state satisfying the representation invariant, every
argument, every panic position and every operation sequence; they are obtained from the refinement
obligations in `GA.Bridge.Body` (interpreted body = hand-written model) and the model theorems.
-/
namespace GA.Props.Body
open GA.Body GA.Iter GA.Own GA.Bridge.Body
open GA.BodyIter (ofIter toIter vctx inR call method cloneVia sliceVia foldVia consumeVia)

theorem vctx_bad (n : Nat) (l : List Nat) : (vctx n l).bad = none := rfl

theorem clone_len (it : Iter) (h : Inv it) : (Iter.clone it).slots.length = it.slots.length := by
  have hl := abs_length it h
  obtain ⟨h1, h2⟩ := h
  unfold Iter.clone
  rw [asSlice_eq]
  simp only [List.length_append, List.length_take, List.length_drop]
  omega

theorem clone_via (it : Iter) (h : Inv it) (hw : it.slots.length < word) : cloneVia it = some (Iter.clone it) := by
  have hl := abs_length it h
  have hb := clone_body it h hw (vctx it.slots.length (sliceOf it.slots it.front it.back)) rfl
  obtain ⟨h1, h2⟩ := h
  have hc := cloneCalls_copy (abs it) (abs it) 0 (by simp)
  have hspec : (cloneSpec (vctx it.slots.length (sliceOf it.slots it.front it.back)).cl (abs it)).2 = some (abs it) := by
    show (cloneSpec (fun k => (abs it)[k]?) (abs it)).2 = some (abs it)
    unfold cloneSpec
    rw [hc]
    simp
  obtain ⟨hb1, hb2⟩ := hb
  obtain ⟨ho, _⟩ := hb2 (abs it) hspec
  rw [hspec] at hb1
  have hr : (call it Gen.Body.clone []).2.1 = R.ret .obj := (Prod.ext_iff.mp hb1).2
  have ho' : (call it Gen.Body.clone []).2.2.out = ⟨setMany it.slots 0 (abs it), 0, (abs it).length, 0, []⟩ := ho
  simp only [cloneVia, hr, ho']
  unfold Iter.clone
  rw [asSlice_eq, setMany_eq (abs it) it.slots 0 (by omega)]
  have hk : min it.slots.length (abs it).length = (abs it).length := by omega
  simp [hk]

theorem fold_via (it : Iter) (h : Inv it) (hw : it.slots.length < word) :
    foldVia it Gen.Body.fold = .items (abs it) := by
  have hb := fold_body it h hw (vctx it.slots.length (sliceOf it.slots it.front it.back)) rfl
  obtain ⟨q1, q2⟩ := callsSpec_quiet (abs it) 0
  have e1 : (call it Gen.Body.fold []).1 = (foldSpec (fun _ => false) (abs it) 0).1 := (Prod.ext_iff.mp hb).1
  have e2 : (call it Gen.Body.fold []).2.1 = _ := (Prod.ext_iff.mp hb).2
  simp only [foldVia, e2, e1]
  simp [foldSpec, vctx, q2, q1]

theorem rfold_via (it : Iter) (h : Inv it) : foldVia it Gen.Body.rfold = .items (abs it).reverse := by
  have hb := rfold_body it h (vctx it.slots.length (sliceOf it.slots it.front it.back)) rfl
  obtain ⟨q1, q2⟩ := callsSpec_quiet (abs it).reverse 0
  have e1 : (call it Gen.Body.rfold []).1 = (rfoldSpec (fun _ => false) (abs it).reverse 0).1 := (Prod.ext_iff.mp hb).1
  have e2 : (call it Gen.Body.rfold []).2.1 = _ := (Prod.ext_iff.mp hb).2
  simp only [foldVia, e2, e1]
  simp [rfoldSpec, vctx, q2, q1]

theorem count_via (it : Iter) (h : Inv it) : consumeVia it Gen.Body.count = .num (it.back - it.front) := by
  have hb := count_body it h (vctx it.slots.length (sliceOf it.slots it.front it.back))
  have e2 : (call it Gen.Body.count []).2.1 = _ := (Prod.ext_iff.mp hb).2
  simp only [consumeVia, e2]
  simp [GA.IterOwn.countD, GA.IterOwn.panics, vctx, Gen.Iter.len, inR]

theorem last_via (it : Iter) (h : Inv it) : consumeVia it Gen.Body.last = (Iter.nextBack it).1 := by
  have hb := last_body it h (vctx it.slots.length (sliceOf it.slots it.front it.back))
  have e2 : (call it Gen.Body.last []).2.1 = _ := (Prod.ext_iff.mp hb).2
  obtain ⟨a, _, _⟩ := nextBack_refines it h
  simp only [consumeVia, e2]
  simp only [GA.IterOwn.lastD, GA.IterOwn.panics, vctx, GA.IterOwn.afterNext, a]
  cases (abs it).getLast? <;> rfl

theorem method_eq (it : Iter) (f : Fn) (args : List V) (o : IOut) (it' : Iter)
    (hc : ((call it f args).2.1, (call it f args).2.2) = (outR o, ofIter it')) : method it f args = (o, it') := by
  have e1 : (call it f args).2.1 = outR o := congrArg Prod.fst hc
  have e2 : (call it f args).2.2 = ofIter it' := congrArg Prod.snd hc
  simp only [method, e1, e2, inR_outR]
  rfl

/-- **Every operation, carried out by interpreting the regenerated bodies, is the model's step.** -/
theorem step_eq (it : Iter) (h : Inv it) (hw : it.slots.length < word) (op : IOp) :
    GA.BodyIter.step it op = Iter.step it op := by
  have hcl := clone_via it h hw
  obtain ⟨hca, hci⟩ := clone_abs it h
  have hcw : (Iter.clone it).slots.length < word := by rw [clone_len it h]; exact hw
  have hok := sliceOk_of_inv it h
  have hokc := sliceOk_of_inv _ hci
  cases op with
  | next =>
    exact method_eq it _ _ _ _ (by
      have := next_body it h hw (vctx it.slots.length (sliceOf it.slots it.front it.back))
      exact Prod.ext_iff.mpr ⟨(Prod.ext_iff.mp (Prod.ext_iff.mp this).2).1, (Prod.ext_iff.mp (Prod.ext_iff.mp this).2).2⟩)
  | nextBack =>
    exact method_eq it _ _ _ _ (by
      have := nextBack_body it h (vctx it.slots.length (sliceOf it.slots it.front it.back))
      exact Prod.ext_iff.mpr ⟨(Prod.ext_iff.mp (Prod.ext_iff.mp this).2).1, (Prod.ext_iff.mp (Prod.ext_iff.mp this).2).2⟩)
  | nth n => exact method_eq it _ _ _ _ (nth_value_body it n h hw _ rfl)
  | nthBack n => exact method_eq it _ _ _ _ (nthBack_value_body it n h _ rfl)
  | len =>
    exact method_eq it _ _ _ _ (by
      have := len_body it h (vctx it.slots.length (sliceOf it.slots it.front it.back))
      exact Prod.ext_iff.mpr ⟨(Prod.ext_iff.mp (Prod.ext_iff.mp this).2).1, (Prod.ext_iff.mp (Prod.ext_iff.mp this).2).2⟩)
  | sizeHint =>
    exact method_eq it _ _ _ _ (by
      have := sizeHint_body it h (vctx it.slots.length (sliceOf it.slots it.front it.back))
      exact Prod.ext_iff.mpr ⟨(Prod.ext_iff.mp (Prod.ext_iff.mp this).2).1, (Prod.ext_iff.mp (Prod.ext_iff.mp this).2).2⟩)
  | debug =>
    exact method_eq it _ _ _ _ (by
      have := debug_body it h (vctx it.slots.length (sliceOf it.slots it.front it.back))
      exact Prod.ext_iff.mpr ⟨(Prod.ext_iff.mp (Prod.ext_iff.mp this).2).1, (Prod.ext_iff.mp (Prod.ext_iff.mp this).2).2⟩)
  | asSlice =>
    have := asSlice_body it h (vctx it.slots.length (sliceOf it.slots it.front it.back))
    have e : (call it Gen.Body.asSlice []).2.1 = _ := (Prod.ext_iff.mp (Prod.ext_iff.mp this).2).1
    simp only [GA.BodyIter.step, sliceVia, e, Iter.step, hok, if_true, asSlice]
  | write i v =>
    have := asMutSlice_body it h (vctx it.slots.length (sliceOf it.slots it.front it.back))
    have e : (call it Gen.Body.asMutSlice []).2.1 = _ := (Prod.ext_iff.mp (Prod.ext_iff.mp this).2).1
    have hr : rangeOk it.slots (Gen.Iter.sliceMutLo it.front it.back) (Gen.Iter.sliceMutHi it.front it.back) = true := by
      simpa [sliceOk, Gen.Iter.sliceLo, Gen.Iter.sliceHi, Gen.Iter.sliceMutLo, Gen.Iter.sliceMutHi] using hok
    simp only [GA.BodyIter.step, sliceVia, e, Iter.step, hr, if_true]
  | clone =>
    have := asSlice_body _ hci (vctx (Iter.clone it).slots.length (sliceOf (Iter.clone it).slots (Iter.clone it).front (Iter.clone it).back))
    have e : (call (Iter.clone it) Gen.Body.asSlice []).2.1 = _ := (Prod.ext_iff.mp (Prod.ext_iff.mp this).2).1
    simp only [GA.BodyIter.step, hcl, sliceVia, e, Iter.step, hok, if_true, asSlice]
  | fold =>
    have hr : rangeOk (Iter.clone it).slots (Iter.clone it).front (Iter.clone it).back = true := by
      simpa [sliceOk, Gen.Iter.sliceLo, Gen.Iter.sliceHi] using hokc
    simp only [GA.BodyIter.step, hcl, fold_via _ hci hcw, Iter.step, hok, Bool.and_self, if_true, foldItems, abs,
      Gen.Iter.foldLo, Gen.Iter.foldHi, hr, Bool.true_and]
  | rfold =>
    have hr : rangeOk (Iter.clone it).slots (Iter.clone it).front (Iter.clone it).back = true := by
      simpa [sliceOk, Gen.Iter.sliceLo, Gen.Iter.sliceHi] using hokc
    simp only [GA.BodyIter.step, hcl, rfold_via _ hci, Iter.step, hok, Bool.and_self, if_true, rfoldItems, abs,
      Gen.Iter.rfoldLo, Gen.Iter.rfoldHi, hr, Bool.true_and]
  | count =>
    simp only [GA.BodyIter.step, hcl, count_via _ hci, Iter.step, hok, Gen.Iter.countIsLen, Gen.Iter.lenOk, Gen.Iter.len,
      hci.1, decide_true, Bool.and_self, if_true]
  | last =>
    simp only [GA.BodyIter.step, hcl, last_via _ hci, Iter.step, hok, Gen.Iter.lastIsNextBack, Bool.and_self, if_true]
  | foldSelf =>
    have hr : rangeOk it.slots it.front it.back = true := by
      simpa [sliceOk, Gen.Iter.sliceLo, Gen.Iter.sliceHi] using hok
    simp only [GA.BodyIter.step, fold_via it h hw, Iter.step, if_true, foldItems, abs, Gen.Iter.foldLo, Gen.Iter.foldHi, hr]
  | rfoldSelf =>
    have hr : rangeOk it.slots it.front it.back = true := by
      simpa [sliceOk, Gen.Iter.sliceLo, Gen.Iter.sliceHi] using hok
    simp only [GA.BodyIter.step, rfold_via it h, Iter.step, if_true, rfoldItems, abs, Gen.Iter.rfoldLo, Gen.Iter.rfoldHi, hr]
  | countSelf =>
    simp only [GA.BodyIter.step, count_via it h, Iter.step, Gen.Iter.countIsLen, Gen.Iter.lenOk, Gen.Iter.len, h.1,
      decide_true, Bool.and_self, if_true]
  | lastSelf =>
    simp only [GA.BodyIter.step, last_via it h, Iter.step, Gen.Iter.lastIsNextBack, if_true]

theorem step_len (it : Iter) (h : Inv it) (op : IOp) : (Iter.step it op).2.slots.length = it.slots.length := by
  cases op with
  | next => simp only [Iter.step, Iter.next]; split <;> rfl
  | nextBack => simp only [Iter.step, Iter.nextBack]; split <;> (try split) <;> rfl
  | nth n => simp only [Iter.step, Iter.nth, Iter.next]; split <;> (try split) <;> rfl
  | nthBack n => simp only [Iter.step, Iter.nthBack, Iter.nextBack]; split <;> (try split) <;> (try split) <;> rfl
  | write i v => simp only [Iter.step]; split <;> (try split) <;> simp
  | clone => simp only [Iter.step]; split <;> first | exact clone_len it h | rfl
  | _ => rfl

/-- running any operation list through the interpreted bodies is running the model -/
theorem run_eq (ops : List IOp) (it : Iter) (h : Inv it) (hw : it.slots.length < word) :
    GA.BodyIter.run it ops = Iter.run it ops := by
  induction ops generalizing it with
  | nil => rfl
  | cons op ops ih =>
    obtain ⟨_, _, c⟩ := step_refines it h op
    have hl := step_len it h op
    simp only [GA.BodyIter.run, Iter.run, step_eq it h hw op]
    rw [ih _ c (by rw [hl]; exact hw)]

/-! ## C06 — the iterator, as the source's function bodies compute it, is the deque -/

/-- **C06 on the interpreted bodies.**  For every operation sequence from every state satisfying
    the representation invariant (array length below `2^64`, as every `usize` is), interpreting
    the bodies of `next`, `next_back`, `nth`, `nth_back`, `len`, `size_hint`, `as_slice`,
    `as_mut_slice`, `clone`, `fold`, `rfold`, `count`, `last` and `Debug::fmt` as translated from
    the current source returns what the list-deque returns, call by call. -/
theorem C06_body_run_refines (ops : List IOp) (it : Iter) (h : Inv it) (hw : it.slots.length < word) :
    (GA.BodyIter.run it ops).1 = (Spec.run (abs it) ops).1 ∧
    abs (GA.BodyIter.run it ops).2 = (Spec.run (abs it) ops).2 ∧ Inv (GA.BodyIter.run it ops).2 := by
  rw [run_eq ops it h hw]
  induction ops generalizing it with
  | nil => exact ⟨rfl, rfl, h⟩
  | cons op ops ih =>
    obtain ⟨a, b, c⟩ := step_refines it h op
    obtain ⟨a', b', c'⟩ := ih (Iter.step it op).2 c (by rw [step_len it h op]; exact hw)
    simp only [Iter.run, Spec.run]
    refine ⟨?_, ?_, c'⟩
    · rw [a, a', b]
    · rw [b', b]

/-- `into_iter()` as translated: the whole array is live, and from there every sequence refines -/
theorem C06_body_into_iter (l : List Nat) (hw : l.length < word) (ops : List IOp) :
    GA.BodyIter.intoIter l = some (Iter.ofList l) ∧
    (GA.BodyIter.run (Iter.ofList l) ops).1 = (Spec.run l ops).1 := by
  obtain ⟨hi, ha⟩ := ofList_inv l
  constructor
  · have := intoIter_body l (vctx l.length l) rfl
    have e1 : (runFn (vctx l.length l) Gen.Body.dropIter.body Gen.Body.intoIter []
        { self := ⟨l, 0, 0, 0, []⟩, out := ⟨[], 0, 0, 0, []⟩, hasOut := false, calls := 0, forgot := false, polls := 0, outForgot := false }).2.1 = R.ret .obj :=
      congrArg (fun t => t.2.1) this
    have e2 := congrArg (fun t => t.2.2) this
    simp only [GA.BodyIter.intoIter, GA.BodyIter.D, e1]
    exact congrArg some e2
  · have := (C06_body_run_refines ops (Iter.ofList l) hi (by simpa [Iter.ofList] using hw)).1
    rwa [ha] at this

/-! ## C05 — destructor panics, on the interpreted bodies -/

/-- **`nth` as translated**: whichever destructor panics, the destructors run inside `nth`, the
    element handed to the caller and what the iterator's `Drop` (also as translated) releases
    afterwards are pairwise distinct, and together exactly the live elements. -/
theorem C05_body_nth (it : Iter) (h : Inv it) (hw : it.slots.length < word) (hnd : it.slots.Nodup) (n : Nat) (c : Ctx) :
    let r := runFn c Gen.Body.dropIter.body Gen.Body.nth [.nat n] (ofIter it)
    let d := runFn c Gen.Body.dropIter.body Gen.Body.dropIter [] r.2.2
    let tr := r.1 ++ retGive r.2.1
    (drops tr ++ gives tr ++ drops d.1).Nodup ∧ drops tr ++ gives tr ++ drops d.1 = abs it := by
  have hb := nth_body it n h hw c
  obtain ⟨hp, _, hinv⟩ := GA.IterOwn.nthD_partition it h n c.bad
  have e1 := congrArg Prod.fst hb
  have e3 := congrArg (fun t => t.2.2) hb
  simp only at e1 e3
  have hd := congrArg Prod.fst (drop_body _ hinv c)
  simp only at hd
  simp only [e1, e3, hd]
  exact ⟨by rw [hp]; exact GA.IterOwn.abs_nodup it hnd, hp⟩

theorem C05_body_nth_back (it : Iter) (h : Inv it) (hnd : it.slots.Nodup) (n : Nat) (c : Ctx) :
    let r := runFn c Gen.Body.dropIter.body Gen.Body.nthBack [.nat n] (ofIter it)
    let d := runFn c Gen.Body.dropIter.body Gen.Body.dropIter [] r.2.2
    let tr := r.1 ++ retGive r.2.1
    (drops tr ++ gives tr ++ drops d.1).Nodup ∧ (drops tr ++ gives tr ++ drops d.1).Perm (abs it) := by
  have hb := nthBack_body it n h c
  obtain ⟨hp, _, hinv⟩ := GA.IterOwn.nthBackD_partition it h n c.bad
  have e1 := congrArg Prod.fst hb
  have e3 := congrArg (fun t => t.2.2) hb
  simp only at e1 e3
  have hd := congrArg Prod.fst (drop_body _ hinv c)
  simp only at hd
  simp only [e1, e3, hd]
  exact ⟨(hp.nodup_iff).mpr (GA.IterOwn.abs_nodup it hnd), hp⟩

/-- `last` / `count` / plain drop of the iterator, as translated: each live element's destructor
    runs at most once whichever destructor panics -/
theorem C05_body_last_count_drop (it : Iter) (h : Inv it) (hnd : it.slots.Nodup) (c : Ctx) :
    (let r := runFn c Gen.Body.dropIter.body Gen.Body.last [] (ofIter it)
     (drops (retGive r.2.1 ++ r.1) ++ gives (retGive r.2.1 ++ r.1)).Nodup) ∧
    (drops (runFn c Gen.Body.dropIter.body Gen.Body.count [] (ofIter it)).1).Nodup ∧
    (drops (runFn c Gen.Body.dropIter.body Gen.Body.dropIter [] (ofIter it)).1).Nodup := by
  refine ⟨?_, ?_, ?_⟩
  · have hb := congrArg Prod.fst (last_body it h c)
    simp only at hb
    simp only [hb]
    obtain ⟨leaked, hp, _⟩ := GA.IterOwn.lastD_partition it h c.bad
    have := (hp.nodup_iff).mpr (GA.IterOwn.abs_nodup it hnd)
    exact (List.nodup_append.mp this).1
  · have hb := congrArg Prod.fst (count_body it h c)
    simp only at hb
    simp only [hb, GA.IterOwn.countD]
    rw [GA.IterOwn.dropIter_eq]; exact GA.IterOwn.abs_nodup it hnd
  · have hb := congrArg Prod.fst (drop_body it h c)
    simp only at hb
    simp only [hb]
    rw [GA.IterOwn.dropIter_eq]; exact GA.IterOwn.abs_nodup it hnd

/-! ## C04 — closure / `Clone` panics, on the interpreted bodies -/

/-- what the closure calls hand out is a prefix of the elements; nothing is dropped by the calls -/
theorem callsSpec_ledger (f : Nat → Bool) : ∀ (xs : List Nat) (k : Nat),
    gives (callsSpec f xs k).1 = xs.take (callsSpec f xs k).2.2 ∧ drops (callsSpec f xs k).1 = [] ∧
    uninitDrops (callsSpec f xs k).1 = 0 ∧ ((callsSpec f xs k).2.1 = true → (callsSpec f xs k).2.2 = xs.length)
  | [], _ => by simp [callsSpec, gives, drops, uninitDrops]
  | x :: xs, k => by
    obtain ⟨a, b, c, d⟩ := callsSpec_ledger f xs (k + 1)
    unfold callsSpec
    by_cases hf : f k
    · simp [hf, gives, drops, uninitDrops]
    · simp only [hf, Bool.false_eq_true, if_false, gives, drops, uninitDrops, List.take_succ_cons, a, b, c, List.length_cons]
      exact ⟨trivial, trivial, trivial, fun h => by rw [d h]⟩

theorem drops_map_drop' (l : List Nat) : drops (l.map Ev.drop) = l := by
  induction l with
  | nil => rfl
  | cons x xs ih => simp [drops, ih]
theorem gives_map_drop' (l : List Nat) : gives (l.map Ev.drop) = [] := by
  induction l with
  | nil => rfl
  | cons x xs ih => simp [gives, ih]
theorem uninit_map_drop' (l : List Nat) : uninitDrops (l.map Ev.drop) = 0 := by
  induction l with
  | nil => rfl
  | cons x xs ih => simp [uninitDrops, ih]
theorem gives_append' (a b : List Ev) : gives (a ++ b) = gives a ++ gives b := by
  induction a with
  | nil => rfl
  | cons e t ih => cases e <;> simp [gives, ih]
theorem drops_append' (a b : List Ev) : drops (a ++ b) = drops a ++ drops b := by
  induction a with
  | nil => rfl
  | cons e t ih => cases e <;> simp [drops, ih]
theorem uninit_append' (a b : List Ev) : uninitDrops (a ++ b) = uninitDrops a + uninitDrops b := by
  induction a with
  | nil => simp [uninitDrops]
  | cons e t ih => cases e <;> simp [uninitDrops, ih] <;> omega

/-- **`fold` as translated**: for every position of the iterator and every call index at which the
    caller's closure panics (or none), each live element is handed to the closure or dropped by
    the unwinding iterator — exactly once, in order — and no uninitialised slot is dropped. -/
theorem C04_body_fold (it : Iter) (h : Inv it) (hw : it.slots.length < word) (c : Ctx) (hb : c.bad = none) :
    let r := runFn c Gen.Body.dropIter.body Gen.Body.fold [] (ofIter it)
    gives r.1 ++ drops r.1 = abs it ∧ uninitDrops r.1 = 0 ∧ r.2.1 ≠ R.ub := by
  have hf := fold_body it h hw c hb
  have e1 := congrArg Prod.fst hf
  have e2 := congrArg Prod.snd hf
  simp only at e1 e2
  obtain ⟨a, b, u, d⟩ := callsSpec_ledger c.fpan (abs it) 0
  simp only [e1, e2, foldSpec]
  refine ⟨?_, ?_, ?_⟩
  · by_cases hok : (callsSpec c.fpan (abs it) 0).2.1 = true
    · simp [hok, gives_append', drops_append', a, b, d hok, gives, drops]
    · simp only [hok, Bool.false_eq_true, if_false, gives_append', drops_append', a, b, drops_map_drop', gives_map_drop',
        List.append_nil, List.nil_append, List.take_append_drop]
  · by_cases hok : (callsSpec c.fpan (abs it) 0).2.1 = true
    · simp [hok, u]
    · simp only [hok, Bool.false_eq_true, if_false, uninit_append', u, uninit_map_drop']
  · by_cases hok : (callsSpec c.fpan (abs it) 0).2.1 = true <;> simp [hok]

/-- **`rfold` as translated**: the same ledger, over the reversed live range -/
theorem C04_body_rfold (it : Iter) (h : Inv it) (c : Ctx) (hb : c.bad = none) :
    let r := runFn c Gen.Body.dropIter.body Gen.Body.rfold [] (ofIter it)
    (gives r.1 ++ drops r.1).Perm (abs it) ∧ uninitDrops r.1 = 0 ∧ r.2.1 ≠ R.ub := by
  have hf := rfold_body it h c hb
  have e1 := congrArg Prod.fst hf
  have e2 := congrArg Prod.snd hf
  simp only at e1 e2
  obtain ⟨a, b, u, d⟩ := callsSpec_ledger c.fpan (abs it).reverse 0
  simp only [e1, e2, rfoldSpec]
  refine ⟨?_, ?_, ?_⟩
  · by_cases hok : (callsSpec c.fpan (abs it).reverse 0).2.1 = true
    · simp only [hok, if_true, List.append_nil, a, b, d hok, List.take_length]
      exact List.reverse_perm _
    · simp only [hok, Bool.false_eq_true, if_false, gives_append', drops_append', a, b, drops_map_drop', gives_map_drop',
        List.append_nil, List.nil_append]
      have hp : ((abs it).reverse.take (callsSpec c.fpan (abs it).reverse 0).2.2 ++
          ((abs it).reverse.drop (callsSpec c.fpan (abs it).reverse 0).2.2).reverse).Perm (abs it).reverse := by
        have := List.take_append_drop (callsSpec c.fpan (abs it).reverse 0).2.2 (abs it).reverse
        exact (List.Perm.append_left _ (List.reverse_perm _)).trans (by rw [this])
      exact hp.trans (List.reverse_perm _)
  · by_cases hok : (callsSpec c.fpan (abs it).reverse 0).2.1 = true
    · simp [hok, u]
    · simp only [hok, Bool.false_eq_true, if_false, uninit_append', u, uninit_map_drop']
  · by_cases hok : (callsSpec c.fpan (abs it).reverse 0).2.1 = true <;> simp [hok]

theorem cloneCalls_ledger (cl : Nat → Option Nat) : ∀ (xs : List Nat) (k : Nat),
    takes (cloneCalls cl xs k).1 = (cloneCalls cl xs k).2.2 ∧ drops (cloneCalls cl xs k).1 = [] ∧
    gives (cloneCalls cl xs k).1 = [] ∧ uninitDrops (cloneCalls cl xs k).1 = 0
  | [], _ => by simp [cloneCalls, takes, drops, gives, uninitDrops]
  | x :: xs, k => by
    obtain ⟨a, b, c, d⟩ := cloneCalls_ledger cl xs (k + 1)
    unfold cloneCalls
    cases hc : cl k with
    | none => simp [takes, drops, gives, uninitDrops]
    | some y => simp [takes, drops, gives, uninitDrops, a, b, c, d]

theorem takes_append' (a b : List Ev) : takes (a ++ b) = takes a ++ takes b := by
  induction a with
  | nil => rfl
  | cons e t ih => cases e <;> simp [takes, ih]
theorem takes_map_drop' (l : List Nat) : takes (l.map Ev.drop) = [] := by
  induction l with
  | nil => rfl
  | cons x xs ih => simp [takes, ih]

/-- **`Clone::clone` as translated**: whichever `T::clone` call panics, every clone the library
    received is either in the returned iterator or dropped — exactly once; the source's elements
    are only lent; the source iterator is left as it was. -/
theorem C04_body_clone (it : Iter) (h : Inv it) (hw : it.slots.length < word) (c : Ctx) (hb : c.bad = none) :
    let r := runFn c Gen.Body.dropIter.body Gen.Body.clone [] (ofIter it)
    let res := match r.2.1 with | .ret .obj => (sliceOf r.2.2.out.slots r.2.2.out.index r.2.2.out.indexBack) | _ => []
    drops r.1 ++ res = takes r.1 ∧ gives r.1 = [] ∧ uninitDrops r.1 = 0 ∧ r.2.1 ≠ R.ub := by
  obtain ⟨hf, hout⟩ := clone_body it h hw c hb
  have e1 := congrArg Prod.fst hf
  have e2 := congrArg Prod.snd hf
  simp only at e1 e2
  obtain ⟨a, b, g, u⟩ := cloneCalls_ledger c.cl (abs it) 0
  have hlen := cloneCalls_len c.cl (abs it) 0
  have hal := abs_length it h
  by_cases hok : (cloneCalls c.cl (abs it) 0).2.1 = true
  · have hs : (cloneSpec c.cl (abs it)).2 = some (cloneCalls c.cl (abs it) 0).2.2 := by simp [cloneSpec, hok]
    obtain ⟨ho, _⟩ := hout _ hs
    simp only [e1, e2, hs, ho]
    refine ⟨?_, ?_, ?_, by simp⟩
    · simp only [cloneSpec, hok, if_true, List.append_nil, a, b, List.nil_append]
      rw [setMany_eq _ it.slots 0 (by have := h.2; have := h.1; omega)]
      simp [sliceOf]
    · simp [cloneSpec, hok, g]
    · simp [cloneSpec, hok, u]
  · have hs : (cloneSpec c.cl (abs it)).2 = none := by simp [cloneSpec, hok]
    simp only [e1, e2, hs]
    refine ⟨?_, ?_, ?_, by simp⟩
    · simp [cloneSpec, hok, drops_append', takes_append', a, b, drops_map_drop', takes_map_drop']
    · simp [cloneSpec, hok, gives_append', g, gives_map_drop']
    · simp [cloneSpec, hok, uninit_append', u, uninit_map_drop']

/-! ## C03 / C05 — the drop guards of src/internal.rs, as translated -/

/-- The three guards release exactly the range the ownership model charges them with:
    a builder `array[..position]`, a consumer `array[position..]`; `finish()` releases nothing;
    `is_full()` is `position == N`. -/
theorem C03_body_guards (slots : List Nat) (pos : Nat) (h : pos ≤ slots.length) (c : Ctx) (hb : c.bad = none) :
    drops (runFn c Gen.Body.intrusiveDrop.body Gen.Body.intrusiveDrop [] (ofBuilder slots pos)).1 = slots.take pos ∧
    drops (runFn c Gen.Body.builderDrop.body Gen.Body.builderDrop [] (ofBuilder slots pos)).1 = slots.take pos ∧
    drops (runFn c Gen.Body.consumerDrop.body Gen.Body.consumerDrop [] (ofBuilder slots pos)).1 = slots.drop pos ∧
    (runFn c Gen.Body.intrusiveDrop.body Gen.Body.intrusiveFinish [] (ofBuilder slots pos)).1 = [] ∧
    (runFn c Gen.Body.intrusiveDrop.body Gen.Body.intrusiveIsFull [] (ofBuilder slots pos)).2.1
      = R.ret (.bool (decide (pos = c.n))) := by
  have a := congrArg Prod.fst (intrusiveDrop_body slots pos h c hb)
  have b := congrArg Prod.fst (builderDrop_body slots pos h c hb)
  have d := congrArg Prod.fst (consumerDrop_body slots pos 0 h c hb)
  have e := congrArg Prod.fst (finish_body slots pos c)
  simp only at a b d e
  refine ⟨?_, ?_, ?_, e, (isFull_body slots pos c).1⟩
  · rw [a, drops_map_drop']
  · rw [b, drops_map_drop']
  · rw [d]; simp only [Consumer.dropEv, drops_map_drop']

/-! ## Non-vacuity: the interpreter actually runs the translated bodies -/

example : Iter.Inv ⟨[10, 11, 12, 13, 14], 1, 4⟩ := by unfold Iter.Inv; decide
example : (GA.BodyIter.run (Iter.ofList [10, 11, 12, 13, 14]) [.nth 1, .nextBack, .nthBack 5, .next, .len]).1 =
    [.item (some 11), .item (some 14), .item none, .item none, .num 0] := by decide
/-- `nth(2)` with the destructor of element 0 panicking: the translated body drops 0 and 1 once and
    leaves the iterator at index 2, so its `Drop` releases 2, 3, 4 only (the repaired defect F1) -/
example :
    let c : Ctx := ⟨5, some 0, fun _ => false, fun _ => none, fun _ => .done, (0, none), {}⟩
    let r := runFn c Gen.Body.dropIter.body Gen.Body.nth [.nat 2] (ofIter ⟨[0, 1, 2, 3, 4], 0, 5⟩)
    (drops r.1, r.2.1, r.2.2.self.index) = ([0, 1], R.panicked, 2) := by decide
/-- `clone()` with `T::clone` panicking on its third call: the two clones made are dropped (the
    repaired defect F2) -/
example :
    let c : Ctx := ⟨4, none, fun _ => false, fun k => if k = 2 then none else some (1000 + k), fun _ => .done, (0, none), {}⟩
    let r := runFn c Gen.Body.dropIter.body Gen.Body.clone [] (ofIter ⟨[0, 1, 2, 3], 0, 4⟩)
    (drops r.1, takes r.1, r.2.1) = ([1000, 1001], [1000, 1001], R.panicked) := by decide

end GA.Props.Body

#print axioms GA.Props.Body.step_eq
#print axioms GA.Props.Body.C06_body_run_refines
#print axioms GA.Props.Body.C06_body_into_iter
#print axioms GA.Props.Body.C05_body_nth
#print axioms GA.Props.Body.C05_body_nth_back
#print axioms GA.Props.Body.C05_body_last_count_drop
#print axioms GA.Props.Body.C04_body_fold
#print axioms GA.Props.Body.C04_body_rfold
#print axioms GA.Props.Body.C04_body_clone
#print axioms GA.Props.Body.C03_body_guards
