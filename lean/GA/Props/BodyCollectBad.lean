import GA.Bridge.BodyCollectBad
import GA.Props.BodyCollect
import GA.Props.C05
/-!
# C05 on the interpreted body of `try_from_iter`

Whichever collected element's destructor panics while `try_from_iter` tears down what it had
collected (too few / too many items, a source that panics), the interpretation of the regenerated
body — builder destructor included — produces the panic-free event sequence: every element the
library took is in the result or dropped exactly once.
-/
namespace GA.Props.BodyCollectBad
open GA.Body GA.Own GA.Bridge.BodyCollect GA.Props.BodyCollect

def scriptCtxBad (n : Nat) (hint : Nat × Option Nat) (sc : Script) (bad : Option Id) : Ctx :=
  { scriptCtx n hint sc with bad := bad }

theorem try_run_bad (n : Nat) (hn : n < word) (hint : Nat × Option Nat) (sc : Script) (bad : Option Id) :
    let r := runFn (scriptCtxBad n hint sc bad) Gen.Body.intrusiveDrop.body Gen.Body.tryFromIter [] (st0 sc)
    r.1 = (GA.Ops.collectOpD false true n hint sc bad).1 ∧
    resOf r.2.1 = some (GA.Ops.collectOpD false true n hint sc bad).2 := by
  have h := tryFromIter_body_bad n hn hint sc (scriptCtxBad n hint sc bad) rfl rfl (scriptCtx_src n hint sc) ⟨[], 0, 0, 0, []⟩
  have hc : GA.Ops.collectOp false true n hint sc = Own.tryFromIter canonFrags scriptSrc n hint sc := by
    simp [GA.Ops.collectOp, GA.Ops.collectFrags, libFrags_eq]
  have h1 := congrArg Prod.fst h
  have h2 := congrArg Prod.snd h
  simp only at h1 h2
  unfold GA.Ops.collectOpD
  rw [hc]
  refine ⟨?_, ?_⟩
  · rw [show (st0 sc) = ⟨⟨[], 0, 0, 0, []⟩, ⟨[], 0, 0, 0, []⟩, false, 0, false, sc.k, false, {}⟩ from rfl, h1]
    cases bad with
    | none => rfl
    | some b => simp only []; split <;> rfl
  · rw [show (st0 sc) = ⟨⟨[], 0, 0, 0, []⟩, ⟨[], 0, 0, 0, []⟩, false, 0, false, sc.k, false, {}⟩ from rfl, h2]
    cases bad with
    | none => simp [badRes, GA.Body.panics, scriptCtxBad]
    | some b =>
      simp only [badRes, GA.Body.panics, scriptCtxBad]
      split <;> simp_all

/-- **C05 for the collect path** — on the interpreted body, for every script, hint, length and
    every element whose destructor panics: the events are the panic-free ones (so each element the
    library took is in the returned array or dropped exactly once — C04's ledger — and no
    never-written slot is touched) -/
theorem C05_body_collect (n : Nat) (hn : n < word) (hint : Nat × Option Nat) (sc : Script) (bad : Option Id) :
    let r := runFn (scriptCtxBad n hint sc bad) Gen.Body.intrusiveDrop.body Gen.Body.tryFromIter [] (st0 sc)
    r.1 = (GA.Ops.collectOp false true n hint sc).1 ∧
    GA.Props.C04.Ledger [] (GA.Ops.collectOp false true n hint sc) := by
  obtain ⟨h1, _⟩ := try_run_bad n hn hint sc bad
  exact ⟨h1.trans (GA.Props.C05.collect_teardown_once false true n hint sc bad).1,
    GA.Props.C04.collect_ledger false true n hint sc⟩

-- non-vacuity: two of three wanted items arrive, the destructor of the first one panics
example : (runFn (scriptCtxBad 3 (0, none) ⟨[some 7, some 8, none], 0, none⟩ (some 7)) Gen.Body.intrusiveDrop.body
    Gen.Body.tryFromIter [] (st0 ⟨[some 7, some 8, none], 0, none⟩)).1 =
    [.poll 0, .take 0 7, .poll 1, .take 1 8, .poll 2, .drop 7, .drop 8] ∧
  (runFn (scriptCtxBad 3 (0, none) ⟨[some 7, some 8, none], 0, none⟩ (some 7)) Gen.Body.intrusiveDrop.body
    Gen.Body.tryFromIter [] (st0 ⟨[some 7, some 8, none], 0, none⟩)).2.1 = .panicked := by decide

end GA.Props.BodyCollectBad

#print axioms GA.Bridge.BodyCollect.tryFromIter_body_bad
#print axioms GA.Props.BodyCollectBad.C05_body_collect
