import GA.Lemmas.IterOwn
import GA.Lemmas.Ops
import GA.Props.C04
/-!
# C05 — a panicking element destructor never causes a second drop or a stale read

`bad : Option Id` is the single element whose destructor panics; it is universally quantified, as
are the iterator position `(front, back)`, the skip count `n` and the length.  The statement-order
facts (`nth` stores the index *before* dropping the skipped range) are regenerated from
src/iter.rs and enter through `GA.Bridge.IterOwn`.
-/
namespace GA.Props.C05
open GA.Iter GA.IterOwn GA.Own GA.Gen GA.Ops

/-- **`nth`**: the destructors run inside `nth`, the element handed to the caller, and the elements
    the iterator's own `Drop` releases afterwards are pairwise distinct — whichever destructor
    panics, from every position, for every `n`.  (More: together they are exactly the live elements.) -/
theorem nth_no_double_drop (it : Iter) (h : Inv it) (hnd : it.slots.Nodup) (n : Nat) (bad : Option Id) :
    (drops (nthD it n bad).1 ++ gives (nthD it n bad).1 ++ drops (dropIter (nthD it n bad).2.2)).Nodup := by
  rw [(nthD_partition it h n bad).1]; exact abs_nodup it hnd

theorem nth_back_no_double_drop (it : Iter) (h : Inv it) (hnd : it.slots.Nodup) (n : Nat) (bad : Option Id) :
    (drops (nthBackD it n bad).1 ++ gives (nthBackD it n bad).1 ++
      drops (dropIter (nthBackD it n bad).2.2)).Nodup :=
  ((nthBackD_partition it h n bad).1.nodup_iff).mpr (abs_nodup it hnd)

/-- nothing is read after it was dropped: the element `nth` returns is not among those it dropped,
    and the iterator left behind never exposes a dropped or returned element again -/
theorem nth_no_stale_read (it : Iter) (h : Inv it) (hnd : it.slots.Nodup) (n : Nat) (bad : Option Id) (x : Id)
    (hx : x ∈ drops (nthD it n bad).1 ++ gives (nthD it n bad).1) : x ∉ abs (nthD it n bad).2.2 := by
  have hd := nth_no_double_drop it h hnd n bad
  rw [dropIter_eq] at hd
  exact fun hmem => (List.nodup_append.mp hd).2.2 x hx x hmem rfl

/-- the model does not satisfy the statement vacuously by dropping nothing: what `nth` and the later
    `Drop` release plus what was returned is *all* of the live range (no leak in a panic-free run,
    and only what unwinding abandons otherwise — here: nothing, slice drop glue continues). -/
theorem nth_releases_all (it : Iter) (h : Inv it) (n : Nat) (bad : Option Id) :
    drops (nthD it n bad).1 ++ gives (nthD it n bad).1 ++ drops (dropIter (nthD it n bad).2.2) = abs it :=
  (nthD_partition it h n bad).1

/-- **`last`, `count`, plain drop**: each live element's destructor runs at most once, whichever
    destructor panics (`last`: the in-flight return value may be abandoned by unwinding — a leak) -/
theorem last_no_double_drop (it : Iter) (h : Inv it) (hnd : it.slots.Nodup) (bad : Option Id) :
    (drops (lastD it bad).1 ++ gives (lastD it bad).1).Nodup := by
  obtain ⟨leaked, hp, _⟩ := lastD_partition it h bad
  have := (hp.nodup_iff).mpr (abs_nodup it hnd)
  exact (List.nodup_append.mp this).1

theorem count_drop_once (it : Iter) (hnd : it.slots.Nodup) (bad : Option Id) :
    (drops (countD it bad).1).Nodup := by
  unfold countD; rw [dropIter_eq]; exact abs_nodup it hnd

theorem iter_drop_once (it : Iter) (hnd : it.slots.Nodup) : (drops (dropIter it)).Nodup := by
  rw [dropIter_eq]; exact abs_nodup it hnd

/-- **builder / consumer destructors** (`drop_in_place` over `out[..pos]` / `slots[pos..]`): sub-slices
    of distinct elements, each destructor once, whichever panics; the ranges are the regenerated ones -/
theorem builder_drop_once (out : List Id) (pos n : Nat) (hnd : out.Nodup) (bad : Option Id) :
    (drops (dropInPlace (sliceOf out (Lib.builderDropLo pos n) (Lib.builderDropHi pos n)) bad).1).Nodup ∧
    sliceOf out (Lib.builderDropLo pos n) (Lib.builderDropHi pos n) = out.take pos := by
  simp only [ga_bridge, dropInPlace, drops_map_drop]
  exact ⟨(sliceOf_sublist _ _ _).nodup hnd, by simp [sliceOf]⟩

theorem consumer_drop_once (slots : List Id) (pos : Nat) (hnd : slots.Nodup) (bad : Option Id) :
    (drops (dropInPlace (sliceOf slots (Lib.consumerDropLo pos slots.length) (Lib.consumerDropHi pos slots.length)) bad).1).Nodup ∧
    sliceOf slots (Lib.consumerDropLo pos slots.length) (Lib.consumerDropHi pos slots.length) = slots.drop pos := by
  simp only [ga_bridge, dropInPlace, drops_map_drop]
  refine ⟨(sliceOf_sublist _ _ _).nodup hnd, ?_⟩
  unfold sliceOf
  rw [List.take_of_length_le]; simp

/-- **teardown of `try_from_iter` / `from_iter` intermediates** (stack and boxed, every script and
    hint) when any one element's destructor panics: no element is released twice and none that was
    never written is released — the event sequence is `collectOp`'s, whose ledger is C04's -/
theorem collect_teardown_once (boxed try_ : Bool) (n : Nat) (hint : Nat × Option Nat) (sc : Script) (bad : Option Id) :
    (collectOpD boxed try_ n hint sc bad).1 = (collectOp boxed try_ n hint sc).1 ∧
    C04.Ledger [] (collectOp boxed try_ n hint sc) := by
  refine ⟨?_, C04.collect_ledger boxed try_ n hint sc⟩
  unfold collectOpD
  cases bad with
  | none => rfl
  | some b => simp only []; split <;> rfl

/-- the array's own drop glue runs over all `N` slots once (C01: the storage holds exactly the
    `N` elements), and a panicking destructor does not repeat any -/
theorem array_drop_once (xs : List Id) (hnd : xs.Nodup) (bad : Option Id) :
    (drops (dropInPlace xs bad).1).Nodup := by simpa [dropInPlace] using hnd

/-- **`clone_from`** (the trait default `*self = source.clone()`; regenerated flag: `Clone for GenericArray` does
    not override it): for every `T::clone` behaviour (panicking at any call or never) and whichever old element's
    destructor panics, the call is defined, and everything that ever existed — the old contents and every clone
    made — is accounted for exactly once: dropped inside the call, or held by `a` afterwards (`final`), which
    the caller releases once.  Nothing is handed out, no unwritten slot is dropped. -/
theorem clone_from_ledger (f : Nat → Option Id) (old xs : List Id) (bad : Option Id) :
    ∃ r, cloneFromOp f old xs bad = some r ∧
      (gives r.ev ++ drops r.ev ++ r.final).Perm (old ++ takes r.ev) ∧ uninitDrops r.ev = 0 := by
  have hl := C04.clone_ledger f xs
  unfold C04.Ledger at hl
  unfold cloneFromOp
  rw [Bridge.Lib.cloneFromIsDefault_eq]
  simp only [if_true]
  revert hl
  cases cloneOp f xs with
  | mk tr res =>
    cases res with
    | ok ids =>
      intro ⟨hp, hu⟩
      refine ⟨_, rfl, ?_, ?_⟩
      · simp only [gives_append, drops_append, gives_map_drop, drops_map_drop, takes_append, takes_map_drop,
          List.append_nil, Res.ids, List.nil_append] at hp ⊢
        refine List.perm_iff_count.mpr (fun a => ?_)
        have := List.perm_iff_count.mp hp a
        simp only [List.count_append] at this ⊢
        omega
      · simpa using hu
    | err =>
      intro ⟨hp, hu⟩
      refine ⟨_, rfl, ?_, hu⟩
      simp only [Res.ids, List.append_nil, List.nil_append] at hp ⊢
      refine List.perm_iff_count.mpr (fun a => ?_)
      have := List.perm_iff_count.mp hp a
      simp only [List.count_append] at this ⊢
      omega
    | panicked =>
      intro ⟨hp, hu⟩
      refine ⟨_, rfl, ?_, hu⟩
      simp only [Res.ids, List.append_nil, List.nil_append] at hp ⊢
      refine List.perm_iff_count.mpr (fun a => ?_)
      have := List.perm_iff_count.mp hp a
      simp only [List.count_append] at this ⊢
      omega

/-- … hence no element is released twice: with distinct ids, the drops inside the call together with what the
    caller still holds (and drops later) have no repetition, whichever destructor or clone call panics -/
theorem clone_from_once (f : Nat → Option Id) (old xs : List Id) (bad : Option Id) (r : CloneFrom)
    (h : cloneFromOp f old xs bad = some r) (hnd : (old ++ takes r.ev).Nodup) :
    (drops r.ev ++ r.final).Nodup := by
  obtain ⟨r', hr', hp, _⟩ := clone_from_ledger f old xs bad
  rw [h] at hr'; cases hr'
  have : (gives r.ev ++ drops r.ev ++ r.final).Nodup := hp.nodup_iff.mpr hnd
  rw [List.append_assoc] at this
  exact (List.nodup_append.mp this).2.1

-- a run: 3 old elements, destructor of old element 2 panics; the clones 1000.. are in place afterwards
example : (cloneFromOp (fun i => some (1000 + i)) [1, 2, 3] [101, 102, 103] (some 2)).map (fun r => (r.res, r.final, drops r.ev)) =
    some (.panicked, [1000, 1001, 1002], [1, 2, 3]) := by decide
-- `T::clone` panics at the second call: the one clone made is released, `a` keeps its old contents
example : (cloneFromOp (fun i => if i = 1 then none else some (1000 + i)) [1, 2, 3] [101, 102, 103] none).map (fun r => (r.res, r.final, drops r.ev)) =
    some (.panicked, [1, 2, 3], [1000]) := by decide

/-! The statement distinguishes.  With the *previous* statement order of `nth` (drop first, store
    the index afterwards) the same claim is false: `N = 5`, `nth(2)`, the destructor of element 0
    panics — elements 0 and 1 are dropped again by the iterator's `Drop`.  This is the defect that
    was repaired in /repo (see KNOWN_FINDINGS.txt). -/
def nthOld (it : Iter) (n : Nat) (bad : Option Id) : List Id :=
  let nx := it.front + min n (it.back - it.front)
  let skipped := sliceOf it.slots it.front nx
  skipped ++ (if panics skipped bad then sliceOf it.slots it.front it.back else sliceOf it.slots (nx + 1) it.back)
example : ¬ (nthOld ⟨[0, 1, 2, 3, 4], 0, 5⟩ 2 (some 0)).Nodup := by decide
example : nthOld ⟨[0, 1, 2, 3, 4], 0, 5⟩ 2 (some 0) = [0, 1, 0, 1, 2, 3, 4] := by decide
-- non-vacuity of the hypotheses and of the panicking branch
example : Inv ⟨[0, 1, 2, 3, 4], 1, 4⟩ ∧ ([0, 1, 2, 3, 4] : List Nat).Nodup := by
  unfold GA.Iter.Inv; decide
example : (nthD ⟨[0, 1, 2, 3, 4], 0, 5⟩ 2 (some 0)).2.1 = .panicked := by decide

end GA.Props.C05

#print axioms GA.Props.C05.nth_no_double_drop
#print axioms GA.Props.C05.nth_back_no_double_drop
#print axioms GA.Props.C05.nth_no_stale_read
#print axioms GA.Props.C05.nth_releases_all
#print axioms GA.Props.C05.last_no_double_drop
#print axioms GA.Props.C05.count_drop_once
#print axioms GA.Props.C05.iter_drop_once
#print axioms GA.Props.C05.builder_drop_once
#print axioms GA.Props.C05.consumer_drop_once
#print axioms GA.Props.C05.array_drop_once
#print axioms GA.Props.C05.clone_from_ledger
#print axioms GA.Props.C05.clone_from_once
#print axioms GA.Props.C05.collect_teardown_once
