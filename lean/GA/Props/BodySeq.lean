import GA.Bridge.SeqBody
/-!
# C09 / C03 on the interpreted bodies of src/sequence.rs

The statements of `GA.Props.C09` restated for `MemBody.run` on the statement lists regenerated from the source
(`GA.Gen.SeqBody`), so that a statement of these functions that is in no fragment — a third `ptr::write`, a missing
`ManuallyDrop`, a changed copy count, a moved `assert!` — changes the object the theorem is about.
-/
namespace GA.Props.BodySeq
open GA.MemBody GA.Gen GA.Bridge.SeqBody

/-- everything a call accounts for: the returned blocks and what its own scope end drops -/
def accounted : Out → List Nat
  | .ok vals drops => vals.flatten ++ drops
  | .panic drops => drops
  | .ub => []

/-- **C09** `append` = `Vec::push`, `prepend` = `Vec::insert(0, _)`, `concat` = `Vec::extend`, for every length -/
theorem C09_body_lengthen (xs ys : List Nat) (x k i : Nat) :
    run SeqBody.append ⟨xs.length, k, i⟩ xs [x] = .ok [xs ++ [x]] [] ∧
    run SeqBody.prepend ⟨xs.length, k, i⟩ xs [x] = .ok [x :: xs] [] ∧
    run SeqBody.concat ⟨xs.length, ys.length, i⟩ xs ys = .ok [xs ++ ys] [] :=
  ⟨append_body xs x k i, prepend_body xs x k i, concat_body xs ys i⟩

/-- **C09** `pop_back` = `Vec::pop`, `pop_front` = `Vec::remove(0)` (typed only for `N ≥ 1`), owned `split` = `split_at(K)` -/
theorem C09_body_shorten (xs : List Nat) (x k i : Nat) :
    run SeqBody.popBack ⟨(xs ++ [x]).length, k, i⟩ (xs ++ [x]) [] = .ok [xs, [x]] [] ∧
    run SeqBody.popFront ⟨(x :: xs).length, k, i⟩ (x :: xs) [] = .ok [[x], xs] [] ∧
    (k ≤ xs.length → run SeqBody.split ⟨xs.length, k, i⟩ xs [] = .ok [xs.take k, xs.drop k] []) :=
  ⟨popBack_body xs x k i, popFront_body xs x k i, split_body xs k i⟩

/-- **C09** `remove(i)` = `Vec::remove(i)` and `swap_remove(i)` = `Vec::swap_remove(i)` for `i < N`; for `i ≥ N` both panic
    before the array is taken apart, and the array is dropped whole by the function's own scope -/
theorem C09_body_remove (xs : List Nat) (i k : Nat) :
    (run SeqBody.remove ⟨xs.length, k, i⟩ xs [] =
      if h : i < xs.length then .ok [[xs[i]], xs.eraseIdx i] [] else .panic xs) ∧
    (run SeqBody.swapRemove ⟨xs.length, k, i⟩ xs [] =
      if h : i < xs.length then .ok [[xs[i]], (xs.set i (xs[xs.length - 1]'(by omega))).take (xs.length - 1)] []
      else .panic xs) :=
  ⟨remove_body xs i k, swapRemove_body xs i k⟩

theorem eraseIdx_perm (xs : List Nat) (i : Nat) (h : i < xs.length) : (xs[i] :: xs.eraseIdx i).Perm xs := by
  induction xs generalizing i with
  | nil => simp at h
  | cons a t ih =>
    cases i with
    | zero => simp
    | succ j =>
      have hj : j < t.length := by simpa using h
      simp only [List.getElem_cons_succ, List.eraseIdx_cons_succ]
      exact (List.Perm.swap a t[j] _).trans (List.Perm.cons a (ih j hj))

theorem last_split (xs : List Nat) (hl : xs.length - 1 < xs.length) :
    xs = xs.take (xs.length - 1) ++ [xs[xs.length - 1]] := by
  conv => lhs; rw [← List.take_append_drop (xs.length - 1) xs]
  rw [List.drop_eq_getElem_cons hl]
  have : xs.length - 1 + 1 = xs.length := by omega
  simp [this]

theorem swap_perm (xs : List Nat) (i : Nat) (h : i < xs.length) :
    (xs[i] :: (xs.set i (xs[xs.length - 1]'(by omega))).take (xs.length - 1)).Perm xs := by
  have hl : xs.length - 1 < xs.length := by omega
  have hx := last_split xs hl
  refine List.perm_iff_count.mpr (fun a => ?_)
  by_cases hi : i = xs.length - 1
  · subst hi
    rw [List.take_set_of_le (Nat.le_refl _)]
    conv => rhs; rw [hx]
    simp only [List.count_cons, List.count_append, List.count_nil]
    omega
  · have hi' : i < xs.length - 1 := by omega
    have hti : i < (xs.take (xs.length - 1)).length := by simp; omega
    have hget : (xs.take (xs.length - 1))[i] = xs[i] := by simp
    rw [List.take_set]
    conv => rhs; rw [hx]
    simp only [List.count_cons, List.count_append, List.count_nil]
    rw [List.count_set hti, hget]
    have hpos : (if (xs[i] == a) = true then 1 else 0) ≤ List.count a (xs.take (xs.length - 1)) := by
      split
      · next he =>
        have he' : xs[i] = a := by simpa using he
        subst he'
        exact List.count_pos_iff.mpr (by rw [← hget]; exact List.getElem_mem hti)
      · omega
    omega

/-- **C03** every element of the inputs is accounted for exactly once — returned in one of the results or dropped by
    the function's own scope end — by every one of the eight operations, for every length and index -/
theorem C03_body_seq_exactly_once (xs ys : List Nat) (x k i : Nat) :
    (accounted (run SeqBody.append ⟨xs.length, k, i⟩ xs [x])).Perm (xs ++ [x]) ∧
    (accounted (run SeqBody.prepend ⟨xs.length, k, i⟩ xs [x])).Perm (xs ++ [x]) ∧
    (accounted (run SeqBody.concat ⟨xs.length, ys.length, i⟩ xs ys)).Perm (xs ++ ys) ∧
    (accounted (run SeqBody.popBack ⟨(xs ++ [x]).length, k, i⟩ (xs ++ [x]) [])).Perm (xs ++ [x]) ∧
    (accounted (run SeqBody.popFront ⟨(x :: xs).length, k, i⟩ (x :: xs) [])).Perm (x :: xs) ∧
    (k ≤ xs.length → (accounted (run SeqBody.split ⟨xs.length, k, i⟩ xs [])).Perm xs) ∧
    (accounted (run SeqBody.remove ⟨xs.length, k, i⟩ xs [])).Perm xs ∧
    (accounted (run SeqBody.swapRemove ⟨xs.length, k, i⟩ xs [])).Perm xs := by
  refine ⟨?_, ?_, ?_, ?_, ?_, ?_, ?_, ?_⟩
  · rw [append_body]; simp [accounted]
  · rw [prepend_body]; simp [accounted]; exact List.perm_append_comm (l₁ := [x])
  · rw [concat_body]; simp [accounted]
  · rw [popBack_body]; simp [accounted]
  · rw [popFront_body]; simp [accounted]
  · intro hk; rw [split_body xs k i hk]; simp [accounted]
  · rw [remove_body]
    by_cases h : i < xs.length
    · simp only [h, dite_true, accounted, List.flatten_cons, List.flatten_nil, List.append_nil, List.singleton_append]
      exact eraseIdx_perm xs i h
    · simp [h, accounted]
  · rw [swapRemove_body]
    by_cases h : i < xs.length
    · simp only [h, dite_true, accounted, List.flatten_cons, List.flatten_nil, List.append_nil, List.singleton_append]
      exact swap_perm xs i h
    · simp [h, accounted]

/-- **C09** by-reference `split` (`&` and `&mut`) on the interpreted bodies: the two views start at the array's
    address, are adjacent, together cover exactly the `N` elements, lie inside the extent the pointer they were made
    from is good for, and — for `&mut` — are writable and do not overlap (the interpretation is defined, i.e. `some`) -/
theorem C09_body_split_views (n k i : Nat) (hk : k ≤ n) :
    runViews false SeqBody.splitRef ⟨n, k, i⟩ = .views [⟨0, k, false⟩, ⟨k, n - k, false⟩] ∧
    runViews true SeqBody.splitMut ⟨n, k, i⟩ = .views [⟨0, k, true⟩, ⟨k, n - k, true⟩] ∧
    0 + k = k ∧ k + (n - k) = n :=
  ⟨splitRef_body n k i hk, splitMut_body n k i hk, by omega, by omega⟩

/-! Runs of the interpreter on the regenerated bodies (non-vacuity), and bodies that differ by one statement: the
    statements above are false of them. -/
example : run SeqBody.remove ⟨4, 0, 2⟩ [10, 11, 12, 13] [] = .ok [[12], [10, 11, 13]] [] := by decide
example : run SeqBody.swapRemove ⟨4, 0, 1⟩ [10, 11, 12, 13] [] = .ok [[11], [10, 13, 12]] [] := by decide
example : run SeqBody.remove ⟨2, 0, 2⟩ [10, 11] [] = .panic [10, 11] := by decide
example : run SeqBody.split ⟨5, 2, 0⟩ [1, 2, 3, 4, 5] [] = .ok [[1, 2], [3, 4, 5]] [] := by decide
example : run SeqBody.concat ⟨2, 3, 0⟩ [1, 2] [3, 4, 5] = .ok [[1, 2, 3, 4, 5]] [] := by decide
-- `pop_back` without the `ManuallyDrop`: the source is dropped as well — every element is released twice
example : run [.readBlock 0 .self (.lit 0) (.sub .n (.lit 1)), .readBlock 1 .self (.sub .n (.lit 1)) (.lit 1), .ret [0, 1]]
    ⟨3, 0, 0⟩ [1, 2, 3] [] = .ok [[1, 2], [3]] [1, 2, 3] := by decide
-- `remove` copying one element too many reads past the array
example : run [.manuallyDrop .self, .readBlock 0 .self .idx (.lit 1),
    .copyWithin .self (.add .idx (.lit 1)) .idx (.sub .n .idx), .prefixOf 1 .self (.sub .n (.lit 1)), .ret [0, 1]]
    ⟨3, 0, 1⟩ [1, 2, 3] [] = .ub := by decide
-- `prepend` writing `self` at offset 0 as well leaves the last slot unwritten
example : run [.allocOut (.add .n (.lit 1)), .writeOut (.lit 0) .arg, .writeOut (.lit 0) .self, .retOut] ⟨2, 0, 0⟩ [1, 2] [9] = .ub := by
  decide

-- the tail made from a pointer that was derived from the *head* view is outside what that pointer is good for
example : runViews true [.ptrSelf 0 true, .viewAt 0 0 (.lit 0) .k true, .ptrOfView 1 0 true, .viewAt 1 1 .k (.sub .n .k) true,
    .retViews [0, 1]] ⟨5, 2, 0⟩ = .ub := by decide
-- a `&mut` view made from `as_ptr()` (a pointer that may not be written through)
example : runViews true [.ptrSelf 0 false, .viewAt 0 0 (.lit 0) .k true, .viewAt 1 0 .k (.sub .n .k) true, .retViews [0, 1]]
    ⟨5, 2, 0⟩ = .ub := by decide
-- overlapping mutable halves
example : runViews true [.ptrSelf 0 true, .viewAt 0 0 (.lit 0) .k true, .viewAt 1 0 (.lit 1) (.sub .n (.lit 1)) true, .retViews [0, 1]]
    ⟨5, 2, 0⟩ = .ub := by decide
example : runViews true SeqBody.splitMut ⟨5, 2, 0⟩ = .views [⟨0, 2, true⟩, ⟨2, 3, true⟩] := by decide

end GA.Props.BodySeq

#print axioms GA.Props.BodySeq.C09_body_split_views
#print axioms GA.Props.BodySeq.C09_body_lengthen
#print axioms GA.Props.BodySeq.C09_body_shorten
#print axioms GA.Props.BodySeq.C09_body_remove
#print axioms GA.Props.BodySeq.C03_body_seq_exactly_once
