import GA.Lemmas.Iter
/-!
# C06 — the by-value iterator is a double-ended, exact-size, fused queue

All theorems are about `GA.Iter.step`/`run`, whose index arithmetic is the *regenerated*
`GA.Gen.Iter` (src/iter.rs) — transported through the bridge equations in `GA.Bridge.Iter`.
-/
namespace GA.Props.C06
open GA.Iter

/-- **Refinement for every finite operation sequence.**  Starting from any state satisfying the
    representation invariant `front ≤ back ≤ N`, the outputs of the iterator equal the outputs
    of the list-deque specification, for all interleavings of all fourteen operations. -/
theorem run_refines (ops : List IOp) (it : Iter) (h : Inv it) :
    (run it ops).1 = (Spec.run (abs it) ops).1 ∧
    abs (run it ops).2 = (Spec.run (abs it) ops).2 ∧ Inv (run it ops).2 := by
  induction ops generalizing it with
  | nil => exact ⟨rfl, rfl, h⟩
  | cons op ops ih =>
    obtain ⟨a, b, c⟩ := step_refines it h op
    obtain ⟨a', b', c'⟩ := ih (step it op).2 c
    simp only [run, Spec.run]
    refine ⟨?_, ?_, c'⟩
    · rw [a, a', b]
    · rw [b', b]

/-- API-level statement: `arr.into_iter()` followed by any operation sequence behaves as the
    deque initialised with the array's elements. -/
theorem into_iter_refines (l : List Nat) (ops : List IOp) :
    (run (Iter.ofList l) ops).1 = (Spec.run l ops).1 := by
  obtain ⟨hi, ha⟩ := ofList_inv l
  have := (run_refines ops _ hi).1
  rwa [ha] at this

/-- No operation sequence ever makes the Rust code index outside the array (`IOut.ub`). -/
theorem never_ub (l : List Nat) (ops : List IOp) : IOut.ub ∉ (run (Iter.ofList l) ops).1 := by
  rw [into_iter_refines]
  generalize l = q
  induction ops generalizing q with
  | nil => simp [Spec.run]
  | cons op ops ih =>
    simp only [Spec.run, List.mem_cons, not_or]
    refine ⟨?_, ih _⟩
    cases op <;> simp [Spec.step] <;> split <;> simp

/-- `len` is exact in every reachable state. -/
theorem len_exact (l : List Nat) (ops : List IOp) :
    let it := (run (Iter.ofList l) ops).2
    (step it .len).1 = .num (abs it).length ∧
    (step it .sizeHint).1 = .hint (abs it).length (some (abs it).length) := by
  obtain ⟨hi, _⟩ := ofList_inv l
  obtain ⟨_, _, c⟩ := run_refines ops _ hi
  exact ⟨(step_refines _ c .len).1, (step_refines _ c .sizeHint).1⟩

/-- Fused: once the remaining queue is empty, `next` and `next_back` return `None` and the state
    stays empty — forever, by `run_refines`. -/
theorem fused (it : Iter) (h : Inv it) (he : abs it = []) :
    (step it .next).1 = .item none ∧ (step it .nextBack).1 = .item none ∧
    abs (step it .next).2 = [] ∧ abs (step it .nextBack).2 = [] := by
  obtain ⟨a, b, _⟩ := step_refines it h .next
  obtain ⟨a', b', _⟩ := step_refines it h .nextBack
  rw [he] at a b a' b'
  exact ⟨a, a', b, b'⟩

/-- Front and back consumption never overlap or skip: `k` `next`s then `m` `next_back`s yield the
    first `k` and the last `m` elements (as far as they exist), each element at most once. -/
theorem front_back_disjoint (l : List Nat) (k m : Nat) :
    (Spec.run l (List.replicate k .next ++ List.replicate m .nextBack)).2 =
      (l.drop k).take (l.length - k - m) := by
  have hfront : ∀ (k : Nat) (q : List Nat) (ops : List IOp),
      (Spec.run q (List.replicate k .next ++ ops)).2 = (Spec.run (q.drop k) ops).2 := by
    intro k
    induction k with
    | zero => intro q ops; simp
    | succ k ih =>
      intro q ops
      simp only [List.replicate_succ, List.cons_append, Spec.run, Spec.step]
      rw [ih]; simp
  have hback : ∀ (m : Nat) (q : List Nat),
      (Spec.run q (List.replicate m .nextBack)).2 = q.take (q.length - m) := by
    intro m
    induction m with
    | zero => intro q; simp [Spec.run]
    | succ m ih =>
      intro q
      simp only [List.replicate_succ, Spec.run, Spec.step]
      rw [ih, List.dropLast_eq_take, List.take_take, List.length_take]
      congr 1; omega
  rw [hfront, hback, List.length_drop]

/-- A clone yields the same remaining elements and running anything on it leaves the original
    untouched (the model is a value; stated for the outputs). -/
theorem clone_same_remaining (it : Iter) (h : Inv it) (ops : List IOp) :
    (run (clone it) ops).1 = (run it ops).1 := by
  obtain ⟨hc1, hc2⟩ := clone_abs it h
  rw [(run_refines ops _ hc2).1, (run_refines ops _ h).1, hc1]

/-- Debug shows exactly the remaining elements. -/
theorem debug_shows_remaining (it : Iter) (h : Inv it) : (step it .debug).1 = .items (abs it) :=
  (step_refines it h .debug).1

-- non-vacuity: a concrete mid-iteration state satisfies the invariant, and a concrete run.
example : GA.Iter.Inv ⟨[10, 11, 12, 13, 14], 1, 4⟩ := by unfold GA.Iter.Inv; decide
example : (run (Iter.ofList [10, 11, 12, 13, 14]) [.nth 1, .nextBack, .nthBack 5, .next]).1 =
    [.item (some 11), .item (some 14), .item none, .item none] := by decide

/-- the index arithmetic of `next`, `nth`, `fold` never wraps around the machine word — for every
    argument, `usize::MAX` included — so the unbounded-`Nat` model above is the code's arithmetic -/
theorem index_arithmetic_never_wraps (it : Iter) (h : Inv it) (hN : it.slots.length < 18446744073709551616) (n : Nat) :
    Gen.Iter.nthNextNoOvf it.front it.back n = true ∧ Gen.Iter.nthDropHiNoOvf it.front it.back n = true ∧
    (it.front < it.back → Gen.Iter.nextAdvNoOvf it.front = true ∧ Gen.Iter.foldAdvNoOvf it.front = true) := by
  obtain ⟨h1, h2⟩ := h
  have hb : it.back < 18446744073709551616 := by omega
  exact ⟨Bridge.Iter.nthNextNoOvf_of _ _ _ h1 hb, Bridge.Iter.nthDropHiNoOvf_of _ _ _ h1 hb,
    fun hlt => ⟨Bridge.Iter.nextAdvNoOvf_of _ _ hlt hb, Bridge.Iter.foldAdvNoOvf_of _ _ hlt hb⟩⟩

end GA.Props.C06

#print axioms GA.Props.C06.run_refines
#print axioms GA.Props.C06.into_iter_refines
#print axioms GA.Props.C06.never_ub
#print axioms GA.Props.C06.len_exact
#print axioms GA.Props.C06.fused
#print axioms GA.Props.C06.front_back_disjoint
#print axioms GA.Props.C06.clone_same_remaining
#print axioms GA.Props.C06.debug_shows_remaining
#print axioms GA.Props.C06.index_arithmetic_never_wraps
