import GA.Model.Heap
import GA.Bridge.Heap
import GA.Bridge.Lib
import GA.Props.C07
/-!
# C15 — heap interop preserves contents, needs exact length, and reuses the allocation
-/
namespace GA.Props.C15
open GA.Heap GA.Own GA.Ops GA.Gen

/-- `try_from_boxed_slice`: succeeds exactly when the length is `N`; then the same elements in the
    same order in the *same heap block* (a pointer cast); otherwise `LengthError` and every source
    element is dropped (by the returned-to-caller `Box<[T]>` going out of scope) exactly once -/
theorem try_from_boxed_slice_spec (items : List Id) (n : Nat) :
    tryFromBoxedSlice items n = (if items.length = n then .ok items true else .err items) := by
  unfold tryFromBoxedSlice
  by_cases h : items.length = n <;> simp [ga_bridge, h]

/-- `try_from_vec`: the same, and the block is handed over unchanged when `len == capacity` -/
theorem try_from_vec_spec (items : List Id) (cap n : Nat) :
    tryFromVec items cap n =
      (if items.length = n then .ok items (decide (items.length = cap)) else .err items) := by
  unfold tryFromVec
  rw [try_from_boxed_slice_spec]
  by_cases h : items.length = n <;> simp [ga_bridge, h]

/-- `TryFrom<Vec<T>>` / `TryFrom<Box<[T]>>` for the by-value array -/
theorem try_from_vec_owned_spec (items : List Id) (n : Nat) :
    tryFromVecOwned items n = (if items.length = n then .ok items false else .err items) := by
  unfold tryFromVecOwned
  by_cases h : items.length = n <;> simp [ga_bridge, h]

/-- the documented O(1) conversions keep every element, in order, in the same block -/
theorem into_boxed_slice_spec (items : List Id) : intoBoxedSlice items = .ok items true ∧ intoVec items = .ok items true := by
  unfold intoVec intoBoxedSlice
  simp [ga_bridge]

/-- the length check happens while the source is still an owned box (so the error path drops it) -/
theorem check_before_ownership_transfer : Alloc.boxedSliceCheckBeforeIntoRaw = true := by simp [ga_bridge]

/-- boxed `from_iter` agrees with the stack form on every source (C07) and builds in a `Vec`
    of capacity `N`, never on the stack; `default_boxed` is boxed `generate` (C16), which writes each
    element straight into the heap block -/
theorem boxed_constructors :
    (∀ try_ n hint sc, collectOp true try_ n hint sc = collectOp false try_ n hint sc) ∧
    Alloc.capacity = (fun n => n) ∧ Alloc.takeCount = (fun n => n) ∧ Alloc.defaultBoxedIsGenerate = true := by
  refine ⟨fun t n h s => C07.boxed_agrees t n h s, ?_, ?_, by simp [ga_bridge]⟩ <;> funext n <;> simp [ga_bridge]

-- non-vacuity
example : tryFromVec [1, 2, 3] 3 3 = .ok [1, 2, 3] true := by decide
example : tryFromVec [1, 2, 3] 8 3 = .ok [1, 2, 3] false := by decide
example : tryFromVec [1, 2, 3, 4] 4 3 = .err [1, 2, 3, 4] := by decide

end GA.Props.C15

#print axioms GA.Props.C15.try_from_boxed_slice_spec
#print axioms GA.Props.C15.try_from_vec_spec
#print axioms GA.Props.C15.try_from_vec_owned_spec
#print axioms GA.Props.C15.into_boxed_slice_spec
#print axioms GA.Props.C15.boxed_constructors
