import GA.Lemmas.Func
import GA.Model.Heap
import GA.Bridge.HeapGen
import GA.Bridge.Heap
/-!
# C08 — generate/map/zip/fold/clone/default apply the function once per index, in order

Caller code here does not panic: `f i = some (g i)`.  `args` is the ordered log of
`(call index, argument)` pairs, `rets` the ordered log of `(call index, returned value)` pairs.
The receiver/argument *form* only selects how each operand is held (`Side`); the theorems are
proved for every `Side`, so they hold for every form and for both the drop-aware and the
no-drop branches (`needs_drop` true/false).
-/
namespace GA.Props.C08
open GA.Own GA.Ops GA.Func GA.Gen

/-- **generate**: `f` is called exactly `N` times with `0, 1, …, N-1` in ascending order and
    result `i` is stored at index `i` (also `Default`). -/
theorem generate_spec (g : Nat → Id) (n : Nat) :
    (generate (fun i => some (g i)) n).2 = .ok ((List.range n).map g) ∧
    rets (generate (fun i => some (g i)) n).1 = (List.range n).map (fun i => (i, g i)) := by
  obtain ⟨h1, h2, _⟩ := fill_gen g n 0 []
  unfold generate
  rw [Bridge.Lib.generateWriteBeforeCount_eq]
  revert h1 h2
  cases fillLoop true true (genSrc fun i => some (g i)) n 0 [] with
  | mk tr r =>
    intro h1 h2
    simp only [] at h1 h2
    subst h1
    simp only [List.nil_append]
    exact ⟨by rw [List.range_eq_range'], by rw [h2, List.range_eq_range']⟩

/-- **boxed generate** (and `default_boxed`): the same calls in the same order, whatever the element
    size (zero included) and length (zero included) — the fill loop always runs over all `N` slots -/
theorem boxed_generate_spec (esz ealign : Nat) (g : Nat → Id) (n : Nat) :
    (Heap.boxedGenerate esz ealign n (fun i => some (g i)) true).res = .ok ((List.range n).map g) ∧
    rets (Heap.boxedGenerate esz ealign n (fun i => some (g i)) true).etrace = (List.range n).map (fun i => (i, g i)) := by
  obtain ⟨h1, h2, _⟩ := fill_gen g n 0 []
  unfold Heap.boxedGenerate
  simp only [Bridge.Heap.boxedWriteBeforeCount_eq, GA.Bridge.HeapGen.boxedDanglingAligned_eq, Bool.not_true, Bool.and_false, Bool.false_and, Bool.false_eq_true, if_false]
  revert h1 h2
  cases fillLoop true true (genSrc fun i => some (g i)) n 0 [] with
  | mk tr r =>
    intro h1 h2
    simp only [] at h1 h2
    subst h1
    simp only [List.nil_append, rets_append, rets_map_drop, List.append_nil]
    exact ⟨by rw [List.range_eq_range'], by rw [h2, List.range_eq_range']⟩

theorem default_spec (g : Nat → Id) (n : Nat) :
    (defaultOp (fun i => some (g i)) n).2 = .ok ((List.range n).map g) := (generate_spec g n).1

/-- the side a receiver form of `map` uses -/
def mapSide : Form → Side
  | .owned => .consumer Lib.mapPosNew Lib.mapAdvBeforeCall
  | .boxed => .owned
  | _ => .borrowed

theorem mapOp_eq (form : Form) (f : Nat → Option Id) (xs : List Id) :
    mapOp form f xs = fromIter canonFrags (mapSrc (mapSide form) f) xs.length (xs.length, some xs.length)
      (Consumer.ofList xs) := by
  cases form <;> simp [mapOp, mapSide, libFrags_eq, boxFrags_eq]

/-- **map**, all four receiver forms: `g` is applied to `(i, a[i])` for `i = 0 … N-1` in ascending
    order, once each; the result holds `g i` at index `i`. -/
theorem map_spec (form : Form) (g : Nat → Id) (xs : List Id) :
    (mapOp form (fun i => some (g i)) xs).2 = .ok ((List.range xs.length).map g) ∧
    args (mapOp form (fun i => some (g i)) xs).1 = (List.range xs.length).zip xs ∧
    rets (mapOp form (fun i => some (g i)) xs).1 = (List.range xs.length).map (fun i => (i, g i)) := by
  rw [mapOp_eq]; exact map_side_spec (mapSide form) g xs

/-- `Clone` is the element-wise instance: `clone` is called on `a[0], a[1], …` in order -/
theorem clone_spec (g : Nat → Id) (xs : List Id) :
    (cloneOp (fun i => some (g i)) xs).2 = .ok ((List.range xs.length).map g) ∧
    args (cloneOp (fun i => some (g i)) xs).1 = (List.range xs.length).zip xs := by
  have := map_spec .ref g xs
  exact ⟨this.1, this.2.1⟩

/-- **zip**, every receiver × argument form and both `needs_drop` branches: call `i` receives
    `(a[i], b[i])`, calls are in ascending order, once each, result `i` is `g i`. -/
theorem zip_spec (fa fb : Form) (ndA ndB : Bool) (g : Nat → Id) (xs ys : List Id) (hlen : xs.length = ys.length) :
    (zipOp fa fb ndA ndB (fun i => some (g i)) xs ys).2 = .ok ((List.range xs.length).map g) ∧
    args (zipOp fa fb ndA ndB (fun i => some (g i)) xs ys).1 = enumFrom2 0 xs ys ∧
    rets (zipOp fa fb ndA ndB (fun i => some (g i)) xs ys).1 = (List.range xs.length).map (fun i => (i, g i)) := by
  unfold zipOp
  simp only [collectFrags_eq]
  exact zip_side_spec _ _ g xs ys hlen

/-- results and call order are the same for every form -/
theorem map_form_independent (f1 f2 : Form) (g : Nat → Id) (xs : List Id) :
    (mapOp f1 (fun i => some (g i)) xs).2 = (mapOp f2 (fun i => some (g i)) xs).2 ∧
    args (mapOp f1 (fun i => some (g i)) xs).1 = args (mapOp f2 (fun i => some (g i)) xs).1 := by
  obtain ⟨a1, a2, _⟩ := map_spec f1 g xs
  obtain ⟨b1, b2, _⟩ := map_spec f2 g xs
  exact ⟨a1.trans b1.symm, a2.trans b2.symm⟩

theorem zip_form_independent (fa fb fa' fb' : Form) (ndA ndB ndA' ndB' : Bool) (g : Nat → Id) (xs ys : List Id)
    (hlen : xs.length = ys.length) :
    (zipOp fa fb ndA ndB (fun i => some (g i)) xs ys).2 = (zipOp fa' fb' ndA' ndB' (fun i => some (g i)) xs ys).2 ∧
    args (zipOp fa fb ndA ndB (fun i => some (g i)) xs ys).1 =
      args (zipOp fa' fb' ndA' ndB' (fun i => some (g i)) xs ys).1 := by
  obtain ⟨a1, a2, _⟩ := zip_spec fa fb ndA ndB g xs ys hlen
  obtain ⟨b1, b2, _⟩ := zip_spec fa' fb' ndA' ndB' g xs ys hlen
  exact ⟨a1.trans b1.symm, a2.trans b2.symm⟩

/-- **fold**: the closure sees `a[0], a[1], …, a[N-1]` in ascending order, once each (the left
    fold of any accumulator function follows), for every receiver form -/
theorem foldSrc_step_some (sd : Side) (c : Consumer) (x : Id) (hx : c.slots[c.idx]? = some x) :
    (foldSrc sd (fun _ => true)).step c = .yield [arg sd.owns c.idx x] x (sd.after c c.pos true) := by
  simp [foldSrc, hx]
theorem foldSrc_step_none (sd : Side) (c : Consumer) (hx : c.slots[c.idx]? = none) :
    (foldSrc sd (fun _ => true)).step c = .done [] c := by
  simp [foldSrc, hx]

theorem fold_loop_spec (sd : Side) (k : Nat) (c : Consumer) (hk : c.slots.length - c.idx < k) :
    (foldLoop (foldSrc sd (fun _ => true)) k c).2.1 = true ∧
    args (foldLoop (foldSrc sd (fun _ => true)) k c).1 = enumFrom c.idx (c.slots.drop c.idx) := by
  induction k generalizing c with
  | zero => omega
  | succ k ih =>
    by_cases hlt : c.idx < c.slots.length
    · have hx : c.slots[c.idx]? = some c.slots[c.idx] := List.getElem?_eq_getElem hlt
      obtain ⟨i1, i2⟩ := side_after_idx sd c c.pos true
      obtain ⟨h1, h2⟩ := ih (sd.after c c.pos true) (by rw [i1, i2]; omega)
      simp only [foldLoop, foldSrc_step_some sd c _ hx, args_append, h1, h2, i1, i2, drop_of_getElem? hx, args_arg]
      simp [enumFrom]
    · have hx : c.slots[c.idx]? = none := List.getElem?_eq_none (by omega)
      simp only [foldLoop, foldSrc_step_none sd c hx]
      rw [List.drop_eq_nil_of_le (by omega)]
      simp [enumFrom]

theorem fold_spec (form : Form) (xs : List Id) :
    (foldOp form (fun _ => true) xs).2 = true ∧
    args (foldOp form (fun _ => true) xs).1 = (List.range xs.length).zip xs := by
  obtain ⟨h1, h2⟩ := fold_loop_spec (foldSide form) (xs.length + 1) (Consumer.ofList xs) (by simp [Consumer.ofList])
  unfold foldOp
  simp only [h1, if_true, args_append, h2]
  have hde : ∀ c, (foldSrc (foldSide form) fun _ => true).dropEv c = (foldSide form).dropEv c := fun _ => rfl
  rw [hde, (side_dropEv_args _ _).1]
  simp only [Consumer.ofList, List.drop_zero, List.append_nil]
  exact ⟨trivial, enumFrom_zero_eq xs⟩

-- non-vacuity / executable sanity: a 3-element zip in the owned × borrowed form
example : args (zipOp .owned .ref true true (fun i => some (1000 + i)) [1, 2, 3] [101, 102, 103]).1 =
    [(0, 1), (0, 101), (1, 2), (1, 102), (2, 3), (2, 103)] := by decide
example : (zipOp .boxed .boxed true true (fun i => some (1000 + i)) [1, 2, 3] [101, 102, 103]).2 =
    .ok [1000, 1001, 1002] := by decide
example : (generate (fun i => some (7 * i)) 0).2 = .ok [] := by decide

end GA.Props.C08

#print axioms GA.Props.C08.generate_spec
#print axioms GA.Props.C08.boxed_generate_spec
#print axioms GA.Props.C08.map_spec
#print axioms GA.Props.C08.clone_spec
#print axioms GA.Props.C08.zip_spec
#print axioms GA.Props.C08.map_form_independent
#print axioms GA.Props.C08.zip_form_independent
#print axioms GA.Props.C08.fold_spec
