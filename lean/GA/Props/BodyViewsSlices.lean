import GA.Bridge.SliceBody
/-!
# C02 on the interpreted bodies of `as_slice` / `as_mut_slice` / `from_slice` / `try_from_slice` / `from_mut_slice` (src/lib.rs)

`tools/seqbody.py` lowers the functions statement by statement (guards, pure `let`s inlined, every `as_ptr()` / `as_mut_ptr()`,
every `from_raw_parts(_mut)` / `&*(… as *const _)` / reference transmute) into `GA.Gen.SeqBody`; `MemBody.runViews` interprets
them with pointer provenance.  The theorems say what the returned references are — for every `N` and every length.
One module per function family (see `GA.Bridge.SeqBody`): a change to one family's bodies fails only the properties about it.
-/
namespace GA.Props.BodyViews
open GA.MemBody GA.Gen GA.Bridge.SeqBody

/-- **C02** `as_slice` / `as_mut_slice` — what every other borrowed view (`Deref`, `Borrow`, `AsRef`, `&`-iteration, indexing)
    delegates to — on the interpreted bodies: the view starts at the array's address, has exactly `N` elements, is made from
    the receiver reference itself and is writable only for `as_mut_slice` -/
theorem C02_body_as_slice (n k i : Nat) :
    runViews false SeqBody.asSlice ⟨n, k, i⟩ = .views [⟨0, n, false⟩] ∧
    runViews true SeqBody.asMutSlice ⟨n, k, i⟩ = .views [⟨0, n, true⟩] :=
  asSlice_body n k i

/-- **C02** the checked slice → array-reference conversions succeed iff `len = N` (panic / `LengthError` / failed
    assertion otherwise) and then alias the slice exactly: same address, `N` elements, writable only for the `&mut` form -/
theorem C02_body_reinterpret_exact (n len i : Nat) :
    (runViews false SeqBody.fromSlice ⟨n, len, i⟩ = if len ≠ n then .panic else .views [⟨0, n, false⟩]) ∧
    (runViews false SeqBody.tryFromSlice ⟨n, len, i⟩ = if len ≠ n then .err else .views [⟨0, n, false⟩]) ∧
    (runViews true SeqBody.fromMutSlice ⟨n, len, i⟩ = if len = n then .views [⟨0, n, true⟩] else .panic) :=
  ⟨fromSlice_body n len i, tryFromSlice_body n len i, fromMutSlice_body n len i⟩

/-! Runs, and bodies that differ by one statement. -/
example : runViews false SeqBody.fromSlice ⟨4, 5, 0⟩ = .panic := by decide
-- `try_from_slice` comparing byte sizes accepts any length for zero-sized elements: modelled as a guard that never fires
example : runViews false [.errIf (.ne (.mul .k (.lit 0)) (.mul .n (.lit 0))), .ptrArg 0 false .k, .viewAt 0 0 (.lit 0) .n false, .retViews [0]]
    ⟨3, 2, 0⟩ = .ub := by decide

-- `as_mut_slice` made from `self as *const Self` (a pointer that may not be written through)
example : runViews true [.ptrSelf 0 false, .viewAt 0 0 (.lit 0) .n true, .retViews [0]] ⟨4, 0, 0⟩ = .ub := by decide
-- a view one element longer than the array
example : runViews false [.ptrSelf 0 false, .viewAt 0 0 (.lit 0) (.add .n (.lit 1)) false, .retViews [0]] ⟨4, 0, 0⟩ = .ub := by decide

end GA.Props.BodyViews

#print axioms GA.Props.BodyViews.C02_body_as_slice
#print axioms GA.Props.BodyViews.C02_body_reinterpret_exact
