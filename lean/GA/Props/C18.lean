import GA.Model.ConstEval
import GA.Bridge.ConstApi
import GA.Bridge.Mem
import GA.Bridge.Layout
import GA.Props.C02
import GA.Props.C10
/-!
# C18 — the const API evaluates at compile time without UB and agrees with run time
-/
namespace GA.Props.C18
open GA.ConstEval GA.Mem GA.Gen GA.Bridge.ConstApi

theorem isConst_of (name : String) (v : Verdict) (h : Mem.constFns.contains name = true) : isConst name v = v := by
  unfold isConst; rw [h]; rfl

/-- when does a call end in the documented panic ("evaluation panicked") -/
def documentedPanic : Call → Bool
  | .fromSlice n len => decide (len ≠ n)
  | .fromMutSlice n len => decide (len ≠ n)
  | .chunks n len => decide (n = 0) && decide (len ≠ 0)
  | .chunksMut n len => decide (n = 0) && decide (len ≠ 0)
  | .transmute sa sb _ _ => decide (sa ≠ sb)
  | _ => false

theorem chunks_verdict (len n : Nat) (m u : Bool) (hu : (!m || u) = true) :
    ofChunks len n m u (chunksFromSlice len n) = if n = 0 then (if len = 0 then .accept else .panic) else .accept := by
  by_cases hn : n = 0
  · subst hn
    unfold chunksFromSlice
    simp only [ga_bridge, decide_true, if_true]
    by_cases hl : len = 0 <;> simp [hl, ofChunks]
  · have hpos : 0 < n := Nat.pos_of_ne_zero hn
    obtain ⟨c, r, h1, hc0, hcl, hrl, hro, hcov, hsum⟩ := C10.chunks_partition len n hpos
    rw [h1]
    have e1 : c.off + c.len * n ≤ len := by omega
    have e2 : r.off + r.len ≤ len := by omega
    simp [ofChunks, judge, refOk, hu, hn, e1, e2]

/-- **no UB, ever**: for every function of the const API and every length, slice length, chunk
    count and element size, the interpreter either accepts the call or stops at the documented
    panic; it never sees an out-of-bounds or dangling reference, a write through a shared-derived
    pointer, or a non-const call -/
theorem const_api_verdict (c : Call) : eval c = if documentedPanic c then .panic else .accept := by
  have hc := all_const
  cases c with
  | len n => simp [eval, isConst_of _ _ (hc "len" (by simp)), documentedPanic]
  | asSlice n =>
    simp [eval, isConst_of _ _ (hc "as_slice" (by simp)), documentedPanic, C02.view_same, judge, refOk]
  | asMutSlice n =>
    simp [eval, isConst_of _ _ (hc "as_mut_slice" (by simp)), documentedPanic, C02.view_same, judge, refOk, ga_bridge]
  | fromSlice n len =>
    simp only [eval, isConst_of _ _ (hc "from_slice" (by simp)), documentedPanic, fromSlice, ga_bridge]
    by_cases h : len = n <;> simp [h, ofRes, judge, refOk]
  | tryFromSlice n len =>
    simp only [eval, isConst_of _ _ (hc "try_from_slice" (by simp)), documentedPanic, tryFromSlice, ga_bridge]
    by_cases h : len = n <;> simp [h, ofRes, judge, refOk]
  | fromMutSlice n len =>
    simp only [eval, isConst_of _ _ (hc "from_mut_slice" (by simp)), documentedPanic, fromMutSlice, ga_bridge]
    by_cases h : len = n <;> simp [h, ofRes, judge, refOk]
  | tryFromMutSlice n len =>
    simp only [eval, isConst_of _ _ (hc "from_mut_slice" (by simp)), isConst_of _ _ (hc "try_from_mut_slice" (by simp)),
      documentedPanic, tryFromMutSlice, fromMutSlice, ga_bridge]
    by_cases h : len = n <;> simp [h, ofRes, judge, refOk]
  | chunks n len =>
    simp only [eval, isConst_of _ _ (hc "chunks_from_slice" (by simp)), documentedPanic]
    rw [chunks_verdict len n false false rfl]
    by_cases hn : n = 0 <;> by_cases hl : len = 0 <;> simp [hn, hl]
  | chunksMut n len =>
    simp only [eval, isConst_of _ _ (hc "chunks_from_slice_mut" (by simp)), documentedPanic, C10.chunks_mut_same, ga_bridge]
    rw [chunks_verdict len n true true rfl]
    by_cases hn : n = 0 <;> by_cases hl : len = 0 <;> simp [hn, hl]
  | flat n k =>
    simp [eval, isConst_of _ _ (hc "slice_from_chunks" (by simp)), documentedPanic, sliceFromChunks, ga_bridge, judge, refOk]
  | flatMut n k =>
    simp [eval, isConst_of _ _ (hc "slice_from_chunks_mut" (by simp)), documentedPanic, sliceFromChunksMut, ga_bridge, judge, refOk]
  | fromArray n esz =>
    simp [eval, isConst_of _ _ (hc "from_array" (by simp)), isConst_of _ _ (hc "const_transmute" (by simp)), documentedPanic,
      ga_bridge, C02.transmute_checked, ofUnit]
  | intoArray n esz =>
    simp [eval, isConst_of _ _ (hc "into_array" (by simp)), isConst_of _ _ (hc "const_transmute" (by simp)), documentedPanic,
      ga_bridge, C02.transmute_checked, ofUnit]
  | fromChunks n k =>
    simp [eval, isConst_of _ _ (hc "from_chunks" (by simp)), documentedPanic, reinterpretChunks, ga_bridge, ofOpt, judge, refOk]
  | fromChunksMut n k =>
    simp [eval, isConst_of _ _ (hc "from_chunks_mut" (by simp)), documentedPanic, reinterpretChunks, ga_bridge, ofOpt, judge, refOk]
  | intoChunks n k =>
    simp [eval, isConst_of _ _ (hc "into_chunks" (by simp)), documentedPanic, reinterpretChunks, ga_bridge, ofOpt, judge, refOk]
  | intoChunksMut n k =>
    simp [eval, isConst_of _ _ (hc "into_chunks_mut" (by simp)), documentedPanic, reinterpretChunks, ga_bridge, ofOpt, judge, refOk]
  | uninitAssumeInit n =>
    simp [eval, isConst_of _ _ (hc "uninit" (by simp)), isConst_of _ _ (hc "assume_init" (by simp)),
      isConst_of _ _ (hc "as_mut_slice" (by simp)), documentedPanic]
  | transmute sa sb aa ab =>
    simp only [eval, isConst_of _ _ (hc "const_transmute" (by simp)), documentedPanic, C02.transmute_checked, ga_bridge]
    by_cases h : sa = sb <;> simp [h]

theorem never_ub (c : Call) : eval c ≠ .ub ∧ eval c ≠ .notConst := by
  rw [const_api_verdict]; split <;> simp

/-- agreement with run time: the interpreter accepts exactly the calls that do not panic at run
    time, and both see the view the run-time model (C02, C10) describes -/
theorem accept_iff_runtime_ok_fromSlice (n len : Nat) :
    eval (.fromSlice n len) = .accept ↔ fromSlice len n = .ok ⟨0, n⟩ := by
  rw [const_api_verdict]
  simp only [documentedPanic, fromSlice, ga_bridge]
  by_cases h : len = n <;> simp [h]

theorem accept_iff_runtime_ok_chunks (n len : Nat) (hn : 0 < n) :
    eval (.chunks n len) = .accept ∧
      chunksFromSlice len n = .ok ⟨0, len / n⟩ ⟨len / n * n, len % n⟩ := by
  rw [const_api_verdict]
  refine ⟨by simp [documentedPanic]; omega, ?_⟩
  unfold chunksFromSlice
  have h0 : ¬ n = 0 := by omega
  simp only [ga_bridge, h0, decide_false, Bool.false_eq_true, if_false, Bridge.Mem.chunksOk_of len n hn, Bool.not_true]
  congr 2
  have := Nat.div_add_mod len n
  have h2 : len / n * n = n * (len / n) := Nat.mul_comm _ _
  omega

/-- `const_transmute` itself, for any pair of types: accepted iff the sizes agree, whatever the
    alignments (the value moves through a union, never through a re-typed pointer) -/
theorem const_transmute_verdict (sa sb aa ab : Nat) :
    eval (.transmute sa sb aa ab) = if sa = sb then .accept else .panic := by
  rw [const_api_verdict]; by_cases h : sa = sb <;> simp [documentedPanic, h]

-- non-vacuity
example : eval (.chunks 3 7) = .accept := by rw [const_api_verdict]; rfl
example : eval (.fromSlice 3 4) = .panic := by rw [const_api_verdict]; rfl
example : judge 7 [⟨0, 18, false, false⟩] = .ub := by decide      -- what a 3x too long chunk slice looks like
example : judge 4 [⟨0, 4, true, false⟩] = .ub := by decide        -- a `&mut` from a shared-derived pointer

end GA.Props.C18

#print axioms GA.Props.C18.const_api_verdict
#print axioms GA.Props.C18.never_ub
#print axioms GA.Props.C18.chunks_verdict
#print axioms GA.Props.C18.accept_iff_runtime_ok_fromSlice
#print axioms GA.Props.C18.accept_iff_runtime_ok_chunks
