import GA.Model.Cmp
import GA.Bridge.Impls
import GA.Bridge.Mem
/-!
# C13 — comparison, hashing and Debug agree with the slice of the same elements
-/
namespace GA.Props.C13
open GA.Cmp GA.Gen

variable {α : Type}

/-- the operations of the slice type `[T]` itself -/
def sliceOps (E : ElemOps α) : ElemOps (List α) where
  eq same a b := sliceEq E same a b
  pcmp same a b := slicePcmp E same a b
  cmp same a b := sliceCmp E same a b
  hash a := sliceHash E a
  dbg fl a := sliceDbg E fl a

/-- `a == b` is the slices' `==` — whether or not the operands are the same object -/
theorem eq_agrees (E : ElemOps α) (same : Bool) (a b : List α) :
    (arrayOps E).eq same a b = sliceEq E same a b := by
  simp only [arrayOps, ga_bridge]

/-- `partial_cmp` (hence `<`, `<=`, `>`, `>=`, which `GenericArray` does not override) is the slices' -/
theorem partial_cmp_agrees (E : ElemOps α) (same : Bool) (a b : List α) :
    (arrayOps E).pcmp same a b = slicePcmp E same a b := by
  simp only [arrayOps, ga_bridge]

theorem cmp_agrees (E : ElemOps α) (same : Bool) (a b : List α) :
    (arrayOps E).cmp same a b = sliceCmp E same a b := by
  simp only [arrayOps, ga_bridge]

/-- the hasher receives exactly what hashing the slice feeds it: the length prefix, then the elements -/
theorem hash_agrees (E : ElemOps α) (a : List α) :
    (arrayOps E).hash a = .len a.length :: a.flatMap E.hash := by
  simp only [arrayOps, ga_bridge, sliceHash, sliceHashSlice]

/-- Debug output under any formatter options is the slice's under the same options -/
theorem debug_agrees (E : ElemOps α) (fl : Flags) (a : List α) :
    (arrayOps E).dbg fl a = sliceDbg E fl a := by
  simp only [arrayOps, ga_bridge]

/-- all five at once: a `GenericArray<T, N>` has the operations of `[T]` -/
theorem arrayOps_eq_sliceOps (E : ElemOps α) : arrayOps E = sliceOps E := by
  simp only [arrayOps, sliceOps, ga_bridge]

/-- … at every nesting depth: arrays of arrays compare, hash and print like slices of slices -/
theorem nested_agrees (E : ElemOps α) : arrayOps (arrayOps E) = sliceOps (sliceOps E) := by
  rw [arrayOps_eq_sliceOps E, arrayOps_eq_sliceOps]

/-! ### what "the slices' result" is: lexicographic, first non-equal comparison decides -/

theorem pcmp_incomparable_head (E : ElemOps α) (s : Bool) (x y : α) (a b : List α)
    (h : E.pcmp s x y = none) : (arrayOps E).pcmp s (x :: a) (y :: b) = none := by
  rw [partial_cmp_agrees]; simp only [slicePcmp, h]

theorem pcmp_lexicographic (E : ElemOps α) (s : Bool) (p a b : List α) (x y : α)
    (hp : ∀ z ∈ p, E.pcmp s z z = some .eq) (hxy : E.pcmp s x y ≠ some .eq) :
    (arrayOps E).pcmp s (p ++ x :: a) (p ++ y :: b) = E.pcmp s x y := by
  rw [partial_cmp_agrees]
  induction p with
  | nil =>
    simp only [List.nil_append, slicePcmp]
  | cons z p ih =>
    have hz := hp z (by simp)
    simp only [List.cons_append, slicePcmp, hz]
    exact ih (fun w hw => hp w (by simp [hw]))

/-- an array with an irreflexive element (NaN) is not equal to itself, exactly like its slice -/
theorem eq_irreflexive_elem (E : ElemOps α) (s : Bool) (p a : List α) (x : α)
    (hx : E.eq s x x = false) : (arrayOps E).eq s (p ++ x :: a) (p ++ x :: a) = false := by
  rw [eq_agrees]
  induction p with
  | nil => simp [sliceEq, hx]
  | cons z p ih => simp [sliceEq, ih]

theorem eq_length (E : ElemOps α) (s : Bool) (a b : List α) (h : sliceEq E s a b = true) : a.length = b.length := by
  induction a generalizing b with
  | nil => cases b <;> simp_all [sliceEq]
  | cons x a ih =>
    cases b with
    | nil => simp [sliceEq] at h
    | cons y b => simp only [sliceEq, Bool.and_eq_true] at h; simp [ih b h.2]

/-- the `Hash`/`Eq` law lifts from the elements to arrays: equal arrays feed equal streams -/
theorem hash_respects_eq (E : ElemOps α) (s : Bool) (hE : ∀ x y, E.eq s x y = true → E.hash x = E.hash y)
    (a b : List α) (h : (arrayOps E).eq s a b = true) : (arrayOps E).hash a = (arrayOps E).hash b := by
  rw [eq_agrees] at h
  rw [hash_agrees, hash_agrees, eq_length E s a b h]
  congr 1
  induction a generalizing b with
  | nil => cases b <;> simp_all [sliceEq]
  | cons x a ih =>
    cases b with
    | nil => simp [sliceEq] at h
    | cons y b =>
      simp only [sliceEq, Bool.and_eq_true] at h
      simp only [List.flatMap_cons, hE x y h.1, ih b h.2]

/-! ### map lookups through `Borrow<[T]>` -/

/-- the same lookup in a map keyed by the slices themselves -/
def sliceMapGet (E : ElemOps α) (keys : List (List α)) (q : List α) : Option Nat :=
  keys.findIdx? fun k => decide (sliceHash E k = sliceHash E q) && sliceEq E false k q

/-- a `HashMap` keyed by arrays, queried with a `&[T]`, answers exactly as a map keyed by the slices -/
theorem hashmap_lookup_by_slice (E : ElemOps α) (keys : List (List α)) (q : List α) :
    hashMapGet E keys q = sliceMapGet E keys q := by
  unfold hashMapGet sliceMapGet borrowView
  simp only [arrayOps, ga_bridge, if_true]

theorem btree_lookup_by_slice (E : ElemOps α) (keys : List (List α)) (q : List α) :
    btreeGet E keys q = keys.findIdx? (fun k => sliceCmp E false k q == .eq) := by
  unfold btreeGet borrowView
  simp only [ga_bridge, if_true]

theorem sliceEq_refl (E : ElemOps α) (k : List α) (hr : ∀ x ∈ k, E.eq false x x = true) : sliceEq E false k k = true := by
  induction k with
  | nil => rfl
  | cons x k ih => simp [sliceEq, hr x (by simp), ih (fun y hy => hr y (by simp [hy]))]

/-- a stored key with reflexive elements is found through its borrowed form, at an entry equal to it -/
theorem hashmap_finds_stored (E : ElemOps α) (keys : List (List α)) (k : List α) (hk : k ∈ keys)
    (hr : ∀ x ∈ k, E.eq false x x = true) :
    ∃ i, hashMapGet E keys k = some i ∧ ∃ h : i < keys.length, sliceEq E false keys[i] k = true := by
  rw [hashmap_lookup_by_slice]
  unfold sliceMapGet
  have hex : ∃ x ∈ keys, (decide (sliceHash E x = sliceHash E k) && sliceEq E false x k) = true :=
    ⟨k, hk, by simp [sliceEq_refl E k hr]⟩
  cases hf : keys.findIdx? (fun k' => decide (sliceHash E k' = sliceHash E k) && sliceEq E false k' k) with
  | none =>
    rw [List.findIdx?_eq_none_iff] at hf
    obtain ⟨x, hx, hp⟩ := hex
    have := hf x hx
    simp_all
  | some i =>
    rw [List.findIdx?_eq_some_iff_getElem] at hf
    obtain ⟨hlt, hp, _⟩ := hf
    simp only [Bool.and_eq_true] at hp
    exact ⟨i, rfl, hlt, hp.2⟩

/-! ### non-vacuity (the concrete element types of the engine) -/
def f (q : Option Int) : LeafV := ⟨.f64 q, "", ""⟩
def i (v : Int) : LeafV := ⟨.i32 v, toString v, toString v⟩
example : (arrayOps leafOps).eq true [f (some 4), f none] [f (some 4), f none] = false := by decide
example : (arrayOps leafOps).pcmp true [f (some 4), f none] [f (some 4), f none] = none := by decide
example : (arrayOps leafOps).pcmp false [f (some 4), f none] [f (some 8), f none] = some .lt := by decide
example : (arrayOps leafOps).cmp false [i 1, i 2] [i 1, i 3] = .lt := by decide
example : (arrayOps leafOps).hash [i 1, i (-1)] =
    [.len 2, .byte 1, .byte 0, .byte 0, .byte 0, .byte 255, .byte 255, .byte 255, .byte 255] := by decide
example : (arrayOps (arrayOps leafOps)).hash [[i 1], [i 2]] =
    [.len 2, .len 1, .byte 1, .byte 0, .byte 0, .byte 0, .len 1, .byte 2, .byte 0, .byte 0, .byte 0] := by decide
example : hashMapGet leafOps [[i 1, i 2], [i 3, i 4]] [i 3, i 4] = some 1 := by decide

end GA.Props.C13

#print axioms GA.Props.C13.arrayOps_eq_sliceOps
#print axioms GA.Props.C13.nested_agrees
#print axioms GA.Props.C13.eq_agrees
#print axioms GA.Props.C13.partial_cmp_agrees
#print axioms GA.Props.C13.cmp_agrees
#print axioms GA.Props.C13.hash_agrees
#print axioms GA.Props.C13.debug_agrees
#print axioms GA.Props.C13.pcmp_lexicographic
#print axioms GA.Props.C13.eq_irreflexive_elem
#print axioms GA.Props.C13.hash_respects_eq
#print axioms GA.Props.C13.hashmap_lookup_by_slice
#print axioms GA.Props.C13.btree_lookup_by_slice
#print axioms GA.Props.C13.hashmap_finds_stored
