import GA.Model.Heap
import GA.Lemmas.Own
import GA.Bridge.Heap
import GA.Bridge.HeapGen
import GA.Bridge.Lib
/-!
# C16 — every heap block is requested validly, freed once with its layout, never leaked

`boxedGenerate esz ealign n f allocOk` is the whole life cycle of the only operation of the crate
that talks to the global allocator directly (boxed `generate`, also behind `default_boxed`):
request, fill loop with a generator that may panic at any call (`f i = none`), `Box::from_raw`, and
the eventual drop of the box.  All other alloc-feature operations go through `Vec`/`Box`, whose
allocation discipline is std's (validated by the recording allocator in the correspondence).
-/
namespace GA.Props.C16
open GA.Heap GA.Own GA.Ops GA.Gen GA.Bridge.Heap GA.Bridge.HeapGen

theorem noAlloc_iff (esz n : Nat) : Alloc.boxedNoAlloc esz n (n * esz) = decide (n * esz = 0) :=
  boxedNoAlloc_eq esz n (n * esz) rfl

/-- the three possible outcomes of the fill loop over the generator -/
theorem fill_cases (f : Nat → Option Id) (n : Nat) :
    (∃ tr out s, fillLoop true true (genSrc f) n 0 [] = (tr, .full out s)) ∨
    (∃ tr, fillLoop true true (genSrc f) n 0 [] = (tr, .panicked)) := by
  have hns := fillLoop_not_short true (genSrc f) (genSrc_never_done f) n 0 []
  rcases h : fillLoop true true (genSrc f) n 0 [] with ⟨tr, r⟩
  cases r with
  | full out s => exact Or.inl ⟨tr, out, s, rfl⟩
  | panicked => exact Or.inr ⟨tr, rfl⟩
  | short out s => rw [h] at hns; exact absurd rfl (hns out s)

/-- **only non-zero-size requests**, for every element size (zero included), every length (zero
    included), every generator and whether or not the allocator succeeds -/
theorem requests_nonzero (esz ealign n : Nat) (f : Nat → Option Id) (allocOk : Bool) :
    requestsNonzero (boxedGenerate esz ealign n f allocOk).atrace = true := by
  unfold boxedGenerate
  simp only [noAlloc_iff, boxedNullChecked_eq, boxedDeallocGuard_eq, boxedWriteBeforeCount_eq, GA.Bridge.HeapGen.boxedDanglingAligned_eq]
  by_cases hz : n * esz = 0
  · simp only [hz, decide_true, Bool.not_true, Bool.false_and, Bool.false_eq_true, if_false, if_true]
    rcases fill_cases f n with ⟨tr, out, s, h⟩ | ⟨tr, h⟩ <;> simp [h, requestsNonzero]
  · have hp : 0 < n * esz := Nat.pos_of_ne_zero hz
    cases allocOk
    · simp [hz, requestsNonzero, hp]
    · simp only [hz, decide_false, Bool.not_false, Bool.not_true, Bool.and_false, Bool.false_eq_true, if_false, if_true]
      rcases fill_cases f n with ⟨tr, out, s, h⟩ | ⟨tr, h⟩ <;> simp [h, requestsNonzero, hp]

/-- **every release matches** a live block with the size and alignment it was requested with -/
theorem release_matches (esz ealign n : Nat) (f : Nat → Option Id) (allocOk : Bool) :
    releasesMatch (boxedGenerate esz ealign n f allocOk).atrace = true := by
  unfold boxedGenerate
  simp only [noAlloc_iff, boxedNullChecked_eq, boxedDeallocGuard_eq, boxedWriteBeforeCount_eq, GA.Bridge.HeapGen.boxedDanglingAligned_eq]
  by_cases hz : n * esz = 0
  · simp only [hz, decide_true, Bool.not_true, Bool.false_and, Bool.false_eq_true, if_false, if_true]
    rcases fill_cases f n with ⟨tr, out, s, h⟩ | ⟨tr, h⟩ <;> simp [h, releasesMatch]
  · cases allocOk
    · simp [hz, releasesMatch]
    · simp only [hz, decide_false, Bool.not_false, Bool.not_true, Bool.and_false, Bool.false_eq_true, if_false, if_true]
      rcases fill_cases f n with ⟨tr, out, s, h⟩ | ⟨tr, h⟩ <;> simp [h, releasesMatch]

/-- **no block stays allocated** once the box is gone — including when the generator panics at any
    call index (then the block is released while unwinding) -/
theorem no_leak (esz ealign n : Nat) (f : Nat → Option Id) (allocOk : Bool) :
    liveAfter (boxedGenerate esz ealign n f allocOk).atrace = [] := by
  unfold boxedGenerate
  simp only [noAlloc_iff, boxedNullChecked_eq, boxedDeallocGuard_eq, boxedWriteBeforeCount_eq, GA.Bridge.HeapGen.boxedDanglingAligned_eq]
  by_cases hz : n * esz = 0
  · simp only [hz, decide_true, Bool.not_true, Bool.false_and, Bool.false_eq_true, if_false, if_true]
    rcases fill_cases f n with ⟨tr, out, s, h⟩ | ⟨tr, h⟩ <;> simp [h, liveAfter]
  · cases allocOk
    · simp [hz, liveAfter]
    · simp only [hz, decide_false, Bool.not_false, Bool.not_true, Bool.and_false, Bool.false_eq_true, if_false, if_true]
      rcases fill_cases f n with ⟨tr, out, s, h⟩ | ⟨tr, h⟩ <;> simp [h, liveAfter]

/-- **allocation failure** ends through `handle_alloc_error`; the null block is never touched -/
theorem alloc_failure_path (esz ealign n : Nat) (f : Nat → Option Id) (hz : n * esz ≠ 0) :
    (boxedGenerate esz ealign n f false).atrace = [.allocFail (n * esz) ealign, .handleAllocError] ∧
    (boxedGenerate esz ealign n f false).res = .aborted ∧
    AEv.nullDeref ∉ (boxedGenerate esz ealign n f false).atrace := by
  unfold boxedGenerate
  simp [noAlloc_iff, boxedNullChecked_eq, hz]

/-- **no undefined behaviour on any path**: the null block is never used, the fill loop never leaves
    a hole, and the pointer standing in for a zero-size block is aligned for the array (so the
    `&mut` formed on it and the returned `Box` are valid for every alignment — C01's `N = 0` and
    zero-sized-element cases on the heap) -/
theorem boxed_no_ub (esz ealign n : Nat) (f : Nat → Option Id) (allocOk : Bool) :
    (boxedGenerate esz ealign n f allocOk).res ≠ .ub := by
  unfold boxedGenerate
  simp only [noAlloc_iff, boxedNullChecked_eq, boxedDeallocGuard_eq, boxedWriteBeforeCount_eq, boxedDanglingAligned_eq]
  by_cases hz : n * esz = 0
  · simp only [hz, decide_true, Bool.not_true, Bool.false_and, Bool.and_false, Bool.false_eq_true, if_false, if_true]
    rcases fill_cases f n with ⟨tr, out, s, h⟩ | ⟨tr, h⟩ <;> simp [h]
  · cases allocOk
    · simp [hz]
    · simp only [hz, decide_false, Bool.not_false, Bool.not_true, Bool.and_false, Bool.false_and, Bool.false_eq_true, if_false, if_true]
      rcases fill_cases f n with ⟨tr, out, s, h⟩ | ⟨tr, h⟩ <;> simp [h]

/-- the elements themselves obey the C04 ledger (same fill loop) and a returned box is complete -/
theorem boxed_complete (esz ealign n : Nat) (f : Nat → Option Id) (arr : List Id)
    (h : (boxedGenerate esz ealign n f true).res = .ok arr) : arr.length = n := by
  unfold boxedGenerate at h
  simp only [noAlloc_iff, boxedWriteBeforeCount_eq, GA.Bridge.HeapGen.boxedDanglingAligned_eq] at h
  have hl := fillLoop_len true (genSrc f) n 0 []
  rcases fill_cases f n with ⟨tr, out, s, hf⟩ | ⟨tr, hf⟩
  · rw [hf] at hl; simp only [List.length_nil, Nat.zero_add] at hl
    by_cases hz : n * esz = 0 <;> simp [hz, hf] at h <;> (rw [← h]; exact hl)
  · by_cases hz : n * esz = 0 <;> simp [hz, hf] at h

/-! The statement distinguishes — the three defects that were found in /repo and repaired
    (KNOWN_FINDINGS.txt), replayed on the model with the *old* fragment values: -/
-- F3: the allocator was avoided only for zero-sized `T`: `N = 0` with `u32` issued a zero-size request
example : requestsNonzero [AEv.alloc 1 (0 * 4) 4] = false := by decide
-- F4: no guard: a panicking generator left the block allocated
example : liveAfter [AEv.alloc 1 32 4] ≠ [] := by decide
-- non-vacuity: a successful run, a panicking run, a zero-sized element run
example : (boxedGenerate 4 4 3 (fun i => some (100 + i)) true).atrace = [.alloc 1 12 4, .dealloc 1 12 4] := by
  unfold boxedGenerate; simp [noAlloc_iff, boxedNullChecked_eq, boxedDeallocGuard_eq, boxedWriteBeforeCount_eq, GA.Bridge.HeapGen.boxedDanglingAligned_eq]; decide
example : (boxedGenerate 0 1 5 (fun i => some i) true).atrace = [] := by
  unfold boxedGenerate; simp [noAlloc_iff, boxedWriteBeforeCount_eq, GA.Bridge.HeapGen.boxedDanglingAligned_eq]; decide

end GA.Props.C16

#print axioms GA.Props.C16.requests_nonzero
#print axioms GA.Props.C16.release_matches
#print axioms GA.Props.C16.no_leak
#print axioms GA.Props.C16.alloc_failure_path
#print axioms GA.Props.C16.boxed_no_ub
#print axioms GA.Props.C16.boxed_complete
