import GA.Lemmas.Layout
/-!
# C01 — memory layout identical to `[T; N]` for every element layout and every length

`storage`/`wrapper` interpret the struct descriptors regenerated from src/lib.rs
(`GA.Gen.Layout`) with the Rust Reference's `repr(C)` / `repr(transparent)` rules.
-/
namespace GA.Props.C01
open GA.Layout GA.Gen GA.Bridge.Layout

/-- **Layout of the recursive storage**, by induction on the type-level binary digits: for every
    element layout (`0 < align`, `align ∣ size` — true of every Rust type, including ZSTs and
    over-aligned types) and every length, the storage has size `N * size_of::<T>()` and `T`'s
    alignment.  Includes `N = 0` (the `[T; 0]` base case keeps `T`'s alignment). -/
theorem storage_layout (t : Lay) (ha : 0 < t.align) (hs : t.align ∣ t.size) (d : Digits) :
    storage t d = some ⟨d.val * t.size, t.align⟩ := by
  induction d with
  | term => simp [storage, termLay, termStorage_eq, Digits.val]
  | b0 d ih =>
    have hd : t.align ∣ d.val * t.size := Nat.dvd_mul_left_of_dvd hs _
    simp only [storage, ih, Option.bind_some, nodeLay, b0Node_eq, evenRepr_eq, if_true]
    rw [reprC_nopad t ⟨d.val * t.size, t.align⟩ ha hs rfl hd _ (by rw [even_children]; omega), even_children, even_elems]
    simp only [Digits.val]
    congr 2; rw [Nat.zero_mul, Nat.add_zero, Nat.mul_assoc]
  | b1 d ih =>
    have hd : t.align ∣ d.val * t.size := Nat.dvd_mul_left_of_dvd hs _
    simp only [storage, ih, Option.bind_some, nodeLay, b1Node_eq, oddRepr_eq, if_true]
    rw [reprC_nopad t ⟨d.val * t.size, t.align⟩ ha hs rfl hd _ (by rw [odd_children]; omega), odd_children, odd_elems]
    simp only [Digits.val]
    congr 2; rw [Nat.add_mul, Nat.mul_assoc]

/-- `GenericArray<T, N>` is a transparent wrapper: exactly the size and alignment of `[T; N]`. -/
theorem wrapper_layout (t : Lay) (ha : 0 < t.align) (hs : t.align ∣ t.size) (d : Digits) :
    wrapper t d = some ⟨d.val * t.size, t.align⟩ := by
  simp only [wrapper, wrapperRepr_eq, wrapperSingle_eq, Bool.and_self, decide_true, if_true]
  exact storage_layout t ha hs d

/-- every natural number is a length (`Digits.ofNat` is typenum's normal form) -/
theorem ofNat_val (n : Nat) : (Digits.ofNat n).val = n := by
  induction n using Nat.strongRecOn with
  | _ n ih =>
    cases n with
    | zero => simp [Digits.ofNat, Digits.val]
    | succ n =>
      rw [Digits.ofNat]
      split
      · simp only [Digits.val]; rw [ih _ (by omega)]; omega
      · simp only [Digits.val]; rw [ih _ (by omega)]; omega

theorem layout_all_lengths (t : Lay) (ha : 0 < t.align) (hs : t.align ∣ t.size) (n : Nat) :
    wrapper t (Digits.ofNat n) = some ⟨n * t.size, t.align⟩ := by
  rw [wrapper_layout t ha hs, ofNat_val]

/-- Element `i` through the slice view lies wholly inside the object: the slice view
    (`base = self`, length `N`, stride `size_of::<T>()`) covers exactly the object's `N * size`
    bytes, so it touches no padding and nothing outside. -/
theorem elem_within (t : Lay) (n i : Nat) (hi : i < Layout.asSliceLen n) :
    elemOffset t i + t.size ≤ n * t.size ∧ Layout.asSliceLen n * t.size = n * t.size ∧
    Layout.asSliceBaseIsSelf = true ∧ Layout.asMutSliceLen n = n ∧ Layout.asMutSliceBaseIsSelf = true := by
  simp only [ga_bridge] at *
  refine ⟨?_, trivial, trivial, trivial, trivial⟩
  unfold elemOffset
  calc i * t.size + t.size = (i + 1) * t.size := by rw [Nat.add_mul, Nat.one_mul]
    _ ≤ n * t.size := Nat.mul_le_mul_right _ hi

/-- distinct elements occupy disjoint byte ranges (no overlap, `size > 0`) -/
theorem elems_disjoint (t : Lay) (i j : Nat) (h : i < j) :
    elemOffset t i + t.size ≤ elemOffset t j := by
  unfold elemOffset
  calc i * t.size + t.size = (i + 1) * t.size := by rw [Nat.add_mul, Nat.one_mul]
    _ ≤ j * t.size := Nat.mul_le_mul_right _ h

/-! The statement distinguishes: the historical bug shape (a base case with alignment 1 instead
    of `[T; 0]`) violates it at `T = u32`, `N = 0`; and a node with an extra 1-byte field is padded. -/
example : termLay ⟨4, 4⟩ .unit ≠ ⟨0 * 4, 4⟩ := by decide
example : reprC ([.child, .child, .elem, .elem].map (fieldLay ⟨4, 4⟩ ⟨4, 4⟩)) ≠ ⟨3 * 4, 4⟩ := by decide
-- hypotheses are satisfiable: a padded tuple `(u8, u16)` (size 4, align 2) at N = 5 = 0b101
example : wrapper ⟨4, 2⟩ (.b1 (.b0 (.b1 .term))) = some ⟨20, 2⟩ := by decide
example : wrapper ⟨0, 64⟩ (Digits.ofNat 1000) = some ⟨0, 64⟩ :=
  layout_all_lengths ⟨0, 64⟩ (by decide) (by decide) 1000

end GA.Props.C01

#print axioms GA.Props.C01.storage_layout
#print axioms GA.Props.C01.wrapper_layout
#print axioms GA.Props.C01.layout_all_lengths
#print axioms GA.Props.C01.elem_within
#print axioms GA.Props.C01.elems_disjoint
