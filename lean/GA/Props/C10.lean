import GA.Model.Mem
import GA.Bridge.Mem
/-!
# C10 — chunk regrouping partitions a slice exactly, without copying

Views are `(element offset, count)` relative to the source slice.  A chunk slice of `c` arrays of
`N` elements starting at offset `o` covers elements `[o, o + c*N)`.
-/
namespace GA.Props.C10
open GA.Mem GA.Gen

/-- **`chunks_from_slice`, `N > 0`**: `⌊L/N⌋` chunks starting at the source's own address, then a
    remainder of `L mod N` elements starting right after them and ending exactly at the end of the
    source — same memory, same order, no overlap, nothing beyond the end. -/
theorem chunks_partition (len n : Nat) (hn : 0 < n) :
    ∃ c r, chunksFromSlice len n = .ok c r ∧
      c.off = 0 ∧ c.len = len / n ∧ r.len = len % n ∧
      r.off = c.off + c.len * n ∧        -- adjacent, disjoint
      r.off + r.len = len ∧              -- covers the source, nothing beyond the end
      c.len * n + r.len = len := by
  refine ⟨⟨0, len / n⟩, ⟨len / n * n, len - len / n * n⟩, ?_, rfl, rfl, ?_, by simp, ?_, ?_⟩
  · unfold chunksFromSlice
    have h0 : ¬ n = 0 := by omega
    simp only [ga_bridge, h0, decide_false, Bool.false_eq_true, if_false, Bridge.Mem.chunksOk_of len n hn, Bool.not_true]
  · have := Nat.div_add_mod len n
    have h2 : len / n * n = n * (len / n) := Nat.mul_comm _ _
    simp only []; omega
  · have := Nat.div_mul_le_self len n
    simp only []; omega
  · have := Nat.div_mul_le_self len n
    simp only []; omega

/-- the mutable form computes the same partition -/
theorem chunks_mut_same (len n : Nat) : chunksFromSliceMut len n = chunksFromSlice len n := by
  unfold chunksFromSliceMut chunksFromSlice
  simp only [ga_bridge]
  by_cases h : n = 0
  · simp [h]
  · have hn : 0 < n := by omega
    simp only [h, decide_false, Bool.false_eq_true, if_false, Bridge.Mem.chunksOk_of len n hn,
      Bridge.Mem.chunksMutOk_of len n hn, Bool.not_true]

/-- **`N = 0`**: an empty slice gives two empty results, a non-empty one panics — never a division by zero -/
theorem chunks_n_zero (len : Nat) :
    chunksFromSlice len 0 = (if len = 0 then .empties else .panic) := by
  unfold chunksFromSlice
  simp only [ga_bridge, decide_true, if_true]
  by_cases h : len = 0 <;> simp [h]

/-- **`slice_from_chunks` is the inverse**: flattening the chunk slice gives back exactly the
    elements the chunks cover (`k*N` elements from the same address) -/
theorem flat_inverse (len n : Nat) (hn : 0 < n) :
    ∃ c r, chunksFromSlice len n = .ok c r ∧ sliceFromChunks c.len n = ⟨c.off, c.len * n⟩ ∧
      sliceFromChunksMut c.len n = sliceFromChunks c.len n := by
  obtain ⟨c, r, h, hoff, _⟩ := chunks_partition len n hn
  refine ⟨c, r, h, ?_, ?_⟩ <;> simp only [sliceFromChunks, sliceFromChunksMut, ga_bridge, hoff]

/-- and chunking a flat view of `k` arrays gives the `k` arrays back, with no remainder -/
theorem chunks_of_flat (k n : Nat) (hn : 0 < n) :
    chunksFromSlice (sliceFromChunks k n).len n = .ok ⟨0, k⟩ ⟨k * n, 0⟩ := by
  obtain ⟨c, r, h, h1, h2, h3, h4, h5, h6⟩ := chunks_partition (sliceFromChunks k n).len n hn
  have hl : (sliceFromChunks k n).len = k * n := by simp only [sliceFromChunks, ga_bridge]
  rw [hl] at h h2 h3 h5
  rw [Nat.mul_div_cancel _ hn] at h2
  rw [Nat.mul_mod_left] at h3
  rw [hl, h]
  rcases c with ⟨co, cl⟩; rcases r with ⟨ro, rl⟩
  simp only [] at h1 h2 h3 h4 h5
  subst h1 h2 h3
  simp only [Nat.zero_add] at h4
  rw [h4]

/-- `from_chunks` / `into_chunks` and their `_mut` forms keep address and count (reference transmute
    between `[[T; N]]` and `[GenericArray<T, N>]`, whose elements have identical layout by C01),
    and are only typed for `U = N` -/
theorem reinterpret_same (k : Nat) :
    reinterpretChunks Mem.fromChunksIsTransmute Mem.fromChunksLenTied k = some ⟨0, k⟩ ∧
    reinterpretChunks Mem.fromChunksMutIsTransmute Mem.fromChunksMutLenTied k = some ⟨0, k⟩ ∧
    reinterpretChunks Mem.intoChunksIsTransmute Mem.intoChunksLenTied k = some ⟨0, k⟩ ∧
    reinterpretChunks Mem.intoChunksMutIsTransmute Mem.intoChunksMutLenTied k = some ⟨0, k⟩ := by
  simp [reinterpretChunks, ga_bridge]

/-- no overflow in `slice.len() * N` for elements of non-zero size: `k` arrays of `N` elements of
    `s ≥ 1` bytes fit in an object (`≤ isize::MAX` bytes), so `k * N ≤ isize::MAX` -/
theorem flat_len_no_overflow (k n s : Nat) (hs : 0 < s) (hobj : k * (n * s) ≤ 2 ^ 63 - 1) : k * n ≤ 2 ^ 63 - 1 := by
  have : k * n ≤ k * (n * s) := Nat.mul_le_mul_left _ (Nat.le_mul_of_pos_right _ hs)
  omega

-- non-vacuity
example : chunksFromSlice 7 3 = .ok ⟨0, 2⟩ ⟨6, 1⟩ := by decide
example : chunksFromSlice 0 5 = .ok ⟨0, 0⟩ ⟨0, 0⟩ := by decide
example : chunksFromSlice 3 0 = .panic := by decide

end GA.Props.C10

#print axioms GA.Props.C10.chunks_partition
#print axioms GA.Props.C10.chunks_mut_same
#print axioms GA.Props.C10.chunks_n_zero
#print axioms GA.Props.C10.flat_inverse
#print axioms GA.Props.C10.chunks_of_flat
#print axioms GA.Props.C10.reinterpret_same
#print axioms GA.Props.C10.flat_len_no_overflow
