import GA.Model.ArrMac
import GA.Bridge.Arr
import GA.Bridge.Heap
import GA.Bridge.Lib
/-!
# C20 — `arr!` and `box_arr!` build the array their literal syntax denotes
-/
namespace GA.Props.C20
open GA.Arr GA.Gen

theorem tryFromVecOk_same (n : Nat) : tryFromVecOk n n = true := by
  simp [tryFromVecOk, ga_bridge]

/-- `arr![e0, …, ek]` (any number of trailing commas, the empty list included): length = element
    count, values in order, every expression evaluated exactly once, left to right; const-usable -/
theorem arr_list (es : List Expr) (c : Nat) :
    evalArr (.list es c) = some ⟨es.length, es.map (·.val), es.flatMap (·.eff), true⟩ := by
  simp [evalArr, select, ga_bridge, accepts, trailOk, evalTmpl]

/-- `arr![x; N]` with a type-level length: `N` copies, `x` evaluated once; const-usable -/
theorem arr_repeat_ty (x : Expr) (n : Nat) :
    evalArr (.repTy x n) = some ⟨n, List.replicate n x.val, x.eff, true⟩ := by
  simp [evalArr, select, ga_bridge, accepts, evalTmpl]

/-- `arr![x; n]` with a constant length -/
theorem arr_repeat_const (x : Expr) (n : Nat) :
    evalArr (.repConst x n) = some ⟨n, List.replicate n x.val, x.eff, true⟩ := by
  simp [evalArr, select, ga_bridge, accepts, evalTmpl]

/-- all three forms at once: `arr!` yields what the literal denotes, and is const-usable -/
theorem arr_denotes (inv : Inv) :
    ∃ o, evalArr inv = some o ∧ (o.len, o.vals, o.log) = denote inv ∧ o.const = true ∧ o.vals.length = o.len := by
  cases inv with
  | list es c => exact ⟨_, arr_list es c, rfl, rfl, by simp⟩
  | repTy x n => exact ⟨_, arr_repeat_ty x n, rfl, rfl, by simp⟩
  | repConst x n => exact ⟨_, arr_repeat_const x n, rfl, rfl, by simp⟩

/-- `box_arr!` with the same arguments holds an equal array (same length, values, evaluation log);
    in particular the length inferred from the unit array equals the vector's length, so the
    unchecked unwrap in `__from_vec_helper` is never reached with an error -/
theorem box_denotes (inv : Inv) :
    ∃ o, evalBox inv = some o ∧ (o.len, o.vals, o.log) = denote inv := by
  cases inv with
  | list es c =>
    refine ⟨⟨es.length, es.map (·.val), es.flatMap (·.eff), false⟩, ?_, rfl⟩
    simp [evalBox, select, ga_bridge, accepts, trailOk, evalTmpl, tryFromVecOk_same]
  | repTy x n =>
    refine ⟨⟨n, List.replicate n x.val, x.eff, false⟩, ?_, rfl⟩
    simp [evalBox, select, ga_bridge, accepts, evalTmpl, tryFromVecOk_same]
  | repConst x n =>
    refine ⟨⟨n, List.replicate n x.val, x.eff, false⟩, ?_, rfl⟩
    simp [evalBox, select, ga_bridge, accepts, evalTmpl, tryFromVecOk_same]

theorem box_eq_arr (inv : Inv) :
    (evalBox inv).map (fun o => (o.len, o.vals, o.log)) = (evalArr inv).map (fun o => (o.len, o.vals, o.log)) := by
  obtain ⟨a, ha, ha', _⟩ := arr_denotes inv
  obtain ⟨b, hb, hb'⟩ := box_denotes inv
  rw [ha, hb]; simp only [Option.map_some, ha', hb']

/-- exactly-once, in order: the log is the concatenation of the operands' effects — nothing is
    evaluated twice, skipped or reordered -/
theorem list_log_exact (es : List Expr) (c : Nat) (o : Out) (h : evalArr (.list es c) = some o) :
    o.log = (es.map (·.eff)).flatten ∧ o.vals.length = es.length ∧ ∀ i (hi : i < es.length), o.vals[i]? = some es[i].val := by
  rw [arr_list] at h
  cases h
  refine ⟨by simp [List.flatMap_def], by simp, ?_⟩
  intro i hi
  simp [hi]

-- non-vacuity
example : evalArr (.list [⟨10, [0]⟩, ⟨20, [1]⟩, ⟨30, [2]⟩] 1) = some ⟨3, [10, 20, 30], [0, 1, 2], true⟩ := by
  rw [arr_list]; rfl
example : evalBox (.repTy ⟨7, [9]⟩ 4) = some ⟨4, [7, 7, 7, 7], [9], false⟩ := by
  obtain ⟨o, h, h'⟩ := box_denotes (.repTy ⟨7, [9]⟩ 4)
  simp [evalBox, select, ga_bridge, accepts, evalTmpl, tryFromVecOk_same]
example : evalArr (.list [] 0) = some ⟨0, [], [], true⟩ := by rw [arr_list]; rfl

end GA.Props.C20

#print axioms GA.Props.C20.arr_list
#print axioms GA.Props.C20.arr_repeat_ty
#print axioms GA.Props.C20.arr_repeat_const
#print axioms GA.Props.C20.arr_denotes
#print axioms GA.Props.C20.box_denotes
#print axioms GA.Props.C20.box_eq_arr
#print axioms GA.Props.C20.list_log_exact
