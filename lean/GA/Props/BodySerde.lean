import GA.Bridge.BodySerde
import GA.Props.C17
/-!
# C17 on the interpreted body of `visit_seq`

`GA.Gen.Body.visitSeq` is the whole body of `<GAVisitor<T, N> as Visitor>::visit_seq`
(src/impl_serde.rs) — the function every deserialization of a `GenericArray` runs — lowered
statement by statement on every run, with `IntrusiveArrayBuilder::{new, iter_position, finish}`
inlined from their current source.  The theorems state the property for the interpretation of that
body over an arbitrary deserializer script.
-/
namespace GA.Props.BodySerde
open GA.Body GA.Own GA.Bridge.BodyCollect GA.Bridge.BodySerde
open GA.Serde (Step)

/-- the deserializer as the interpreter sees it: the answers of the `next_element` calls (a parse
    error is `Poll.panic`), the two `size_hint` answers -/
def serdeCtx (n : Nat) (s : GA.Serde.Script) : Ctx :=
  { n := n, bad := none, fpan := fun _ => false, cl := fun _ => none,
    src := fun j => pollOf (toSc s) (j - s.k),
    ext := { shint0 := s.hint0, shintEnd := s.hintEnd } }

def sst0 (s : GA.Serde.Script) : St := ⟨⟨[], 0, 0, 0, []⟩, ⟨[], 0, 0, 0, []⟩, false, 0, false, s.k, false, {}⟩

def visitRun (n : Nat) (s : GA.Serde.Script) : List Ev × R × St :=
  runFn (serdeCtx n s) Gen.Body.intrusiveDrop.body Gen.Body.visitSeq [] (sst0 s)

/-- interpreting the regenerated `visit_seq` body = the model's `visitSeq` -/
theorem visit_run (n : Nat) (hn : n < word) (s : GA.Serde.Script) :
    (visitRun n s).1 = (GA.Serde.visitSeq n s).1 ∧ vresOf (visitRun n s).2.1 = some (GA.Serde.visitSeq n s).2 := by
  have h := visitSeq_body n hn s (serdeCtx n s) rfl rfl (by intro j; simp [serdeCtx]) rfl rfl ⟨[], 0, 0, 0, []⟩
  exact ⟨congrArg Prod.fst h, congrArg Prod.snd h⟩

/-- **C17, `Ok` exactly for N elements** — on the interpreted body: accepted iff the up-front hint
    does not contradict `N`, exactly `N` elements are delivered in order, and then the source either
    reports nothing left by its size hint or answers the surplus probe with "nothing" -/
theorem C17_body_ok_iff (n : Nat) (hn : n < word) (h0 he : Option Nat) (steps : List Step) (arr : List Id) :
    vresOf (visitRun n ⟨h0, steps, he, 0⟩).2.1 = some (.ok arr) ↔
      GA.Props.C17.hintAdmits h0 n ∧ arr.length = n ∧ steps.take n = arr.map .elem ∧
        GA.Props.C17.noSurplus he (steps.drop n) := by
  rw [(visit_run n hn ⟨h0, steps, he, 0⟩).2, Option.some.injEq]
  exact GA.Props.C17.ok_iff n h0 he steps arr

/-- **C17, what was read is dropped exactly once on every rejection** (too short, too long, hint
    mismatch, element error at any index) and handed over exactly once on acceptance; no
    never-written slot is touched — on the interpreted body with the regenerated builder destructor -/
theorem C17_body_ledger (n : Nat) (hn : n < word) (s : GA.Serde.Script) :
    ∃ res, vresOf (visitRun n s).2.1 = some res ∧
      (drops (visitRun n s).1 ++ res.ids).Perm (takes (visitRun n s).1) ∧ uninitDrops (visitRun n s).1 = 0 := by
  obtain ⟨h1, h2⟩ := visit_run n hn s
  refine ⟨_, h2, ?_⟩
  rw [h1]
  exact GA.Props.C17.read_ledger n s

/-! Non-vacuity: the interpreter runs the translated body (tests, labelled as tests). -/
example : vresOf (visitRun 2 ⟨some 2, [.elem 7, .elem 8], some 0, 0⟩).2.1 = some (.ok [7, 8]) := by decide
-- one element too many: rejected, both elements read are dropped
example : (visitRun 2 ⟨none, [.elem 7, .elem 8, .elem 9], none, 0⟩).1 =
    [.poll 0, .take 0 7, .poll 1, .take 1 8, .poll 2, .drop 7, .drop 8] := by decide
-- the second element fails to parse: the first is dropped, the error returned
example : (visitRun 3 ⟨none, [.elem 7, .fail, .elem 9], none, 0⟩).1 = [.poll 0, .take 0 7, .poll 1, .panic 1, .drop 7] ∧
    vresOf (visitRun 3 ⟨none, [.elem 7, .fail, .elem 9], none, 0⟩).2.1 = some .err := by decide

end GA.Props.BodySerde

#print axioms GA.Bridge.BodySerde.visitSeq_body
#print axioms GA.Props.BodySerde.C17_body_ok_iff
#print axioms GA.Props.BodySerde.C17_body_ledger
