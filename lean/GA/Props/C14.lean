import GA.Model.Hex
import GA.Bridge.Hex
/-!
# C14 — hex formatting prints exactly the bytes' digits, truncated to the precision
-/
namespace GA.Props.C14
open GA.Hex GA.Gen

theorem hexDigits_nil (u : Bool) : hexDigits u [] = [] := rfl
theorem hexDigits_cons (u : Bool) (c : Nat) (t : List Nat) : hexDigits u (c :: t) = digitsOf u c ++ hexDigits u t := by
  simp [hexDigits]
theorem hexDigits_append (u : Bool) (a b : List Nat) : hexDigits u (a ++ b) = hexDigits u a ++ hexDigits u b := by
  simp [hexDigits]
theorem hexDigits_length (u : Bool) (bs : List Nat) : (hexDigits u bs).length = 2 * bs.length := by
  induction bs with
  | nil => rfl
  | cons c t ih => rw [hexDigits_cons, List.length_append, ih]; simp [digitsOf]; omega

/-- the digits of a prefix of the bytes are a prefix of the digits -/
theorem hexDigits_take (u : Bool) (bs : List Nat) (k : Nat) :
    hexDigits u (bs.take k) = (hexDigits u bs).take (2 * k) := by
  induction bs generalizing k with
  | nil => simp [hexDigits_nil]
  | cons c t ih =>
    cases k with
    | zero => simp [hexDigits_nil]
    | succ k =>
      rw [List.take_succ_cons, hexDigits_cons, hexDigits_cons, ih]
      have hl : (digitsOf u c).length = 2 := by simp [digitsOf]
      rw [List.take_append, hl, List.take_of_length_le (by omega : (digitsOf u c).length ≤ 2 * (k + 1))]
      congr 2

/-- **nibble table**: for every byte value the two characters produced are the standard hexadecimal
    digits of the byte, high nibble first, in the requested case (a complete case analysis over all
    256 byte values and both cases) -/
theorem nibble_table : ∀ c : Fin 256, ∀ u : Bool,
    digitsOf u c.val = [hexChar u (c.val / 16), hexChar u (c.val % 16)] := by decide +kernel

theorem hexDigits_spec (u : Bool) (bs : List Nat) (h : ∀ b ∈ bs, b < 256) : hexDigits u bs = specDigits u bs := by
  induction bs with
  | nil => rfl
  | cons c t ih =>
    have hc : c < 256 := h c (by simp)
    rw [hexDigits_cons, ih (fun b hb => h b (by simp [hb]))]
    have := nibble_table ⟨c, hc⟩ u
    simp only [] at this
    rw [this]; simp [specDigits]

theorem encode_ok (u : Bool) (src dst : List Nat) (h : 2 * src.length ≤ dst.length) :
    encode u src dst = some (hexDigits u src ++ dst.drop (2 * src.length)) ∧
    (hexDigits u src ++ dst.drop (2 * src.length)).length = dst.length := by
  unfold encode
  simp only [h, if_true, List.length_append, hexDigits_length, List.length_drop]
  exact ⟨trivial, by omega⟩

theorem chunksOf_props (k : Nat) (hk : 0 < k) (fuel : Nat) (l : List Nat) (hf : l.length ≤ fuel) :
    (chunksOf k fuel l).flatten = l ∧ ∀ c ∈ chunksOf k fuel l, c.length ≤ k := by
  induction fuel generalizing l with
  | zero =>
    have : l = [] := List.eq_nil_of_length_eq_zero (by omega)
    subst this; simp [chunksOf]
  | succ fuel ih =>
    cases l with
    | nil => simp [chunksOf]
    | cons x t =>
      obtain ⟨h1, h2⟩ := ih ((x :: t).drop k) (by simp only [List.length_drop, List.length_cons] at *; omega)
      simp only [chunksOf, List.flatten_cons, h1, List.take_append_drop, List.mem_cons]
      refine ⟨trivial, ?_⟩
      intro c hc
      rcases hc with rfl | hc
      · simp [List.length_take]; omega
      · exact h2 c hc

/-- the chunk loop with a reused buffer and a running digit budget prints exactly the first `dl`
    digits of the concatenated chunks — stale digits left in the buffer by earlier chunks are never
    printed, and no slice leaves the buffer -/
theorem largeLoop_spec (u : Bool) (chunks : List (List Nat)) (buf : List Nat) (dl : Nat)
    (hfit : ∀ c ∈ chunks, 2 * c.length ≤ buf.length) :
    largeLoop u chunks buf dl = some ((hexDigits u chunks.flatten).take dl) := by
  induction chunks generalizing buf dl with
  | nil => simp [largeLoop, hexDigits_nil]
  | cons ch rest ih =>
    have hch : 2 * ch.length ≤ buf.length := hfit ch (by simp)
    obtain ⟨e1, e2⟩ := encode_ok u ch buf hch
    simp only [largeLoop, e1, ga_bridge]
    have hlen : min (2 * ch.length) dl ≤ (hexDigits u ch ++ buf.drop (2 * ch.length)).length := by rw [e2]; omega
    have hle : min (2 * ch.length) dl ≤ dl := Nat.min_le_right _ _
    simp only [hlen, hle, and_self, if_true]
    rw [ih _ _ (fun c hc => by rw [e2]; exact hfit c (by simp [hc]))]
    simp only [List.flatten_cons, hexDigits_append]
    have hH : (hexDigits u ch).length = 2 * ch.length := hexDigits_length u ch
    rw [List.take_append_of_le_length (by rw [hH]; exact Nat.min_le_left _ _), List.take_append, hH]
    by_cases hc : 2 * ch.length ≤ dl
    · rw [Nat.min_eq_left hc, List.take_of_length_le (by omega : (hexDigits u ch).length ≤ 2 * ch.length),
        List.take_of_length_le (by omega : (hexDigits u ch).length ≤ dl)]
    · have hm : min (2 * ch.length) dl = dl := Nat.min_eq_right (by omega)
      rw [hm]
      have z1 : dl - dl = 0 := by omega
      have z2 : dl - 2 * ch.length = 0 := by omega
      rw [z1, z2]

theorem digitBudget_eq (n : Nat) (prec : Option Nat) : digitBudget n prec = min (prec.getD (2 * n)) (2 * n) := by
  unfold digitBudget
  cases prec with
  | none => simp [ga_bridge]
  | some p => simp only [ga_bridge, decide_eq_true_eq, Option.getD_some]; split <;> omega

/-- **main theorem**: for every byte string, every precision (or none) and both cases, `{:x}` / `{:X}`
    print exactly the first `min(p, 2N)` characters of the two-digits-per-byte string, on all three
    strategies — for the thresholds the source currently has, whatever they are, as long as a chunk's
    digits fit the reused buffer (`0 < chunkLen`, `2 * chunkLen ≤ largeBufLen`). -/
theorem hex_spec (u : Bool) (bytes : List Nat) (prec : Option Nat) :
    genericHex u bytes prec =
      some ((hexDigits u bytes).take (min (prec.getD (2 * bytes.length)) (2 * bytes.length))) := by
  unfold genericHex
  simp only [ga_bridge, Bridge.Hex.maxBytes_eq]
  -- the digit budget
  have hmd_eq : digitBudget bytes.length prec = min (prec.getD (2 * bytes.length)) (2 * bytes.length) :=
    digitBudget_eq bytes.length prec
  generalize digitBudget bytes.length prec = md at *
  have hmd_le : md ≤ 2 * bytes.length := by omega
  have hmb : (md + 1) / 2 ≤ bytes.length := by omega
  have hg : ¬ ((md + 1) / 2 > bytes.length) := by omega
  simp only [hg, decide_false, Bool.false_eq_true, if_false]
  have hinput : hexDigits u (bytes.take ((md + 1) / 2)) = (hexDigits u bytes).take (2 * ((md + 1) / 2)) := hexDigits_take u bytes _
  have htake : ((hexDigits u bytes).take (2 * ((md + 1) / 2))).take md = (hexDigits u bytes).take md := by
    rw [List.take_take]; congr 1; omega
  rw [← hmd_eq]
  by_cases hsmall : Hex.smallPath bytes.length = true
  · simp only [hsmall, if_true]
    by_cases htiny : Hex.tinyPath bytes.length = true
    · simp only [htiny, if_true]
      obtain ⟨e1, e2⟩ := encode_ok u bytes (List.replicate (2 * bytes.length) 0) (by simp)
      simp only [e1, e2, List.length_replicate, hmd_le, if_true]
      rw [List.take_append_of_le_length (by rw [hexDigits_length]; exact hmd_le)]
    · simp only [htiny, Bool.false_eq_true, if_false]
      have hil : (bytes.take ((md + 1) / 2)).length = (md + 1) / 2 := by simp [List.length_take]; omega
      obtain ⟨e1, e2⟩ := encode_ok u (bytes.take ((md + 1) / 2)) (List.replicate (2 * bytes.length) 0)
        (by simp only [hil, List.length_replicate]; omega)
      simp only [e1, e2, List.length_replicate, hmd_le, if_true]
      rw [List.take_append_of_le_length (by rw [hexDigits_length, hil]; omega), hinput, htake]
  · simp only [hsmall, Bool.false_eq_true, if_false]
    obtain ⟨c1, c2⟩ := chunksOf_props Hex.chunkLen Bridge.Hex.chunk_pos (bytes.take ((md + 1) / 2)).length
      (bytes.take ((md + 1) / 2)) (Nat.le_refl _)
    rw [largeLoop_spec u _ _ md (fun c hc => by
      have := c2 c hc
      have := Bridge.Hex.chunk_fits
      simp only [List.length_replicate]; omega)]
    rw [c1, hinput, htake]

/-- the input slice `&arr[..max_bytes]` is always within the array: the `unreachable_unchecked`
    guard can never be reached -/
theorem input_within (n : Nat) (prec : Option Nat) :
    Hex.inputGuardFails (Hex.maxBytes (digitBudget n prec)) n = false := by
  rw [digitBudget_eq]
  simp only [ga_bridge, Bridge.Hex.maxBytes_eq, decide_eq_false_iff_not]
  omega

/-- in terms of the format specification: `{:02x}` per byte, truncated -/
theorem hex_format_spec (u : Bool) (bytes : List Nat) (hb : ∀ b ∈ bytes, b < 256) (prec : Option Nat) :
    genericHex u bytes prec = some ((specDigits u bytes).take (min (prec.getD (2 * bytes.length)) (2 * bytes.length))) := by
  rw [hex_spec, hexDigits_spec u bytes hb]

/-- the output does not depend on which encoder satisfies the `encode` contract (table fallback or
    the SIMD encoder of the `faster-hex` feature): the model is parametric in nothing else -/
theorem feature_independent (u : Bool) (bytes : List Nat) (prec : Option Nat) (out : List Nat)
    (h : genericHex u bytes prec = some out) : out.length = min (prec.getD (2 * bytes.length)) (2 * bytes.length) := by
  rw [hex_spec] at h
  cases h
  rw [List.length_take, hexDigits_length]; omega

-- non-vacuity: odd precision ends on a high nibble; precision 0; no precision
example : genericHex false [10, 20, 30] (some 3) = some [48, 97, 49] := by decide        -- "0a1"
example : genericHex true [255, 1] none = some [70, 70, 48, 49] := by decide              -- "FF01"
example : genericHex false [10, 20, 30] (some 0) = some [] := by decide

end GA.Props.C14

#print axioms GA.Props.C14.nibble_table
#print axioms GA.Props.C14.hex_spec
#print axioms GA.Props.C14.hex_format_spec
#print axioms GA.Props.C14.largeLoop_spec
#print axioms GA.Props.C14.input_within
#print axioms GA.Props.C14.feature_independent
