import GA.Bridge.BodyClone
import GA.Props.C04
import GA.Props.C08
/-!
# C04 / C08 on the interpreted body of `Clone for GenericArray`

`GA.Gen.Body.gaClone` is `self.map(Clone::clone)` (src/impls.rs) with the trait-default
`FunctionalSequence::map` (src/functional.rs) it resolves to for `&GenericArray`, the
`IntoIterator for &GenericArray` (src/lib.rs), `from_iter`, `try_from_iter` and the builder
inlined from their current source and lowered statement by statement on every run.
-/
namespace GA.Props.BodyClone
open GA.Body GA.Own GA.Bridge.BodyCollect GA.Bridge.BodyClone

def cloneCtx (n : Nat) (f : Nat → Option Id) : Ctx :=
  { n := n, bad := none, fpan := fun _ => false, cl := f }

def cst0 (xs : List Id) : St := ⟨⟨xs, 0, 0, 0, []⟩, ⟨[], 0, 0, 0, []⟩, false, 0, false, 0, false, {}⟩

def cloneRun (f : Nat → Option Id) (xs : List Id) : List Ev × R × St :=
  runFn (cloneCtx xs.length f) Gen.Body.intrusiveDrop.body Gen.Body.gaClone [] (cst0 xs)

theorem clone_run (f : Nat → Option Id) (xs : List Id) (hw : xs.length < word) :
    (cloneRun f xs).1 = (GA.Ops.cloneOp f xs).1 ∧ resOf (cloneRun f xs).2.1 = some (GA.Ops.cloneOp f xs).2 := by
  have h := gaClone_body xs hw (cloneCtx xs.length f) rfl rfl 0
  exact ⟨congrArg Prod.fst h, congrArg Prod.snd h⟩

/-- **C08: `Clone` calls `T::clone` on `a[0], a[1], …` once each, in order, and stores clone `i` at
    position `i`** — on the interpreted body -/
theorem C08_body_array_clone (g : Nat → Id) (xs : List Id) (hw : xs.length < word) :
    resOf (cloneRun (fun i => some (g i)) xs).2.1 = some (.ok ((List.range xs.length).map g)) ∧
    GA.Func.args (cloneRun (fun i => some (g i)) xs).1 = (List.range xs.length).zip xs := by
  obtain ⟨h1, h2⟩ := clone_run (fun i => some (g i)) xs hw
  obtain ⟨a, b⟩ := GA.Props.C08.clone_spec g xs
  exact ⟨by rw [h2]; exact congrArg some a, by rw [h1]; exact b⟩

/-- **C04: whichever `T::clone` call panics**, every clone made so far is dropped exactly once, the
    source array is left alone (nothing of it is given away or dropped), and no never-written slot
    is dropped or returned -/
theorem C04_body_array_clone (f : Nat → Option Id) (xs : List Id) (hw : xs.length < word) :
    ∃ res, resOf (cloneRun f xs).2.1 = some res ∧
      (gives (cloneRun f xs).1 ++ drops (cloneRun f xs).1 ++ res.ids).Perm (takes (cloneRun f xs).1) ∧
      uninitDrops (cloneRun f xs).1 = 0 := by
  obtain ⟨h1, h2⟩ := clone_run f xs hw
  refine ⟨_, h2, ?_⟩
  rw [h1]
  obtain ⟨hp, hu⟩ := GA.Props.C04.clone_ledger f xs
  exact ⟨by simpa using hp, hu⟩

/-! Non-vacuity (tests, labelled as tests). -/
example : resOf (cloneRun (fun i => some (100 + i)) [1, 2, 3]).2.1 = some (.ok [100, 101, 102]) := by decide
-- `clone` panics on the third element: the two clones are dropped, the source is untouched
example : (cloneRun (fun i => if i = 2 then none else some (100 + i)) [1, 2, 3]).1 =
    [.lend 0 1, .take 0 100, .lend 1 2, .take 1 101, .lend 2 3, .panic 2, .drop 100, .drop 101] := by decide

end GA.Props.BodyClone

#print axioms GA.Bridge.BodyClone.gaClone_body
#print axioms GA.Props.BodyClone.C08_body_array_clone
#print axioms GA.Props.BodyClone.C04_body_array_clone
