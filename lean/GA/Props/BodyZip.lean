import GA.Bridge.BodyZip
import GA.Props.C04
import GA.Props.C08
/-!
# C04 / C08 on the interpreted body of `zip` for two owned arrays

`GA.Gen.Body.gaIzip` is the whole body of `<GenericArray<T, N> as GenericSequence<T>>::inverted_zip`
(src/lib.rs) — what `a.zip(b, f)` runs for two arrays by value — with `ArrayConsumer::{new,
iter_position}`, `FromIterator::from_iter`, `try_from_iter` and `IntrusiveArrayBuilder::{new, extend,
is_full, finish}` inlined from their current source, lowered statement by statement on every run.
The theorems state the properties for the interpretation of that body, for both `needs_drop`
branches, with the regenerated destructors run in unwinding order.
-/
namespace GA.Props.BodyZip
open GA.Body GA.Own GA.Bridge.BodyCollect GA.Bridge.BodyZip

def zipCtx (n : Nat) (ndSelf ndOther : Bool) (f : Nat → Option Id) : Ctx :=
  { n := n, bad := none, fpan := fun _ => false, cl := f, ext := { ndSelf := ndSelf, ndOther := ndOther } }

/-- `b` is the receiver of `inverted_zip` (`self`), `a` its `lhs` argument -/
def zst0 (xs ys : List Id) : St :=
  ⟨⟨ys, 0, 0, 0, []⟩, ⟨[], 0, 0, 0, []⟩, false, 0, false, 0, false, { other := ⟨xs, 0, 0, 0, []⟩ }⟩

def zipRun (ndA ndB : Bool) (f : Nat → Option Id) (xs ys : List Id) : List Ev × R × St :=
  runFn3 (zipCtx ys.length ndB ndA f) Gen.Body.consumerDrop.body Gen.Body.intrusiveDrop.body Gen.Body.gaIzip [] (zst0 xs ys)

theorem zip_run (ndA ndB : Bool) (f : Nat → Option Id) (xs ys : List Id) (hl : xs.length = ys.length) (hw : ys.length < word) :
    (zipRun ndA ndB f xs ys).1 = (GA.Ops.zipOp .owned .owned ndA ndB f xs ys).1 ∧
    resOf (zipRun ndA ndB f xs ys).2.1 = some (GA.Ops.zipOp .owned .owned ndA ndB f xs ys).2 := by
  have h := gaIzip_body xs ys hl hw (zipCtx ys.length ndB ndA f) rfl rfl 0 0
  exact ⟨congrArg Prod.fst h, congrArg Prod.snd h⟩

/-- **C08: `zip` calls the function on `(a[i], b[i])` for `i = 0, 1, …` once each, in order, and
    stores result `i` at position `i`** — on the interpreted body, both `needs_drop` branches -/
theorem C08_body_zip (ndA ndB : Bool) (g : Nat → Id) (xs ys : List Id) (hl : xs.length = ys.length) (hw : ys.length < word) :
    let r := zipRun ndA ndB (fun i => some (g i)) xs ys
    resOf r.2.1 = some (.ok ((List.range xs.length).map g)) ∧
    GA.Func.args r.1 = GA.Func.enumFrom2 0 xs ys ∧
    GA.Func.rets r.1 = (List.range xs.length).map (fun i => (i, g i)) := by
  obtain ⟨h1, h2⟩ := zip_run ndA ndB (fun i => some (g i)) xs ys hl hw
  obtain ⟨a, b, c⟩ := GA.Props.C08.zip_spec .owned .owned ndA ndB g xs ys hl
  exact ⟨by rw [h2]; exact congrArg some a, by rw [h1]; exact b, by rw [h1]; exact c⟩

/-- **C04: whichever call of the zipping function panics** (element types that need drop), every
    element of both inputs is handed to it or dropped, every result is in the returned array or
    dropped — exactly once; no never-written slot is dropped or returned -/
theorem C04_body_zip (f : Nat → Option Id) (xs ys : List Id) (hl : xs.length = ys.length) (hw : ys.length < word) :
    let r := zipRun true true f xs ys
    ∃ res, resOf r.2.1 = some res ∧ (gives r.1 ++ drops r.1 ++ res.ids).Perm (ys ++ xs ++ takes r.1) ∧ uninitDrops r.1 = 0 := by
  obtain ⟨h1, h2⟩ := zip_run true true f xs ys hl hw
  refine ⟨_, h2, ?_⟩
  rw [h1]
  obtain ⟨hp, hu⟩ := GA.Props.C04.zip_ledger .owned .owned f xs ys hl
  exact ⟨by simpa [GA.Props.C04.ownedInputs] using hp, hu⟩

/-! Non-vacuity: the interpreter runs the translated body (tests, labelled as tests). -/
-- all calls return
example : resOf (zipRun true true (fun i => some (100 + i)) [1, 2, 3] [11, 12, 13]).2.1 = some (.ok [100, 101, 102]) := by decide
-- the function panics on its second call: the first result is dropped by the builder, then what the
-- right consumer still owns, then what the left one still owns; the pair in flight was given away
example : (zipRun true true (fun i => if i = 1 then none else some (100 + i)) [1, 2, 3] [11, 12, 13]).1 =
    [.give 0 1, .give 0 11, .take 0 100, .give 1 2, .give 1 12, .panic 1, .drop 100, .drop 13, .drop 3] := by decide
-- the `ManuallyDrop` branch (no element needs drop): a panic abandons the rest, nothing is dropped twice
example : (zipRun false false (fun i => if i = 1 then none else some (100 + i)) [1, 2, 3] [11, 12, 13]).1 =
    [.give 0 1, .give 0 11, .take 0 100, .give 1 2, .give 1 12, .panic 1, .drop 100] := by decide

end GA.Props.BodyZip

#print axioms GA.Bridge.BodyZip.gaIzip_body
#print axioms GA.Props.BodyZip.C08_body_zip
#print axioms GA.Props.BodyZip.C04_body_zip
