/-! Small tactics used by the bridge files: robust to syntactic variants of the same arithmetic. -/

/-- closes `genNatExpr = canonNatExpr`; the identifiers are the generated definitions to unfold -/
syntax "bridge_nat" "[" ident,* "]" : tactic
macro_rules
  | `(tactic| bridge_nat [$ids:ident,*]) =>
    `(tactic| first
      | rfl
      | (simp only [$[$ids:ident],*]; done)
      | (simp only [$[$ids:ident],*]; omega)
      | (simp only [$[$ids:ident],*, Nat.min_def, Nat.max_def]; repeat' split <;> omega)
      | (simp [$[$ids:ident],*] <;> omega))

/-- closes `genBoolExpr = canonBoolExpr` -/
syntax "bridge_bool" "[" ident,* "]" : tactic
macro_rules
  | `(tactic| bridge_bool [$ids:ident,*]) =>
    `(tactic| first
      | rfl
      | decide
      | (simp only [$[$ids:ident],*]; done)
      | (apply Bool.eq_iff_iff.mpr; simp [$[$ids:ident],*] <;> omega))
