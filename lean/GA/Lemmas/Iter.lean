import GA.Model.Iter
import GA.Bridge.Iter
namespace GA.Iter
open GA.Gen

theorem sliceOf_length (l : List Nat) (lo hi : Nat) (h1 : lo ≤ hi) (h2 : hi ≤ l.length) :
    (sliceOf l lo hi).length = hi - lo := by
  unfold sliceOf; simp [List.length_take, List.length_drop]; omega

theorem sliceOf_empty (l : List Nat) (lo hi : Nat) (h : hi ≤ lo) : sliceOf l lo hi = [] := by
  unfold sliceOf
  have : hi - lo = 0 := by omega
  simp [this]

theorem sliceOf_cons (l : List Nat) (lo hi : Nat) (h1 : lo < hi) (h2 : hi ≤ l.length) :
    sliceOf l lo hi = l[lo]'(by omega) :: sliceOf l (lo + 1) hi := by
  unfold sliceOf
  rw [show hi - lo = (hi - (lo + 1)) + 1 by omega]
  rw [List.drop_eq_getElem_cons (by omega : lo < l.length)]
  simp only [List.take_succ_cons]

theorem sliceOf_snoc (l : List Nat) (lo hi : Nat) (h1 : lo < hi) (h2 : hi ≤ l.length) :
    sliceOf l lo hi = sliceOf l lo (hi - 1) ++ [l[hi - 1]'(by omega)] := by
  unfold sliceOf
  rw [show hi - lo = (hi - 1 - lo) + 1 by omega]
  rw [List.take_add_one]
  congr 1
  rw [List.getElem?_drop]
  rw [show lo + (hi - 1 - lo) = hi - 1 by omega]
  simp [List.getElem?_eq_getElem (by omega : hi - 1 < l.length)]

theorem sliceOf_drop (l : List Nat) (lo hi k : Nat) :
    (sliceOf l lo hi).drop k = sliceOf l (lo + k) hi := by
  unfold sliceOf
  rw [List.drop_take, List.drop_drop]
  congr 1; omega

theorem sliceOf_take (l : List Nat) (lo hi k : Nat) (hk : lo + k ≤ hi) :
    (sliceOf l lo hi).take k = sliceOf l lo (lo + k) := by
  unfold sliceOf
  rw [List.take_take]
  congr 1; omega

theorem sliceOf_set (l : List Nat) (lo hi i v : Nat) (_hi' : i < hi - lo) :
    sliceOf (l.set (lo + i) v) lo hi = (sliceOf l lo hi).set i v := by
  unfold sliceOf
  rw [List.drop_set]
  simp only [show ¬ (lo + i < lo) by omega, if_false, show lo + i - lo = i by omega]
  rw [List.take_set]

theorem sliceOf_full (l : List Nat) : sliceOf l 0 l.length = l := by
  unfold sliceOf; simp

theorem abs_length (it : Iter) (h : Inv it) : (abs it).length = it.back - it.front := by
  unfold abs; exact sliceOf_length _ _ _ h.1 h.2

theorem readSlot_lt (l : List Nat) (r : Nat) (h : r < l.length) : readSlot l r = .item (some l[r]) := by
  unfold readSlot; simp [List.getElem?_eq_getElem h]

theorem next_refines (it : Iter) (h : Inv it) :
    (next it).1 = .item (abs it).head? ∧ abs (next it).2 = (abs it).tail ∧ Inv (next it).2 := by
  obtain ⟨h1, h2⟩ := h
  unfold next abs Inv
  simp only [ga_bridge, if_true, decide_eq_true_eq]
  split
  · rename_i hlt
    rw [sliceOf_cons _ _ _ hlt h2, readSlot_lt _ _ (by omega)]
    refine ⟨by simp, by simp, ?_, ?_⟩ <;> (try simp) <;> omega
  · rename_i hge
    rw [sliceOf_empty _ _ _ (by omega)]
    exact ⟨rfl, rfl, h1, h2⟩

theorem nextBack_refines (it : Iter) (h : Inv it) :
    (nextBack it).1 = .item (abs it).getLast? ∧ abs (nextBack it).2 = (abs it).dropLast ∧
      Inv (nextBack it).2 := by
  obtain ⟨h1, h2⟩ := h
  unfold nextBack abs Inv
  simp only [ga_bridge, if_true, decide_eq_true_eq]
  split
  · rename_i hlt
    simp only [Bridge.Iter.nextBackAdvOk_of _ _ hlt, Bool.not_true, Bool.false_eq_true, if_false]
    rw [sliceOf_snoc _ _ _ hlt h2, readSlot_lt _ _ (by omega)]
    refine ⟨by simp, by simp, ?_, ?_⟩ <;> (try simp) <;> omega
  · rename_i hge
    rw [sliceOf_empty _ _ _ (by omega)]
    exact ⟨rfl, rfl, h1, h2⟩

theorem nth_refines (it : Iter) (h : Inv it) (n : Nat) :
    (nth it n).1 = .item ((abs it).drop n).head? ∧ abs (nth it n).2 = (abs it).drop (n + 1) ∧
      Inv (nth it n).2 := by
  obtain ⟨h1, h2⟩ := h
  have hinv' : Inv { it with front := it.front + min n (it.back - it.front) } := by
    unfold Inv; simp; omega
  have habs' : abs { it with front := it.front + min n (it.back - it.front) } = (abs it).drop n := by
    unfold abs
    simp only []
    by_cases hn : n ≤ it.back - it.front
    · rw [Nat.min_eq_left hn, sliceOf_drop]
    · rw [Nat.min_eq_right (by omega)]
      rw [sliceOf_empty _ _ _ (by omega)]
      symm; apply List.drop_eq_nil_of_le
      rw [sliceOf_length _ _ _ h1 h2]; omega
  obtain ⟨a, b, c⟩ := next_refines _ hinv'
  unfold nth
  simp only [ga_bridge, rangeOk]
  have hr : (decide (it.front ≤ it.front + min n (it.back - it.front)) &&
      decide (it.front + min n (it.back - it.front) ≤ it.slots.length)) = true := by
    simp; omega
  simp only [hr, Bridge.Iter.nthNextOk_of _ _ n h1, Bool.and_self, if_true]
  refine ⟨by rw [a, habs'], ?_, c⟩
  rw [b, habs', List.tail_drop]

theorem take_getLast?_eq (l : List Nat) (n : Nat) :
    (l.take (l.length - n)).dropLast = l.take (l.length - (n + 1)) := by
  rw [List.dropLast_eq_take, List.take_take, List.length_take]
  congr 1; omega

theorem nthBack_refines (it : Iter) (h : Inv it) (n : Nat) :
    (nthBack it n).1 = .item ((abs it).take ((abs it).length - n)).getLast? ∧
      abs (nthBack it n).2 = (abs it).take ((abs it).length - (n + 1)) ∧ Inv (nthBack it n).2 := by
  have hl := abs_length it h
  obtain ⟨h1, h2⟩ := h
  have hinv' : Inv { it with back := it.back - min n (it.back - it.front) } := by
    unfold Inv; simp; omega
  have habs' : abs { it with back := it.back - min n (it.back - it.front) } =
      (abs it).take ((abs it).length - n) := by
    rw [hl]
    unfold abs
    simp only []
    rw [sliceOf_take _ _ _ _ (by omega)]
    congr 1; omega
  obtain ⟨a, b, c⟩ := nextBack_refines _ hinv'
  unfold nthBack
  simp only [ga_bridge, rangeOk]
  have hr : (decide (it.back - min n (it.back - it.front) ≤ it.back) &&
      decide (it.back ≤ it.slots.length)) = true := by
    simp; omega
  simp only [hr, Bridge.Iter.nthBackNextOk_of _ _ n h1, Bool.and_self, if_true]
  refine ⟨by rw [a, habs'], ?_, c⟩
  rw [b, habs', take_getLast?_eq]

theorem asSlice_eq (it : Iter) : asSlice it = abs it := by
  unfold asSlice abs; simp only [ga_bridge]

theorem sliceOk_of_inv (it : Iter) (h : Inv it) : sliceOk it = true := by
  unfold sliceOk rangeOk; simp only [ga_bridge]; simp; exact h

theorem clone_abs (it : Iter) (h : Inv it) : abs (clone it) = abs it ∧ Inv (clone it) := by
  have hl := abs_length it h
  obtain ⟨h1, h2⟩ := h
  unfold clone
  rw [asSlice_eq]
  have hk : min it.slots.length (abs it).length = (abs it).length := by omega
  simp only [hk]
  generalize abs it = q at *
  constructor
  · unfold abs sliceOf
    simp
  · unfold Inv
    simp only [List.take_length, List.length_append, List.length_drop]
    omega

end GA.Iter

namespace GA.Iter
open GA.Gen

/-- One-step refinement: under the invariant every operation returns what the deque returns,
    the abstraction commutes, the invariant is kept, and no out-of-bounds access happens. -/
theorem step_refines (it : Iter) (h : Inv it) (op : IOp) :
    (step it op).1 = (Spec.step (abs it) op).1 ∧
    abs (step it op).2 = (Spec.step (abs it) op).2 ∧ Inv (step it op).2 := by
  have hl := abs_length it h
  have hok := sliceOk_of_inv it h
  obtain ⟨hc1, hc2⟩ := clone_abs it h
  have hlc := abs_length _ hc2
  have hokc := sliceOk_of_inv _ hc2
  cases op with
  | next => exact next_refines it h
  | nextBack => exact nextBack_refines it h
  | nth n => exact nth_refines it h n
  | nthBack n => exact nthBack_refines it h n
  | len =>
    simp only [step, Spec.step, ga_bridge, Bridge.Iter.lenOk_of _ _ h.1, if_true]
    exact ⟨by rw [hl], (by trivial), h⟩
  | sizeHint =>
    simp only [step, Spec.step, ga_bridge, Bridge.Iter.lenOk_of _ _ h.1, Bool.and_self, if_true]
    exact ⟨by rw [hl], (by trivial), h⟩
  | asSlice => simp only [step, Spec.step, hok, if_true, asSlice_eq]; exact ⟨(by trivial), (by trivial), h⟩
  | write i v =>
    simp only [step, Spec.step, ga_bridge, rangeOk]
    have hr : (decide (it.front ≤ it.back) && decide (it.back ≤ it.slots.length)) = true := by
      simp; exact h
    simp only [hr, if_true, hl]
    split
    · rename_i hi
      refine ⟨(by trivial), ?_, ?_⟩
      · unfold abs; simp only []; exact sliceOf_set _ _ _ _ _ hi
      · unfold Inv; simp only [List.length_set]; exact h
    · rename_i hi
      refine ⟨(by trivial), ?_, h⟩
      rw [List.set_eq_of_length_le (by omega)]
  | clone =>
    simp only [step, Spec.step, hok, if_true, asSlice_eq]
    exact ⟨by rw [hc1], hc1, hc2⟩
  | fold =>
    simp only [step, Spec.step, hok, foldItems, rangeOk, ga_bridge, Bool.true_and]
    have hr : (decide ((clone it).front ≤ (clone it).back) &&
        decide ((clone it).back ≤ (clone it).slots.length)) = true := by simp; exact hc2
    simp only [hr, if_true]
    exact ⟨by rw [← hc1]; rfl, by trivial, h⟩
  | rfold =>
    simp only [step, Spec.step, hok, rfoldItems, rangeOk, ga_bridge, Bool.true_and]
    have hr : (decide ((clone it).front ≤ (clone it).back) &&
        decide ((clone it).back ≤ (clone it).slots.length)) = true := by simp; exact hc2
    simp only [hr, if_true]
    exact ⟨by rw [← hc1]; rfl, by trivial, h⟩
  | count =>
    simp only [step, Spec.step, hok, ga_bridge, Bridge.Iter.lenOk_of _ _ hc2.1, Bool.and_self, if_true]
    exact ⟨by rw [← hc1, hlc], (by trivial), h⟩
  | last =>
    simp only [step, Spec.step, hok, ga_bridge, Bool.true_and, if_true]
    exact ⟨by rw [(nextBack_refines _ hc2).1, hc1], (by trivial), h⟩
  | debug => simp only [step, Spec.step, hok, if_true, asSlice_eq]; exact ⟨(by trivial), (by trivial), h⟩
  | foldSelf =>
    simp only [step, Spec.step, foldItems, rangeOk, ga_bridge]
    have hr : (decide (it.front ≤ it.back) && decide (it.back ≤ it.slots.length)) = true := by simp; exact h
    simp only [hr, if_true]
    exact ⟨rfl, sliceOf_empty _ _ _ (Nat.le_refl _), ⟨Nat.le_refl _, h.2⟩⟩
  | rfoldSelf =>
    simp only [step, Spec.step, rfoldItems, rangeOk, ga_bridge]
    have hr : (decide (it.front ≤ it.back) && decide (it.back ≤ it.slots.length)) = true := by simp; exact h
    simp only [hr, if_true]
    exact ⟨rfl, sliceOf_empty _ _ _ (Nat.le_refl _), ⟨Nat.le_refl _, h.2⟩⟩
  | countSelf =>
    simp only [step, Spec.step, ga_bridge, Bridge.Iter.lenOk_of _ _ h.1, Bool.and_self, if_true]
    exact ⟨by rw [hl], sliceOf_empty _ _ _ (Nat.le_refl _), ⟨Nat.le_refl _, h.2⟩⟩
  | lastSelf =>
    simp only [step, Spec.step, ga_bridge, if_true]
    exact ⟨(nextBack_refines it h).1, sliceOf_empty _ _ _ (Nat.le_refl _), ⟨Nat.le_refl _, h.2⟩⟩

theorem ofList_inv (l : List Nat) : Inv (Iter.ofList l) ∧ abs (Iter.ofList l) = l := by
  unfold Iter.ofList Inv abs
  simp only [ga_bridge]
  exact ⟨⟨Nat.zero_le _, Nat.le_refl _⟩, sliceOf_full l⟩

end GA.Iter
