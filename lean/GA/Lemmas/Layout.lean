import GA.Model.Layout
import GA.Bridge.Layout
namespace GA.Layout
open GA.Gen

theorem roundUp_of_dvd {x a : Nat} (ha : 0 < a) (h : a ∣ x) : roundUp x a = x := by
  obtain ⟨k, rfl⟩ := h
  unfold roundUp
  have h1 : a * k + a - 1 = a - 1 + a * k := by omega
  rw [h1, Nat.add_mul_div_left _ _ ha, Nat.div_eq_of_lt (by omega)]
  simp [Nat.mul_comm]

theorem roundUp_one (x : Nat) : roundUp x 1 = x := by simp [roundUp]

/-- running offset over a field list whose members all have `t`'s alignment (children, elements)
    or are align-1 zero-sized: no padding is ever inserted. -/
theorem offsets_nopad (t c : Lay) (ha : 0 < t.align) (hs : t.align ∣ t.size)
    (hca : c.align = t.align) (hcs : t.align ∣ c.size) (fs : List FieldKind) (off : Nat)
    (hoff : t.align ∣ off) :
    (fs.map (fieldLay t c)).foldl (fun off f => roundUp off f.align + f.size) off =
      off + fs.count .child * c.size + fs.count .elem * t.size ∧
    t.align ∣ off + fs.count .child * c.size + fs.count .elem * t.size := by
  induction fs generalizing off with
  | nil => simp; exact hoff
  | cons f fs ih =>
    cases f with
    | child =>
      simp only [List.map_cons, List.foldl_cons, fieldLay, hca, roundUp_of_dvd ha hoff]
      obtain ⟨h1, h2⟩ := ih (off + c.size) (Nat.dvd_add hoff hcs)
      rw [h1]
      simp only [List.count_cons_self, List.count_cons_of_ne (by decide : FieldKind.child ≠ FieldKind.elem)] at *
      have e : off + c.size + List.count FieldKind.child fs * c.size + List.count FieldKind.elem fs * t.size =
          off + (List.count FieldKind.child fs + 1) * c.size + List.count FieldKind.elem fs * t.size := by
        rw [Nat.add_mul]; omega
      rw [← e]; exact ⟨rfl, h2⟩
    | elem =>
      simp only [List.map_cons, List.foldl_cons, fieldLay, roundUp_of_dvd ha hoff]
      obtain ⟨h1, h2⟩ := ih (off + t.size) (Nat.dvd_add hoff hs)
      rw [h1]
      simp only [List.count_cons_self, List.count_cons_of_ne (by decide : FieldKind.elem ≠ FieldKind.child)] at *
      have e : off + t.size + List.count FieldKind.child fs * c.size + List.count FieldKind.elem fs * t.size =
          off + List.count FieldKind.child fs * c.size + (List.count FieldKind.elem fs + 1) * t.size := by
        rw [Nat.add_mul]; omega
      rw [← e]; exact ⟨rfl, h2⟩
    | phantom =>
      simp only [List.map_cons, List.foldl_cons, fieldLay, roundUp_one, Nat.add_zero]
      simpa using ih off hoff
    | unit =>
      simp only [List.map_cons, List.foldl_cons, fieldLay, roundUp_one, Nat.add_zero]
      simpa using ih off hoff

theorem aligns_nopad (t c : Lay) (ha : 0 < t.align) (hca : c.align = t.align)
    (fs : List FieldKind) (m : Nat) (hm : m = 1 ∨ m = t.align) :
    (fs.map (fieldLay t c)).foldl (fun a f => max a f.align) m =
      if 0 < fs.count .child + fs.count .elem then t.align else m := by
  induction fs generalizing m with
  | nil => simp
  | cons f fs ih =>
    cases f with
    | child =>
      simp only [List.map_cons, List.foldl_cons, fieldLay, hca]
      have : max m t.align = t.align := by omega
      rw [this, ih _ (Or.inr rfl)]
      simp
    | elem =>
      simp only [List.map_cons, List.foldl_cons, fieldLay]
      have : max m t.align = t.align := by omega
      rw [this, ih _ (Or.inr rfl)]
      simp
    | phantom =>
      simp only [List.map_cons, List.foldl_cons, fieldLay]
      have : max m 1 = m := by omega
      rw [this, ih _ hm]
      simp
    | unit =>
      simp only [List.map_cons, List.foldl_cons, fieldLay]
      have : max m 1 = m := by omega
      rw [this, ih _ hm]
      simp

/-- A `repr(C)` node made of `k` children, `e` elements and any number of align-1 ZST fields, in
    any order, has size `k * child + e * elem` and the element alignment (for `k + e > 0`). -/
theorem reprC_nopad (t c : Lay) (ha : 0 < t.align) (hs : t.align ∣ t.size)
    (hca : c.align = t.align) (hcs : t.align ∣ c.size) (fs : List FieldKind)
    (hpos : 0 < fs.count .child + fs.count .elem) :
    reprC (fs.map (fieldLay t c)) =
      ⟨fs.count .child * c.size + fs.count .elem * t.size, t.align⟩ := by
  obtain ⟨h1, h2⟩ := offsets_nopad t c ha hs hca hcs fs 0 (Nat.dvd_zero _)
  have h3 := aligns_nopad t c ha hca fs 1 (Or.inl rfl)
  simp only [hpos, if_true] at h3
  unfold reprC
  simp only [h1, h3, Nat.zero_add] at *
  rw [roundUp_of_dvd ha h2]

end GA.Layout
