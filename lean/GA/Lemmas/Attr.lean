import Lean.Meta.Tactic.Simp.RegisterCommand
/-- simp set: the bridge equations `Gen.x = canonical x` -/
register_simp_attr ga_bridge
