import GA.Model.IterOwn
import GA.Lemmas.Iter
import GA.Lemmas.Own
import GA.Bridge.IterOwn
namespace GA.IterOwn
open GA.Iter GA.Own GA.Gen

theorem sliceOf_append (l : List Nat) (a b c : Nat) (h1 : a ≤ b) (h2 : b ≤ c) :
    sliceOf l a b ++ sliceOf l b c = sliceOf l a c := by
  unfold sliceOf
  have e : c - a = (b - a) + (c - b) := by omega
  rw [e, List.take_add]
  congr 1
  rw [List.drop_drop]
  congr 2; omega

theorem sliceOf_sublist (l : List Nat) (a b : Nat) : (sliceOf l a b).Sublist l :=
  (List.take_sublist _ _).trans (List.drop_sublist _ _)

theorem abs_nodup (it : Iter) (h : it.slots.Nodup) : (abs it).Nodup :=
  (sliceOf_sublist _ _ _).nodup h

theorem dropIter_eq (it : Iter) : drops (dropIter it) = abs it := by
  simp [dropIter, asSlice_eq]

end GA.IterOwn

namespace GA.IterOwn
open GA.Iter GA.Own GA.Gen

theorem drops_give (c x : Nat) : drops [Ev.give c x] = [] := rfl
theorem gives_give (c x : Nat) : gives [Ev.give c x] = [x] := rfl

/-- `afterNext` after a `next`-like step that returned `o` and left `rest` live -/
theorem afterNext_item (pre : List Ev) (r : IOut × Iter) (o : Option Id) (ho : r.1 = .item o) :
    drops (afterNext pre r).1 = drops pre ∧ gives (afterNext pre r).1 = gives pre ++ o.toList ∧
    uninitDrops (afterNext pre r).1 = uninitDrops pre ∧ (afterNext pre r).2.2 = r.2 := by
  unfold afterNext
  cases o with
  | none => simp [ho]
  | some x => simp [ho, drops, gives, uninitDrops]

theorem head_tail (q : List Id) : q.head?.toList ++ q.tail = q := by cases q <;> simp

theorem dropLast_getLast (q : List Id) : (q.dropLast ++ q.getLast?.toList).Perm q := by
  cases h : q.getLast? with
  | none => have : q = [] := by simpa using h
            simp [this]
  | some x =>
    have hne : q ≠ [] := by intro e; simp [e] at h
    have hx : q.getLast hne = x := by
      have := List.getLast?_eq_some_getLast hne
      rw [h] at this; exact (Option.some.inj this).symm
    rw [Option.toList_some, ← hx, List.dropLast_concat_getLast hne]

/-- what `nth` leaves behind, whichever destructor panics: the destructors run in `nth`, the element
    handed to the caller and what the iterator's own `Drop` releases later are, together and in
    order, exactly the elements that were live — nothing twice, nothing lost. -/
theorem nthD_partition (it : Iter) (h : Inv it) (n : Nat) (bad : Option Id) :
    drops (nthD it n bad).1 ++ gives (nthD it n bad).1 ++ drops (dropIter (nthD it n bad).2.2) = abs it ∧
    uninitDrops (nthD it n bad).1 = 0 ∧ Inv (nthD it n bad).2.2 := by
  obtain ⟨h1, h2⟩ := h
  have hmin : it.front + min n (it.back - it.front) ≤ it.back := by omega
  have hinv' : Inv { it with front := it.front + min n (it.back - it.front) } := ⟨hmin, h2⟩
  have hsplit := sliceOf_append it.slots it.front (it.front + min n (it.back - it.front)) it.back (by omega) hmin
  unfold nthD
  simp only [ga_bridge, Bridge.IterOwn.nthAdvanceBeforeDrop_eq, Bridge.Iter.nthNextOk_of _ _ n h1, rangeOk]
  have hr : (decide (it.front ≤ it.front + min n (it.back - it.front)) &&
      decide (it.front + min n (it.back - it.front) ≤ it.slots.length)) = true := by simp; omega
  simp only [hr, Bool.and_self, Bool.not_true, Bool.false_eq_true, if_false, if_true]
  by_cases hp : panics (sliceOf it.slots it.front (it.front + min n (it.back - it.front))) bad = true
  · simp only [hp, if_true, drops_map_drop, gives_map_drop, uninit_map_drop, List.append_nil, dropIter_eq]
    exact ⟨hsplit, trivial, hinv'⟩
  · simp only [hp, Bool.false_eq_true, if_false]
    obtain ⟨a, b, c⟩ := next_refines _ hinv'
    obtain ⟨e1, e2, e3, e4⟩ := afterNext_item ((sliceOf it.slots it.front (it.front + min n (it.back - it.front))).map .drop) _ _ a
    rw [e1, e2, e3, e4, dropIter_eq, b]
    simp only [drops_map_drop, gives_map_drop, uninit_map_drop, List.nil_append]
    refine ⟨?_, trivial, c⟩
    rw [List.append_assoc, head_tail]
    exact hsplit

theorem nthBackD_partition (it : Iter) (h : Inv it) (n : Nat) (bad : Option Id) :
    (drops (nthBackD it n bad).1 ++ gives (nthBackD it n bad).1 ++ drops (dropIter (nthBackD it n bad).2.2)).Perm
      (abs it) ∧
    uninitDrops (nthBackD it n bad).1 = 0 ∧ Inv (nthBackD it n bad).2.2 := by
  obtain ⟨h1, h2⟩ := h
  have hmin : it.front ≤ it.back - min n (it.back - it.front) := by omega
  have hle : it.back - min n (it.back - it.front) ≤ it.back := by omega
  have hinv' : Inv { it with back := it.back - min n (it.back - it.front) } := ⟨hmin, by show it.back - min n (it.back - it.front) ≤ it.slots.length; omega⟩
  have hsplit := sliceOf_append it.slots it.front (it.back - min n (it.back - it.front)) it.back hmin hle
  unfold nthBackD
  simp only [ga_bridge, Bridge.IterOwn.nthBackAdvanceBeforeDrop_eq, Bridge.Iter.nthBackNextOk_of _ _ n h1, rangeOk]
  have hr : (decide (it.back - min n (it.back - it.front) ≤ it.back) && decide (it.back ≤ it.slots.length)) = true := by
    simp; omega
  simp only [hr, Bool.and_self, Bool.not_true, Bool.false_eq_true, if_false, if_true]
  by_cases hp : panics (sliceOf it.slots (it.back - min n (it.back - it.front)) it.back) bad = true
  · simp only [hp, if_true, drops_map_drop, gives_map_drop, uninit_map_drop, List.append_nil, dropIter_eq]
    refine ⟨?_, trivial, hinv'⟩
    show (sliceOf it.slots (it.back - min n (it.back - it.front)) it.back ++
      sliceOf it.slots it.front (it.back - min n (it.back - it.front))).Perm (abs it)
    unfold abs; rw [← hsplit]; exact List.perm_append_comm
  · simp only [hp, Bool.false_eq_true, if_false]
    obtain ⟨a, b, c⟩ := nextBack_refines _ hinv'
    obtain ⟨e1, e2, e3, e4⟩ := afterNext_item ((sliceOf it.slots (it.back - min n (it.back - it.front)) it.back).map .drop) _ _ a
    rw [e1, e2, e3, e4, dropIter_eq, b]
    simp only [drops_map_drop, gives_map_drop, uninit_map_drop, List.nil_append]
    refine ⟨?_, trivial, c⟩
    have habs' : abs { it with back := it.back - min n (it.back - it.front) } =
        sliceOf it.slots it.front (it.back - min n (it.back - it.front)) := rfl
    rw [habs']
    have hq := dropLast_getLast (sliceOf it.slots it.front (it.back - min n (it.back - it.front)))
    unfold abs; rw [← hsplit]
    refine perm_of_counts fun y => ?_
    have c1 := List.perm_iff_count.mp hq y
    simp only [List.count_append] at c1 ⊢
    omega

/-- `last`: every live element is dropped or returned exactly once, except that a panicking
    destructor makes unwinding abandon the in-flight return value (a leak, never a double drop). -/
theorem lastD_partition (it : Iter) (h : Inv it) (bad : Option Id) :
    ∃ leaked, (drops (lastD it bad).1 ++ gives (lastD it bad).1 ++ leaked).Perm (abs it) ∧
      uninitDrops (lastD it bad).1 = 0 := by
  obtain ⟨a, b, c⟩ := nextBack_refines it h
  obtain ⟨e1, e2, e3, e4⟩ := afterNext_item [] _ _ a
  have hq := dropLast_getLast (abs it)
  unfold lastD
  by_cases hp : panics (asSlice (nextBack it).2) bad = true
  · refine ⟨(abs it).getLast?.toList, ?_, ?_⟩
    · simp only [hp, if_true]
      simp only [dropIter, gives_map_drop, List.append_nil, drops_map_drop, asSlice_eq, b]
      exact hq
    · simp [hp, dropIter]
  · refine ⟨[], ?_, ?_⟩
    · simp only [hp, Bool.false_eq_true, if_false, drops_append, gives_append, e1, e2, e4, dropIter_eq, b]
      simp only [dropIter, gives_map_drop, drops_nil, gives_nil, List.nil_append, List.append_nil]
      refine perm_of_counts fun y => ?_
      have c1 := List.perm_iff_count.mp hq y
      simp only [List.count_append] at c1 ⊢
      omega
    · simp [hp, uninit_append, e3, dropIter]

theorem cloneLoop_ledger (f : Nat → Option Id) (live : List Id) (k : Nat) (made : List Id) :
    (drops (cloneLoop true f live k made).1 ++ (cloneLoop true f live k made).2.ids).Perm
      (made ++ takes (cloneLoop true f live k made).1) ∧
    gives (cloneLoop true f live k made).1 = [] ∧ uninitDrops (cloneLoop true f live k made).1 = 0 := by
  induction live generalizing k made with
  | nil => simp [cloneLoop, Res.ids]
  | cons x rest ih =>
    cases hf : f k with
    | none => simp [cloneLoop, hf, Res.ids, drops, takes, gives, uninitDrops]
    | some y =>
      obtain ⟨h1, h2, h3⟩ := ih (k + 1) (made ++ [y])
      simp only [cloneLoop, hf, drops, takes, gives, uninitDrops]
      refine ⟨perm_of_counts fun a => ?_, h2, h3⟩
      have c := List.perm_iff_count.mp h1 a
      simp only [List.count_append, List.count_cons, List.count_nil] at c ⊢
      omega

end GA.IterOwn
