import GA.Model.Pool
import GA.Lemmas.IterOwn
import GA.Lemmas.Func
import GA.Props.C04
import GA.Props.C08
import GA.Props.C09
/-! Per-operation ownership lemmas for the pool machine (C03). -/
namespace GA.Pool
open GA.Own GA.Iter GA.IterOwn GA.Ops GA.Func

set_option linter.unusedSimpArgs false

def ItersInv (p : Pool) : Prop := ∀ it ∈ p.iters, Inv it

theorem takes_eq_rets (evs : List Ev) : takes evs = (rets evs).map Prod.snd := by
  induction evs with
  | nil => rfl
  | cons e t ih => cases e <;> simp_all [takes, rets]

theorem count_flatten_cons (a : Id) (x : List Id) (t : List (List Id)) :
    List.count a (x :: t).flatten = List.count a x + List.count a t.flatten := by
  simp [List.count_append]

theorem rot_perm {α : Type} (l : List α) : (rot l).Perm l := by
  cases l with
  | nil => exact List.Perm.refl _
  | cons x t => simp only [rot]; exact List.perm_append_comm

theorem rot_flatten_perm (l : List (List Id)) : (rot l).flatten.Perm l.flatten := by
  cases l with
  | nil => exact List.Perm.refl _
  | cons x t => simp only [rot, List.flatten_append, List.flatten_cons, List.flatten_nil, List.append_nil]
                exact List.perm_append_comm

/-- total closure on an owned consumer side: everything is given, nothing dropped -/
theorem fold_total (sd : Side) (k : Nat) (c : Consumer) (hk : c.slots.length - c.idx < k) :
    gives (foldLoop (foldSrc sd (fun _ => true)) k c).1 = (if sd.owns then c.slots.drop c.idx else []) ∧
    drops (foldLoop (foldSrc sd (fun _ => true)) k c).1 = [] := by
  induction k generalizing c with
  | zero => omega
  | succ k ih =>
    by_cases hlt : c.idx < c.slots.length
    · have hx : c.slots[c.idx]? = some c.slots[c.idx] := List.getElem?_eq_getElem hlt
      obtain ⟨i1, i2⟩ := side_after_idx sd c c.pos true
      obtain ⟨h1, h2⟩ := ih (sd.after c c.pos true) (by rw [i1, i2]; omega)
      simp only [foldLoop, GA.Props.C08.foldSrc_step_some sd c _ hx, gives_append, drops_append, h1, h2, i1, i2,
        drop_of_getElem? hx]
      cases ho : sd.owns <;> simp [arg, ho, gives, drops]
    · have hx : c.slots[c.idx]? = none := List.getElem?_eq_none (by omega)
      simp only [foldLoop, GA.Props.C08.foldSrc_step_none sd c hx]
      rw [List.drop_eq_nil_of_le (by omega)]
      cases sd.owns <;> simp

theorem foldD_total (it : Iter) (h : Inv it) :
    gives (foldD it (fun _ => true)).1 = abs it ∧ drops (foldD it (fun _ => true)).1 = [] := by
  unfold foldD
  simp only [ga_bridge]
  have := fold_total (.consumer (fun p _ => p + 1) true) ((sliceOf it.slots it.front it.back).length + 1)
    (Consumer.ofList (sliceOf it.slots it.front it.back)) (by simp [Consumer.ofList])
  have e1 : ∀ l : List Id, (Consumer.ofList l).idx = 0 := fun _ => rfl
  have e2 : ∀ l : List Id, (Consumer.ofList l).slots = l := fun _ => rfl
  simp only [Side.owns, if_true, e1, e2, List.drop_zero] at this
  exact this

theorem rfoldD_total (it : Iter) (h : Inv it) :
    (gives (rfoldD it (fun _ => true)).1).Perm (abs it) ∧ drops (rfoldD it (fun _ => true)).1 = [] := by
  unfold rfoldD
  simp only [ga_bridge]
  have := fold_total (.consumer (fun p _ => p + ((sliceOf it.slots it.front it.back).reverse.length -
      ((sliceOf it.slots it.front it.back).reverse.length - 1))) true)
    ((sliceOf it.slots it.front it.back).reverse.length + 1)
    (Consumer.ofList (sliceOf it.slots it.front it.back).reverse) (by simp [Consumer.ofList])
  have e1 : ∀ l : List Id, (Consumer.ofList l).idx = 0 := fun _ => rfl
  have e2 : ∀ l : List Id, (Consumer.ofList l).slots = l := fun _ => rfl
  simp only [Side.owns, if_true, e1, e2, List.drop_zero] at this
  rw [this.1, this.2]
  exact ⟨List.reverse_perm _, rfl⟩

theorem lastD_none (it : Iter) (h : Inv it) :
    (drops (lastD it none).1 ++ gives (lastD it none).1).Perm (abs it) := by
  obtain ⟨leaked, hp, _⟩ := lastD_partition it h none
  -- with no panicking destructor nothing is abandoned
  obtain ⟨a, b, c⟩ := nextBack_refines it h
  obtain ⟨e1, e2, e3, e4⟩ := afterNext_item [] _ _ a
  have hq := dropLast_getLast (abs it)
  unfold lastD
  simp only [panics, Bool.false_eq_true, if_false, drops_append, gives_append, e1, e2, e4, dropIter_eq, b]
  simp only [dropIter, gives_map_drop, drops_nil, gives_nil, List.nil_append, List.append_nil]
  refine perm_of_counts fun y => ?_
  have c1 := List.perm_iff_count.mp hq y
  simp only [List.count_append] at c1 ⊢
  omega

theorem cloneLoop_total (g : Nat → Id) (live : List Id) (k : Nat) (made : List Id) :
    (cloneLoop true (fun i => some (g i)) live k made).2 = .ok (made ++ (List.range' k live.length).map g) ∧
    gives (cloneLoop true (fun i => some (g i)) live k made).1 = [] ∧
    drops (cloneLoop true (fun i => some (g i)) live k made).1 = [] := by
  induction live generalizing k made with
  | nil => simp [cloneLoop]
  | cons x t ih =>
    obtain ⟨h1, h2, h3⟩ := ih (k + 1) (made ++ [g k])
    simp only [cloneLoop, h1, gives, drops, h2, h3, List.length_cons, List.range'_succ, List.map_cons]
    simp [List.append_assoc]

theorem range_succ_perm (n k : Nat) : (List.range (n + k)).Perm (List.range n ++ (List.range k).map (fun i => n + i)) := by
  rw [List.range_add]

end GA.Pool

namespace GA.Pool
open GA.Own GA.Iter GA.IterOwn GA.Ops GA.Func

def Ledger (p : Pool) : Prop := p.owned.Perm (List.range p.next) ∧ ItersInv p

theorem ledger_of (p q : Pool) (k : Nat) (h : Ledger p) (hq : q.next = p.next + k)
    (ho : q.owned.Perm (p.owned ++ (List.range k).map (fun i => p.next + i))) (hi : ItersInv q) : Ledger q := by
  refine ⟨?_, hi⟩
  rw [hq]
  exact ho.trans ((List.Perm.append_right _ h.1).trans (range_succ_perm p.next k).symm)

theorem ledger_same (p q : Pool) (h : Ledger p) (hq : q.next = p.next) (ho : q.owned.Perm p.owned) (hi : ItersInv q) :
    Ledger q :=
  ledger_of p q 0 h (by omega) (by simpa using ho) hi

/-- counting form of the owned multiset -/
theorem owned_count (p : Pool) (a : Id) :
    p.owned.count a = p.arrays.flatten.count a + (p.iters.map abs).flatten.count a + p.held.count a + p.dropped.count a := by
  simp only [Pool.owned, List.count_append]

theorem absorb_owned (p : Pool) (evs : List Ev) (a : Id) :
    (absorb p evs).owned.count a = p.owned.count a + (gives evs).count a + (drops evs).count a := by
  simp only [owned_count, absorb, List.count_append]; omega

theorem iters_cons_inv (it : Iter) (rest : List Iter) (h1 : Inv it) (h2 : ∀ x ∈ rest, Inv x) :
    ∀ x ∈ it :: rest, Inv x := by
  intro x hx
  rcases List.mem_cons.mp hx with rfl | hx
  · exact h1
  · exact h2 x hx

/-- a step that replaces the front iterator `it` by `it'` and emits `evs` with
    `drops evs ++ gives evs ++ abs it' ~ abs it` keeps the ledger -/
theorem iter_step_ledger (p : Pool) (it it' : Iter) (rest : List Iter) (evs : List Ev) (h : Ledger p)
    (hp : p.iters = it :: rest) (hperm : (drops evs ++ gives evs ++ abs it').Perm (abs it)) (hinv : Inv it') :
    Ledger (absorb { p with iters := it' :: rest } evs) := by
  refine ledger_same p _ h rfl ?_ ?_
  · refine perm_of_counts fun a => ?_
    have c := List.perm_iff_count.mp hperm a
    rw [absorb_owned]
    simp only [owned_count, hp, List.map_cons, count_flatten_cons, List.count_append] at c ⊢
    omega
  · intro x hx
    simp only [absorb] at hx
    exact iters_cons_inv it' rest hinv (fun y hy => h.2 y (by rw [hp]; exact List.mem_cons_of_mem _ hy)) x hx

/-- a step that consumes the front iterator and emits `evs` with `drops evs ++ gives evs ~ abs it` -/
theorem iter_consume_ledger (p : Pool) (it : Iter) (rest : List Iter) (evs : List Ev) (h : Ledger p)
    (hp : p.iters = it :: rest) (hperm : (drops evs ++ gives evs).Perm (abs it)) :
    Ledger (absorb { p with iters := rest } evs) := by
  refine ledger_same p _ h rfl ?_ ?_
  · refine perm_of_counts fun a => ?_
    have c := List.perm_iff_count.mp hperm a
    rw [absorb_owned]
    simp only [owned_count, hp, List.map_cons, count_flatten_cons, List.count_append] at c ⊢
    omega
  · intro x hx
    simp only [absorb] at hx
    exact h.2 x (by rw [hp]; exact List.mem_cons_of_mem _ hx)

end GA.Pool

namespace GA.Pool
open GA.Own GA.Iter GA.IterOwn GA.Ops GA.Func GA.Props

theorem arrays_step_ledger (p : Pool) (h : Ledger p) (arrays' : List (List Id)) (held' dropped' : List Id)
    (hperm : (arrays'.flatten ++ held' ++ dropped').Perm (p.arrays.flatten ++ p.held ++ p.dropped)) :
    Ledger { p with arrays := arrays', held := held', dropped := dropped' } := by
  refine ledger_same p _ h rfl ?_ h.2
  refine perm_of_counts fun a => ?_
  have c := List.perm_iff_count.mp hperm a
  simp only [owned_count, List.count_append] at c ⊢
  omega

theorem arrays_fresh_ledger (p : Pool) (h : Ledger p) (k : Nat) (arrays' : List (List Id)) (held' dropped' : List Id)
    (hperm : (arrays'.flatten ++ held' ++ dropped').Perm
      (p.arrays.flatten ++ p.held ++ p.dropped ++ (List.range k).map (fun i => p.next + i))) :
    Ledger { p with arrays := arrays', held := held', dropped := dropped', next := p.next + k } := by
  refine ledger_of p _ k h rfl ?_ h.2
  refine perm_of_counts fun a => ?_
  have c := List.perm_iff_count.mp hperm a
  simp only [owned_count, List.count_append] at c ⊢
  omega

theorem eraseIdx_perm (a : List Id) (i : Nat) (hi : i < a.length) : (a[i] :: a.eraseIdx i).Perm a := by
  rw [List.eraseIdx_eq_take_drop_succ]
  have e : a = a.take i ++ a[i] :: a.drop (i + 1) := by
    conv => lhs; rw [← List.take_append_drop i a, List.drop_eq_getElem_cons hi]
  refine perm_of_counts fun x => ?_
  conv => rhs; rw [e]
  simp only [List.count_append, List.count_cons]
  omega

theorem last_split (a : List Id) (hn : 0 < a.length) :
    a = a.take (a.length - 1) ++ [a[a.length - 1]'(by omega)] := by
  have hl : a.length - 1 < a.length := by omega
  conv => lhs; rw [← List.take_append_drop (a.length - 1) a, List.drop_eq_getElem_cons hl]
  have : a.length - 1 + 1 = a.length := by omega
  rw [this, List.drop_length]

theorem swap_remove_perm (a : List Id) (i : Nat) (hi : i < a.length) :
    (a[i] :: (a.set i (a[a.length - 1]'(by omega))).take (a.length - 1)).Perm a := by
  have hn : 0 < a.length := by omega
  have hsplit := last_split a hn
  rw [List.take_set]
  generalize hd : a.take (a.length - 1) = d at *
  generalize hl : a[a.length - 1]'(by omega) = last at *
  have hdl : d.length = a.length - 1 := by rw [← hd]; simp
  by_cases hlast : i = a.length - 1
  · have hx : a[i] = last := by subst hlast; exact hl
    rw [hx, List.set_eq_of_length_le (by omega)]
    conv => rhs; rw [hsplit]
    exact perm_of_counts fun x => by simp only [List.count_append, List.count_cons, List.count_nil]; omega
  · have hid : i < d.length := by omega
    have hx : a[i] = d[i] := by
      have : a[i]? = d[i]? := by
        conv => lhs; rw [hsplit]
        rw [List.getElem?_append_left hid]
      rw [List.getElem?_eq_getElem hi, List.getElem?_eq_getElem hid] at this
      exact Option.some.inj this
    rw [hx, List.set_eq_take_append_cons_drop, if_pos hid]
    have e : d = d.take i ++ d[i] :: d.drop (i + 1) := by
      conv => lhs; rw [← List.take_append_drop i d, List.drop_eq_getElem_cons hid]
    refine perm_of_counts fun x => ?_
    conv => rhs; rw [hsplit, e]
    simp only [List.count_append, List.count_cons, List.count_nil]
    omega

theorem foldLoop_takes (sd : Side) (f : Nat → Bool) (k : Nat) (c : Consumer) :
    takes (foldLoop (foldSrc sd f) k c).1 = [] := by
  induction k generalizing c with
  | zero => simp [foldLoop]
  | succ k ih =>
    simp only [foldLoop]
    cases hx : c.slots[c.idx]? with
    | none => simp [foldSrc, hx]
    | some x =>
      by_cases hf : f c.idx = true
      · have : (foldSrc sd f).step c = .yield [arg sd.owns c.idx x] x (sd.after c c.pos true) := by simp [foldSrc, hx, hf]
        rw [this]
        simp only [takes_append, ih]
        cases sd.owns <;> simp [arg, takes]
      · have : (foldSrc sd f).step c = .panic [arg sd.owns c.idx x, Ev.panic c.idx] (sd.after c c.pos false) := by
          simp [foldSrc, hx, hf]
        rw [this]
        have hd : takes ((foldSrc sd f).dropEv (sd.after c c.pos false)) = [] := by
          show takes (sd.dropEv _) = []
          exact (side_dropEv sd _).2.2.1
        simp only [takes_append, hd]
        cases sd.owns <;> simp [arg, takes]

theorem iterSrc_step_quiet (c : Consumer) :
    (match iterSrc.step c with
      | .yield evs _ _ => gives evs = [] ∧ takes evs = []
      | .done evs _ => gives evs = [] ∧ takes evs = []
      | .panic evs _ => gives evs = [] ∧ takes evs = []) := by
  simp only [iterSrc]; cases c.slots[c.idx]? <;> simp

theorem iterSrc_drop_quiet (c : Consumer) : gives (iterSrc.dropEv c) = [] ∧ takes (iterSrc.dropEv c) = [] := by
  have := consumer_dropEv c
  exact ⟨this.2.1, this.2.2.1⟩

theorem fill_iterSrc_quiet (k : Nat) (c : Consumer) (out : List Id) :
    gives (fillLoop true true iterSrc k c out).1 = [] ∧ takes (fillLoop true true iterSrc k c out).1 = [] := by
  induction k generalizing c out with
  | zero => simp [fillLoop]
  | succ k ih =>
    have hs := iterSrc_step_quiet c
    cases hstep : iterSrc.step c with
    | yield evs x c' =>
      simp only [hstep] at hs
      simp only [fillLoop, hstep, gives_append, takes_append, hs.1, hs.2, (ih c' _).1, (ih c' _).2, List.append_nil]
      exact ⟨trivial, trivial⟩
    | done evs c' => simp only [hstep] at hs; simp only [fillLoop, hstep, hs.1, hs.2]; exact ⟨trivial, trivial⟩
    | panic evs c' =>
      simp only [hstep] at hs
      simp only [fillLoop, hstep, gives_append, takes_append, hs.1, hs.2, builderDrop_true, gives_map_drop, takes_map_drop,
        (iterSrc_drop_quiet c').1, (iterSrc_drop_quiet c').2, List.append_nil]
      exact ⟨trivial, trivial⟩

theorem iterSrc_quiet (n : Nat) (hint : Nat × Option Nat) (c : Consumer) :
    gives (tryFromIter canonFrags iterSrc n hint c).1 = [] ∧ takes (tryFromIter canonFrags iterSrc n hint c).1 = [] := by
  unfold tryFromIter
  have e1 : canonFrags.writeBeforeCount = true := rfl
  have e2 : canonFrags.destFirst = true := rfl
  have e3 : canonFrags.fullBeforePoll = true := rfl
  have e4 : canonFrags.finishAfterProbe = true := rfl
  have eo : iterSrc.owns = true := rfl
  by_cases hr : hintReject canonFrags hint n = true
  · simp only [hr, if_true]; exact iterSrc_drop_quiet c
  · simp only [hr, Bool.false_eq_true, if_false, e1, e2]
    have hf := fill_iterSrc_quiet n c []
    rcases hfl : fillLoop true true iterSrc n c [] with ⟨tr, r⟩
    rw [hfl] at hf
    simp only [] at hf
    cases r with
    | panicked => exact hf
    | short out s =>
      simp only [e3, Bool.not_true, Bool.and_false, Bool.false_eq_true, if_false, gives_append, takes_append, hf.1, hf.2,
        gives_map_drop, takes_map_drop, (iterSrc_drop_quiet s).1, (iterSrc_drop_quiet s).2, List.append_nil]
      exact ⟨trivial, trivial⟩
    | full out s =>
      by_cases hfu : canonFrags.isFull out.length n = true
      · simp only [hfu, Bool.not_true, Bool.false_eq_true, if_false, e4, if_true, eo]
        have hs := iterSrc_step_quiet s
        cases hstep : iterSrc.step s with
        | yield evs x s' =>
          simp only [hstep] at hs
          simp only [gives_append, takes_append, hf.1, hf.2, hs.1, hs.2, gives_map_drop, takes_map_drop,
            (iterSrc_drop_quiet s').1, (iterSrc_drop_quiet s').2, List.append_nil, gives, takes]
          exact ⟨trivial, trivial⟩
        | done evs s' =>
          simp only [hstep] at hs
          simp only [gives_append, takes_append, hf.1, hf.2, hs.1, hs.2, (iterSrc_drop_quiet s').1,
            (iterSrc_drop_quiet s').2, List.append_nil]
          exact ⟨trivial, trivial⟩
        | panic evs s' =>
          simp only [hstep] at hs
          simp only [gives_append, takes_append, hf.1, hf.2, hs.1, hs.2, gives_map_drop, takes_map_drop,
            (iterSrc_drop_quiet s').1, (iterSrc_drop_quiet s').2, List.append_nil]
          exact ⟨trivial, trivial⟩
      · simp only [hfu, Bool.not_false, if_true, gives_append, takes_append, hf.1, hf.2, gives_map_drop, takes_map_drop,
          (iterSrc_drop_quiet s).1, (iterSrc_drop_quiet s).2, List.append_nil]
        exact ⟨trivial, trivial⟩

theorem fresh_cons_perm (A : List (List Id)) (H D fr : List Id) :
    ((fr :: A).flatten ++ H ++ D).Perm (A.flatten ++ H ++ D ++ fr) :=
  perm_of_counts fun a => by simp only [List.flatten_cons, List.count_append]; omega

/-- **one step of any operation keeps the ledger**: every element created so far is in exactly one
    place — a live array, the live range of an iterator, the caller's hands, or the drop log -/
theorem step_ledger (p : Pool) (h : Ledger p) (op : Op) : Ledger (step p op) := by
  cases op with
  | gen n =>
    obtain ⟨h1, _⟩ := C08.generate_spec (fun i => p.next + i) n
    simp only [step]
    cases hg : generate (fun i => some (p.next + i)) n with
    | mk tr r =>
      rw [hg] at h1
      simp only [] at h1
      subst h1
      simp only []
      exact arrays_fresh_ledger p h n _ p.held p.dropped (fresh_cons_perm _ _ _ _)
  | rotA =>
    simp only [step]
    exact arrays_step_ledger p h _ _ _ (List.Perm.append_right _ (List.Perm.append_right _ (rot_flatten_perm _)))
  | rotI =>
    simp only [step]
    refine ledger_same p _ h rfl ?_ ?_
    · refine perm_of_counts fun a => ?_
      have hr : ((rot p.iters).map abs).flatten.Perm (p.iters.map abs).flatten := by
        cases hp : p.iters with
        | nil => simp [rot]
        | cons x t =>
          simp only [rot, List.map_append, List.map_cons, List.map_nil, List.flatten_append, List.flatten_cons,
            List.flatten_nil, List.append_nil]
          exact List.perm_append_comm
      have c := List.perm_iff_count.mp hr a
      simp only [owned_count] at c ⊢
      omega
    · intro x hx
      exact h.2 x ((rot_perm p.iters).mem_iff.mp hx)
  | rotH =>
    simp only [step]
    exact arrays_step_ledger p h _ _ _ (List.Perm.append_right _ (List.Perm.append_left _ (rot_perm _)))
  | intoIter =>
    simp only [step]
    cases ha : p.arrays with
    | nil => simpa [ha] using h
    | cons a rest =>
      simp only []
      obtain ⟨hi, habs⟩ := ofList_inv a
      refine ledger_same p _ h rfl ?_ ?_
      · refine perm_of_counts fun x => ?_
        simp only [owned_count, ha, List.map_cons, count_flatten_cons, habs]
        omega
      · exact iters_cons_inv _ _ hi h.2
  | next =>
    simp only [step]
    cases hp : p.iters with
    | nil => simpa [hp] using h
    | cons it rest =>
      simp only []
      have hinv : Inv it := h.2 it (by rw [hp]; exact List.mem_cons_self)
      obtain ⟨a, b, c⟩ := next_refines it hinv
      obtain ⟨e1, e2, _, e4⟩ := afterNext_item [] _ _ a
      refine iter_step_ledger p it _ rest _ h hp ?_ (by rw [e4]; exact c)
      rw [e1, e2, e4, b]
      simp only [drops_nil, gives_nil, List.nil_append]
      rw [head_tail]
  | nextBack =>
    simp only [step]
    cases hp : p.iters with
    | nil => simpa [hp] using h
    | cons it rest =>
      simp only []
      have hinv : Inv it := h.2 it (by rw [hp]; exact List.mem_cons_self)
      obtain ⟨a, b, c⟩ := nextBack_refines it hinv
      obtain ⟨e1, e2, _, e4⟩ := afterNext_item [] _ _ a
      refine iter_step_ledger p it _ rest _ h hp ?_ (by rw [e4]; exact c)
      rw [e1, e2, e4, b]
      simp only [drops_nil, gives_nil, List.nil_append]
      refine perm_of_counts fun y => ?_
      have c1 := List.perm_iff_count.mp (dropLast_getLast (abs it)) y
      simp only [List.count_append] at c1 ⊢
      omega
  | nth n =>
    simp only [step]
    cases hp : p.iters with
    | nil => simpa [hp] using h
    | cons it rest =>
      simp only []
      have hinv : Inv it := h.2 it (by rw [hp]; exact List.mem_cons_self)
      obtain ⟨e, _, c⟩ := nthD_partition it hinv n none
      rw [dropIter_eq] at e
      exact iter_step_ledger p it _ rest _ h hp (by rw [e]) c
  | nthBack n =>
    simp only [step]
    cases hp : p.iters with
    | nil => simpa [hp] using h
    | cons it rest =>
      simp only []
      have hinv : Inv it := h.2 it (by rw [hp]; exact List.mem_cons_self)
      obtain ⟨e, _, c⟩ := nthBackD_partition it hinv n none
      rw [dropIter_eq] at e
      exact iter_step_ledger p it _ rest _ h hp e c
  | iterClone =>
    simp only [step]
    cases hp : p.iters with
    | nil => simpa [hp] using h
    | cons it rest =>
      simp only []
      obtain ⟨c1, _, _⟩ := cloneLoop_total (fun k => p.next + k) (asSlice it) 0 []
      unfold cloneD
      rw [Bridge.IterOwn.cloneGuarded_eq]
      cases hc : cloneLoop true (fun k => some (p.next + k)) (asSlice it) 0 [] with
      | mk tr r =>
        rw [hc] at c1
        simp only [] at c1
        subst c1
        simp only [List.nil_append, List.length_map, List.length_range']
        obtain ⟨hi, habs⟩ := ofList_inv (List.map (fun k => p.next + k) (List.range' 0 (asSlice it).length))
        refine ledger_of p _ (asSlice it).length h rfl ?_ ?_
        · refine perm_of_counts fun x => ?_
          simp only [owned_count, hp, List.map_cons, count_flatten_cons, habs, List.count_append,
            List.range_eq_range']
          omega
        · refine iters_cons_inv _ _ hi ?_
          intro x hx; exact h.2 x (by rw [hp]; exact hx)
  | iterDrop =>
    simp only [step]
    cases hp : p.iters with
    | nil => simpa [hp] using h
    | cons it rest =>
      simp only []
      refine iter_consume_ledger p it rest _ h hp ?_
      rw [dropIter_eq]; simp [dropIter]
  | iterCount =>
    simp only [step]
    cases hp : p.iters with
    | nil => simpa [hp] using h
    | cons it rest =>
      simp only []
      refine iter_consume_ledger p it rest _ h hp ?_
      simp only [countD]
      rw [dropIter_eq]; simp [dropIter]
  | iterLast =>
    simp only [step]
    cases hp : p.iters with
    | nil => simpa [hp] using h
    | cons it rest =>
      simp only []
      have hinv : Inv it := h.2 it (by rw [hp]; exact List.mem_cons_self)
      exact iter_consume_ledger p it rest _ h hp (lastD_none it hinv)
  | iterFold =>
    simp only [step]
    cases hp : p.iters with
    | nil => simpa [hp] using h
    | cons it rest =>
      simp only []
      have hinv : Inv it := h.2 it (by rw [hp]; exact List.mem_cons_self)
      obtain ⟨g, d⟩ := foldD_total it hinv
      refine iter_consume_ledger p it rest _ h hp ?_
      rw [g, d]; simp
  | iterRfold =>
    simp only [step]
    cases hp : p.iters with
    | nil => simpa [hp] using h
    | cons it rest =>
      simp only []
      have hinv : Inv it := h.2 it (by rw [hp]; exact List.mem_cons_self)
      obtain ⟨g, d⟩ := rfoldD_total it hinv
      refine iter_consume_ledger p it rest _ h hp ?_
      rw [d]; simpa using g
  | map =>
    simp only [step]
    cases ha : p.arrays with
    | nil => simpa [ha] using h
    | cons a rest =>
      simp only []
      obtain ⟨s1, _, s3⟩ := C08.map_spec .owned (fun i => p.next + i) a
      obtain ⟨l1, _⟩ := C04.map_ledger .owned (fun i => some (p.next + i)) a
      cases hm : mapOp .owned (fun i => some (p.next + i)) a with
      | mk evs r =>
        rw [hm] at s1 s3 l1
        simp only [] at s1 s3 l1
        subst s1
        simp only [Res.ids, reduceCtorEq, or_self, if_false, takes_eq_rets, s3, List.map_map] at l1
        simp only [absorb]
        refine arrays_fresh_ledger p h a.length _ _ _ ?_
        refine perm_of_counts fun x => ?_
        have c := List.perm_iff_count.mp l1 x
        have e : (Prod.snd ∘ fun i => (i, p.next + i)) = fun i => p.next + i := rfl
        simp only [e] at c
        simp only [ha, List.flatten_cons, List.count_append] at c ⊢
        omega
  | zip =>
    simp only [step]
    cases ha : p.arrays with
    | nil => simpa [ha] using h
    | cons a t =>
      cases t with
      | nil => simpa [ha] using h
      | cons b rest =>
        simp only []
        by_cases hl : a.length = b.length
        · simp only [hl, if_true]
          obtain ⟨s1, _, s3⟩ := C08.zip_spec .owned .owned true true (fun i => p.next + i) a b hl
          obtain ⟨l1, _⟩ := C04.zip_ledger .owned .owned (fun i => some (p.next + i)) a b hl
          cases hm : zipOp .owned .owned true true (fun i => some (p.next + i)) a b with
          | mk evs r =>
            rw [hm] at s1 s3 l1
            simp only [] at s1 s3 l1
            subst s1
            simp only [Res.ids, C04.ownedInputs, reduceCtorEq, or_self, if_false, takes_eq_rets, s3, List.map_map] at l1
            simp only [absorb]
            rw [← hl]
            refine arrays_fresh_ledger p h a.length _ _ _ ?_
            refine perm_of_counts fun x => ?_
            have c := List.perm_iff_count.mp l1 x
            have e : (Prod.snd ∘ fun i => (i, p.next + i)) = fun i => p.next + i := rfl
            simp only [e] at c
            simp only [ha, List.flatten_cons, List.count_append] at c ⊢
            omega
        · simpa [hl, ha] using h
  | fold =>
    simp only [step]
    cases ha : p.arrays with
    | nil => simpa [ha] using h
    | cons a rest =>
      simp only []
      obtain ⟨l1, _⟩ := C04.fold_ledger .owned (fun _ => true) a
      have ht : takes (foldOp .owned (fun _ => true) a).1 = [] := by
        unfold foldOp
        simp only [takes_append, foldLoop_takes]
        split
        · simp only [List.nil_append]
          exact (side_dropEv (foldSide .owned) _).2.2.1
        · rfl
      simp only [ht, List.append_nil, C04.ownedInputs, reduceCtorEq, or_self, if_false] at l1
      simp only [absorb]
      refine arrays_step_ledger p h _ _ _ ?_
      refine perm_of_counts fun x => ?_
      have c := List.perm_iff_count.mp l1 x
      simp only [ha, List.flatten_cons, List.count_append] at c ⊢
      omega
  | clone =>
    simp only [step]
    cases ha : p.arrays with
    | nil => simpa [ha] using h
    | cons a rest =>
      simp only []
      obtain ⟨s1, _⟩ := C08.clone_spec (fun i => p.next + i) a
      cases hm : cloneOp (fun i => some (p.next + i)) a with
      | mk evs r =>
        rw [hm] at s1
        simp only [] at s1
        subst s1
        simp only []
        have := arrays_fresh_ledger p h a.length (List.map (fun i => p.next + i) (List.range a.length) :: a :: rest)
          p.held p.dropped (by rw [ha]; exact fresh_cons_perm _ _ _ _)
        exact this
  | append =>
    simp only [step]
    cases ha : p.arrays with
    | nil => simpa [ha] using h
    | cons a rest =>
      cases hh : p.held with
      | nil => simpa [ha, hh] using h
      | cons x hd =>
        simp only [C09.append_spec]
        refine arrays_step_ledger p h _ _ _ (perm_of_counts fun y => ?_)
        simp only [ha, hh, List.flatten_cons, List.count_append, List.count_cons, List.count_nil]; omega
  | prepend =>
    simp only [step]
    cases ha : p.arrays with
    | nil => simpa [ha] using h
    | cons a rest =>
      cases hh : p.held with
      | nil => simpa [ha, hh] using h
      | cons x hd =>
        simp only [C09.prepend_spec]
        refine arrays_step_ledger p h _ _ _ (perm_of_counts fun y => ?_)
        simp only [ha, hh, List.flatten_cons, List.count_append, List.count_cons, List.count_nil]; omega
  | popBack =>
    simp only [step]
    cases ha : p.arrays with
    | nil => simpa [ha] using h
    | cons a rest =>
      simp only []
      by_cases h0 : a.length = 0
      · simpa [h0, ha] using h
      · simp only [h0, if_false]
        have hsplit := last_split a (by omega)
        rw [hsplit, C09.pop_back_spec]
        simp only []
        refine arrays_step_ledger p h _ _ _ (perm_of_counts fun y => ?_)
        simp only [ha, List.flatten_cons, List.count_append, List.count_cons, List.count_nil]
        have c : List.count y a = List.count y (a.take (a.length - 1)) + List.count y [a[a.length - 1]'(by omega)] := by
          conv => lhs; rw [hsplit]
          simp only [List.count_append]
        simp only [List.count_cons, List.count_nil] at c
        omega
  | popFront =>
    simp only [step]
    cases ha : p.arrays with
    | nil => simpa [ha] using h
    | cons a rest =>
      simp only []
      cases a with
      | nil => simpa [ha] using h
      | cons x t =>
        simp only [List.length_cons, Nat.add_one_ne_zero, if_false, C09.pop_front_spec]
        refine arrays_step_ledger p h _ _ _ (perm_of_counts fun y => ?_)
        simp only [ha, List.flatten_cons, List.count_append, List.count_cons, List.count_nil]; omega
  | split k =>
    simp only [step]
    cases ha : p.arrays with
    | nil => simpa [ha] using h
    | cons a rest =>
      simp only []
      by_cases hk : k ≤ a.length
      · simp only [hk, if_true, C09.split_spec a k hk]
        refine arrays_step_ledger p h _ _ _ (perm_of_counts fun y => ?_)
        have c : List.count y a = List.count y (a.take k) + List.count y (a.drop k) := by
          conv => lhs; rw [← List.take_append_drop k a]
          simp only [List.count_append]
        simp only [ha, List.flatten_cons, List.count_append]; omega
      · simpa [hk, ha] using h
  | concat =>
    simp only [step]
    cases ha : p.arrays with
    | nil => simpa [ha] using h
    | cons a t =>
      cases t with
      | nil => simpa [ha] using h
      | cons b rest =>
        simp only [C09.concat_spec]
        refine arrays_step_ledger p h _ _ _ (perm_of_counts fun y => ?_)
        simp only [ha, List.flatten_cons, List.count_append]; omega
  | remove i =>
    simp only [step]
    cases ha : p.arrays with
    | nil => simpa [ha] using h
    | cons a rest =>
      simp only []
      by_cases hi : i < a.length
      · rw [C09.remove_spec a i hi]
        simp only []
        refine arrays_step_ledger p h _ _ _ (perm_of_counts fun y => ?_)
        have c := List.perm_iff_count.mp (eraseIdx_perm a i hi) y
        simp only [ha, List.flatten_cons, List.count_append, List.count_cons, List.count_nil] at c ⊢; omega
      · rw [(C09.remove_oob a i (by omega)).1]
        simp only []
        refine arrays_step_ledger p h _ _ _ (perm_of_counts fun y => ?_)
        simp only [ha, List.flatten_cons, List.count_append]; omega
  | swapRemove i =>
    simp only [step]
    cases ha : p.arrays with
    | nil => simpa [ha] using h
    | cons a rest =>
      simp only []
      by_cases hi : i < a.length
      · rw [C09.swap_remove_spec a i hi]
        simp only []
        refine arrays_step_ledger p h _ _ _ (perm_of_counts fun y => ?_)
        have c := List.perm_iff_count.mp (swap_remove_perm a i hi) y
        simp only [ha, List.flatten_cons, List.count_append, List.count_cons, List.count_nil] at c ⊢; omega
      · rw [(C09.remove_oob a i (by omega)).2]
        simp only []
        refine arrays_step_ledger p h _ _ _ (perm_of_counts fun y => ?_)
        simp only [ha, List.flatten_cons, List.count_append]; omega
  | flatten2 =>
    simp only [step]
    cases ha : p.arrays with
    | nil => simpa [ha] using h
    | cons a t =>
      cases t with
      | nil => simpa [ha] using h
      | cons b rest =>
        simp only []
        by_cases hl : a.length = b.length
        · simp only [hl, if_true]
          refine arrays_step_ledger p h _ _ _ (perm_of_counts fun y => ?_)
          simp only [ha, List.flatten_cons, List.count_append]; omega
        · simpa [hl, ha] using h
  | unflatten n =>
    simp only [step]
    cases ha : p.arrays with
    | nil => simpa [ha] using h
    | cons a rest =>
      simp only []
      by_cases hc : 0 < n ∧ a.length = 2 * n
      · simp only [hc, and_self, if_true]
        refine arrays_step_ledger p h _ _ _ (perm_of_counts fun y => ?_)
        have c : List.count y a = List.count y (a.take n) + List.count y (a.drop n) := by
          conv => lhs; rw [← List.take_append_drop n a]
          simp only [List.count_append]
        simp only [ha, List.flatten_cons, List.count_append]; omega
      · simpa [hc, ha] using h
  | collect n =>
    simp only [step]
    obtain ⟨l1, _⟩ := tryFromIter_ledger iterSrc Consumer.owned Consumer.Sync iterSrc_contract rfl n
      (0, some p.held.length) (Consumer.ofList p.held) (ofList_sync _)
    rw [libFrags_eq]
    have hg : gives (tryFromIter canonFrags iterSrc n (0, some p.held.length) (Consumer.ofList p.held)).1 = [] ∧
        takes (tryFromIter canonFrags iterSrc n (0, some p.held.length) (Consumer.ofList p.held)).1 = [] :=
      iterSrc_quiet n _ _
    rw [hg.1, hg.2] at l1
    have eo : (Consumer.ofList p.held).owned = p.held := rfl
    simp only [List.nil_append, List.append_nil, eo] at l1
    cases hc : tryFromIter canonFrags iterSrc n (0, some p.held.length) (Consumer.ofList p.held) with
    | mk evs r =>
      rw [hc] at l1
      cases r with
      | ok arr =>
        simp only [Res.ids] at l1 ⊢
        refine arrays_step_ledger p h _ _ _ (perm_of_counts fun y => ?_)
        have c := List.perm_iff_count.mp l1 y
        simp only [List.flatten_cons, List.count_append, List.count_nil] at c ⊢; omega
      | err =>
        simp only [Res.ids, List.append_nil] at l1 ⊢
        refine arrays_step_ledger p h _ _ _ (perm_of_counts fun y => ?_)
        have c := List.perm_iff_count.mp l1 y
        simp only [List.count_append, List.count_nil] at c ⊢; omega
      | panicked =>
        simp only [Res.ids, List.append_nil] at l1 ⊢
        refine arrays_step_ledger p h _ _ _ (perm_of_counts fun y => ?_)
        have c := List.perm_iff_count.mp l1 y
        simp only [List.count_append, List.count_nil] at c ⊢; omega
  | roundtrip => simpa [step] using h
  | dropArr =>
    simp only [step]
    cases ha : p.arrays with
    | nil => simpa [ha] using h
    | cons a rest =>
      simp only []
      refine arrays_step_ledger p h _ _ _ (perm_of_counts fun y => ?_)
      simp only [ha, List.flatten_cons, List.count_append]; omega
  | dropHeld =>
    simp only [step]
    cases hh : p.held with
    | nil => simpa [hh] using h
    | cons x hd =>
      simp only []
      have := arrays_step_ledger p h p.arrays hd (p.dropped ++ [x]) (perm_of_counts fun y => by
        simp only [hh, List.count_append, List.count_cons, List.count_nil]; omega)
      exact this

end GA.Pool
