import GA.Model.Ops
import GA.Lemmas.Own
import GA.Bridge.Lib
namespace GA.Ops
open GA.Own GA.Gen

theorem libFrags_eq : libFrags = canonFrags := by
  unfold libFrags canonFrags
  simp only [CollectFrags.mk.injEq]
  exact ⟨funext fun lo => funext fun n => Bridge.Lib.hintLoReject_eq lo n,
    funext fun hi => funext fun n => Bridge.Lib.hintHiReject_eq hi n,
    funext fun p => funext fun n => Bridge.Lib.isFull_eq p n,
    Bridge.Lib.fullBeforePoll_eq, Bridge.Lib.extendWriteBeforeCount_eq, Bridge.Lib.extendDestFirst_eq,
    Bridge.Lib.finishAfterProbe_eq⟩

theorem boxFrags_eq : boxFrags = canonFrags := by
  unfold boxFrags canonFrags
  simp only [CollectFrags.mk.injEq, and_true]
  refine ⟨funext fun lo => funext fun n => Bridge.Alloc.hintLoReject_eq lo n,
    funext fun hi => funext fun n => Bridge.Alloc.hintHiReject_eq hi n,
    funext fun p => funext fun n => ?_⟩
  rw [Bridge.Alloc.notFull_eq]; by_cases h : p = n <;> simp [h]

theorem collectFrags_eq (b : Bool) : collectFrags b = canonFrags := by
  cases b <;> simp [collectFrags, libFrags_eq, boxFrags_eq]

/-- `from_iter` inherits the `try_from_iter` ledger (`Err` only adds the length panic). -/
theorem fromIter_ledger {σ : Type} (S : Src σ) (owned : σ → List Id) (inv : σ → Prop)
    (hc : Contract S owned inv) (hown : S.owns = true) (n : Nat) (hint : Nat × Option Nat) (s0 : σ)
    (hi : inv s0) :
    (gives (fromIter canonFrags S n hint s0).1 ++ drops (fromIter canonFrags S n hint s0).1 ++
        (fromIter canonFrags S n hint s0).2.ids).Perm
      (owned s0 ++ takes (fromIter canonFrags S n hint s0).1) ∧
    uninitDrops (fromIter canonFrags S n hint s0).1 = 0 := by
  obtain ⟨hp, hu⟩ := tryFromIter_ledger S owned inv hc hown n hint s0 hi
  unfold fromIter
  revert hp hu
  cases tryFromIter canonFrags S n hint s0 with
  | mk tr r =>
    cases r with
    | ok a => intro hp hu; exact ⟨hp, hu⟩
    | panicked => intro hp hu; exact ⟨hp, hu⟩
    | err =>
      intro hp hu
      simp only [Res.ids, gives_append, drops_append, takes_append, uninit_append, gives, drops, takes,
        uninitDrops, List.append_nil, hu] at hp ⊢
      exact ⟨hp, trivial⟩

theorem consumer_side_good (pn : Nat → Nat → Nat) (adv : Bool) (h1 : adv = true) (h2 : ∀ p, pn p p = p + 1) :
    (Side.consumer pn adv).GoodA := ⟨h1, h2⟩

theorem sideOf_good (f : Form) : (sideOf f).GoodA := by cases f <;> trivial

theorem ofList_sync (l : List Id) : (Consumer.ofList l).Sync := rfl

theorem ownedOf_ofList (sd : Side) (l : List Id) (h : sd.owns = true) (hm : sd ≠ .manual) :
    sd.ownedOf (Consumer.ofList l) = l := by
  cases sd <;> simp_all [Side.ownedOf, Consumer.owned, Consumer.ofList, Side.owns]

end GA.Ops
