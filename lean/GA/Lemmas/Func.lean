import GA.Model.Ops
import GA.Lemmas.Own
import GA.Lemmas.Ops
/-!
Value / call-order view of the closure-driven operations (C08): when caller code does not panic
(`f i = some (g i)`), which calls are made, with which arguments, in which order, and what is stored.
These facts do not depend on how a side tracks its drop position, so they hold for every `Side`.
-/
namespace GA.Func
open GA.Own GA.Ops GA.Gen

/-- call log: `(call index, argument id)` in program order (two entries per `zip` call: left, right) -/
def args (evs : List Ev) : List (Nat × Id) :=
  evs.filterMap fun e => match e with
    | .give i x => some (i, x)
    | .lend i x => some (i, x)
    | _ => none
/-- what caller code returned: `(call index, value)` in program order -/
def rets (evs : List Ev) : List (Nat × Id) :=
  evs.filterMap fun e => match e with
    | .take i y => some (i, y)
    | _ => none

@[simp] theorem args_append (a b : List Ev) : args (a ++ b) = args a ++ args b := by simp [args]
@[simp] theorem rets_append (a b : List Ev) : rets (a ++ b) = rets a ++ rets b := by simp [rets]
@[simp] theorem args_nil : args [] = [] := rfl
@[simp] theorem rets_nil : rets [] = [] := rfl
@[simp] theorem args_map_drop (l : List Id) : args (l.map .drop) = [] := by
  induction l <;> simp_all [args]
@[simp] theorem rets_map_drop (l : List Id) : rets (l.map .drop) = [] := by
  induction l <;> simp_all [rets]
theorem args_arg (o : Bool) (i x : Nat) : args [arg o i x] = [(i, x)] := by cases o <;> simp [arg, args]
theorem rets_arg (o : Bool) (i x : Nat) : rets [arg o i x] = [] := by cases o <;> simp [arg, rets]

theorem side_dropEv_args (sd : Side) (c : Consumer) : args (sd.dropEv c) = [] ∧ rets (sd.dropEv c) = [] := by
  cases sd <;> simp only [Side.dropEv, Consumer.dropEv, args_map_drop, rets_map_drop, args_nil, rets_nil] <;> exact ⟨trivial, trivial⟩

/-- `(j, l[0]), (j+1, l[1]), …` -/
def enumFrom (j : Nat) : List Id → List (Nat × Id)
  | [] => []
  | x :: t => (j, x) :: enumFrom (j + 1) t

theorem side_after_idx (sd : Side) (c : Consumer) (q : Nat) (ok : Bool) :
    (sd.after c q ok).idx = c.idx + 1 ∧ (sd.after c q ok).slots = c.slots := by
  cases sd <;> exact ⟨rfl, rfl⟩

/-- the fill loop over a one-input closure source with a total closure `g`, from element `idx`:
    exactly the remaining elements are passed, in order, each once; the results are stored in order -/
theorem fill_map (sd : Side) (g : Nat → Id) (k : Nat) (c : Consumer) (out : List Id)
    (hk : c.idx + k = c.slots.length) :
    ∃ c', (fillLoop true true (mapSrc sd (fun i => some (g i))) k c out).2 =
        .full (out ++ (List.range' c.idx k).map g) c' ∧
      c'.idx = c.slots.length ∧ c'.slots = c.slots ∧
      args (fillLoop true true (mapSrc sd (fun i => some (g i))) k c out).1 = enumFrom c.idx (c.slots.drop c.idx) ∧
      rets (fillLoop true true (mapSrc sd (fun i => some (g i))) k c out).1 = (List.range' c.idx k).map (fun i => (i, g i)) := by
  induction k generalizing c out with
  | zero =>
    refine ⟨c, by simp [fillLoop], by omega, rfl, ?_, by simp [fillLoop]⟩
    rw [List.drop_eq_nil_of_le (by omega)]; simp [fillLoop, enumFrom]
  | succ k ih =>
    have hlt : c.idx < c.slots.length := by omega
    have hx : c.slots[c.idx]? = some c.slots[c.idx] := List.getElem?_eq_getElem hlt
    obtain ⟨i1, i2⟩ := side_after_idx sd c c.pos true
    obtain ⟨c', h1, h2, h3, h4, h5⟩ := ih (sd.after c c.pos true) (out ++ [g c.idx]) (by rw [i1, i2]; omega)
    refine ⟨c', ?_, by rw [h2, i2], by rw [h3, i2], ?_, ?_⟩
    · simp only [fillLoop, mapSrc, hx]
      simp only [mapSrc] at h1
      rw [h1, i1, List.range'_succ]
      simp [List.append_assoc]
    · simp only [fillLoop, mapSrc, hx, args_append]
      simp only [mapSrc] at h4
      rw [h4, i1, i2, drop_of_getElem? hx]
      have : args [arg sd.owns c.idx c.slots[c.idx], Ev.take c.idx (g c.idx)] = [(c.idx, c.slots[c.idx])] := by
        cases sd.owns <;> simp [arg, args]
      rw [this]; simp [enumFrom]
    · simp only [fillLoop, mapSrc, hx, rets_append]
      simp only [mapSrc] at h5
      rw [h5, i1, List.range'_succ]
      have : rets [arg sd.owns c.idx c.slots[c.idx], Ev.take c.idx (g c.idx)] = [(c.idx, g c.idx)] := by
        cases sd.owns <;> simp [arg, rets]
      rw [this]; simp

theorem enumFrom_zero_eq (l : List Id) : enumFrom 0 l = (List.range l.length).zip l := by
  suffices h : ∀ j, enumFrom j l = (List.range' j l.length).zip l by
    rw [h 0, List.range_eq_range']
  induction l with
  | nil => intro j; simp [enumFrom]
  | cons x t ih => intro j; simp [enumFrom, ih, List.range'_succ]

/-- `try_from_iter` / `from_iter` around a fill that completes and a source that then ends -/
theorem collect_of_full {σ : Type} (S : Src σ) (n : Nat) (s0 s s' : σ) (tr evs : List Ev) (out : List Id)
    (hf : fillLoop true true S n s0 [] = (tr, .full out s)) (hl : out.length = n)
    (hs : S.step s = .done evs s') :
    fromIter canonFrags S n (n, some n) s0 = (tr ++ evs ++ S.dropEv s', .ok out) := by
  have hr : hintReject canonFrags (n, some n) n = false := by simp [hintReject, canonFrags]
  have e1 : canonFrags.writeBeforeCount = true := rfl
  have e2 : canonFrags.destFirst = true := rfl
  have e3 : canonFrags.isFull out.length n = true := by simp [canonFrags, hl]
  unfold fromIter tryFromIter
  simp only [hr, Bool.false_eq_true, if_false, e1, e2, hf, e3, Bool.not_true, hs]

theorem mapSrc_done (sd : Side) (f : Nat → Option Id) (c : Consumer) (h : c.idx = c.slots.length) :
    (mapSrc sd f).step c = .done [] c := by
  simp only [mapSrc, h, List.getElem?_eq_none (Nat.le_refl _)]

/-- **`map`** with a non-panicking closure `g`, for every way the receiver is held: calls
    `g` with `(0, xs[0]), (1, xs[1]), …` in ascending order, once each, and stores `g i` at index `i`. -/
theorem map_side_spec (sd : Side) (g : Nat → Id) (xs : List Id) :
    let r := fromIter canonFrags (mapSrc sd (fun i => some (g i))) xs.length (xs.length, some xs.length) (Consumer.ofList xs)
    r.2 = .ok ((List.range xs.length).map g) ∧ args r.1 = (List.range xs.length).zip xs ∧
      rets r.1 = (List.range xs.length).map (fun i => (i, g i)) := by
  obtain ⟨c', h1, h2, h3, h4, h5⟩ := fill_map sd g xs.length (Consumer.ofList xs) [] (by simp [Consumer.ofList])
  have e0 : (Consumer.ofList xs).idx = 0 := rfl
  have e1 : (Consumer.ofList xs).slots = xs := rfl
  simp only [e0, e1, List.nil_append, List.drop_zero] at h1 h2 h3 h4 h5
  have hfe : fillLoop true true (mapSrc sd fun i => some (g i)) xs.length (Consumer.ofList xs) [] =
      ((fillLoop true true (mapSrc sd fun i => some (g i)) xs.length (Consumer.ofList xs) []).1,
        .full (List.map g (List.range' 0 xs.length)) c') := by
    rw [← h1]
  have := collect_of_full (mapSrc sd fun i => some (g i)) xs.length (Consumer.ofList xs) c' c' _ [] _ hfe
    (by simp) (mapSrc_done sd _ c' (by rw [h2, h3]))
  simp only [] at this ⊢
  rw [this]
  obtain ⟨d1, d2⟩ := side_dropEv_args sd c'
  have hde : (mapSrc sd fun i => some (g i)).dropEv c' = sd.dropEv c' := rfl
  simp only [args_append, rets_append, args_nil, rets_nil, List.append_nil, hde, d1, d2]
  refine ⟨by rw [List.range_eq_range'], ?_, by rw [h5, List.range_eq_range']⟩
  rw [h4, enumFrom_zero_eq]

/-- `(j, a[0]), (j, b[0]), (j+1, a[1]), (j+1, b[1]), …` -/
def enumFrom2 (j : Nat) : List Id → List Id → List (Nat × Id)
  | x :: t, y :: u => (j, x) :: (j, y) :: enumFrom2 (j + 1) t u
  | _, _ => []

theorem fill_zip (sa sb : Side) (g : Nat → Id) (k : Nat) (z : Zip2) (out : List Id)
    (hab : z.a.idx = z.b.idx) (hlen : z.a.slots.length = z.b.slots.length) (hk : z.a.idx + k = z.a.slots.length) :
    ∃ z', (fillLoop true true (zipSrc sa sb (fun i => some (g i))) k z out).2 =
        .full (out ++ (List.range' z.a.idx k).map g) z' ∧
      z'.a.idx = z.a.slots.length ∧ z'.a.slots = z.a.slots ∧
      args (fillLoop true true (zipSrc sa sb (fun i => some (g i))) k z out).1 =
        enumFrom2 z.a.idx (z.a.slots.drop z.a.idx) (z.b.slots.drop z.b.idx) ∧
      rets (fillLoop true true (zipSrc sa sb (fun i => some (g i))) k z out).1 =
        (List.range' z.a.idx k).map (fun i => (i, g i)) := by
  induction k generalizing z out with
  | zero =>
    refine ⟨z, by simp [fillLoop], by omega, rfl, ?_, by simp [fillLoop]⟩
    rw [List.drop_eq_nil_of_le (by omega)]; simp [fillLoop, enumFrom2]
  | succ k ih =>
    have hlt : z.a.idx < z.a.slots.length := by omega
    have hltb : z.b.idx < z.b.slots.length := by omega
    have hx : z.a.slots[z.a.idx]? = some z.a.slots[z.a.idx] := List.getElem?_eq_getElem hlt
    have hy : z.b.slots[z.b.idx]? = some z.b.slots[z.b.idx] := List.getElem?_eq_getElem hltb
    obtain ⟨a1, a2⟩ := side_after_idx sa z.a z.b.pos true
    obtain ⟨b1, b2⟩ := side_after_idx sb z.b z.a.pos true
    obtain ⟨z', h1, h2, h3, h4, h5⟩ := ih ⟨sa.after z.a z.b.pos true, sb.after z.b z.a.pos true⟩ (out ++ [g z.a.idx])
      (by simp only [a1, b1, hab]) (by simp only [a2, b2, hlen]) (by simp only [a1, a2]; omega)
    simp only [a1, a2, b1, b2] at h1 h2 h3 h4 h5
    refine ⟨z', ?_, h2, h3, ?_, ?_⟩
    · simp only [fillLoop, zipSrc, hx, hy]
      simp only [zipSrc] at h1
      rw [h1, List.range'_succ]
      simp [List.append_assoc]
    · simp only [fillLoop, zipSrc, hx, hy, args_append]
      simp only [zipSrc] at h4
      rw [h4, drop_of_getElem? hx, drop_of_getElem? hy]
      have : args [arg sa.owns z.a.idx z.a.slots[z.a.idx], arg sb.owns z.a.idx z.b.slots[z.b.idx],
          Ev.take z.a.idx (g z.a.idx)] = [(z.a.idx, z.a.slots[z.a.idx]), (z.a.idx, z.b.slots[z.b.idx])] := by
        cases sa.owns <;> cases sb.owns <;> simp [arg, args]
      rw [this]; simp [enumFrom2]
    · simp only [fillLoop, zipSrc, hx, hy, rets_append]
      simp only [zipSrc] at h5
      rw [h5, List.range'_succ]
      have : rets [arg sa.owns z.a.idx z.a.slots[z.a.idx], arg sb.owns z.a.idx z.b.slots[z.b.idx],
          Ev.take z.a.idx (g z.a.idx)] = [(z.a.idx, g z.a.idx)] := by
        cases sa.owns <;> cases sb.owns <;> simp [arg, rets]
      rw [this]; simp

theorem zipSrc_done (sa sb : Side) (f : Nat → Option Id) (z : Zip2) (h : z.a.idx = z.a.slots.length) :
    (zipSrc sa sb f).step z = .done [] z := by
  simp only [zipSrc, h, List.getElem?_eq_none (Nat.le_refl _)]

/-- **`zip`** with a non-panicking closure, for every pair of sides: call `i` gets `(a[i], b[i])`,
    calls are in ascending order, once each, `g i` is stored at index `i`. -/
theorem zip_side_spec (sa sb : Side) (g : Nat → Id) (xs ys : List Id) (hlen : xs.length = ys.length) :
    let r := fromIter canonFrags (zipSrc sa sb (fun i => some (g i))) xs.length (xs.length, some xs.length)
      ⟨Consumer.ofList xs, Consumer.ofList ys⟩
    r.2 = .ok ((List.range xs.length).map g) ∧ args r.1 = enumFrom2 0 xs ys ∧
      rets r.1 = (List.range xs.length).map (fun i => (i, g i)) := by
  obtain ⟨z', h1, h2, h3, h4, h5⟩ := fill_zip sa sb g xs.length ⟨Consumer.ofList xs, Consumer.ofList ys⟩ []
    rfl hlen (by simp [Consumer.ofList])
  have e0 : (Consumer.ofList xs).idx = 0 := rfl
  have e1 : (Consumer.ofList xs).slots = xs := rfl
  have e2 : (Consumer.ofList ys).idx = 0 := rfl
  have e3 : (Consumer.ofList ys).slots = ys := rfl
  simp only [e0, e1, e2, e3, List.nil_append, List.drop_zero] at h1 h2 h3 h4 h5
  have hfe : fillLoop true true (zipSrc sa sb fun i => some (g i)) xs.length ⟨Consumer.ofList xs, Consumer.ofList ys⟩ [] =
      ((fillLoop true true (zipSrc sa sb fun i => some (g i)) xs.length ⟨Consumer.ofList xs, Consumer.ofList ys⟩ []).1,
        .full (List.map g (List.range' 0 xs.length)) z') := by
    rw [← h1]
  have := collect_of_full (zipSrc sa sb fun i => some (g i)) xs.length ⟨Consumer.ofList xs, Consumer.ofList ys⟩ z' z' _ [] _ hfe
    (by simp) (zipSrc_done sa sb _ z' (by rw [h2, h3]))
  simp only [] at this ⊢
  rw [this]
  obtain ⟨d1, d2⟩ := side_dropEv_args sa z'.a
  obtain ⟨d3, d4⟩ := side_dropEv_args sb z'.b
  have hde : (zipSrc sa sb fun i => some (g i)).dropEv z' = sb.dropEv z'.b ++ sa.dropEv z'.a := rfl
  simp only [args_append, rets_append, args_nil, rets_nil, List.append_nil, hde, d1, d2, d3, d4]
  exact ⟨by rw [List.range_eq_range'], h4, by rw [h5, List.range_eq_range']⟩

/-- `generate` with a non-panicking generator: called with `0, 1, …, n-1` in order, result `i ↦ g i` -/
theorem fill_gen (g : Nat → Id) (k j : Nat) (out : List Id) :
    (fillLoop true true (genSrc (fun i => some (g i))) k j out).2 = .full (out ++ (List.range' j k).map g) (j + k) ∧
    rets (fillLoop true true (genSrc (fun i => some (g i))) k j out).1 = (List.range' j k).map (fun i => (i, g i)) ∧
    args (fillLoop true true (genSrc (fun i => some (g i))) k j out).1 = [] := by
  induction k generalizing j out with
  | zero => simp [fillLoop]
  | succ k ih =>
    obtain ⟨h1, h2, h3⟩ := ih (j + 1) (out ++ [g j])
    simp only [fillLoop, genSrc] at h1 h2 h3 ⊢
    rw [h1, List.range'_succ]
    refine ⟨by simp [List.append_assoc]; omega, ?_, ?_⟩
    · simp only [rets_append, h2]; simp [rets]
    · simp only [args_append, h3]; simp [args]

end GA.Func
