import GA.Model.Own
/-!
Generic ledger theorems for the fill loop and `try_from_iter` over any source that satisfies a
one-step ownership contract.  Multiset equalities are stated as `List.Perm` and proved through
`List.perm_iff_count` + `omega`.
-/
set_option linter.unusedSimpArgs false
namespace GA.Own

@[simp] theorem gives_nil : gives [] = [] := rfl
@[simp] theorem takes_nil : takes [] = [] := rfl
@[simp] theorem drops_nil : drops [] = [] := rfl
@[simp] theorem uninit_nil : uninitDrops [] = 0 := rfl

@[simp] theorem gives_append (a b : List Ev) : gives (a ++ b) = gives a ++ gives b := by
  induction a with
  | nil => rfl
  | cons e t ih => cases e <;> simp_all [gives]
@[simp] theorem takes_append (a b : List Ev) : takes (a ++ b) = takes a ++ takes b := by
  induction a with
  | nil => rfl
  | cons e t ih => cases e <;> simp_all [takes]
@[simp] theorem drops_append (a b : List Ev) : drops (a ++ b) = drops a ++ drops b := by
  induction a with
  | nil => rfl
  | cons e t ih => cases e <;> simp_all [drops]
@[simp] theorem uninit_append (a b : List Ev) : uninitDrops (a ++ b) = uninitDrops a + uninitDrops b := by
  induction a with
  | nil => simp [uninitDrops]
  | cons e t ih => cases e <;> simp_all [uninitDrops] <;> omega
@[simp] theorem polls_append (a b : List Ev) : polls (a ++ b) = polls a + polls b := by
  induction a with
  | nil => simp [polls]
  | cons e t ih => cases e <;> simp_all [polls] <;> omega

@[simp] theorem drops_map_drop (l : List Id) : drops (l.map .drop) = l := by
  induction l <;> simp_all [drops]
@[simp] theorem gives_map_drop (l : List Id) : gives (l.map .drop) = [] := by
  induction l <;> simp_all [gives]
@[simp] theorem takes_map_drop (l : List Id) : takes (l.map .drop) = [] := by
  induction l <;> simp_all [takes]
@[simp] theorem uninit_map_drop (l : List Id) : uninitDrops (l.map .drop) = 0 := by
  induction l <;> simp_all [uninitDrops]
@[simp] theorem polls_map_drop (l : List Id) : polls (l.map .drop) = 0 := by
  induction l <;> simp_all [polls]

@[simp] theorem builderDrop_true (out : List Id) : builderDrop true out = out.map .drop := by
  simp [builderDrop]

/-- The ledger as a count equation: `l ~ r` iff every id occurs equally often. -/
theorem perm_of_counts {l r : List Id} (h : ∀ a, l.count a = r.count a) : l.Perm r :=
  List.perm_iff_count.mpr h

/-- what a source owes: per step, everything it owned or was handed is given away, dropped,
    yielded, or still owned; its destructor drops exactly what it owns. -/
structure Contract {σ : Type} (S : Src σ) (owned : σ → List Id) : Prop where
  yield : ∀ s evs x s', S.step s = .yield evs x s' →
    (gives evs ++ drops evs ++ (if S.owns then [x] else []) ++ owned s').Perm (owned s ++ takes evs) ∧
      uninitDrops evs = 0
  done : ∀ s evs s', S.step s = .done evs s' →
    (gives evs ++ drops evs ++ owned s').Perm (owned s ++ takes evs) ∧ uninitDrops evs = 0
  panic : ∀ s evs s', S.step s = .panic evs s' →
    (gives evs ++ drops evs ++ owned s').Perm (owned s ++ takes evs) ∧ uninitDrops evs = 0
  drop : ∀ s, drops (S.dropEv s) = owned s ∧ gives (S.dropEv s) = [] ∧ takes (S.dropEv s) = [] ∧
    uninitDrops (S.dropEv s) = 0

def FillRes.ids {σ : Type} : FillRes σ → List Id
  | .full out _ => out
  | .short out _ => out
  | .panicked => []
def FillRes.rest {σ : Type} (owned : σ → List Id) : FillRes σ → List Id
  | .full _ s => owned s
  | .short _ s => owned s
  | .panicked => []

/-- **Fill-loop ledger** (for every source state, every partial output, every number of slots):
    all ids the builder and the source owned, plus everything caller code handed in, end up —
    exactly once — given away, dropped, in the output, or still owned by the source. -/
theorem fillLoop_ledger {σ : Type} (S : Src σ) (owned : σ → List Id) (hc : Contract S owned)
    (hown : S.owns = true) (k : Nat) (s : σ) (out : List Id) :
    (gives (fillLoop true S k s out).1 ++ drops (fillLoop true S k s out).1 ++
        (fillLoop true S k s out).2.ids ++ (fillLoop true S k s out).2.rest owned).Perm
      (out ++ owned s ++ takes (fillLoop true S k s out).1) ∧
    uninitDrops (fillLoop true S k s out).1 = 0 := by
  induction k generalizing s out with
  | zero =>
    simp only [fillLoop, FillRes.ids, FillRes.rest, gives_nil, drops_nil, takes_nil, uninit_nil]
    exact ⟨by simp, trivial⟩
  | succ k ih =>
    cases hs : S.step s with
    | yield evs x s' =>
      obtain ⟨hp, hu⟩ := hc.yield s evs x s' hs
      obtain ⟨ihp, ihu⟩ := ih s' (out ++ [x])
      simp only [fillLoop, hs, gives_append, drops_append, takes_append, uninit_append, hu, ihu]
      refine ⟨perm_of_counts fun a => ?_, trivial⟩
      have c1 := List.perm_iff_count.mp hp a
      have c2 := List.perm_iff_count.mp ihp a
      simp only [hown, if_true, List.count_append] at c1 c2 ⊢
      omega
    | done evs s' =>
      obtain ⟨hp, hu⟩ := hc.done s evs s' hs
      simp only [fillLoop, hs, FillRes.ids, FillRes.rest, hu]
      refine ⟨perm_of_counts fun a => ?_, trivial⟩
      have c1 := List.perm_iff_count.mp hp a
      simp only [List.count_append] at c1 ⊢
      omega
    | panic evs s' =>
      obtain ⟨hp, hu⟩ := hc.panic s evs s' hs
      obtain ⟨d1, d2, d3, d4⟩ := hc.drop s'
      simp only [fillLoop, hs, FillRes.ids, FillRes.rest, builderDrop_true, gives_append, drops_append,
        takes_append, uninit_append, drops_map_drop, gives_map_drop, takes_map_drop, uninit_map_drop,
        d1, d2, d3, d4, hu, List.append_nil]
      refine ⟨perm_of_counts fun a => ?_, trivial⟩
      have c1 := List.perm_iff_count.mp hp a
      simp only [List.count_append, List.count_nil] at c1 ⊢
      omega

/-- the fill loop never writes more than the number of destination slots, and `full` means all -/
theorem fillLoop_len {σ : Type} (wbc : Bool) (S : Src σ) (k : Nat) (s : σ) (out : List Id) :
    match (fillLoop wbc S k s out).2 with
    | .full o _ => o.length = out.length + k
    | .short o _ => o.length < out.length + k
    | .panicked => True := by
  induction k generalizing s out with
  | zero => simp [fillLoop]
  | succ k ih =>
    cases hs : S.step s with
    | yield evs x s' =>
      simp only [fillLoop, hs]
      have := ih s' (out ++ [x])
      revert this
      cases (fillLoop wbc S k s' (out ++ [x])).2 <;> simp <;> omega
    | done evs s' => simp [fillLoop, hs]
    | panic evs s' => simp [fillLoop, hs]

/-- canonical reading of the `try_from_iter` conditions -/
def canonFrags : CollectFrags where
  hintLoReject lo n := decide (lo > n)
  hintHiReject hi n := decide (hi < n)
  isFull pos n := decide (pos = n)
  fullBeforePoll := true
  writeBeforeCount := true

/-- **`try_from_iter` ledger** over any contract-abiding source, any size hint (truthful or not):
    every id is accounted for exactly once on every path (`Ok`, `Err` short, `Err` long, `Err` by
    hint, panic at any poll), and no uninitialised slot is ever dropped or returned. -/
theorem tryFromIter_ledger {σ : Type} (S : Src σ) (owned : σ → List Id) (hc : Contract S owned)
    (hown : S.owns = true) (n : Nat) (hint : Nat × Option Nat) (s0 : σ) :
    (gives (tryFromIter canonFrags S n hint s0).1 ++ drops (tryFromIter canonFrags S n hint s0).1 ++
        (tryFromIter canonFrags S n hint s0).2.ids).Perm
      (owned s0 ++ takes (tryFromIter canonFrags S n hint s0).1) ∧
    uninitDrops (tryFromIter canonFrags S n hint s0).1 = 0 := by
  unfold tryFromIter
  by_cases hr : hintReject canonFrags hint n = true
  · obtain ⟨d1, d2, d3, d4⟩ := hc.drop s0
    simp [hr, d1, d2, d3, d4, Res.ids]
  · simp only [hr, Bool.false_eq_true, if_false]
    have hl := fillLoop_ledger S owned hc hown n s0 []
    have hlen := fillLoop_len true S n s0 []
    simp only [canonFrags] at *
    revert hl hlen
    cases hf : fillLoop true S n s0 [] with
    | mk tr r =>
      cases r with
      | panicked =>
        simp only [FillRes.ids, FillRes.rest, Res.ids, List.append_nil, List.nil_append]
        intro hl _; exact hl
      | short out s =>
        simp only [FillRes.ids, FillRes.rest, Res.ids, List.nil_append, List.length_nil, Nat.zero_add,
          Bool.not_true, Bool.and_false, Bool.false_eq_true, if_false]
        intro ⟨hp, hu⟩ _
        obtain ⟨d1, d2, d3, d4⟩ := hc.drop s
        simp only [gives_append, drops_append, takes_append, uninit_append, drops_map_drop, gives_map_drop,
          takes_map_drop, uninit_map_drop, d1, d2, d3, d4, hu, List.append_nil]
        refine ⟨perm_of_counts fun a => ?_, trivial⟩
        have c1 := List.perm_iff_count.mp hp a
        simp only [List.count_append, List.count_nil] at c1 ⊢
        omega
      | full out s =>
        simp only [FillRes.ids, FillRes.rest, Res.ids, List.nil_append, List.length_nil, Nat.zero_add]
        intro ⟨hp, hu⟩ hlen
        simp only [hlen, decide_true, Bool.not_true, Bool.false_eq_true, if_false]
        cases hs : S.step s with
        | yield evs x s' =>
          obtain ⟨sp, su⟩ := hc.yield s evs x s' hs
          obtain ⟨d1, d2, d3, d4⟩ := hc.drop s'
          simp only [hown, if_true, gives_append, drops_append, takes_append, uninit_append, drops_map_drop,
            gives_map_drop, takes_map_drop, uninit_map_drop, d1, d2, d3, d4, hu, su, List.append_nil, Res.ids,
            drops, gives, takes, uninitDrops]
          refine ⟨perm_of_counts fun a => ?_, trivial⟩
          have c1 := List.perm_iff_count.mp hp a
          have c2 := List.perm_iff_count.mp sp a
          simp only [hown, if_true, List.count_append, List.count_nil] at c1 c2 ⊢
          omega
        | done evs s' =>
          obtain ⟨sp, su⟩ := hc.done s evs s' hs
          obtain ⟨d1, d2, d3, d4⟩ := hc.drop s'
          simp only [gives_append, drops_append, takes_append, uninit_append, d1, d2, d3, d4, hu, su,
            List.append_nil, Res.ids]
          refine ⟨perm_of_counts fun a => ?_, trivial⟩
          have c1 := List.perm_iff_count.mp hp a
          have c2 := List.perm_iff_count.mp sp a
          simp only [List.count_append, List.count_nil] at c1 c2 ⊢
          omega
        | panic evs s' =>
          obtain ⟨sp, su⟩ := hc.panic s evs s' hs
          obtain ⟨d1, d2, d3, d4⟩ := hc.drop s'
          simp only [gives_append, drops_append, takes_append, uninit_append, drops_map_drop,
            gives_map_drop, takes_map_drop, uninit_map_drop, d1, d2, d3, d4, hu, su, List.append_nil, Res.ids]
          refine ⟨perm_of_counts fun a => ?_, trivial⟩
          have c1 := List.perm_iff_count.mp hp a
          have c2 := List.perm_iff_count.mp sp a
          simp only [List.count_append, List.count_nil] at c1 c2 ⊢
          omega

/-! ### Contracts of the concrete sources -/

theorem drop_of_getElem? {l : List Id} {i : Nat} {x : Id} (h : l[i]? = some x) :
    l.drop i = x :: l.drop (i + 1) := by
  obtain ⟨hlt, hget⟩ := List.getElem?_eq_some_iff.mp h
  rw [List.drop_eq_getElem_cons hlt, hget]

theorem drop_of_getElem?_none {l : List Id} {i : Nat} (h : l[i]? = none) : l.drop i = [] :=
  List.drop_eq_nil_of_le (List.getElem?_eq_none_iff.mp h)

theorem genSrc_contract (f : Nat → Option Id) : Contract (genSrc f) (fun _ => []) where
  yield := by
    intro s evs x s' h
    simp only [genSrc] at h
    cases hf : f s <;> simp only [hf] at h <;> cases h
    simp [gives, drops, takes, uninitDrops, genSrc]
  done := by
    intro s evs s' h
    simp only [genSrc] at h
    cases hf : f s <;> simp only [hf] at h <;> cases h
  panic := by
    intro s evs s' h
    simp only [genSrc] at h
    cases hf : f s <;> simp only [hf] at h <;> cases h
    simp [gives, drops, takes, uninitDrops]
  drop := by intro s; simp [genSrc]

def Consumer.owned (c : Consumer) : List Id := c.slots.drop c.pos

theorem consumer_dropEv (c : Consumer) :
    drops c.dropEv = c.owned ∧ gives c.dropEv = [] ∧ takes c.dropEv = [] ∧ uninitDrops c.dropEv = 0 := by
  simp only [Consumer.dropEv, Consumer.owned, drops_map_drop, gives_map_drop, takes_map_drop, uninit_map_drop]
  exact ⟨trivial, trivial, trivial, trivial⟩

/-- owned `map`: with the position bumped *before* the closure runs, the consumer never owns an
    element that the closure also owns. -/
theorem mapSrc_contract (f : Nat → Option Id) : Contract (mapSrc true f) Consumer.owned where
  yield := by
    intro c evs x c' h
    simp only [mapSrc] at h
    cases hx : c.slots[c.pos]? <;> simp only [hx] at h
    · cases h
    · rename_i v
      cases hf : f c.pos <;> simp only [hf] at h <;> cases h
      simp only [Consumer.owned, drop_of_getElem? hx, gives, drops, takes, uninitDrops, mapSrc, if_true]
      exact ⟨perm_of_counts fun a => by simp only [List.count_append, List.count_cons, List.count_nil]; omega, trivial⟩
  done := by
    intro c evs c' h
    simp only [mapSrc] at h
    cases hx : c.slots[c.pos]? <;> simp only [hx] at h
    · cases h; simp [Consumer.owned]
    · cases hf : f c.pos <;> simp only [hf] at h <;> cases h
  panic := by
    intro c evs c' h
    simp only [mapSrc] at h
    cases hx : c.slots[c.pos]? <;> simp only [hx] at h
    · cases h
    · cases hf : f c.pos <;> simp only [hf] at h <;> cases h
      simp only [Consumer.owned, drop_of_getElem? hx, gives, drops, takes, uninitDrops, if_true]
      exact ⟨perm_of_counts fun a => by simp only [List.count_append, List.count_cons, List.count_nil]; omega, trivial⟩
  drop := by intro c; exact consumer_dropEv c

theorem refSrc_contract (f : Nat → Option Id) : Contract (refSrc f) (fun _ => []) where
  yield := by
    intro c evs x c' h
    simp only [refSrc] at h
    cases hx : c.slots[c.pos]? <;> simp only [hx] at h
    · cases h
    · cases hf : f c.pos <;> simp only [hf] at h <;> cases h
      simp [gives, drops, takes, uninitDrops, refSrc]
  done := by
    intro c evs c' h
    simp only [refSrc] at h
    cases hx : c.slots[c.pos]? <;> simp only [hx] at h
    · cases h; simp
    · cases hf : f c.pos <;> simp only [hf] at h <;> cases h
  panic := by
    intro c evs c' h
    simp only [refSrc] at h
    cases hx : c.slots[c.pos]? <;> simp only [hx] at h
    · cases h
    · cases hf : f c.pos <;> simp only [hf] at h <;> cases h
      simp [gives, drops, takes, uninitDrops]
  drop := by intro c; simp [refSrc]

def Side.ownedOf (sd : Side) (c : Consumer) : List Id :=
  match sd with
  | .borrowed => []
  | _ => c.owned

def Zip2.owned (sa sb : Side) (z : Zip2) : List Id := sb.ownedOf z.b ++ sa.ownedOf z.a

theorem side_dropEv (sd : Side) (c : Consumer) :
    drops (sd.dropEv c) = sd.ownedOf c ∧ gives (sd.dropEv c) = [] ∧ takes (sd.dropEv c) = [] ∧
      uninitDrops (sd.dropEv c) = 0 := by
  cases sd <;> simp [Side.dropEv, Side.ownedOf, consumer_dropEv]

theorem gives_arg (o : Bool) (i x : Nat) : gives [arg o i x] = if o then [x] else [] := by
  cases o <;> simp [arg, gives]

/-- every `zip` body, for every combination of sides, provided each consumer side bumps its
    position before the closure is called (`keeps = false`). -/
theorem zipSrc_contract (sa sb : Side) (f : Nat → Option Id) (ha : sa.keeps = false) (hb : sb.keeps = false) :
    Contract (zipSrc sa sb f) (Zip2.owned sa sb) where
  yield := by
    intro z evs x z' h
    simp only [zipSrc] at h
    cases hx : z.a.slots[z.a.pos]? <;> simp only [hx] at h
    · cases h
    · cases hy : z.b.slots[z.b.pos]? <;> simp only [hy] at h
      · cases h
      · cases hf : f z.a.pos <;> simp only [hf] at h <;> cases h
        refine ⟨perm_of_counts fun a => ?_, ?_⟩
        · cases sa <;> cases sb <;>
            simp only [Zip2.owned, Side.ownedOf, Consumer.owned, drop_of_getElem? hx, drop_of_getElem? hy,
              gives, drops, takes, arg, Side.owns, zipSrc, if_true, Bool.false_eq_true, if_false,
              List.count_append, List.count_cons, List.count_nil] <;> omega
        · cases sa <;> cases sb <;> simp [arg, uninitDrops, Side.owns]
  done := by
    intro z evs z' h
    simp only [zipSrc] at h
    cases hx : z.a.slots[z.a.pos]? <;> simp only [hx] at h
    · cases h; simp
    · cases hy : z.b.slots[z.b.pos]? <;> simp only [hy] at h
      · cases h
        refine ⟨perm_of_counts fun a => ?_, ?_⟩
        · cases sa <;> cases sb <;>
            simp only [Zip2.owned, Side.ownedOf, Consumer.owned, drop_of_getElem? hx, drop_of_getElem?_none hy,
              gives, drops, takes, if_true, reduceCtorEq, if_false,
              List.count_append, List.count_cons, List.count_nil] <;> omega
        · cases sa <;> simp [uninitDrops]
      · cases hf : f z.a.pos <;> simp only [hf] at h <;> cases h
  panic := by
    intro z evs z' h
    simp only [zipSrc] at h
    cases hx : z.a.slots[z.a.pos]? <;> simp only [hx] at h
    · cases h
    · cases hy : z.b.slots[z.b.pos]? <;> simp only [hy] at h
      · cases h
      · cases hf : f z.a.pos <;> simp only [hf] at h <;> cases h
        refine ⟨perm_of_counts fun a => ?_, ?_⟩
        · simp only [ha, hb, Bool.false_eq_true, if_false]
          cases sa <;> cases sb <;>
            simp only [Zip2.owned, Side.ownedOf, Consumer.owned, drop_of_getElem? hx, drop_of_getElem? hy,
              gives, drops, takes, arg, Side.owns, if_true, Bool.false_eq_true, if_false,
              List.count_append, List.count_cons, List.count_nil] <;> omega
        · cases sa <;> cases sb <;> simp [arg, uninitDrops, Side.owns]
  drop := by
    intro z
    obtain ⟨a1, a2, a3, a4⟩ := side_dropEv sa z.a
    obtain ⟨b1, b2, b3, b4⟩ := side_dropEv sb z.b
    simp only [zipSrc, drops_append, gives_append, takes_append, uninit_append, a1, a2, a3, a4, b1, b2, b3, b4,
      Zip2.owned, List.append_nil]
    exact ⟨trivial, trivial, trivial, trivial⟩

theorem scriptSrc_contract : Contract scriptSrc (fun _ => []) where
  yield := by
    intro s evs x s' h
    simp only [scriptSrc] at h
    split at h
    · cases h
    · split at h <;> cases h
      simp [gives, drops, takes, uninitDrops, scriptSrc]
  done := by
    intro s evs s' h
    simp only [scriptSrc] at h
    split at h
    · cases h
    · split at h <;> cases h
      simp [gives, drops, takes, uninitDrops]
  panic := by
    intro s evs s' h
    simp only [scriptSrc] at h
    split at h
    · cases h; simp [gives, drops, takes, uninitDrops]
    · split at h <;> cases h
  drop := by intro s; simp [scriptSrc]

end GA.Own
