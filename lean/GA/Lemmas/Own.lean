import GA.Model.Own
/-!
Generic ledger theorems for the fill loop and `try_from_iter` over any source that satisfies a
one-step ownership contract.  Multiset equalities are stated as `List.Perm` and proved through
`List.perm_iff_count` + `omega`.
-/
set_option linter.unusedSimpArgs false
namespace GA.Own

@[simp] theorem gives_nil : gives [] = [] := rfl
@[simp] theorem takes_nil : takes [] = [] := rfl
@[simp] theorem drops_nil : drops [] = [] := rfl
@[simp] theorem uninit_nil : uninitDrops [] = 0 := rfl

@[simp] theorem gives_append (a b : List Ev) : gives (a ++ b) = gives a ++ gives b := by
  induction a with
  | nil => rfl
  | cons e t ih => cases e <;> simp_all [gives]
@[simp] theorem takes_append (a b : List Ev) : takes (a ++ b) = takes a ++ takes b := by
  induction a with
  | nil => rfl
  | cons e t ih => cases e <;> simp_all [takes]
@[simp] theorem drops_append (a b : List Ev) : drops (a ++ b) = drops a ++ drops b := by
  induction a with
  | nil => rfl
  | cons e t ih => cases e <;> simp_all [drops]
@[simp] theorem uninit_append (a b : List Ev) : uninitDrops (a ++ b) = uninitDrops a + uninitDrops b := by
  induction a with
  | nil => simp [uninitDrops]
  | cons e t ih => cases e <;> simp_all [uninitDrops] <;> omega
@[simp] theorem polls_append (a b : List Ev) : polls (a ++ b) = polls a + polls b := by
  induction a with
  | nil => simp [polls]
  | cons e t ih => cases e <;> simp_all [polls] <;> omega

@[simp] theorem drops_map_drop (l : List Id) : drops (l.map .drop) = l := by
  induction l <;> simp_all [drops]
@[simp] theorem gives_map_drop (l : List Id) : gives (l.map .drop) = [] := by
  induction l <;> simp_all [gives]
@[simp] theorem takes_map_drop (l : List Id) : takes (l.map .drop) = [] := by
  induction l <;> simp_all [takes]
@[simp] theorem uninit_map_drop (l : List Id) : uninitDrops (l.map .drop) = 0 := by
  induction l <;> simp_all [uninitDrops]
@[simp] theorem polls_map_drop (l : List Id) : polls (l.map .drop) = 0 := by
  induction l <;> simp_all [polls]

@[simp] theorem builderDrop_true (out : List Id) : builderDrop true out = out.map .drop := by
  simp [builderDrop]

/-- The ledger as a count equation: `l ~ r` iff every id occurs equally often. -/
theorem perm_of_counts {l r : List Id} (h : ∀ a, l.count a = r.count a) : l.Perm r :=
  List.perm_iff_count.mpr h

/-- what a source owes: from every state satisfying its invariant, per step, everything it owned
    or was handed is given away, dropped, yielded, or still owned, and the invariant is kept; its
    destructor drops exactly what it owns. -/
structure Contract {σ : Type} (S : Src σ) (owned : σ → List Id) (inv : σ → Prop) : Prop where
  yield : ∀ s evs x s', inv s → S.step s = .yield evs x s' →
    (gives evs ++ drops evs ++ (if S.owns then [x] else []) ++ owned s').Perm (owned s ++ takes evs) ∧
      uninitDrops evs = 0 ∧ inv s'
  done : ∀ s evs s', inv s → S.step s = .done evs s' →
    (gives evs ++ drops evs ++ owned s').Perm (owned s ++ takes evs) ∧ uninitDrops evs = 0 ∧ inv s'
  panic : ∀ s evs s', inv s → S.step s = .panic evs s' →
    (gives evs ++ drops evs ++ owned s').Perm (owned s ++ takes evs) ∧ uninitDrops evs = 0 ∧ inv s'
  drop : ∀ s, drops (S.dropEv s) = owned s ∧ gives (S.dropEv s) = [] ∧ takes (S.dropEv s) = [] ∧
    uninitDrops (S.dropEv s) = 0

def FillRes.ids {σ : Type} : FillRes σ → List Id
  | .full out _ => out
  | .short out _ => out
  | .panicked => []
def FillRes.rest {σ : Type} (owned : σ → List Id) : FillRes σ → List Id
  | .full _ s => owned s
  | .short _ s => owned s
  | .panicked => []

/-- **Fill-loop ledger** (for every source state, every partial output, every number of slots):
    all ids the builder and the source owned, plus everything caller code handed in, end up —
    exactly once — given away, dropped, in the output, or still owned by the source. -/
theorem fillLoop_ledger {σ : Type} (S : Src σ) (owned : σ → List Id) (inv : σ → Prop)
    (hc : Contract S owned inv) (hown : S.owns = true) (k : Nat) (s : σ) (hi : inv s) (out : List Id) :
    (gives (fillLoop true true S k s out).1 ++ drops (fillLoop true true S k s out).1 ++
        (fillLoop true true S k s out).2.ids ++ (fillLoop true true S k s out).2.rest owned).Perm
      (out ++ owned s ++ takes (fillLoop true true S k s out).1) ∧
    uninitDrops (fillLoop true true S k s out).1 = 0 ∧
    (∀ o s', (fillLoop true true S k s out).2 = .full o s' → inv s') := by
  induction k generalizing s out with
  | zero =>
    simp only [fillLoop, ↓reduceIte, FillRes.ids, FillRes.rest, gives_nil, drops_nil, takes_nil, uninit_nil]
    refine ⟨by simp, trivial, ?_⟩
    intro o s' h; cases h; exact hi
  | succ k ih =>
    cases hs : S.step s with
    | yield evs x s' =>
      obtain ⟨hp, hu, hi'⟩ := hc.yield s evs x s' hi hs
      obtain ⟨ihp, ihu, ihi⟩ := ih s' hi' (out ++ [x])
      simp only [fillLoop, hs, gives_append, drops_append, takes_append, uninit_append, hu, ihu]
      refine ⟨perm_of_counts fun a => ?_, trivial, ihi⟩
      have c1 := List.perm_iff_count.mp hp a
      have c2 := List.perm_iff_count.mp ihp a
      simp only [hown, if_true, List.count_append] at c1 c2 ⊢
      omega
    | done evs s' =>
      obtain ⟨hp, hu, _⟩ := hc.done s evs s' hi hs
      simp only [fillLoop, hs, FillRes.ids, FillRes.rest, hu]
      refine ⟨perm_of_counts fun a => ?_, trivial, ?_⟩
      · have c1 := List.perm_iff_count.mp hp a
        simp only [List.count_append] at c1 ⊢
        omega
      · intro o s'' h; cases h
    | panic evs s' =>
      obtain ⟨hp, hu, _⟩ := hc.panic s evs s' hi hs
      obtain ⟨d1, d2, d3, d4⟩ := hc.drop s'
      simp only [fillLoop, hs, FillRes.ids, FillRes.rest, builderDrop_true, gives_append, drops_append,
        takes_append, uninit_append, drops_map_drop, gives_map_drop, takes_map_drop, uninit_map_drop,
        d1, d2, d3, d4, hu, List.append_nil]
      refine ⟨perm_of_counts fun a => ?_, trivial, ?_⟩
      · have c1 := List.perm_iff_count.mp hp a
        simp only [List.count_append, List.count_nil] at c1 ⊢
        omega
      · intro o s'' h; cases h

/-- the fill loop never writes more than the number of destination slots, and `full` means all -/
theorem fillLoop_len {σ : Type} (wbc : Bool) (S : Src σ) (k : Nat) (s : σ) (out : List Id) :
    match (fillLoop wbc true S k s out).2 with
    | .full o _ => o.length = out.length + k
    | .short o _ => o.length < out.length + k
    | .panicked => True := by
  induction k generalizing s out with
  | zero => simp [fillLoop]
  | succ k ih =>
    cases hs : S.step s with
    | yield evs x s' =>
      simp only [fillLoop, hs]
      have := ih s' (out ++ [x])
      revert this
      cases (fillLoop wbc true S k s' (out ++ [x])).2 <;> simp <;> omega
    | done evs s' => simp [fillLoop, hs]
    | panic evs s' => simp [fillLoop, hs]

/-- a source that never ends cannot leave the fill loop short -/
theorem fillLoop_not_short {σ : Type} (wbc : Bool) (S : Src σ)
    (hnd : ∀ s evs s', S.step s ≠ .done evs s') (k : Nat) (s : σ) (out : List Id) (o : List Id) (s' : σ) :
    (fillLoop wbc true S k s out).2 ≠ .short o s' := by
  induction k generalizing s out with
  | zero => simp [fillLoop]
  | succ k ih =>
    cases hs : S.step s with
    | yield evs x s'' => simp only [fillLoop, hs]; exact ih s'' (out ++ [x])
    | done evs s'' => exact absurd hs (hnd s evs s'')
    | panic evs s'' => simp [fillLoop, hs]

theorem genSrc_never_done (f : Nat → Option Id) (s : Nat) (evs : List Ev) (s' : Nat) :
    (genSrc f).step s ≠ .done evs s' := by
  simp only [genSrc]; cases f s <;> simp

/-- canonical reading of the `try_from_iter` conditions -/
def canonFrags : CollectFrags where
  hintLoReject lo n := decide (lo > n)
  hintHiReject hi n := decide (hi < n)
  isFull pos n := decide (pos = n)
  fullBeforePoll := true
  writeBeforeCount := true
  destFirst := true
  finishAfterProbe := true

/-- **`try_from_iter` ledger** over any contract-abiding source, any size hint (truthful or not):
    every id is accounted for exactly once on every path (`Ok`, `Err` short, `Err` long, `Err` by
    hint, panic at any poll), and no uninitialised slot is ever dropped or returned. -/
theorem tryFromIter_ledger {σ : Type} (S : Src σ) (owned : σ → List Id) (inv : σ → Prop)
    (hc : Contract S owned inv) (hown : S.owns = true) (n : Nat) (hint : Nat × Option Nat) (s0 : σ)
    (hi : inv s0) :
    (gives (tryFromIter canonFrags S n hint s0).1 ++ drops (tryFromIter canonFrags S n hint s0).1 ++
        (tryFromIter canonFrags S n hint s0).2.ids).Perm
      (owned s0 ++ takes (tryFromIter canonFrags S n hint s0).1) ∧
    uninitDrops (tryFromIter canonFrags S n hint s0).1 = 0 := by
  unfold tryFromIter
  by_cases hr : hintReject canonFrags hint n = true
  · obtain ⟨d1, d2, d3, d4⟩ := hc.drop s0
    simp [hr, d1, d2, d3, d4, Res.ids]
  · simp only [hr, Bool.false_eq_true, if_false]
    have hl := fillLoop_ledger S owned inv hc hown n s0 hi []
    have hlen := fillLoop_len true S n s0 []
    simp only [canonFrags] at *
    revert hl hlen
    cases hf : fillLoop true true S n s0 [] with
    | mk tr r =>
      cases r with
      | panicked =>
        simp only [FillRes.ids, FillRes.rest, Res.ids, List.append_nil, List.nil_append]
        intro hl _; exact ⟨hl.1, hl.2.1⟩
      | short out s =>
        simp only [FillRes.ids, FillRes.rest, Res.ids, List.nil_append, List.length_nil, Nat.zero_add,
          Bool.not_true, Bool.and_false, Bool.false_eq_true, if_false]
        intro ⟨hp, hu, _⟩ _
        obtain ⟨d1, d2, d3, d4⟩ := hc.drop s
        simp only [gives_append, drops_append, takes_append, uninit_append, drops_map_drop, gives_map_drop,
          takes_map_drop, uninit_map_drop, d1, d2, d3, d4, hu, List.append_nil]
        refine ⟨perm_of_counts fun a => ?_, trivial⟩
        have c1 := List.perm_iff_count.mp hp a
        simp only [List.count_append, List.count_nil] at c1 ⊢
        omega
      | full out s =>
        simp only [FillRes.ids, FillRes.rest, Res.ids, List.nil_append, List.length_nil, Nat.zero_add]
        intro ⟨hp, hu, hinv⟩ hlen
        have his : inv s := hinv out s rfl
        simp only [hlen, decide_true, Bool.not_true, Bool.false_eq_true, if_false]
        cases hs : S.step s with
        | yield evs x s' =>
          obtain ⟨sp, su, _⟩ := hc.yield s evs x s' his hs
          obtain ⟨d1, d2, d3, d4⟩ := hc.drop s'
          simp only [hown, if_true, ↓reduceIte, gives_append, drops_append, takes_append, uninit_append, drops_map_drop,
            gives_map_drop, takes_map_drop, uninit_map_drop, d1, d2, d3, d4, hu, su, List.append_nil, Res.ids,
            drops, gives, takes, uninitDrops]
          refine ⟨perm_of_counts fun a => ?_, trivial⟩
          have c1 := List.perm_iff_count.mp hp a
          have c2 := List.perm_iff_count.mp sp a
          simp only [hown, if_true, List.count_append, List.count_nil] at c1 c2 ⊢
          omega
        | done evs s' =>
          obtain ⟨sp, su, _⟩ := hc.done s evs s' his hs
          obtain ⟨d1, d2, d3, d4⟩ := hc.drop s'
          simp only [gives_append, drops_append, takes_append, uninit_append, d1, d2, d3, d4, hu, su,
            List.append_nil, Res.ids]
          refine ⟨perm_of_counts fun a => ?_, trivial⟩
          have c1 := List.perm_iff_count.mp hp a
          have c2 := List.perm_iff_count.mp sp a
          simp only [List.count_append, List.count_nil] at c1 c2 ⊢
          omega
        | panic evs s' =>
          obtain ⟨sp, su, _⟩ := hc.panic s evs s' his hs
          obtain ⟨d1, d2, d3, d4⟩ := hc.drop s'
          simp only [↓reduceIte, gives_append, drops_append, takes_append, uninit_append, drops_map_drop,
            gives_map_drop, takes_map_drop, uninit_map_drop, d1, d2, d3, d4, hu, su, List.append_nil, Res.ids]
          refine ⟨perm_of_counts fun a => ?_, trivial⟩
          have c1 := List.perm_iff_count.mp hp a
          have c2 := List.perm_iff_count.mp sp a
          simp only [List.count_append, List.count_nil] at c1 c2 ⊢
          omega

/-! ### Contracts of the concrete sources -/

theorem drop_of_getElem? {l : List Id} {i : Nat} {x : Id} (h : l[i]? = some x) :
    l.drop i = x :: l.drop (i + 1) := by
  obtain ⟨hlt, hget⟩ := List.getElem?_eq_some_iff.mp h
  rw [List.drop_eq_getElem_cons hlt, hget]

theorem drop_of_getElem?_none {l : List Id} {i : Nat} (h : l[i]? = none) : l.drop i = [] :=
  List.drop_eq_nil_of_le (List.getElem?_eq_none_iff.mp h)

theorem genSrc_contract (f : Nat → Option Id) : Contract (genSrc f) (fun _ => []) (fun _ => True) where
  yield := by
    intro s evs x s' _ h
    simp only [genSrc] at h
    cases hf : f s <;> simp only [hf] at h <;> cases h
    simp [gives, drops, takes, uninitDrops, genSrc]
  done := by
    intro s evs s' _ h
    simp only [genSrc] at h
    cases hf : f s <;> simp only [hf] at h <;> cases h
  panic := by
    intro s evs s' _ h
    simp only [genSrc] at h
    cases hf : f s <;> simp only [hf] at h <;> cases h
    simp [gives, drops, takes, uninitDrops]
  drop := by intro s; simp [genSrc]

def Consumer.owned (c : Consumer) : List Id := c.slots.drop c.pos
def Consumer.Sync (c : Consumer) : Prop := c.idx = c.pos

theorem consumer_dropEv (c : Consumer) :
    drops c.dropEv = c.owned ∧ gives c.dropEv = [] ∧ takes c.dropEv = [] ∧ uninitDrops c.dropEv = 0 := by
  simp only [Consumer.dropEv, Consumer.owned, drops_map_drop, gives_map_drop, takes_map_drop, uninit_map_drop]
  exact ⟨trivial, trivial, trivial, trivial⟩

def Side.ownedOf (sd : Side) (c : Consumer) : List Id :=
  match sd with
  | .borrowed => []
  | .manual => []
  | _ => c.owned

/-- a consumer side is *good* when it stores `pos + 1` (evaluated on in-sync positions) before the call -/
def Side.GoodA : Side → Prop
  | .consumer pn adv => adv = true ∧ ∀ p, pn p p = p + 1
  | .manual => False
  | _ => True
theorem side_dropEv (sd : Side) (c : Consumer) :
    drops (sd.dropEv c) = sd.ownedOf c ∧ gives (sd.dropEv c) = [] ∧ takes (sd.dropEv c) = [] ∧
      uninitDrops (sd.dropEv c) = 0 := by
  cases sd <;> simp [Side.dropEv, Side.ownedOf, consumer_dropEv]

/-- after its element was read, a good side is in sync again and owns exactly the rest -/
theorem side_after_A (sd : Side) (hg : sd.GoodA) (c : Consumer) (hs : c.Sync) (ok : Bool) {x : Id}
    (hx : c.slots[c.idx]? = some x) (q : Nat) (hq : q = c.pos) :
    (sd.after c q ok).Sync ∧ sd.ownedOf c = (if sd.owns then [x] else []) ++ sd.ownedOf (sd.after c q ok) ∧
    (sd.after c q ok).pos = c.pos + 1 := by
  subst hq
  unfold Consumer.Sync at hs
  cases sd with
  | consumer pn adv =>
    obtain ⟨ha, hp⟩ := hg
    subst ha
    simp only [Side.after, Bool.or_true, if_true, hp, Consumer.Sync, Side.ownedOf, Consumer.owned, Side.owns, hs]
    rw [hs] at hx
    exact ⟨trivial, by rw [drop_of_getElem? hx]; rfl, trivial⟩
  | owned =>
    simp only [Side.after, Consumer.Sync, Side.ownedOf, Consumer.owned, Side.owns, if_true]
    rw [hs] at hx
    exact ⟨trivial, by rw [drop_of_getElem? hx, hs]; rfl, by omega⟩
  | borrowed =>
    simp only [Side.after, Consumer.Sync, Side.ownedOf, Side.owns, Bool.false_eq_true, if_false]
    exact ⟨trivial, by simp, by omega⟩
  | manual => exact hg.elim

theorem gives_arg (o : Bool) (i x : Nat) : gives [arg o i x] = if o then [x] else [] := by
  cases o <;> simp [arg, gives]

theorem count_ite_single (o : Bool) (x a : Id) :
    List.count a (if o = true then [x] else []) = if o = true then List.count a [x] else 0 := by
  cases o <;> simp

/-- one-input closure loops (`map` for every receiver form) -/
theorem mapSrc_contract (sd : Side) (hg : sd.GoodA) (f : Nat → Option Id) :
    Contract (mapSrc sd f) sd.ownedOf Consumer.Sync where
  yield := by
    intro c evs x c' hi h
    simp only [mapSrc] at h
    cases hx : c.slots[c.idx]? <;> simp only [hx] at h
    · cases h
    · rename_i v
      cases hf : f c.idx <;> simp only [hf] at h <;> cases h
      obtain ⟨s1, s2, _⟩ := side_after_A sd hg c hi true hx c.pos rfl
      refine ⟨perm_of_counts fun a => ?_, ?_, s1⟩
      · rw [s2]
        cases ho : sd.owns <;>
          simp only [arg, ho, gives, drops, takes, mapSrc, if_true, Bool.false_eq_true, if_false,
            List.count_append, List.count_cons, List.count_nil] <;> omega
      · cases ho : sd.owns <;> simp [arg, ho, uninitDrops]
  done := by
    intro c evs c' hi h
    simp only [mapSrc] at h
    cases hx : c.slots[c.idx]? <;> simp only [hx] at h
    · cases h; exact ⟨by simp, rfl, hi⟩
    · cases hf : f c.idx <;> simp only [hf] at h <;> cases h
  panic := by
    intro c evs c' hi h
    simp only [mapSrc] at h
    cases hx : c.slots[c.idx]? <;> simp only [hx] at h
    · cases h
    · cases hf : f c.idx <;> simp only [hf] at h <;> cases h
      obtain ⟨s1, s2, _⟩ := side_after_A sd hg c hi false hx c.pos rfl
      refine ⟨perm_of_counts fun a => ?_, ?_, s1⟩
      · rw [s2]
        cases ho : sd.owns <;>
          simp only [arg, ho, gives, drops, takes, if_true, Bool.false_eq_true, if_false,
            List.count_append, List.count_cons, List.count_nil] <;> omega
      · cases ho : sd.owns <;> simp [arg, ho, uninitDrops]
  drop := by intro c; exact side_dropEv sd c

def Zip2.owned (sa sb : Side) (z : Zip2) : List Id := sb.ownedOf z.b ++ sa.ownedOf z.a
def Zip2.Sync (z : Zip2) : Prop :=
  z.a.Sync ∧ z.b.Sync ∧ z.a.pos = z.b.pos ∧ z.a.slots.length = z.b.slots.length

theorem side_after_slots (sd : Side) (c : Consumer) (q : Nat) (ok : Bool) : (sd.after c q ok).slots = c.slots := by
  cases sd <;> rfl

/-- every `zip` body, for every combination of sides, provided each consumer side stores the right
    position before the closure is called. -/
theorem zipSrc_contract (sa sb : Side) (f : Nat → Option Id) (ha : sa.GoodA) (hb : sb.GoodA) :
    Contract (zipSrc sa sb f) (Zip2.owned sa sb) Zip2.Sync where
  yield := by
    intro z evs x z' hi h
    obtain ⟨ia, ib, iab, ilen⟩ := hi
    simp only [zipSrc] at h
    cases hx : z.a.slots[z.a.idx]? <;> simp only [hx] at h
    · cases h
    · cases hy : z.b.slots[z.b.idx]? <;> simp only [hy] at h
      · cases sa <;> cases h
      · cases hf : f z.a.idx <;> simp only [hf] at h <;> cases h
        obtain ⟨a1, a2, a3⟩ := side_after_A sa ha z.a ia true hx z.b.pos iab.symm
        obtain ⟨b1, b2, b3⟩ := side_after_A sb hb z.b ib true hy z.a.pos iab
        refine ⟨perm_of_counts fun a => ?_, ?_, a1, b1, ?_, ?_⟩
        rotate_left 2
        · show (sa.after z.a z.b.pos true).pos = (sb.after z.b z.a.pos true).pos
          rw [b3, a3, iab]
        · show (sa.after z.a z.b.pos true).slots.length = (sb.after z.b z.a.pos true).slots.length
          rw [side_after_slots, side_after_slots]; exact ilen
        · simp only [Zip2.owned]
          rw [a2, b2]
          cases hoa : sa.owns <;> cases hob : sb.owns <;>
            simp only [arg, gives, drops, takes, zipSrc, if_true, Bool.false_eq_true, if_false,
              List.count_append, List.count_cons, List.count_nil] <;> omega
        · cases hoa : sa.owns <;> cases hob : sb.owns <;> simp [arg, uninitDrops]
  done := by
    intro z evs z' hi h
    obtain ⟨ia, ib, iab, ilen⟩ := hi
    simp only [zipSrc] at h
    cases hx : z.a.slots[z.a.idx]? <;> simp only [hx] at h
    · cases h; exact ⟨by simp, rfl, ia, ib, iab, ilen⟩
    · cases hy : z.b.slots[z.b.idx]? <;> simp only [hy] at h
      · -- `b` ran out first: impossible for equal lengths at equal indices
        exfalso
        have h1 := (List.getElem?_eq_some_iff.mp hx).1
        have h2 := List.getElem?_eq_none_iff.mp hy
        unfold Consumer.Sync at ia ib
        omega
      · cases hf : f z.a.idx <;> simp only [hf] at h <;> cases h
  panic := by
    intro z evs z' hi h
    obtain ⟨ia, ib, iab, ilen⟩ := hi
    simp only [zipSrc] at h
    cases hx : z.a.slots[z.a.idx]? <;> simp only [hx] at h
    · cases h
    · cases hy : z.b.slots[z.b.idx]? <;> simp only [hy] at h
      · cases sa <;> cases h
      · cases hf : f z.a.idx <;> simp only [hf] at h <;> cases h
        obtain ⟨a1, a2, a3⟩ := side_after_A sa ha z.a ia false hx z.b.pos iab.symm
        obtain ⟨b1, b2, b3⟩ := side_after_A sb hb z.b ib false hy z.a.pos iab
        refine ⟨perm_of_counts fun a => ?_, ?_, a1, b1, ?_, ?_⟩
        rotate_left 2
        · show (sa.after z.a z.b.pos false).pos = (sb.after z.b z.a.pos false).pos
          rw [b3, a3, iab]
        · show (sa.after z.a z.b.pos false).slots.length = (sb.after z.b z.a.pos false).slots.length
          rw [side_after_slots, side_after_slots]; exact ilen
        · simp only [Zip2.owned]
          rw [a2, b2]
          cases hoa : sa.owns <;> cases hob : sb.owns <;>
            simp only [arg, gives, drops, takes, if_true, Bool.false_eq_true, if_false,
              List.count_append, List.count_cons, List.count_nil] <;> omega
        · cases hoa : sa.owns <;> cases hob : sb.owns <;> simp [arg, uninitDrops]
  drop := by
    intro z
    obtain ⟨a1, a2, a3, a4⟩ := side_dropEv sa z.a
    obtain ⟨b1, b2, b3, b4⟩ := side_dropEv sb z.b
    simp only [zipSrc, drops_append, gives_append, takes_append, uninit_append, a1, a2, a3, a4, b1, b2, b3, b4,
      Zip2.owned, List.append_nil]
    exact ⟨trivial, trivial, trivial, trivial⟩

theorem iterSrc_contract : Contract iterSrc Consumer.owned Consumer.Sync where
  yield := by
    intro c evs x c' hi h
    simp only [iterSrc] at h
    cases hx : c.slots[c.idx]? <;> simp only [hx] at h <;> cases h
    unfold Consumer.Sync at hi
    rw [hi] at hx
    refine ⟨?_, rfl, rfl⟩
    simp only [Consumer.owned, drop_of_getElem? hx, iterSrc, gives_nil, drops_nil, takes_nil, if_true, hi,
      List.nil_append, List.append_nil]
    exact List.Perm.refl _
  done := by
    intro c evs c' hi h
    simp only [iterSrc] at h
    cases hx : c.slots[c.idx]? <;> simp only [hx] at h <;> cases h
    exact ⟨by simp, rfl, hi⟩
  panic := by
    intro c evs c' hi h
    simp only [iterSrc] at h
    cases hx : c.slots[c.idx]? <;> simp only [hx] at h <;> cases h
  drop := by intro c; exact consumer_dropEv c

theorem scriptSrc_contract : Contract scriptSrc (fun _ => []) (fun _ => True) where
  yield := by
    intro s evs x s' _ h
    simp only [scriptSrc] at h
    split at h
    · cases h
    · split at h <;> cases h
      simp [gives, drops, takes, uninitDrops, scriptSrc]
  done := by
    intro s evs s' _ h
    simp only [scriptSrc] at h
    split at h
    · cases h
    · split at h <;> cases h
      simp [gives, drops, takes, uninitDrops]
  panic := by
    intro s evs s' _ h
    simp only [scriptSrc] at h
    split at h
    · cases h; simp [gives, drops, takes, uninitDrops]
    · split at h <;> cases h
  drop := by intro s; simp [scriptSrc]

theorem foldSrc_contract (sd : Side) (hg : sd.GoodA) (f : Nat → Bool) :
    Contract (foldSrc sd f) sd.ownedOf Consumer.Sync where
  yield := by
    intro c evs x c' hi h
    simp only [foldSrc] at h
    cases hx : c.slots[c.idx]? <;> simp only [hx] at h
    · cases h
    · split at h <;> cases h
      obtain ⟨s1, s2, _⟩ := side_after_A sd hg c hi true hx c.pos rfl
      refine ⟨perm_of_counts fun a => ?_, ?_, s1⟩
      · rw [s2]
        cases ho : sd.owns <;>
          simp only [arg, ho, gives, drops, takes, foldSrc, if_true, Bool.false_eq_true, if_false,
            List.count_append, List.count_cons, List.count_nil] <;> omega
      · cases ho : sd.owns <;> simp [arg, ho, uninitDrops]
  done := by
    intro c evs c' hi h
    simp only [foldSrc] at h
    cases hx : c.slots[c.idx]? <;> simp only [hx] at h
    · cases h; exact ⟨by simp, rfl, hi⟩
    · split at h <;> cases h
  panic := by
    intro c evs c' hi h
    simp only [foldSrc] at h
    cases hx : c.slots[c.idx]? <;> simp only [hx] at h
    · cases h
    · split at h <;> cases h
      obtain ⟨s1, s2, _⟩ := side_after_A sd hg c hi false hx c.pos rfl
      refine ⟨perm_of_counts fun a => ?_, ?_, s1⟩
      · rw [s2]
        cases ho : sd.owns <;>
          simp only [arg, ho, gives, drops, takes, if_true, Bool.false_eq_true, if_false,
            List.count_append, List.count_cons, List.count_nil] <;> omega
      · cases ho : sd.owns <;> simp [arg, ho, uninitDrops]
  drop := by intro c; exact side_dropEv sd c

/-- **Fold-loop ledger**: after a `fold` over any contract-abiding non-owning-yield source, every id
    was given to the closure, dropped by the source's destructor (on a panic), or is still owned. -/
theorem foldLoop_ledger {σ : Type} (S : Src σ) (owned : σ → List Id) (inv : σ → Prop)
    (hc : Contract S owned inv) (hown : S.owns = false) (k : Nat) (s : σ) (hi : inv s) :
    (gives (foldLoop S k s).1 ++ drops (foldLoop S k s).1 ++
        (if (foldLoop S k s).2.1 then owned (foldLoop S k s).2.2 else [])).Perm
      (owned s ++ takes (foldLoop S k s).1) ∧
    uninitDrops (foldLoop S k s).1 = 0 := by
  induction k generalizing s with
  | zero => simp [foldLoop]
  | succ k ih =>
    cases hs : S.step s with
    | yield evs x s' =>
      obtain ⟨hp, hu, hi'⟩ := hc.yield s evs x s' hi hs
      obtain ⟨ihp, ihu⟩ := ih s' hi'
      simp only [foldLoop, hs, gives_append, drops_append, takes_append, uninit_append, hu, ihu]
      refine ⟨perm_of_counts fun a => ?_, trivial⟩
      have c1 := List.perm_iff_count.mp hp a
      have c2 := List.perm_iff_count.mp ihp a
      simp only [hown, Bool.false_eq_true, if_false, List.count_append, List.count_nil] at c1 c2 ⊢
      omega
    | done evs s' =>
      obtain ⟨hp, hu, _⟩ := hc.done s evs s' hi hs
      simp only [foldLoop, hs, hu, if_true]
      exact ⟨hp, trivial⟩
    | panic evs s' =>
      obtain ⟨hp, hu, _⟩ := hc.panic s evs s' hi hs
      obtain ⟨d1, d2, d3, d4⟩ := hc.drop s'
      simp only [foldLoop, hs, gives_append, drops_append, takes_append, uninit_append, d1, d2, d3, d4, hu,
        Bool.false_eq_true, if_false, List.append_nil]
      exact ⟨by simpa [List.append_assoc] using hp, trivial⟩

end GA.Own
