import GA.Gen.Seq
/-!
Model of src/sequence.rs (C09): the lengthen / shorten / split / concat / remove operations as block
reads and writes at *element offsets* over a buffer whose slots may be uninitialised.  Every offset,
count and guard is the regenerated `GA.Gen.Seq`.  `none` = the Rust code would read or write outside
the buffer, or `assume_init` an incompletely written one (undefined behaviour).
-/
namespace GA.Seq
open GA.Gen

abbrev Buf := List (Option Nat)

def uninit (n : Nat) : Buf := List.replicate n none

/-- `ptr::write(out.add(off) as *mut [T; len], xs)` -/
def writeAt (b : Buf) (off : Nat) (xs : List Nat) : Option Buf :=
  if off + xs.length ≤ b.length then some (b.take off ++ xs.map some ++ b.drop (off + xs.length)) else none

/-- `MaybeUninit::assume_init`: every slot must have been written -/
def assumeInit (b : Buf) : Option (List Nat) := b.mapM id

/-- `ptr::read(src.add(off) as *const [T; len])` -/
def readAt (xs : List Nat) (off len : Nat) : Option (List Nat) :=
  if off + len ≤ xs.length then some ((xs.drop off).take len) else none

def append (xs : List Nat) (x : Nat) : Option (List Nat) := do
  let n := xs.length
  let b1 ← writeAt (uninit (n + 1)) (Seq.appendSelfOff n) xs
  let b2 ← writeAt b1 (Seq.appendLastOff n) [x]
  assumeInit b2

def prepend (xs : List Nat) (x : Nat) : Option (List Nat) := do
  let n := xs.length
  let b1 ← writeAt (uninit (n + 1)) (Seq.prependFirstOff n) [x]
  let b2 ← writeAt b1 (Seq.prependSelfOff n) xs
  assumeInit b2

def concat (xs ys : List Nat) : Option (List Nat) := do
  let b1 ← writeAt (uninit (xs.length + ys.length)) (Seq.concatSelfOff xs.length ys.length) xs
  let b2 ← writeAt b1 (Seq.concatRestOff xs.length ys.length) ys
  assumeInit b2

/-- `pop_back` (only typed for `N ≥ 1`): `(init, last)` -/
def popBack (xs : List Nat) : Option (List Nat × Nat) := do
  let n := xs.length
  let init ← readAt xs (Seq.popBackInitOff n) (n - 1)
  let last ← readAt xs (Seq.popBackLastOff n) 1
  match last with
  | [l] => some (init, l)
  | _ => none

def popFront (xs : List Nat) : Option (Nat × List Nat) := do
  let n := xs.length
  let head ← readAt xs (Seq.popFrontHeadOff n) 1
  let tail ← readAt xs (Seq.popFrontTailOff n) (n - 1)
  match head with
  | [h] => some (h, tail)
  | _ => none

/-- owned `split` at `k` (only typed for `k ≤ N`) -/
def split (xs : List Nat) (k : Nat) : Option (List Nat × List Nat) := do
  let n := xs.length
  let head ← readAt xs (Seq.splitHeadOff n k) k
  let tail ← readAt xs (Seq.splitTailOff n k) (n - k)
  some (head, tail)

inductive RemoveRes where
  | ok (removed : Nat) (rest : List Nat)
  | panic              -- the bounds assert fired (before the `ManuallyDrop`): the array is dropped whole
  | ub
deriving Repr, DecidableEq

/-- `ptr::copy(base.add(src), base.add(dst), count)` (memmove) -/
def copyWithin (xs : List Nat) (src dst count : Nat) : Option (List Nat) :=
  if src + count ≤ xs.length ∧ dst + count ≤ xs.length then
    some (xs.take dst ++ (xs.drop src).take count ++ xs.drop (dst + count))
  else none

def remove (xs : List Nat) (i : Nat) : RemoveRes :=
  let n := xs.length
  if !Seq.removeGuard i n then .panic else
  if !Seq.removeCopyCountOk i n then .ub else
  match readAt xs (Seq.removeReadOff i n) 1, copyWithin xs (Seq.removeCopySrc i n) (Seq.removeCopyDst i n) (Seq.removeCopyCount i n) with
  | some [r], some ys => .ok r (ys.take (n - 1))     -- `transmute_copy` to the shorter array
  | _, _ => .ub

def swapAt (xs : List Nat) (a b : Nat) : Option (List Nat) :=
  match xs[a]?, xs[b]? with
  | some x, some y => some ((xs.set a y).set b x)
  | _, _ => none

def swapRemove (xs : List Nat) (i : Nat) : RemoveRes :=
  let n := xs.length
  if !Seq.swapRemoveGuard i n then .panic else
  if !(Seq.swapRemoveBOk i n && Seq.swapRemoveReadOffOk i n) then .ub else
  match swapAt xs (Seq.swapRemoveA i n) (Seq.swapRemoveB i n) with
  | none => .ub
  | some ys =>
    match readAt ys (Seq.swapRemoveReadOff i n) 1 with
    | some [r] => .ok r (ys.take (n - 1))
    | _ => .ub

/-- by-reference `split`: `(offset, length)` of each half, in elements from the array's address -/
def splitRef (n k : Nat) : (Nat × Nat) × (Nat × Nat) := ((Seq.splitRefHeadOff n k, k), (Seq.splitRefTailOff n k, n - k))
def splitMut (n k : Nat) : (Nat × Nat) × (Nat × Nat) := ((Seq.splitMutHeadOff n k, k), (Seq.splitMutTailOff n k, n - k))

end GA.Seq
