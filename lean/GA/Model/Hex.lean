import GA.Gen.Hex
/-!
Model of src/hex.rs (C14): `generic_hex` with its three strategies (table fallback over the whole
array for tiny arrays, a 2N stack buffer for small arrays, 1024-byte chunks through a *reused*
2048-byte buffer with a running digit budget for large arrays), all thresholds, arithmetic and the
alphabets regenerated from the source.  Bytes and output characters are `Nat`s (byte values).
`none` = the Rust code would hit `unreachable_unchecked` or slice a buffer out of bounds.
-/
namespace GA.Hex
open GA.Gen

def alphabet (upper : Bool) : List Nat := if upper then Hex.alphabetUpper else Hex.alphabetLower

/-- the two output characters of one input byte, in output order (`s[0]`, `s[1]`) -/
def digitsOf (upper : Bool) (c : Nat) : List Nat :=
  [(alphabet upper).getD (Hex.firstDigitIdx c) 0, (alphabet upper).getD (Hex.secondDigitIdx c) 0]

def hexDigits (upper : Bool) (bs : List Nat) : List Nat := bs.flatMap (digitsOf upper)

/-- contract of `hex_encode` / `hex_encode_fallback` / `faster_hex::hex_encode`: needs
    `dst.len() >= 2 * src.len()`, writes the `2 * src.len()` digits at the front of `dst` and leaves
    the rest of `dst` as it was -/
def encode (upper : Bool) (src dst : List Nat) : Option (List Nat) :=
  if 2 * src.length ≤ dst.length then some (hexDigits upper src ++ dst.drop (2 * src.length)) else none

/-- `slice.chunks(k)` -/
def chunksOf (k : Nat) : Nat → List Nat → List (List Nat)
  | 0, _ => []
  | _ + 1, [] => []
  | fuel + 1, x :: t => (x :: t).take k :: chunksOf k fuel ((x :: t).drop k)

/-- the large-array loop: one reused buffer, `digits_left` budget -/
def largeLoop (upper : Bool) : List (List Nat) → List Nat → Nat → Option (List Nat)
  | [], _, _ => some []
  | ch :: rest, buf, dl =>
    match encode upper ch buf with
    | none => none
    | some buf' =>
      let n := Hex.chunkDigits ch.length dl
      if Hex.chunkWriteLen n ≤ buf'.length ∧ n ≤ dl then
        match largeLoop upper rest buf' (dl - n) with
        | some out => some (buf'.take (Hex.chunkWriteLen n) ++ out)
        | none => none
      else none

/-- `max_digits` after the precision clamp -/
def digitBudget (n : Nat) (prec : Option Nat) : Nat :=
  match prec with
  | some p => if Hex.precisionApplies p (Hex.maxDigits n) then p else Hex.maxDigits n
  | none => Hex.maxDigits n

def genericHex (upper : Bool) (bytes : List Nat) (prec : Option Nat) : Option (List Nat) :=
  let n := bytes.length
  let md := digitBudget n prec
  let mb := Hex.maxBytes md
  if Hex.inputGuardFails mb n then none else
  let input := bytes.take (Hex.inputLen mb)
  if Hex.smallPath n then
    let buf0 := List.replicate (Hex.smallBufLen n) 0
    let enc := if Hex.tinyPath n then (if Hex.tinyEncodesWholeArray then encode upper bytes buf0 else none)
               else encode upper input buf0
    match enc with
    | some buf => if Hex.smallWriteLen md ≤ buf.length then some (buf.take (Hex.smallWriteLen md)) else none
    | none => none
  else largeLoop upper (chunksOf Hex.chunkLen input.length input) (List.replicate Hex.largeBufLen 0) md

/-! specification side -/
/-- the character for hex digit value `k < 16` -/
def hexChar (upper : Bool) (k : Nat) : Nat :=
  if k < 10 then 48 + k else (if upper then 65 else 97) + (k - 10)

/-- `{:02x}` / `{:02X}` of every byte, concatenated -/
def specDigits (upper : Bool) (bs : List Nat) : List Nat := bs.flatMap fun c => [hexChar upper (c / 16), hexChar upper (c % 16)]

end GA.Hex
