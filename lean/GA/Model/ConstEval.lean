import GA.Model.Mem
/-!
# The const API under the compile-time interpreter (C18)

The const functions are the same functions the run-time model (`GA.Mem`) describes: the same guards,
offsets and lengths regenerated from the source.  What the interpreter adds is a *judgement*: a
reference handed out by a call must lie inside the allocation it was derived from, and a `&mut`
must have been derived from the unique borrow (writing through a pointer obtained from a shared
reborrow is rejected).  A call is `accept`ed, ends in a (documented) `panic` — reported as
"evaluation panicked" —, is `ub` (rejected as undefined behaviour), or is `notConst`.
-/
namespace GA.ConstEval
open GA.Gen GA.Mem

structure CRef where
  off : Nat
  len : Nat              -- in elements of the source allocation
  mutable : Bool
  uniqueDerived : Bool
  deriving Repr, DecidableEq

inductive Verdict where
  | accept | panic | ub | notConst
  deriving Repr, DecidableEq

def refOk (cap : Nat) (r : CRef) : Bool :=
  decide (r.off + r.len ≤ cap) && (!r.mutable || r.uniqueDerived)

def judge (cap : Nat) (rs : List CRef) : Verdict := if rs.all (refOk cap) then .accept else .ub

def isConst (name : String) (v : Verdict) : Verdict := if Mem.constFns.contains name then v else .notConst

def ofRes (cap : Nat) (mutable uniq : Bool) : Res View → Verdict
  | .ok v => judge cap [⟨v.off, v.len, mutable, uniq⟩]
  | .err => .accept          -- `Err(LengthError)` is an ordinary value
  | .panic => .panic
  | .ub => .ub

def ofUnit : Res Unit → Verdict
  | .ok _ => .accept
  | .panic => .panic
  | _ => .ub

def ofChunks (cap n : Nat) (mutable uniq : Bool) : ChunksRes → Verdict
  | .ok c r => judge cap [⟨c.off, c.len * n, mutable, uniq⟩, ⟨r.off, r.len, mutable, uniq⟩]
  | .empties => .accept
  | .panic => .panic
  | .ub => .ub

/-- a call of the const API; `len` = length of the argument slice, `k` = number of chunks,
    `esz` = element size in bytes -/
inductive Call where
  | len (n : Nat)
  | asSlice (n : Nat) | asMutSlice (n : Nat)
  | fromSlice (n len : Nat) | tryFromSlice (n len : Nat)
  | fromMutSlice (n len : Nat) | tryFromMutSlice (n len : Nat)
  | chunks (n len : Nat) | chunksMut (n len : Nat)
  | flat (n k : Nat) | flatMut (n k : Nat)
  | fromArray (n esz : Nat) | intoArray (n esz : Nat)
  | fromChunks (n k : Nat) | fromChunksMut (n k : Nat) | intoChunks (n k : Nat) | intoChunksMut (n k : Nat)
  | uninitAssumeInit (n : Nat)
  /-- a direct `const_transmute::<A, B>(a)`: sizes and alignments of `A` and `B` -/
  | transmute (sa sb aa ab : Nat)
  deriving Repr, DecidableEq

def ofOpt (cap n : Nat) (mutable : Bool) : Option View → Verdict
  | some v => judge cap [⟨v.off, v.len * n, mutable, true⟩]   -- a reference transmute keeps provenance
  | none => .ub

def eval : Call → Verdict
  | .len _ => isConst "len" .accept
  | .asSlice n => isConst "as_slice" (match view .asSlice n with | some v => judge n [⟨v.off, v.len, false, false⟩] | none => .ub)
  | .asMutSlice n => isConst "as_mut_slice"
      (match view .asMutSlice n with | some v => judge n [⟨v.off, v.len, true, Mem.asMutSliceProvenanceOk⟩] | none => .ub)
  | .fromSlice n len => isConst "from_slice" (ofRes len false false (fromSlice len n))
  | .tryFromSlice n len => isConst "try_from_slice" (ofRes len false false (tryFromSlice len n))
  | .fromMutSlice n len => isConst "from_mut_slice" (ofRes len true Mem.fromMutSliceProvenanceOk (fromMutSlice len n))
  | .tryFromMutSlice n len => isConst "try_from_mut_slice" (isConst "from_mut_slice"
      (ofRes len true (Mem.fromMutSliceProvenanceOk && Mem.tryFromMutSliceViaFromMutSlice) (tryFromMutSlice len n)))
  | .chunks n len => isConst "chunks_from_slice" (ofChunks len n false false (chunksFromSlice len n))
  | .chunksMut n len => isConst "chunks_from_slice_mut" (ofChunks len n true Mem.chunksMutProvenanceOk (chunksFromSliceMut len n))
  | .flat n k => isConst "slice_from_chunks" (let v := sliceFromChunks k n; judge (k * n) [⟨v.off, v.len, false, false⟩])
  | .flatMut n k => isConst "slice_from_chunks_mut"
      (let v := sliceFromChunksMut k n; judge (k * n) [⟨v.off, v.len, true, Mem.flatMutProvenanceOk⟩])
  | .fromArray n esz => isConst "from_array" (isConst "const_transmute"
      (if Mem.fromArrayIsTransmute then ofUnit (constTransmute (n * esz) (n * esz)) else .ub))
  | .intoArray n esz => isConst "into_array" (isConst "const_transmute"
      (if Mem.intoArrayIsTransmute then ofUnit (constTransmute (n * esz) (n * esz)) else .ub))
  | .fromChunks n k => isConst "from_chunks" (ofOpt (k * n) n false (reinterpretChunks Mem.fromChunksIsTransmute Mem.fromChunksLenTied k))
  | .fromChunksMut n k => isConst "from_chunks_mut" (ofOpt (k * n) n true (reinterpretChunks Mem.fromChunksMutIsTransmute Mem.fromChunksMutLenTied k))
  | .intoChunks n k => isConst "into_chunks" (ofOpt (k * n) n false (reinterpretChunks Mem.intoChunksIsTransmute Mem.intoChunksLenTied k))
  | .intoChunksMut n k => isConst "into_chunks_mut" (ofOpt (k * n) n true (reinterpretChunks Mem.intoChunksMutIsTransmute Mem.intoChunksMutLenTied k))
  | .uninitAssumeInit _ => isConst "uninit" (isConst "assume_init" (isConst "as_mut_slice" .accept))
  | .transmute sa sb aa ab => isConst "const_transmute"
      (match constTransmute sa sb with
       | .ok _ =>
         -- a union field read is a typed copy; a `ptr::read` through a cast pointer needs the
         -- source to be aligned for `B`, which the interpreter checks
         if Mem.transmuteViaUnion || decide (ab ≤ aa) then .accept else .ub
       | .panic => .panic
       | _ => .ub)

end GA.ConstEval
