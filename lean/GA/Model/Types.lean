import GA.Gen.Types
/-!
# What the type checker accepts (C12)

Each public operation that relates two lengths is described by its regenerated where-clause
(translated from typenum's operators to arithmetic with definedness conditions: `Sub1<N>` needs
`1 ≤ N`, `Diff<N, K>` needs `K ≤ N`, `Quot<NM, N>` needs `0 < N`) and its regenerated associated
output types.  `check op` is the compiler's verdict in this model: `some outs` = accepted with
those result lengths, `none` = a type error.
-/
namespace GA.Types
open GA.Gen

inductive Op where
  | append (n : Nat) | pop (n : Nat) | remove (n : Nat)
  | split (n k : Nat) | splitRef (n k : Nat) | splitMut (n k : Nat)
  | concat (n m : Nat) | flatten (n m : Nat) | unflatten (nm n : Nat)
  | zip (n m : Nat) | cmp (n m : Nat)
  | fromArray (u n : Nat) | intoArray (n u : Nat)
  | native (u n : Nat)                       -- the `From` / `AsRef` / `AsMut` impls between `[T; U]` and `GenericArray<T, N>`
  | fromChunks (u n : Nat) | fromChunksMut (u n : Nat) | intoChunks (u n : Nat) | intoChunksMut (u n : Nat)
  | tuple (k n : Nat)                        -- `From<(T, …k…)> for GenericArray<T, N>` and back
  deriving Repr, DecidableEq

/-- an equality the signature demands when `tied`; without it anything goes -/
def needEq (tied : Bool) (a b : Nat) (outs : List Nat) : Option (List Nat) :=
  if tied then (if a = b then some outs else none) else some outs

def check : Op → Option (List Nat)
  | .append n => if Types.lengthenAccepts n then some [Types.lengthenLonger n] else none
  | .pop n => if Types.shortenAccepts n then some [Types.shortenShorter n] else none
  | .remove n => if Types.removeAccepts n then some [Types.removeOutput n] else none
  | .split n k => if Types.splitAccepts n k then some [Types.splitFirst n k, Types.splitSecond n k] else none
  | .splitRef n k => if Types.splitRefAccepts n k then some [Types.splitRefFirst n k, Types.splitRefSecond n k] else none
  | .splitMut n k => if Types.splitMutAccepts n k then some [Types.splitMutFirst n k, Types.splitMutSecond n k] else none
  | .concat n m => if Types.concatAccepts n m then some [Types.concatOutput n m] else none
  | .flatten n m => if Types.flattenAccepts n m then some [Types.flattenOutput n m] else none
  | .unflatten nm n => if Types.unflattenAccepts nm n then some [Types.unflattenOutput nm n] else none
  | .zip n m => needEq (Types.zipLenTied && Types.invertedZipLenTied) n m [n]
  | .cmp n m => needEq Types.cmpSameTypeOnly n m []
  | .fromArray u n => needEq Types.fromArrayConstTied u n [n]
  | .intoArray n u => needEq Types.intoArrayConstTied u n [u]
  | .native u n => needEq Types.nativeArrayImplsTied u n [n]
  | .fromChunks u n => needEq Types.fromChunksConstTied u n [n]
  | .fromChunksMut u n => needEq Types.fromChunksMutConstTied u n [n]
  | .intoChunks u n => needEq Types.intoChunksConstTied u n [u]
  | .intoChunksMut u n => needEq Types.intoChunksMutConstTied u n [u]
  | .tuple k n => if Types.tupleTable.contains (n, k) then some [n] else none

/-- the specification: a program is accepted only if the lengths agree -/
def spec : Op → Option (List Nat)
  | .append n => some [n + 1]
  | .pop n => if 1 ≤ n then some [n - 1] else none
  | .remove n => if 1 ≤ n then some [n - 1] else none
  | .split n k => if k ≤ n then some [k, n - k] else none
  | .splitRef n k => if k ≤ n then some [k, n - k] else none
  | .splitMut n k => if k ≤ n then some [k, n - k] else none
  | .concat n m => some [n + m]
  | .flatten n m => some [n * m]
  | .unflatten nm n => if 0 < n then some [nm / n] else none
  | .zip n m => if n = m then some [n] else none
  | .cmp n m => if n = m then some [] else none
  | .fromArray u n => if u = n then some [n] else none
  | .intoArray n u => if u = n then some [u] else none
  | .native u n => if u = n then some [n] else none
  | .fromChunks u n => if u = n then some [n] else none
  | .fromChunksMut u n => if u = n then some [n] else none
  | .intoChunks u n => if u = n then some [u] else none
  | .intoChunksMut u n => if u = n then some [u] else none
  | .tuple k n => if k = n ∧ 1 ≤ k ∧ k ≤ 12 then some [n] else none

/-! ## auto traits -/
structure Caps where
  send : Bool
  sync : Bool
  copy : Bool
  clone : Bool
  deriving Repr, DecidableEq

def holds (e : Caps) : String → Bool
  | "Send" => e.send
  | "Sync" => e.sync
  | "Copy" => e.copy
  | "Clone" => e.clone
  | _ => true

/-- an explicit `unsafe impl` decides; otherwise the auto trait follows the fields -/
def autoFor (tr ty : String) (e : Caps) (structural : Option Bool) : Option Bool :=
  match Types.autoImpls.find? (fun x => x.1 == tr && x.2.1 == ty) with
  | some (_, _, bs) => some (bs.all (holds e))
  | none => structural

def arraySend (e : Caps) : Option Bool := autoFor "Send" "GenericArray" e (if Types.autoTraitsStructural then some e.send else none)
def arraySync (e : Caps) : Option Bool := autoFor "Sync" "GenericArray" e (if Types.autoTraitsStructural then some e.sync else none)
/-- the by-value iterator holds the array and two indices -/
def iterSend (e : Caps) : Option Bool := autoFor "Send" "GenericArrayIter" e (if Types.autoTraitsStructural then arraySend e else none)
def iterSync (e : Caps) : Option Bool := autoFor "Sync" "GenericArrayIter" e (if Types.autoTraitsStructural then arraySync e else none)
/-- `&X: Send` iff `X: Sync` -/
def refSend (e : Caps) : Option Bool := arraySync e
def arrayClone (e : Caps) : Bool := Types.arrayCloneBounds.all (holds e)
def arrayCopy (e : Caps) : Bool := Types.arrayCopyBounds.all (holds e) && e.copy   -- `where N::ArrayType<T>: Copy`: the nodes are Copy iff T is
def iterClone (e : Caps) : Bool := Types.iterCloneBounds.all (holds e)
def iterCopy : Bool := Types.iterIsCopy

/-! ## lifetimes -/
def tied (api : String) : Option Bool := (Types.lifetimesTied.find? (·.1 == api)).map (·.2)

def apis : List String :=
  ["as_slice", "as_mut_slice", "from_slice", "try_from_slice", "from_mut_slice", "try_from_mut_slice", "chunks_from_slice",
   "chunks_from_slice_mut", "slice_from_chunks", "slice_from_chunks_mut", "from_chunks", "from_chunks_mut", "into_chunks",
   "into_chunks_mut", "deref", "deref_mut", "borrow", "borrow_mut", "as_ref_slice", "as_mut_slice_trait", "as_ref_array",
   "as_mut_array", "from_array_ref", "from_array_mut", "try_from_ref", "try_from_mut", "split_ref", "split_mut", "flatten_ref",
   "flatten_mut", "unflatten_ref", "unflatten_mut", "into_iter_ref", "into_iter_mut", "iter_as_slice", "iter_as_mut_slice"]

end GA.Types
