import GA.Gen.Mem
import GA.Gen.Layout
/-!
Reinterpreting views (C02, C10, C11, C18): slices and array references are `(offset, length)` in
elements relative to the source object; every guard, offset and length is the regenerated
`GA.Gen.Mem`.  No element is ever copied by these functions, so a view is fully described by where
it starts and how many elements it has.
-/
namespace GA.Mem
open GA.Gen

structure View where
  off : Nat      -- element offset from the source's first element
  len : Nat      -- number of elements (or of chunks, for a slice of arrays)
deriving Repr, DecidableEq

inductive Res (α : Type) where
  | ok (v : α)
  | err          -- `Err(LengthError)`
  | panic
  | ub           -- arithmetic underflow / division by zero in the extracted expressions
deriving Repr, DecidableEq

/-! ### C02: slice → array reference -/
def fromSlice (len n : Nat) : Res View :=
  if Mem.fromSliceReject len n then .panic else .ok ⟨Mem.fromSliceOff, n⟩
def tryFromSlice (len n : Nat) : Res View :=
  if Mem.tryFromSliceReject len n then .err else .ok ⟨Mem.tryFromSliceOff, n⟩
def fromMutSlice (len n : Nat) : Res View :=
  if Mem.fromMutSliceAccept len n then .ok ⟨Mem.fromMutSliceOff, n⟩ else .panic
def tryFromMutSlice (len n : Nat) : Res View :=
  if Mem.tryFromMutSliceAccept len n then fromMutSlice len n else .err
def tryFrom (len n : Nat) : Res View := if Mem.tryFromDelegates then tryFromSlice len n else .ub
def tryFromMut (len n : Nat) : Res View := if Mem.tryFromMutDelegates then tryFromMutSlice len n else .ub

/-- `as_slice` and everything that delegates to it -/
def asSlice (n : Nat) : View := ⟨0, Layout.asSliceLen n⟩
def asMutSlice (n : Nat) : View := ⟨0, Layout.asMutSliceLen n⟩

inductive ViewKind where
  | asSlice | asMutSlice | deref | derefMut | borrow | borrowMut | asRef | asMut | refIter | mutIter
  | asRefArray | asMutArray
deriving Repr, DecidableEq

/-- which underlying function each borrowed view is (from the regenerated bodies); `none` if a body
    no longer delegates -/
def view (k : ViewKind) (n : Nat) : Option View :=
  match k with
  | .asSlice => if Layout.asSliceBaseIsSelf then some (asSlice n) else none
  | .asMutSlice => if Layout.asMutSliceBaseIsSelf then some (asMutSlice n) else none
  | .deref => if Mem.derefIsAsSlice && Layout.asSliceBaseIsSelf then some (asSlice n) else none
  | .derefMut => if Mem.derefMutIsAsMutSlice && Layout.asMutSliceBaseIsSelf then some (asMutSlice n) else none
  | .borrow => if Mem.borrowIsAsSlice && Layout.asSliceBaseIsSelf then some (asSlice n) else none
  | .borrowMut => if Mem.borrowMutIsAsMutSlice && Layout.asMutSliceBaseIsSelf then some (asMutSlice n) else none
  | .asRef => if Mem.asRefIsAsSlice && Layout.asSliceBaseIsSelf then some (asSlice n) else none
  | .asMut => if Mem.asMutIsAsMutSlice && Layout.asMutSliceBaseIsSelf then some (asMutSlice n) else none
  | .refIter => if Mem.refIterIsSliceIter && Layout.asSliceBaseIsSelf then some (asSlice n) else none
  | .mutIter => if Mem.mutIterIsSliceIterMut && Layout.asMutSliceBaseIsSelf then some (asMutSlice n) else none
  | .asRefArray => if Mem.asRefArrayIsTransmute then some ⟨0, n⟩ else none     -- `&[T; N]` at the same address
  | .asMutArray => if Mem.asMutArrayIsTransmute then some ⟨0, n⟩ else none

/-- `const_transmute::<A, B>` between types of `a` and `b` bytes -/
def constTransmute (a b : Nat) : Res Unit := if Mem.transmuteReject a b then .panic else .ok ()

/-! ### C10: chunks -/
inductive ChunksRes where
  | ok (chunks rem : View)
  | empties      -- `N = 0` and an empty input: two (static) empty slices
  | panic
  | ub
deriving Repr, DecidableEq

def chunksFromSlice (len n : Nat) : ChunksRes :=
  if Mem.chunksN0 n then (if Mem.chunksN0Empty len then .empties else .panic)
  else if !(Mem.chunksNumChunksOk len n && Mem.chunksRemOffOk len n && Mem.chunksRemLenOk len n) then .ub
  else .ok ⟨Mem.chunksChunkOff len n, Mem.chunksNumChunks len n⟩ ⟨Mem.chunksRemOff len n, Mem.chunksRemLen len n⟩

def chunksFromSliceMut (len n : Nat) : ChunksRes :=
  if Mem.chunksMutN0 n then (if Mem.chunksMutN0Empty len then .empties else .panic)
  else if !(Mem.chunksMutNumChunksOk len n && Mem.chunksMutRemOffOk len n && Mem.chunksMutRemLenOk len n) then .ub
  else .ok ⟨Mem.chunksMutChunkOff len n, Mem.chunksMutNumChunks len n⟩ ⟨Mem.chunksMutRemOff len n, Mem.chunksMutRemLen len n⟩

/-- `slice_from_chunks(&[GenericArray<T, N>; k])`: flat element view -/
def sliceFromChunks (k n : Nat) : View := ⟨Mem.flatOff k n, Mem.flatLen k n⟩
def sliceFromChunksMut (k n : Nat) : View := ⟨Mem.flatMutOff k n, Mem.flatMutLen k n⟩

/-- `from_chunks` / `into_chunks` (+ `_mut`): a reference transmute keeps address and count -/
def reinterpretChunks (flag tied : Bool) (k : Nat) : Option View := if flag && tied then some ⟨0, k⟩ else none

/-! ### C11: flatten / unflatten -/
/-- owned flatten of `m` rows of `n`: guarded by the size check of `const_transmute` -/
def flattenOwned (xss : List (List Nat)) (n esz : Nat) : Res (List Nat) :=
  let m := xss.length
  match constTransmute (m * (n * esz)) (Mem.flattenOutLen n m * esz) with
  | .ok _ => .ok xss.flatten
  | .panic => .panic
  | _ => .ub

def chunk (n : Nat) : Nat → List Nat → List (List Nat)
  | 0, _ => []
  | k + 1, xs => xs.take n :: chunk n k (xs.drop n)

def unflattenOwned (xs : List Nat) (n esz : Nat) : Res (List (List Nat)) :=
  let nm := xs.length
  if n = 0 then .ub        -- `Quot<NM, U0>` does not exist: not a well-typed call
  else match constTransmute (nm * esz) (Mem.unflattenOutLen nm n * (n * esz)) with
    | .ok _ => .ok (chunk n (Mem.unflattenOutLen nm n) xs)
    | .panic => .panic
    | _ => .ub

/-- by-reference forms: the view keeps the address; its element count is the new type's length -/
def flattenRef (n m : Nat) : View := ⟨0, Mem.flattenRefOutLen n m⟩
def flattenMut (n m : Nat) : View := ⟨0, Mem.flattenMutOutLen n m⟩
/-- unflatten by reference: `Quot<NM, N>` rows of `n` elements -/
def unflattenRef (nm n : Nat) : View := ⟨0, Mem.unflattenRefOutLen nm n * n⟩
def unflattenMut (nm n : Nat) : View := ⟨0, Mem.unflattenMutOutLen nm n * n⟩

end GA.Mem
