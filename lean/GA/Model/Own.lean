/-!
Ownership model (C03, C04, C05, C07, C08): events, element sources, the builder fill loop.

Storage is bitwise, ownership lives only in counters — as in the Rust code.  A *source* is whatever
the builder's `extend` zips the destination slots with; it is a small state machine with one `step`
per `Iterator::next()` call and a destructor.  Caller code (closures, `Clone`, user iterators) is a
function `Nat → Option Id` from the call index to the value it returns; `none` = it panics on that
call.  Because that function is universally quantified in the theorems, one statement covers every
panic index.
-/
namespace GA.Own

abbrev Id := Nat

inductive Ev where
  | give (call : Nat) (id : Id)   -- ownership of `id` passes to caller code as an argument of call `call`
  | lend (call : Nat) (id : Id)   -- a reference to `id` is passed to caller code (no ownership move)
  | take (call : Nat) (id : Id)   -- caller code hands `id` to the library (closure / clone / iterator result)
  | drop (id : Id)                -- the library runs `id`'s destructor
  | panic (call : Nat)            -- caller code panics during call `call`
  | poll (k : Nat)                -- the k-th `next()` call on a user-supplied iterator
  | dropUninit                    -- a destructor runs on a slot that was never written (undefined behaviour)
  | lenFail                       -- `from_iter_length_fail` panic
deriving Repr, DecidableEq

def gives : List Ev → List Id
  | [] => [] | .give _ x :: t => x :: gives t | _ :: t => gives t
def takes : List Ev → List Id
  | [] => [] | .take _ x :: t => x :: takes t | _ :: t => takes t
def drops : List Ev → List Id
  | [] => [] | .drop x :: t => x :: drops t | _ :: t => drops t
def uninitDrops : List Ev → Nat
  | [] => 0 | .dropUninit :: t => uninitDrops t + 1 | _ :: t => uninitDrops t
def polls : List Ev → Nat
  | [] => 0 | .poll _ :: t => polls t + 1 | _ :: t => polls t

/-- how an argument reaches caller code: by value (`give`) or by reference (`lend`) -/
def arg (owned : Bool) (call : Nat) (x : Id) : Ev := if owned then .give call x else .lend call x

/-- one `next()` call on a source -/
inductive Step (σ : Type) where
  | yield (evs : List Ev) (x : Id) (s : σ)
  | done (evs : List Ev) (s : σ)
  | panic (evs : List Ev) (s : σ)

structure Src (σ : Type) where
  step : σ → Step σ
  /-- destructor of the source, including the guards of enclosing frames it stands for -/
  dropEv : σ → List Ev
  /-- do yielded items carry ownership (values) or not (references)? -/
  owns : Bool

inductive FillRes (σ : Type) where
  | full (out : List Id) (s : σ)     -- all destination slots written
  | short (out : List Id) (s : σ)    -- the source ended first
  | panicked

/-- `IntrusiveArrayBuilder`'s destructor: drops `out[..position]`.  With `writeBeforeCount = false`
    the position already counts a slot that was never written. -/
def builderDrop (writeBeforeCount : Bool) (out : List Id) : List Ev :=
  out.map .drop ++ (if writeBeforeCount then [] else [.dropUninit])

/-- `destination.zip(source).for_each(|(dst, src)| { dst.write(src); *position += 1 })` with `k`
    destination slots left: the destination is polled first, so the source is never polled once the
    array is full.  On a panic inside the source, unwinding drops the builder, then the source. -/
def fillLoop {σ : Type} (wbc destFirst : Bool) (S : Src σ) : Nat → σ → List Id → List Ev × FillRes σ
  | 0, s, out =>
    if destFirst then ([], .full out s)
    else
      -- `source.zip(destination)`: the source is polled once more before the exhausted destination
      match S.step s with
      | .yield evs x s' => (evs ++ (if S.owns then [.drop x] else []), .full out s')
      | .done evs s' => (evs, .full out s')
      | .panic evs s' => (evs ++ builderDrop wbc out ++ S.dropEv s', .panicked)
  | k + 1, s, out =>
    match S.step s with
    | .yield evs x s' =>
      let r := fillLoop wbc destFirst S k s' (out ++ [x])
      (evs ++ r.1, r.2)
    | .done evs s' => (evs, .short out s')
    | .panic evs s' => (evs ++ builderDrop wbc out ++ S.dropEv s', .panicked)

inductive Res where
  | ok (arr : List Id)
  | err
  | panicked
deriving Repr, DecidableEq

def Res.ids : Res → List Id
  | .ok a => a
  | _ => []

/-- regenerated conditions of `try_from_iter` -/
structure CollectFrags where
  hintLoReject : Nat → Nat → Bool      -- `(n, _) if n > N::USIZE`
  hintHiReject : Nat → Nat → Bool      -- `(_, Some(n)) if n < N::USIZE`
  isFull : Nat → Nat → Bool            -- `self.position == N::USIZE`
  fullBeforePoll : Bool                -- `!builder.is_full() ||` precedes `iter.next().is_some()`
  writeBeforeCount : Bool              -- `dst.write(src)` precedes `*position += 1` in `extend`
  destFirst : Bool                     -- `destination.zip(source)`: destination polled first
  finishAfterProbe : Bool              -- `builder.finish()` comes after the surplus probe

/-- the `size_hint` pre-check of `try_from_iter` -/
def hintReject (G : CollectFrags) (hint : Nat × Option Nat) (n : Nat) : Bool :=
  G.hintLoReject hint.1 n || (match hint.2 with | some h => G.hintHiReject h n | none => false)

/-- `GenericArray::try_from_iter` (src/lib.rs) over an abstract source. -/
def tryFromIter {σ : Type} (G : CollectFrags) (S : Src σ) (n : Nat) (hint : Nat × Option Nat) (s0 : σ) :
    List Ev × Res :=
  if hintReject G hint n then (S.dropEv s0, .err)
  else
    match fillLoop G.writeBeforeCount G.destFirst S n s0 [] with
    | (tr, .panicked) => (tr, .panicked)
    | (tr, .short out s) =>
      if G.isFull out.length n && !G.fullBeforePoll then
        -- (only reachable for a mutated `is_full`): would finish a partially filled array
        (tr ++ [.dropUninit] ++ S.dropEv s, .ok out)
      else (tr ++ out.map .drop ++ S.dropEv s, .err)
    | (tr, .full out s) =>
      if !G.isFull out.length n then (tr ++ out.map .drop ++ S.dropEv s, .err)
      else
        match S.step s with
        | .yield evs x s' =>
          (tr ++ evs ++ (if S.owns then [.drop x] else []) ++
            (if G.finishAfterProbe then out.map .drop else []) ++ S.dropEv s', .err)
        | .done evs s' => (tr ++ evs ++ S.dropEv s', .ok out)
        | .panic evs s' =>
          (tr ++ evs ++ (if G.finishAfterProbe then out.map .drop else []) ++ S.dropEv s', .panicked)

/-- `FromIterator::from_iter`: `Err` becomes the "expected N items" panic. -/
def fromIter {σ : Type} (G : CollectFrags) (S : Src σ) (n : Nat) (hint : Nat × Option Nat) (s0 : σ) :
    List Ev × Res :=
  match tryFromIter G S n hint s0 with
  | (tr, .err) => (tr ++ [.lenFail], .panicked)
  | r => r

/-! ### Concrete sources -/

/-- `ArrayConsumer` together with the `slice::Iter` obtained from `iter_position()`:
    all `N` slot values, the slice iterator's index `idx` (which element is read next) and the
    consumer's `position` (`Drop` releases `slots[pos..]`).  The two are separate in the code:
    the closure must keep `pos` in step with `idx`. -/
structure Consumer where
  slots : List Id
  idx : Nat
  pos : Nat
deriving Repr, DecidableEq

def Consumer.ofList (l : List Id) : Consumer := ⟨l, 0, 0⟩
def Consumer.dropEv (c : Consumer) : List Ev := (c.slots.drop c.pos).map .drop

/-- The counter behind `generate`: `f(i)` for `i = 0, 1, …` — owns nothing. -/
def genSrc (f : Nat → Option Id) : Src Nat where
  step i := match f i with
    | some y => .yield [.take i y] y (i + 1)
    | none => .panic [.panic i] (i + 1)
  dropEv _ := []
  owns := true

/-- How one operand of a closure-driven loop is held. -/
inductive Side where
  /-- an `ArrayConsumer` read with `ptr::read` inside the closure; `posNew own other` is the value the
      closure stores into this consumer's position (in terms of its own and the other consumer's
      position before the statement block), `advBeforeCall` whether that store precedes the call -/
  | consumer (posNew : Nat → Nat → Nat) (advBeforeCall : Bool)
  /-- a by-value iterator (`vec::IntoIter`): taking an item moves ownership out of the iterator -/
  | owned
  /-- a by-reference iterator (`slice::Iter`): nothing is owned -/
  | borrowed
  /-- a `ManuallyDrop` array read with `ptr::read` (the "no element needs drop" branches): nothing
      is ever dropped by the library, so a panic abandons the unread elements -/
  | manual

def Side.owns : Side → Bool
  | .borrowed => false
  | _ => true
def Side.dropEv (sd : Side) (c : Consumer) : List Ev :=
  match sd with
  | .borrowed => []
  | .manual => []
  | _ => c.dropEv
/-- state of the side after its element `idx` was read and the closure returned (`ok = true`) or
    panicked (`ok = false`) -/
def Side.after (sd : Side) (c : Consumer) (otherPos : Nat) (ok : Bool) : Consumer :=
  match sd with
  | .consumer posNew adv =>
    { c with idx := c.idx + 1, pos := if ok || adv then posNew c.pos otherPos else c.pos }
  | _ => { c with idx := c.idx + 1, pos := c.idx + 1 }

/-- one-input closure source: `iter.map(|x| f(x))` where the iterator is one `Side`
    (owned `map`: `.consumer`; `&`/`&mut` receivers: `.borrowed`; `Box`: `.owned`). -/
def mapSrc (sd : Side) (f : Nat → Option Id) : Src Consumer where
  step c := match c.slots[c.idx]? with
    | none => .done [] c
    | some x =>
      match f c.idx with
      | some y => .yield [arg sd.owns c.idx x, .take c.idx y] y (sd.after c c.pos true)
      | none => .panic [arg sd.owns c.idx x, .panic c.idx] (sd.after c c.pos false)
  dropEv c := sd.dropEv c
  owns := true

/-- a by-value iterator over owned elements (`vec::IntoIter`, `VecDeque::drain`, …) used directly as
    the source: yields the elements themselves; its destructor drops the ones not yet yielded -/
def iterSrc : Src Consumer where
  step c := match c.slots[c.idx]? with
    | none => .done [] c
    | some x => .yield [] x { c with idx := c.idx + 1, pos := c.idx + 1 }
  dropEv c := c.dropEv
  owns := true

structure Zip2 where
  a : Consumer
  b : Consumer
deriving Repr, DecidableEq

/-- `a_iter.zip(b_iter).map(|(l, r)| f(l, r))` for every combination of sides; the closure is call
    `i` with arguments `(a[i], b[i])`.  `a` is polled first (`Zip::next`). -/
def zipSrc (sa sb : Side) (f : Nat → Option Id) : Src Zip2 where
  step z := match z.a.slots[z.a.idx]? with
    | none => .done [] z
    | some x =>
      match z.b.slots[z.b.idx]? with
      | none =>
        -- `b` ended after `a` yielded: an owned `a` item is dropped by `Zip::next`
        match sa with
        | .owned => .done [.drop x] { z with a := sa.after z.a z.b.pos true }
        | _ => .done [] { z with a := { z.a with idx := z.a.idx + 1 } }
      | some y =>
        let i := z.a.idx
        -- position stores are expressed over the positions *before* the closure's statement block
        match f i with
        | some r =>
          .yield [arg sa.owns i x, arg sb.owns i y, .take i r] r
            ⟨sa.after z.a z.b.pos true, sb.after z.b z.a.pos true⟩
        | none =>
          .panic [arg sa.owns i x, arg sb.owns i y, .panic i]
            ⟨sa.after z.a z.b.pos false, sb.after z.b z.a.pos false⟩
  dropEv z := sb.dropEv z.b ++ sa.dropEv z.a
  owns := true

/-- scripted user iterator (C07): `answers` are the results of the `next()` calls still to come
    (`none` entries may be followed by `some` again: a non-fused iterator; past the end it keeps
    returning `None`); `k` counts the polls made; `panicAt` makes one poll panic. -/
structure Script where
  answers : List (Option Id)
  k : Nat
  panicAt : Option Nat
deriving Repr, DecidableEq

def scriptSrc : Src Script where
  step s :=
    if s.panicAt = some s.k then .panic [.poll s.k, .panic s.k] { s with k := s.k + 1, answers := s.answers.tail }
    else match s.answers with
      | some x :: t => .yield [.poll s.k, .take s.k x] x { s with k := s.k + 1, answers := t }
      | _ => .done [.poll s.k] { s with k := s.k + 1, answers := s.answers.tail }
  dropEv _ := []      -- items not yet produced do not exist
  owns := true

/-! ### Fold loops (no builder) -/

/-- `iter.fold(init, |acc, x| f(acc, x))` over a source: `fuel` bounds the number of polls. -/
def foldLoop {σ : Type} (S : Src σ) : Nat → σ → List Ev × Bool × σ
  | 0, s => ([], true, s)
  | k + 1, s =>
    match S.step s with
    | .yield evs _ s' =>
      let r := foldLoop S k s'
      (evs ++ r.1, r.2.1, r.2.2)
    | .done evs s' => (evs, true, s')
    | .panic evs s' => (evs ++ S.dropEv s', false, s')

/-- the element consumer inside `fold`: `f(acc, value)` returns nothing the library keeps;
    `f i = false` means the closure panics on call `i`. -/
def foldSrc (sd : Side) (f : Nat → Bool) : Src Consumer where
  step c := match c.slots[c.idx]? with
    | none => .done [] c
    | some x =>
      if f c.idx then .yield [arg sd.owns c.idx x] x (sd.after c c.pos true)
      else .panic [arg sd.owns c.idx x, .panic c.idx] (sd.after c c.pos false)
  dropEv c := sd.dropEv c
  owns := false

end GA.Own
