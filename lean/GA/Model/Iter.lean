import GA.Gen.Iter
/-!
Executable model of `GenericArrayIter` (src/iter.rs), value view (C06).

Storage is *bitwise*: `slots` always holds all `N` slot values (stale copies included), exactly as
the `ManuallyDrop<GenericArray<T, N>>` field does; liveness is only in `front`/`back`.
Every index/condition is taken from `GA.Gen.Iter`, regenerated from the Rust source on each run.
An access outside `slots` is undefined behaviour in the Rust code and is reported as `IOut.ub`.
-/
namespace GA.Iter
open GA.Gen

structure Iter where
  slots : List Nat
  front : Nat
  back : Nat
deriving Repr, DecidableEq

inductive IOp where
  | next | nextBack
  | nth (n : Nat) | nthBack (n : Nat)
  | len | sizeHint | asSlice
  | write (i v : Nat)          -- `it.as_mut_slice()[i] = v`
  | clone                      -- replace the iterator by its clone, report the clone's items
  | fold | rfold | count | last   -- consuming adaptors, run on a clone of the iterator
  | foldSelf | rfoldSelf | countSelf | lastSelf   -- the same, consuming the iterator itself
  | debug
deriving Repr, DecidableEq

inductive IOut where
  | item (o : Option Nat)
  | num (n : Nat)
  | hint (lo : Nat) (hi : Option Nat)
  | items (l : List Nat)
  | unit
  | oob          -- safe-Rust index panic (`as_mut_slice()[i]` with `i >= len`)
  | ub           -- the Rust code would touch memory outside the array / underflow an index
deriving Repr, DecidableEq

/-- `array.get_unchecked(lo..hi)` -/
def sliceOf (l : List Nat) (lo hi : Nat) : List Nat := (l.drop lo).take (hi - lo)

def Iter.ofList (l : List Nat) : Iter := ⟨l, Iter.initFront l.length, Iter.initBack l.length⟩

def readSlot (l : List Nat) (r : Nat) : IOut :=
  match l[r]? with
  | some x => .item (some x)
  | none => .ub

def rangeOk (l : List Nat) (lo hi : Nat) : Bool := decide (lo ≤ hi) && decide (hi ≤ l.length)

def next (it : Iter) : IOut × Iter :=
  if Iter.nextCond it.front it.back then
    let it' := { it with front := Iter.nextAdv it.front }
    let r := if Iter.nextReadBeforeAdv then Iter.nextRead it.front it.back
             else Iter.nextRead it'.front it'.back
    (readSlot it.slots r, it')
  else (.item none, it)

def nextBack (it : Iter) : IOut × Iter :=
  if Iter.nextBackCond it.front it.back then
    if !Iter.nextBackAdvOk it.back then (.ub, it) else
    let it' := { it with back := Iter.nextBackAdv it.back }
    let r := if Iter.nextBackDecBeforeRead then Iter.nextBackRead it'.front it'.back
             else Iter.nextBackRead it.front it.back
    (readSlot it.slots r, it')
  else (.item none, it)

/-- `nth` when no destructor panics: drop the skipped range, move the index, then `next`. -/
def nth (it : Iter) (n : Nat) : IOut × Iter :=
  let nx := Iter.nthNext it.front it.back n
  if rangeOk it.slots (Iter.nthDropLo it.front it.back n) (Iter.nthDropHi it.front it.back n)
      && Iter.nthThenNext && Iter.nthNextOk it.front it.back n then
    next { it with front := nx }
  else (.ub, it)

def nthBack (it : Iter) (n : Nat) : IOut × Iter :=
  let nx := Iter.nthBackNext it.front it.back n
  if rangeOk it.slots (Iter.nthBackDropLo it.front it.back n) (Iter.nthBackDropHi it.front it.back n)
      && Iter.nthBackThenNextBack && Iter.nthBackNextOk it.front it.back n then
    nextBack { it with back := nx }
  else (.ub, it)

def asSlice (it : Iter) : List Nat :=
  sliceOf it.slots (Iter.sliceLo it.front it.back) (Iter.sliceHi it.front it.back)

def sliceOk (it : Iter) : Bool :=
  rangeOk it.slots (Iter.sliceLo it.front it.back) (Iter.sliceHi it.front it.back)

/-- `Clone::clone`: bitwise copy of all slots, clones written at `0..`, `index = 0`,
    `index_back = number written` (zip of the `N` destination slots with `as_slice()`). -/
def clone (it : Iter) : Iter :=
  let live := asSlice it
  let k := min it.slots.length live.length
  ⟨live.take k ++ it.slots.drop k, 0, k⟩

def foldItems (it : Iter) : List Nat :=
  sliceOf it.slots (Iter.foldLo it.front it.back) (Iter.foldHi it.front it.back)
def rfoldItems (it : Iter) : List Nat :=
  (sliceOf it.slots (Iter.rfoldLo it.front it.back) (Iter.rfoldHi it.front it.back)).reverse

def step (it : Iter) : IOp → IOut × Iter
  | .next => next it
  | .nextBack => nextBack it
  | .nth n => nth it n
  | .nthBack n => nthBack it n
  | .len => (if Iter.lenOk it.front it.back then .num (Iter.len it.front it.back) else .ub, it)
  | .sizeHint =>
      let l := Iter.len it.front it.back
      (if Iter.sizeHintExact && Iter.lenOk it.front it.back then .hint l (some l) else .ub, it)
  | .asSlice => (if sliceOk it then .items (asSlice it) else .ub, it)
  | .write i v =>
      let lo := Iter.sliceMutLo it.front it.back
      let hi := Iter.sliceMutHi it.front it.back
      if rangeOk it.slots lo hi then
        if i < hi - lo then (.unit, { it with slots := it.slots.set (lo + i) v })
        else (.oob, it)
      else (.ub, it)
  | .clone => if sliceOk it then (.items (asSlice (clone it)), clone it) else (.ub, it)
  | .fold =>
      let c := clone it
      (if sliceOk it && rangeOk c.slots (Iter.foldLo c.front c.back) (Iter.foldHi c.front c.back)
        then .items (foldItems c) else .ub, it)
  | .rfold =>
      let c := clone it
      (if sliceOk it && rangeOk c.slots (Iter.rfoldLo c.front c.back) (Iter.rfoldHi c.front c.back)
        then .items (rfoldItems c) else .ub, it)
  | .count =>
      let c := clone it
      (if sliceOk it && Iter.countIsLen && Iter.lenOk c.front c.back then .num (Iter.len c.front c.back) else .ub, it)
  | .last =>
      let c := clone it
      (if sliceOk it && Iter.lastIsNextBack then (nextBack c).1 else .ub, it)
  | .debug => (if sliceOk it then .items (asSlice it) else .ub, it)
  | .foldSelf =>
      (if rangeOk it.slots (Iter.foldLo it.front it.back) (Iter.foldHi it.front it.back)
        then .items (foldItems it) else .ub, { it with front := it.back })
  | .rfoldSelf =>
      (if rangeOk it.slots (Iter.rfoldLo it.front it.back) (Iter.rfoldHi it.front it.back)
        then .items (rfoldItems it) else .ub, { it with front := it.back })
  | .countSelf =>
      (if Iter.countIsLen && Iter.lenOk it.front it.back then .num (Iter.len it.front it.back) else .ub,
        { it with front := it.back })
  | .lastSelf => (if Iter.lastIsNextBack then (nextBack it).1 else .ub, { it with front := it.back })

def run (it : Iter) : List IOp → List IOut × Iter
  | [] => ([], it)
  | op :: ops =>
    let r := step it op
    let rs := run r.2 ops
    (r.1 :: rs.1, rs.2)

/-! ### Specification: a list used as a double-ended queue -/
namespace Spec

def step (q : List Nat) : IOp → IOut × List Nat
  | .next => (.item q.head?, q.tail)
  | .nextBack => (.item q.getLast?, q.dropLast)
  | .nth n => (.item (q.drop n).head?, q.drop (n + 1))
  | .nthBack n => (.item (q.take (q.length - n)).getLast?, q.take (q.length - (n + 1)))
  | .len => (.num q.length, q)
  | .sizeHint => (.hint q.length (some q.length), q)
  | .asSlice => (.items q, q)
  | .write i v => (if i < q.length then .unit else .oob, q.set i v)
  | .clone => (.items q, q)
  | .fold => (.items q, q)
  | .rfold => (.items q.reverse, q)
  | .count => (.num q.length, q)
  | .last => (.item q.getLast?, q)
  | .debug => (.items q, q)
  | .foldSelf => (.items q, [])
  | .rfoldSelf => (.items q.reverse, [])
  | .countSelf => (.num q.length, [])
  | .lastSelf => (.item q.getLast?, [])

def run (q : List Nat) : List IOp → List IOut × List Nat
  | [] => ([], q)
  | op :: ops =>
    let r := step q op
    let rs := run r.2 ops
    (r.1 :: rs.1, rs.2)

end Spec

def Inv (it : Iter) : Prop := it.front ≤ it.back ∧ it.back ≤ it.slots.length
def abs (it : Iter) : List Nat := sliceOf it.slots it.front it.back

end GA.Iter
