import GA.Gen.Fill
import GA.Gen.Layout
import GA.Model.Layout
/-!
# zeroize and const-default (C19)

`ConstDefault::DEFAULT` is the only code that builds an array through the named fields of the
recursive storage structs.  The model lays the struct literals of `src/impl_const_default.rs`
(regenerated: which field gets which initialiser) out in declaration order (`repr(C)`, no padding:
C01) and reads the result back through the slice view (`as_slice`: base = self, length = N).
-/
namespace GA.Fill
open GA.Layout GA.Gen

variable {α : Type}

/-- memory (elements in address order) of one field of kind `fk` under initialiser `init`;
    `none` = the literal does not initialise the field the way its type demands -/
def fieldMem (d : α) (child : Option (List α)) : FieldKind → Option InitKind → Option (List α)
  | .child, some .childDefault => child
  | .child, some .inferred => child
  | .elem, some .elemDefault => some [d]
  | .elem, some .inferred => some [d]
  | .phantom, some .phantom => some []
  | .phantom, some .inferred => some []
  | .unit, some .inferred => some []
  | _, _ => none

def appendMem : Option (List α) → Option (List α) → Option (List α)
  | some a, some m => some (a ++ m)
  | _, _ => none

/-- a `Self { … }` literal: fields in declaration order, each looked up by name -/
def structMem (d : α) (child : Option (List α)) (fields : List FieldKind) (names : List String)
    (inits : List (String × InitKind)) : Option (List α) :=
  (fields.zip names).foldl (fun acc fn => appendMem acc (fieldMem d child fn.1 (inits.lookup fn.2))) (some [])

def nodeDefault (d : α) (child : Option (List α)) : NodeKind → Option (List α)
  | .even => structMem d child Layout.evenFields Layout.evenFieldNames Fill.evenDefaultInit
  | .odd => structMem d child Layout.oddFields Layout.oddFieldNames Fill.oddDefaultInit

/-- `<N::ArrayType<T> as ConstDefault>::DEFAULT` -/
def storageDefault (d : α) : Digits → Option (List α)
  | .term => some []          -- `[T; 0]::DEFAULT`
  | .b0 h => nodeDefault d (storageDefault d h) Layout.b0Node
  | .b1 h => nodeDefault d (storageDefault d h) Layout.b1Node

/-- `GenericArray::<T, N>::const_default()` as memory -/
def constDefaultMem (d : α) (n : Digits) : Option (List α) :=
  if Fill.constDefaultReturnsDEFAULT && Layout.wrapperSingleStorageField then
    structMem d (storageDefault d n) [.child] Layout.wrapperFieldNames Fill.wrapperDefaultInit
  else none

/-- the elements the slice view shows -/
def sliceView (mem : List α) (n : Nat) : Option (List α) :=
  if Layout.asSliceBaseIsSelf then some (mem.take (Layout.asSliceLen n)) else none

def constDefault (d : α) (n : Nat) : Option (List α) :=
  (constDefaultMem d (Digits.ofNat n)).bind fun m => sliceView m n

/-- `zeroize()`: the element's own `zeroize` on every element of the whole mutable slice, once -/
def zeroize (z : α → α) (n : Nat) (a : List α) : Option (List α) :=
  if Fill.zeroizeIsElementwiseOverSlice && Layout.asMutSliceBaseIsSelf then
    some ((a.take (Layout.asMutSliceLen n)).map z ++ a.drop (Layout.asMutSliceLen n))
  else none

end GA.Fill
