import GA.Model.Own
/-!
Whole-body tie: a small deep-embedded imperative language ("body IR") into which the translator
(`tools/bodyx.py`) lowers **entire function bodies** of `src/iter.rs` and `src/internal.rs`, and an
executable interpreter for it.  Nothing in this file is specific to one function: the regenerated
ASTs live in `GA/Gen/Body.lean`; `GA/Bridge/Body.lean` proves that interpreting them yields the
hand-written models (`GA.Iter`, `GA.IterOwn`), so that every statement of a translated body is
accounted for — not only the extracted guards, offsets and order flags.

Machine: two objects (`self`, and `out` = the struct value a function builds, e.g. `iter` in
`Clone::clone`) each with bitwise slot storage and the counters `index`, `index_back`, `position`;
a local environment of values (de Bruijn *levels*: variable `i` is the i-th binding made);
an event trace in the vocabulary of `GA.Own.Ev`.  Caller code and destructors are parameters:
`bad` (the element whose destructor panics), `fpan k` (the caller's closure panics on its k-th call),
`cl k` (result of the k-th `Clone::clone` call; `none` = it panics).
An out-of-range `get_unchecked`, an arithmetic underflow, a result not fitting the 64-bit word and
any statement the translator could not lower evaluate to `ub`.
-/
namespace GA.Body
open GA.Own

inductive Obj where
  | self | out
  | other          -- a second array argument (`lhs` of `inverted_zip`)
deriving Repr, DecidableEq

inductive Fld where
  | index | indexBack | position
deriving Repr, DecidableEq

/-- expressions (side-effect free on the machine state) -/
inductive X where
  | num (n : Nat)
  | usize                          -- `N::USIZE`
  | var (i : Nat)
  | fld (o : Obj) (f : Fld)
  | add (a b : X) | sub (a b : X) | min (a b : X)
  | lt (a b : X) | le (a b : X) | eq (a b : X) | ne (a b : X)
  | not (a : X) | and (a b : X) | or (a b : X)
  | range (lo hi : X) | rangeTo (hi : X) | rangeFrom (lo : X)
  | slot (o : Obj) (i : X)         -- `o.array.get_unchecked(i)`
  | slice (o : Obj) (r : X)        -- `o.array.get_unchecked(range)`
  | whole (o : Obj)                -- `o.array.as_mut_slice()` / `.iter()` / `.iter_mut()`
  | read (r : X)                   -- `ptr::read(slot reference)`
  | some (a : X) | none | pair (a b : X) | unit
  | len (s : X)                    -- `slice.len()`
  | dbg (s : X)                    -- `f.debug_tuple(..).field(&slice).finish()`
  | outObj                         -- the struct value under construction, as a value
  | hintLo                         -- lower bound of the source's `size_hint()`
  | hintHi                         -- the upper bound `h` inside `hintHiAnd` (`Some(h)`)
  | hintHiAnd (g : X)              -- `(_, Some(h)) if g`: the upper bound exists and `g` holds of it
  | isSome (a : X)
  | err                            -- `Err(LengthError)`
  | ok (a : X)                     -- `Ok(a)`
  | arrOut                         -- `array_assume_init(array)`: the array the builder filled
  | layoutSize                     -- `Layout::new::<GenericArray<MaybeUninit<T>, N>>().size()`
  | dangling (typed : Bool)        -- `NonNull::dangling().as_ptr()`; `typed`: the pointee is the array / element type
  | isNull (p : X)
  | guardPtr                       -- `self.ptr` of the `DeallocOnDrop` guard
  | boxOut (p : X)                 -- `Box::from_raw(p.cast())` over the filled array
  | needsDrop (o : Obj)            -- `mem::needs_drop::<element type of o>()`
  | shintVal (atEnd : Bool)        -- the `n` of `Some(n) = seq.size_hint()` (serde `SeqAccess`; up front / once full)
  | shintAnd (atEnd : Bool) (g : X) -- `seq.size_hint()` is `Some(n)` and `g` holds of it
deriving Repr

inductive V where
  | nat (n : Nat) | bool (b : Bool) | elem (x : Nat)
  | none | some (v : V) | pair (a b : V) | unit
  | range (lo hi : Nat) | rangeTo (hi : Nat) | rangeFrom (lo : Nat)
  | slot (o : Obj) (i : Nat) | slice (o : Obj) (lo hi : Nat)
  | dbg (l : List Nat)
  | obj
  | err | ok (v : V) | arr (l : List Nat)
  | null | ptr (blk : Option Nat)      -- raw pointers: null, dangling (`none`), a heap block
  | wild                               -- a non-null address that is not aligned for the array
  | boxed (blk : Option Nat) (l : List Nat)   -- `Box::from_raw(ptr)`: the boxed array and the block it lives in
deriving Repr, DecidableEq

/-- allocator events (`alloc::alloc::{alloc, dealloc, handle_alloc_error}`); block 0 = no block -/
inductive AEv where
  | alloc (blk size align : Nat)
  | allocFail (size align : Nat)
  | dealloc (blk size align : Nat)
  | handleAllocError
  | nullDeref                        -- a reference is formed to the null block
deriving Repr, DecidableEq

/-- statements, in continuation-passing form (`k` is the rest of the block) -/
inductive S where
  | done (x : X)                              -- the value of the block / function
  | letv (e : X) (k : S)                      -- `let v = e;` (binds the next variable)
  | set (o : Obj) (f : Fld) (e : X) (k : S)   -- `o.f = e;`
  | drop (sl : X) (k : S)                     -- `ptr::drop_in_place(slice)`
  | ite (c : X) (t e : S)
  | forget (k : S)                            -- `mem::forget(self)`
  | foldS (rev : Bool) (sl : X) (body : S) (k : S)
                                              -- `slice.iter().fold/rfold(init, |acc, src| body)`; binds `src`
  | zipS (dst src : X) (body : S) (k : S)     -- `for (dst, src) in dst.iter_mut().zip(src) body`; binds both
  | callF (arg : X) (k : S)                   -- the caller's closure is called with the owned value `arg`
  | cloneOf (src : X) (k : S)                 -- `let v = src.clone();` (caller code; binds the clone)
  | write (dst v : X) (k : S)                 -- `ptr::write(dst, v)`
  | newOut (moved : Bool) (idx idxb : X) (k : S)
                                              -- `let out = Struct { array: <all of self's slots>, index, index_back }`
                                              -- `moved`: the array was moved in (self gives up ownership)
  | newBuilder (k : S)                        -- `let mut array = uninit(); let mut builder = IntrusiveArrayBuilder::new(&mut array);`
  | fillS (destFirst : Bool) (body : S) (k : S)
                                              -- `destination.zip(source).for_each(|(dst, src)| body)` over the builder's
                                              -- slots and the caller's iterator; binds `dst`, `src`
  | pollS (k : S)                             -- `let b = iter.next().is_some();` on the caller's iterator: binds the
                                              -- Bool; a yielded item is a temporary, dropped at once
  | forgetO (o : Obj) (k : S)                 -- `mem::forget(o)` (`builder.finish()`)
  | lenFail                                   -- `from_iter_length_fail(N)`: the "expected N items" panic
  | forSlots (body : S) (k : S)               -- `builder_iter.enumerate().for_each(|(i, dst)| body)`: binds `i`, `dst`
  | callG (arg : X) (k : S)                   -- `let v = f(arg);`: the caller's closure returns a value (binds it)
  | callM (arg : X) (k : S)                   -- `let v = f(arg);`: the caller's closure consumes `arg`, returns a value
  | fillMapS (l0 : Nat) (src : Obj) (clo : S) (body : S) (k : S)
                                              -- `destination.zip(src_iter.map(clo)).for_each(|(dst, v)| body)`: `clo` runs in
                                              -- the environment of its creation (`env.take l0`) plus the source slot
  | pollMapS (l0 : Nat) (src : Obj) (clo : S) (k : S)
                                              -- `src_iter.map(clo).next().is_some()`
  | seqFill (body : S) (k : S)                -- `for dst in build_iter { match seq.next_element()? { Some(el) => body, None => break } }`
  | probeS (k : S)                            -- `let b = seq.next_element::<Dummy>()?.is_some();` (nothing is built)
  | callM2 (a b : X) (k : S)                  -- `let v = f(a, b);`: the caller's closure consumes both, returns a value
  | fillZipMapS (l0 : Nat) (a b : Obj) (clo : S) (body : S) (k : S)
                                              -- `destination.zip(a_iter.zip(b_iter).map(clo)).for_each(|(dst, v)| body)`:
                                              -- `clo` binds the two source slots `(l, r)`
  | pollZipMapS (l0 : Nat) (a b : Obj) (clo : S) (k : S)
                                              -- `a_iter.zip(b_iter).map(clo).next().is_some()`
  | allocS (k : S)                            -- `let p = alloc::alloc::alloc(layout);` (binds the pointer)
  | abortAlloc                                -- `handle_alloc_error(layout)` (diverges)
  | guardNew (p : X) (k : S)                  -- `let guard = DeallocOnDrop { ptr: p, layout };`
  | guardForget (k : S)                       -- `mem::forget(guard)`
  | builderAt (p : X) (k : S)                 -- `let mut builder = IntrusiveArrayBuilder::new(&mut *p);`
  | deallocS (p : X) (k : S)                  -- `alloc::alloc::dealloc(p, layout)`
  | endOut (k : S)                            -- an inlined callee returns: its local builder, unless forgotten, is
                                              -- dropped here (`Drop for IntrusiveArrayBuilder`: `array[..position]`)
  | opaque (why : Nat)                        -- a statement the translator could not lower
deriving Repr

structure O where
  slots : List Nat
  index : Nat
  indexBack : Nat
  position : Nat
  uninit : List Nat      -- indices of slots that were never written (`MaybeUninit` storage of a builder)
deriving Repr, DecidableEq

/-- growable extension of the machine state (every field has a default, so state literals stay valid) -/
structure StExt where
  atrace : List AEv := []          -- allocator events so far
  guard : Option V := none         -- a live `DeallocOnDrop { ptr, layout }` (its `ptr`)
  aborted : Bool := false          -- `handle_alloc_error` was reached
  other : O := ⟨[], 0, 0, 0, []⟩   -- the second array argument
  otherForgot : Bool := false      -- it was wrapped in `ManuallyDrop` / forgotten
deriving Repr, DecidableEq

structure St where
  self : O
  out : O
  hasOut : Bool      -- the local struct value exists (and is owned by the running function)
  calls : Nat        -- number of caller-code calls made so far
  forgot : Bool      -- `mem::forget(self)` ran / `self` was moved into `out`
  polls : Nat        -- number of `next()` calls made on the caller's iterator
  outForgot : Bool   -- `mem::forget(out)` ran (`builder.finish()`)
  ext : StExt := {}
deriving Repr, DecidableEq

/-- one `next()` call on the caller's iterator -/
inductive Poll where
  | yield (x : Nat) | done | panic
deriving Repr, DecidableEq

/-- growable extension of the context -/
structure CtxExt where
  esz : Nat := 1              -- `size_of::<T>()`
  ealign : Nat := 1           -- `align_of::<T>()`
  allocOk : Bool := true      -- does the allocator succeed
  ndSelf : Bool := true       -- `mem::needs_drop::<T>()`
  ndOther : Bool := true      -- `mem::needs_drop::<B>()`
  shint0 : Option Nat := none    -- `SeqAccess::size_hint()` before reading
  shintEnd : Option Nat := none  -- … once `N` elements have been read
deriving Repr

structure Ctx where
  n : Nat                     -- `N::USIZE`
  bad : Option Nat            -- the element whose destructor panics
  fpan : Nat → Bool           -- caller closure panics on call k
  cl : Nat → Option Nat       -- k-th `Clone::clone` result (`none`: panics)
  src : Nat → Poll := fun _ => .done      -- k-th `next()` of the caller's iterator
  hint : Nat × Option Nat := (0, none)    -- its `size_hint()`
  ext : CtxExt := {}

inductive R where
  | ret (v : V) | panicked | ub
deriving Repr, DecidableEq


def word : Nat := 18446744073709551616

def O.get (o : O) : Fld → Nat
  | .index => o.index | .indexBack => o.indexBack | .position => o.position
def O.put (o : O) (f : Fld) (v : Nat) : O :=
  match f with
  | .index => { o with index := v } | .indexBack => { o with indexBack := v } | .position => { o with position := v }

def St.obj (s : St) : Obj → O
  | .self => s.self | .out => s.out | .other => s.ext.other
def St.putObj (s : St) (o : Obj) (v : O) : St :=
  match o with
  | .self => { s with self := v } | .out => { s with out := v }
  | .other => { s with ext := { s.ext with other := v } }

def natOf : Option V → Option Nat
  | some (.nat n) => some n
  | _ => none
def boolOf : Option V → Option Bool
  | some (.bool b) => some b
  | _ => none

/-- resolve a range value against an array of `len` slots: `get_unchecked(range)` is undefined
    behaviour unless `lo ≤ hi ≤ len` -/
def resolve (len : Nat) : Option V → Option (Nat × Nat)
  | some (.range lo hi) => if lo ≤ hi ∧ hi ≤ len then some (lo, hi) else none
  | some (.rangeTo hi) => if hi ≤ len then some (0, hi) else none
  | some (.rangeFrom lo) => if lo ≤ len then some (lo, len) else none
  | _ => none

def eval (c : Ctx) (env : List V) (st : St) : X → Option V
  | .num n => some (.nat n)
  | .usize => some (.nat c.n)
  | .var i => env[i]?
  | .fld o f => some (.nat ((st.obj o).get f))
  | .add a b =>
    match natOf (eval c env st a), natOf (eval c env st b) with
    | some x, some y => if x + y < word then some (.nat (x + y)) else none
    | _, _ => none
  | .sub a b =>
    match natOf (eval c env st a), natOf (eval c env st b) with
    | some x, some y => if y ≤ x then some (.nat (x - y)) else none
    | _, _ => none
  | .min a b =>
    match natOf (eval c env st a), natOf (eval c env st b) with
    | some x, some y => some (.nat (min x y))
    | _, _ => none
  | .lt a b =>
    match natOf (eval c env st a), natOf (eval c env st b) with
    | some x, some y => some (.bool (decide (x < y)))
    | _, _ => none
  | .le a b =>
    match natOf (eval c env st a), natOf (eval c env st b) with
    | some x, some y => some (.bool (decide (x ≤ y)))
    | _, _ => none
  | .eq a b =>
    match natOf (eval c env st a), natOf (eval c env st b) with
    | some x, some y => some (.bool (decide (x = y)))
    | _, _ => none
  | .ne a b =>
    match natOf (eval c env st a), natOf (eval c env st b) with
    | some x, some y => some (.bool (decide (x ≠ y)))
    | _, _ => none
  | .not a =>
    match boolOf (eval c env st a) with
    | some x => some (.bool (!x))
    | none => none
  | .and a b =>
    match boolOf (eval c env st a) with
    | some false => some (.bool false)        -- `&&` is lazy
    | some true => (boolOf (eval c env st b)).map .bool
    | none => none
  | .or a b =>
    match boolOf (eval c env st a) with
    | some true => some (.bool true)
    | some false => (boolOf (eval c env st b)).map .bool
    | none => none
  | .range lo hi =>
    match natOf (eval c env st lo), natOf (eval c env st hi) with
    | some x, some y => some (.range x y)
    | _, _ => none
  | .rangeTo hi => (natOf (eval c env st hi)).map .rangeTo
  | .rangeFrom lo => (natOf (eval c env st lo)).map .rangeFrom
  | .slot o i =>
    match natOf (eval c env st i) with
    | some x => if x < (st.obj o).slots.length then some (.slot o x) else none
    | none => none
  | .slice o r =>
    match resolve (st.obj o).slots.length (eval c env st r) with
    | some (lo, hi) => some (.slice o lo hi)
    | none => none
  | .whole o => some (.slice o 0 (st.obj o).slots.length)
  | .read r =>
    match eval c env st r with
    | some (.slot o i) => ((st.obj o).slots[i]?).map .elem
    | _ => none
  | .some a => (eval c env st a).map .some
  | .none => some .none
  | .pair a b =>
    match eval c env st a, eval c env st b with
    | some x, some y => some (.pair x y)
    | _, _ => none
  | .unit => some .unit
  | .len s =>
    match eval c env st s with
    | some (.slice _ lo hi) => some (.nat (hi - lo))
    | _ => none
  | .dbg s =>
    match eval c env st s with
    | some (.slice o lo hi) => some (.dbg (((st.obj o).slots.drop lo).take (hi - lo)))
    | _ => none
  | .outObj => if st.hasOut then some .obj else none
  | .hintLo => some (.nat c.hint.1)
  | .hintHi => c.hint.2.map .nat
  | .hintHiAnd g =>
    match c.hint.2 with
    | none => some (.bool false)
    | some _ => (boolOf (eval c env st g)).map .bool
  | .isSome a =>
    match eval c env st a with
    | some (.some _) => some (.bool true)
    | some .none => some (.bool false)
    | _ => none
  | .err => some .err
  | .ok a => (eval c env st a).map .ok
  | .arrOut => if st.hasOut && st.out.uninit.isEmpty then some (.arr st.out.slots) else none
  | .layoutSize => some (.nat (c.n * c.ext.esz))
  | .dangling typed => if typed || decide (c.ext.ealign ≤ 1) then some (.ptr none) else some .wild
  | .isNull p =>
    match eval c env st p with
    | some .null => some (.bool true)
    | some (.ptr _) => some (.bool false)
    | some .wild => some (.bool false)
    | _ => none
  | .guardPtr => st.ext.guard
  | .shintVal e => (if e then c.ext.shintEnd else c.ext.shint0).map .nat
  | .shintAnd e g =>
    match (if e then c.ext.shintEnd else c.ext.shint0) with
    | some _ => (boolOf (eval c env st g)).map .bool
    | none => some (.bool false)
  | .needsDrop o =>
    match o with
    | .self => some (.bool c.ext.ndSelf)
    | .other => some (.bool c.ext.ndOther)
    | .out => none
  | .boxOut p =>
    match eval c env st p with
    | some (.ptr b) => if st.hasOut && st.out.uninit.isEmpty then some (.boxed b st.out.slots) else none
    | _ => none

def idsOf (o : O) (lo hi : Nat) : List Nat := (o.slots.drop lo).take (hi - lo)

/-- `drop_in_place(o.array[lo..hi])`: a destructor run per slot; running one on a slot that was
    never written is undefined behaviour (`dropUninit`) -/
def dropEvs (o : O) (lo hi : Nat) : List Ev :=
  if o.uninit.isEmpty then (idsOf o lo hi).map .drop
  else (List.range' lo (hi - lo)).map fun p => if o.uninit.contains p then Ev.dropUninit else .drop (o.slots.getD p 0)

def panics (ids : List Nat) (bad : Option Nat) : Bool :=
  match bad with
  | some b => ids.contains b
  | none => false

/-- run `body` once per position; stop at the first non-normal outcome -/
def loopOver (body : V → St → List Ev × R × St) : List V → St → List Ev × R × St
  | [], st => ([], .ret .unit, st)
  | p :: ps, st =>
    match body p st with
    | (tr, .ret _, st') =>
      let r := loopOver body ps st'
      (tr ++ r.1, r.2)
    | r => r

/-- `destination.zip(source).for_each(body)`: one destination slot and one `next()` of the caller's
    iterator per round.  `Zip` polls its first operand first: with `destFirst` the source is not
    polled once the destination is exhausted; otherwise it is polled once more and a yielded item is
    dropped by `Zip`. -/
def fillLoop (c : Ctx) (destFirst : Bool) (body : V → V → St → List Ev × R × St) : List V → St → List Ev × R × St
  | [], st =>
    if destFirst then ([], .ret .unit, st)
    else
      match c.src st.polls with
      | .yield x => ([.poll st.polls, .take st.polls x, .drop x], .ret .unit, { st with polls := st.polls + 1 })
      | .done => ([.poll st.polls], .ret .unit, { st with polls := st.polls + 1 })
      | .panic => ([.poll st.polls, .panic st.polls], .panicked, { st with polls := st.polls + 1 })
  | d :: ds, st =>
    match c.src st.polls with
    | .yield x =>
      match body d (.elem x) { st with polls := st.polls + 1 } with
      | (tr, .ret _, st') =>
        let r := fillLoop c destFirst body ds st'
        (.poll st.polls :: .take st.polls x :: tr ++ r.1, r.2)
      | (tr, r, st') => (.poll st.polls :: .take st.polls x :: tr, r, st')
    | .done => ([.poll st.polls], .ret .unit, { st with polls := st.polls + 1 })
    | .panic => ([.poll st.polls, .panic st.polls], .panicked, { st with polls := st.polls + 1 })

/-- serde's `for dst in build_iter { match seq.next_element()? { Some(el) => body, None => break } }`:
    `c.src` answers the `next_element` calls (`panic` stands for `Err(_)`, which `?` returns at once) -/
def seqLoop (c : Ctx) (body : V → V → St → List Ev × R × St) : List V → St → List Ev × R × St
  | [], st => ([], .ret .unit, st)
  | d :: ds, st =>
    match c.src st.polls with
    | .yield x =>
      match body d (.elem x) { st with polls := st.polls + 1 } with
      | (tr, .ret _, st') =>
        let r := seqLoop c body ds st'
        (.poll st.polls :: .take st.polls x :: tr ++ r.1, r.2)
      | (tr, r, st') => (.poll st.polls :: .take st.polls x :: tr, r, st')
    | .done => ([.poll st.polls], .ret .unit, { st with polls := st.polls + 1 })
    | .panic => ([.poll st.polls, .panic st.polls], .ret .err, { st with polls := st.polls + 1 })

/-- `destination.zip(src_iter.map(clo)).for_each(body)`: per round one destination slot (polled
    first), the next slot of the source array (the `slice::Iter` inside the `Map`; `polls` is its
    cursor), the closure on it, then the body on (slot, mapped value) -/
def mapLoop (src : Obj) (clo : V → St → List Ev × R × St) (body : V → V → St → List Ev × R × St) :
    List V → St → List Ev × R × St
  | [], st => ([], .ret .unit, st)
  | d :: ds, st =>
    if st.polls < (st.obj src).slots.length then
      match clo (.slot src st.polls) { st with polls := st.polls + 1 } with
      | (tr, .ret v, st') =>
        match body d v st' with
        | (tr2, .ret _, st'') =>
          let r := mapLoop src clo body ds st''
          (tr ++ tr2 ++ r.1, r.2)
        | (tr2, r, st'') => (tr ++ tr2, r, st'')
      | r => r
    else ([], .ret .unit, st)

/-- `destination.zip(a_iter.zip(b_iter).map(clo)).for_each(body)`: per round one destination slot
    (polled first), then `Zip::next` on the two `slice::Iter`s (random access: one shared cursor
    `polls`, no side effect when either is exhausted), the closure on the two slots, then the body
    on (slot, mapped value) -/
def zipMapLoop (a b : Obj) (clo : V → V → St → List Ev × R × St) (body : V → V → St → List Ev × R × St) :
    List V → St → List Ev × R × St
  | [], st => ([], .ret .unit, st)
  | d :: ds, st =>
    if st.polls < min (st.obj a).slots.length (st.obj b).slots.length then
      match clo (.slot a st.polls) (.slot b st.polls) { st with polls := st.polls + 1 } with
      | (tr, .ret v, st') =>
        match body d v st' with
        | (tr2, .ret _, st'') =>
          let r := zipMapLoop a b clo body ds st''
          (tr ++ tr2 ++ r.1, r.2)
        | (tr2, r, st'') => (tr ++ tr2, r, st'')
      | r => r
    else ([], .ret .unit, st)

def positions (o : Obj) (lo hi : Nat) : List V := (List.range' lo (hi - lo)).map (V.slot o)

def exec (c : Ctx) : S → List V → St → List Ev × R × St
  | .done x, env, st =>
    match eval c env st x with
    | some v => ([], .ret v, st)
    | none => ([], .ub, st)
  | .letv e k, env, st =>
    match eval c env st e with
    | some v => exec c k (env ++ [v]) st
    | none => ([], .ub, st)
  | .set o f e k, env, st =>
    match natOf (eval c env st e) with
    | some v => exec c k env (st.putObj o ((st.obj o).put f v))
    | none => ([], .ub, st)
  | .drop sl k, env, st =>
    match eval c env st sl with
    | some (.slice o lo hi) =>
      let ids := idsOf (st.obj o) lo hi
      if panics ids c.bad then (dropEvs (st.obj o) lo hi, .panicked, st)
      else
        let r := exec c k env st
        (dropEvs (st.obj o) lo hi ++ r.1, r.2)
    | _ => ([], .ub, st)
  | .ite cnd t e, env, st =>
    match boolOf (eval c env st cnd) with
    | some true => exec c t env st
    | some false => exec c e env st
    | none => ([], .ub, st)
  | .forget k, env, st => exec c k env { st with forgot := true }
  | .foldS rev sl body k, env, st =>
    match eval c env st sl with
    | some (.slice o lo hi) =>
      let ps := positions o lo hi
      match loopOver (fun p s => exec c body (env ++ [p]) s) (if rev then ps.reverse else ps) st with
      | (tr, .ret _, st') =>
        let r := exec c k (env ++ [.unit]) st'
        (tr ++ r.1, r.2)
      | r => r
    | _ => ([], .ub, st)
  | .zipS dst src body k, env, st =>
    match eval c env st dst, eval c env st src with
    | some (.slice od dlo dhi), some (.slice os slo shi) =>
      let ps := (List.zip (positions od dlo dhi) (positions os slo shi)).map (fun p => V.pair p.1 p.2)
      match loopOver (fun p s =>
          match p with
          | .pair d q => exec c body (env ++ [d, q]) s
          | _ => ([], .ub, s)) ps st with
      | (tr, .ret _, st') =>
        let r := exec c k env st'
        (tr ++ r.1, r.2)
      | r => r
    | _, _ => ([], .ub, st)
  | .callF arg k, env, st =>
    match eval c env st arg with
    | some (.elem x) =>
      if c.fpan st.calls then ([.give st.calls x, .panic st.calls], .panicked, { st with calls := st.calls + 1 })
      else
        let r := exec c k env { st with calls := st.calls + 1 }
        (.give st.calls x :: r.1, r.2)
    | _ => ([], .ub, st)
  | .cloneOf src k, env, st =>
    match eval c env st (.read src) with
    | some (.elem x) =>
      match c.cl st.calls with
      | some y =>
        let r := exec c k (env ++ [.elem y]) { st with calls := st.calls + 1 }
        (.lend st.calls x :: .take st.calls y :: r.1, r.2)
      | none => ([.lend st.calls x, .panic st.calls], .panicked, { st with calls := st.calls + 1 })
    | _ => ([], .ub, st)
  | .write dst v k, env, st =>
    match eval c env st dst, eval c env st v with
    | some (.slot o i), some (.elem y) =>
      exec c k env (st.putObj o { (st.obj o) with slots := (st.obj o).slots.set i y, uninit := (st.obj o).uninit.erase i })
    | _, _ => ([], .ub, st)
  | .newOut moved idx idxb k, env, st =>
    match natOf (eval c env st idx), natOf (eval c env st idxb) with
    | some i, some b =>
      exec c k env { st with out := ⟨st.self.slots, i, b, 0, []⟩, hasOut := true, forgot := st.forgot || moved }
    | _, _ => ([], .ub, st)
  | .newBuilder k, env, st =>
    exec c k env { st with out := ⟨List.replicate c.n 0, 0, 0, 0, List.range c.n⟩, hasOut := true, outForgot := false }
  | .fillS destFirst body k, env, st =>
    match fillLoop c destFirst (fun d x s => exec c body (env ++ [d, x]) s) (positions .out 0 st.out.slots.length) st with
    | (tr, .ret _, st') =>
      let r := exec c k env st'
      (tr ++ r.1, r.2)
    | r => r
  | .pollS k, env, st =>
    match c.src st.polls with
    | .yield x =>
      -- the temporary `Option<T>` is dropped at the end of the statement; its destructor may panic
      if panics [x] c.bad then
        ([.poll st.polls, .take st.polls x, .drop x], .panicked, { st with polls := st.polls + 1 })
      else
        let r := exec c k (env ++ [.bool true]) { st with polls := st.polls + 1 }
        (.poll st.polls :: .take st.polls x :: .drop x :: r.1, r.2)
    | .done =>
      let r := exec c k (env ++ [.bool false]) { st with polls := st.polls + 1 }
      (.poll st.polls :: r.1, r.2)
    | .panic => ([.poll st.polls, .panic st.polls], .panicked, { st with polls := st.polls + 1 })
  | .forgetO o k, env, st =>
    match o with
    | .self => exec c k env { st with forgot := true }
    | .out => exec c k env { st with outForgot := true }
    | .other => exec c k env { st with ext := { st.ext with otherForgot := true } }
  | .lenFail, _, st => ([.lenFail], .panicked, st)
  | .forSlots body k, env, st =>
    match loopOver (fun p s =>
        match p with
        | .pair i d => exec c body (env ++ [i, d]) s
        | _ => ([], .ub, s)) ((List.range st.out.slots.length).map fun p => V.pair (.nat p) (.slot .out p)) st with
    | (tr, .ret _, st') =>
      let r := exec c k env st'
      (tr ++ r.1, r.2)
    | r => r
  | .callG arg k, env, st =>
    match natOf (eval c env st arg) with
    | some a =>
      match c.cl a with
      | some y =>
        let r := exec c k (env ++ [.elem y]) { st with calls := st.calls + 1 }
        (.take a y :: r.1, r.2)
      | none => ([.panic a], .panicked, { st with calls := st.calls + 1 })
    | none => ([], .ub, st)
  | .callM arg k, env, st =>
    match eval c env st arg with
    | some (.elem x) =>
      match c.cl st.calls with
      | some y =>
        let r := exec c k (env ++ [.elem y]) { st with calls := st.calls + 1 }
        (.give st.calls x :: .take st.calls y :: r.1, r.2)
      | none => ([.give st.calls x, .panic st.calls], .panicked, { st with calls := st.calls + 1 })
    | _ => ([], .ub, st)
  | .fillMapS l0 src clo body k, env, st =>
    match mapLoop src (fun q s => exec c clo (env.take l0 ++ [q]) s) (fun d v s => exec c body (env ++ [d, v]) s)
        (positions .out 0 st.out.slots.length) st with
    | (tr, .ret _, st') =>
      let r := exec c k env st'
      (tr ++ r.1, r.2)
    | r => r
  | .pollMapS l0 src clo k, env, st =>
    if st.polls < (st.obj src).slots.length then
      match exec c clo (env.take l0 ++ [.slot src st.polls]) { st with polls := st.polls + 1 } with
      | (tr, .ret (.elem y), st') =>
        let r := exec c k (env ++ [.bool true]) st'
        (tr ++ .drop y :: r.1, r.2)
      | (tr, .ret _, st') => (tr, .ub, st')
      | r => r
    else exec c k (env ++ [.bool false]) st
  | .seqFill body k, env, st =>
    match seqLoop c (fun d v s => exec c body (env ++ [d, v]) s) (positions .out 0 st.out.slots.length) st with
    | (tr, .ret .err, st') => (tr, .ret .err, st')
    | (tr, .ret _, st') =>
      let r := exec c k env st'
      (tr ++ r.1, r.2)
    | r => r
  | .probeS k, env, st =>
    match c.src st.polls with
    | .yield _ =>
      let r := exec c k (env ++ [.bool true]) { st with polls := st.polls + 1 }
      (.poll st.polls :: r.1, r.2)
    | .done =>
      let r := exec c k (env ++ [.bool false]) { st with polls := st.polls + 1 }
      (.poll st.polls :: r.1, r.2)
    | .panic => ([.poll st.polls, .panic st.polls], .ret .err, { st with polls := st.polls + 1 })
  | .callM2 a b k, env, st =>
    match eval c env st a, eval c env st b with
    | some (.elem x), some (.elem y) =>
      match c.cl st.calls with
      | some z =>
        let r := exec c k (env ++ [.elem z]) { st with calls := st.calls + 1 }
        (.give st.calls x :: .give st.calls y :: .take st.calls z :: r.1, r.2)
      | none => ([.give st.calls x, .give st.calls y, .panic st.calls], .panicked, { st with calls := st.calls + 1 })
    | _, _ => ([], .ub, st)
  | .fillZipMapS l0 a b clo body k, env, st =>
    match zipMapLoop a b (fun p q s => exec c clo (env.take l0 ++ [p, q]) s) (fun d v s => exec c body (env ++ [d, v]) s)
        (positions .out 0 st.out.slots.length) st with
    | (tr, .ret _, st') =>
      let r := exec c k env st'
      (tr ++ r.1, r.2)
    | r => r
  | .pollZipMapS l0 a b clo k, env, st =>
    if st.polls < min (st.obj a).slots.length (st.obj b).slots.length then
      match exec c clo (env.take l0 ++ [.slot a st.polls, .slot b st.polls]) { st with polls := st.polls + 1 } with
      | (tr, .ret (.elem y), st') =>
        let r := exec c k (env ++ [.bool true]) st'
        (tr ++ .drop y :: r.1, r.2)
      | (tr, .ret _, st') => (tr, .ub, st')
      | r => r
    else exec c k (env ++ [.bool false]) st
  | .allocS k, env, st =>
    if c.ext.allocOk then
      exec c k (env ++ [.ptr (some 1)])
        { st with ext := { st.ext with atrace := st.ext.atrace ++ [.alloc 1 (c.n * c.ext.esz) c.ext.ealign] } }
    else
      exec c k (env ++ [.null])
        { st with ext := { st.ext with atrace := st.ext.atrace ++ [.allocFail (c.n * c.ext.esz) c.ext.ealign] } }
  | .abortAlloc, _, st =>
    ([], .panicked, { st with ext := { st.ext with atrace := st.ext.atrace ++ [.handleAllocError], aborted := true } })
  | .guardNew p k, env, st =>
    match eval c env st p with
    | some v => exec c k env { st with ext := { st.ext with guard := some v } }
    | none => ([], .ub, st)
  | .guardForget k, env, st => exec c k env { st with ext := { st.ext with guard := none } }
  | .builderAt p k, env, st =>
    match eval c env st p with
    | some (.ptr _) =>
      exec c k env { st with out := ⟨List.replicate c.n 0, 0, 0, 0, List.range c.n⟩, hasOut := true, outForgot := false }
    | some .null => ([], .ub, { st with ext := { st.ext with atrace := st.ext.atrace ++ [.nullDeref] } })
    | _ => ([], .ub, st)
  | .deallocS p k, env, st =>
    match eval c env st p with
    | some (.ptr b) =>
      exec c k env { st with ext := { st.ext with atrace := st.ext.atrace ++ [.dealloc (b.getD 0) (c.n * c.ext.esz) c.ext.ealign] } }
    | _ => ([], .ub, st)
  | .endOut k, env, st =>
    if st.hasOut && !st.outForgot then
      -- slice drop glue: every element's destructor runs even if one of them panics; the panic then propagates
      if panics (idsOf st.out 0 st.out.position) c.bad then
        (dropEvs st.out 0 st.out.position, .panicked, { st with outForgot := true })
      else
        let r := exec c k env { st with outForgot := true }
        (dropEvs st.out 0 st.out.position ++ r.1, r.2)
    else exec c k env st
  | .opaque _, _, st => ([], .ub, st)

/-- receiver of a method -/
inductive Recv where
  | ref | refMut | owned
deriving Repr, DecidableEq

structure Fn where
  recv : Recv
  body : S
deriving Repr

/-- run the destructor body `dropBody` (written against `self`) on object `o` -/
def runDropOn (c : Ctx) (dropBody : S) (o : Obj) (st : St) : List Ev × R :=
  let st' : St := match o with
    | .self => st
    | .out => { st with self := st.out }
    | .other => { st with self := st.ext.other }
  let r := exec c dropBody [] st'
  (r.1, r.2.1)

/-- Call a translated function: run the body, then what Rust does at scope end / while unwinding:
    * a local struct value (`out`) that is not the function's result is dropped;
    * an owned `self` that was neither forgotten nor moved is dropped.
    A destructor panic during that drop makes the call panic (a return value in flight is abandoned). -/
def runFn (c : Ctx) (dropBody : S) (f : Fn) (args : List V) (st : St) : List Ev × R × St :=
  let r := exec c f.body args st
  let st' := r.2.2
  match r.2.1 with
  | .ub => r
  | res =>
    let returnsOut := res == .ret .obj
    let d1 : List Ev × R :=
      if st'.hasOut && !returnsOut && !st'.outForgot then runDropOn c dropBody .out st' else ([], .ret .unit)
    let d2 : List Ev × R :=
      if f.recv == .owned && !st'.forgot then runDropOn c dropBody .self st' else ([], .ret .unit)
    let res' :=
      match d1.2, d2.2 with
      | .ub, _ => R.ub
      | _, .ub => R.ub
      | .panicked, _ => R.panicked
      | _, .panicked => R.panicked
      | _, _ => res
    (r.1 ++ d1.1 ++ d2.1, res', st')

/-- the per-element function of a `foldS` loop, as a named constant (lets proofs talk about the loop
    without unfolding the body) -/
def loopBody (c : Ctx) (body : S) (env : List V) : V → St → List Ev × R × St :=
  fun p s => exec c body (env ++ [p]) s

/-- the per-pair function of a `zipS` loop -/
def zipBody (c : Ctx) (body : S) (env : List V) : V → St → List Ev × R × St :=
  fun p s =>
    match p with
    | .pair d q => exec c body (env ++ [d, q]) s
    | _ => ([], .ub, s)

def zipPositions (od : Obj) (dlo dhi : Nat) (os : Obj) (slo shi : Nat) : List V :=
  (List.zip (positions od dlo dhi) (positions os slo shi)).map (fun p => V.pair p.1 p.2)

/-- the loop body of the first `foldS` / `zipS` of a function body -/
def loopBodyOf : S → S
  | .letv _ k => loopBodyOf k
  | .set _ _ _ k => loopBodyOf k
  | .newOut _ _ _ k => loopBodyOf k
  | .foldS _ _ b _ => b
  | .zipS _ _ b _ => b
  | .ite _ _ e => loopBodyOf e
  | .newBuilder k => loopBodyOf k
  | .fillS _ b _ => b
  | .forSlots b _ => b
  | .fillMapS _ _ _ b _ => b
  | _ => .opaque 0

/-- the per-round function of a `fillS` loop, as a named constant -/
def fillBody (c : Ctx) (body : S) (env : List V) : V → V → St → List Ev × R × St :=
  fun d x s => exec c body (env ++ [d, x]) s

/-- like `runFn`, with separate destructors for `self` (e.g. an `ArrayConsumer`) and for the local
    struct value `out` (e.g. the builder); unwinding drops the inner frame's builder first -/
def runFn2 (c : Ctx) (dropSelf dropOut : S) (f : Fn) (args : List V) (st : St) : List Ev × R × St :=
  let r := exec c f.body args st
  let st' := r.2.2
  match r.2.1 with
  | .ub => r
  | res =>
    let returnsOut := res == .ret .obj
    let d1 : List Ev × R :=
      if st'.hasOut && !returnsOut && !st'.outForgot then runDropOn c dropOut .out st' else ([], .ret .unit)
    let d2 : List Ev × R :=
      if f.recv == .owned && !st'.forgot then runDropOn c dropSelf .self st' else ([], .ret .unit)
    let res' :=
      match d1.2, d2.2 with
      | .ub, _ => R.ub
      | _, .ub => R.ub
      | .panicked, _ => R.panicked
      | _, .panicked => R.panicked
      | _, _ => res
    (r.1 ++ d1.1 ++ d2.1, res', st')

/-- two owned arrays held by `ArrayConsumer`s (`left` over `other`, declared first; `right` over
    `self`) and a builder in an inner frame: at scope end and while unwinding the builder goes first,
    then `right`, then `left`.  A `ManuallyDrop` wrapper (`forgot` / `otherForgot`) drops nothing. -/
def runFn3 (c : Ctx) (dropCons dropOut : S) (f : Fn) (args : List V) (st : St) : List Ev × R × St :=
  let r := exec c f.body args st
  let st' := r.2.2
  match r.2.1 with
  | .ub => r
  | res =>
    let d1 : List Ev × R :=
      if st'.hasOut && !st'.outForgot then runDropOn c dropOut .out st' else ([], .ret .unit)
    let d2 : List Ev × R :=
      if !st'.forgot then runDropOn c dropCons .self st' else ([], .ret .unit)
    let d3 : List Ev × R :=
      if !st'.ext.otherForgot then runDropOn c dropCons .other st' else ([], .ret .unit)
    let res' :=
      match d1.2, d2.2, d3.2 with
      | .ub, _, _ => R.ub
      | _, .ub, _ => R.ub
      | _, _, .ub => R.ub
      | .panicked, _, _ => R.panicked
      | _, .panicked, _ => R.panicked
      | _, _, .panicked => R.panicked
      | _, _, _ => res
    (r.1 ++ d1.1 ++ d2.1 ++ d3.1, res', st')

/-- a function with a `DeallocOnDrop` guard and a builder as locals (boxed `generate`): at scope end
    and while unwinding the builder (declared last) is dropped first, then the guard -/
def runFnB (c : Ctx) (dropOut dropGuard : S) (f : Fn) (args : List V) (st : St) : List Ev × R × St :=
  let r := exec c f.body args st
  let st' := r.2.2
  match r.2.1 with
  | .ub => r
  | res =>
    if st'.ext.aborted then r else
    let d1 : List Ev × R :=
      if st'.hasOut && !st'.outForgot then runDropOn c dropOut .out st' else ([], .ret .unit)
    let g := if st'.ext.guard.isSome then exec c dropGuard [] st' else ([], .ret .unit, st')
    let res' :=
      match d1.2, g.2.1 with
      | .ub, _ => R.ub
      | _, .ub => R.ub
      | .panicked, _ => R.panicked
      | _, .panicked => R.panicked
      | _, _ => res
    (r.1 ++ d1.1 ++ g.1, res', g.2.2)

end GA.Body
