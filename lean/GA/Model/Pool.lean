import GA.Model.Seq
import GA.Model.IterOwn
import GA.Model.Ops
/-!
Pool machine (C03): any finite history of ownership-moving operations, chained — outputs of one
operation are inputs of the next.  The pool holds live arrays, live by-value iterators and the
elements currently owned by the caller (`held`); `dropped` is the log of destructor runs; `next`
is the fresh-id counter.  Every operation is the model used elsewhere (`GA.Seq`, `GA.Iter`,
`GA.IterOwn`, `GA.Ops`), so the pool inherits the regenerated fragments.  Operations act on the
front array / iterator / held element; `rotA/rotI/rotH` bring another one to the front.
An operation whose typing precondition fails is skipped (the Rust program would not compile).
-/
namespace GA.Pool
open GA.Own GA.Iter GA.IterOwn GA.Ops

structure Pool where
  arrays : List (List Id)
  iters : List Iter
  held : List Id
  dropped : List Id
  next : Nat
deriving Repr, DecidableEq

def Pool.empty : Pool := ⟨[], [], [], [], 0⟩

inductive Op where
  | gen (n : Nat)                 -- `GenericArray::generate` with a fresh element per index
  | rotA | rotI | rotH            -- bring the next array / iterator / held element to the front
  | intoIter                      -- front array -> by-value iterator
  | next | nextBack | nth (n : Nat) | nthBack (n : Nat)
  | iterClone | iterDrop | iterCount | iterLast | iterFold | iterRfold
  | map | zip | fold | clone      -- closures take ownership of what they are given and return fresh elements
  | append | prepend | popBack | popFront | split (k : Nat) | concat | remove (i : Nat) | swapRemove (i : Nat)
  | flatten2 | unflatten (n : Nat)  -- regroup: ownership-wise a concat / an even split into rows
  | collect (n : Nat)             -- `try_from_iter` of length `n` from an iterator draining the held elements
  | roundtrip                     -- to/from native array, tuple, Vec, Box: the same elements in the same order
  | dropArr | dropHeld
deriving Repr, DecidableEq

def fresh (p : Pool) (n : Nat) : List Id := (List.range n).map (· + p.next)

def rot {α : Type} : List α → List α
  | [] => []
  | x :: t => t ++ [x]

/-- events of a panic-free operation, folded into the pool: `give`n elements go to `held`,
    `drop`ped ones to `dropped` -/
def absorb (p : Pool) (evs : List Ev) : Pool :=
  { p with held := p.held ++ gives evs, dropped := p.dropped ++ drops evs }

def step (p : Pool) : Op → Pool
  | .gen n =>
    match generate (fun i => some (p.next + i)) n with
    | (_, .ok arr) => { p with arrays := arr :: p.arrays, next := p.next + n }
    | _ => p
  | .rotA => { p with arrays := rot p.arrays }
  | .rotI => { p with iters := rot p.iters }
  | .rotH => { p with held := rot p.held }
  | .intoIter =>
    match p.arrays with
    | a :: rest => { p with arrays := rest, iters := Iter.ofList a :: p.iters }
    | [] => p
  | .next =>
    match p.iters with
    | it :: rest =>
      let r := afterNext [] (Iter.next it)
      absorb { p with iters := r.2.2 :: rest } r.1
    | [] => p
  | .nextBack =>
    match p.iters with
    | it :: rest =>
      let r := afterNext [] (Iter.nextBack it)
      absorb { p with iters := r.2.2 :: rest } r.1
    | [] => p
  | .nth n =>
    match p.iters with
    | it :: rest =>
      let r := nthD it n none
      absorb { p with iters := r.2.2 :: rest } r.1
    | [] => p
  | .nthBack n =>
    match p.iters with
    | it :: rest =>
      let r := nthBackD it n none
      absorb { p with iters := r.2.2 :: rest } r.1
    | [] => p
  | .iterClone =>
    match p.iters with
    | it :: rest =>
      match cloneD it (fun k => some (p.next + k)) with
      | (_, .ok made) => { p with iters := Iter.ofList made :: it :: rest, next := p.next + made.length }
      | _ => p
    | [] => p
  | .iterDrop =>
    match p.iters with
    | it :: rest => absorb { p with iters := rest } (dropIter it)
    | [] => p
  | .iterCount =>
    match p.iters with
    | it :: rest => absorb { p with iters := rest } (countD it none).1
    | [] => p
  | .iterLast =>
    match p.iters with
    | it :: rest => absorb { p with iters := rest } (lastD it none).1
    | [] => p
  | .iterFold =>
    match p.iters with
    | it :: rest => absorb { p with iters := rest } (foldD it (fun _ => true)).1
    | [] => p
  | .iterRfold =>
    match p.iters with
    | it :: rest => absorb { p with iters := rest } (rfoldD it (fun _ => true)).1
    | [] => p
  | .map =>
    match p.arrays with
    | a :: rest =>
      match mapOp .owned (fun i => some (p.next + i)) a with
      | (evs, .ok arr) => absorb { p with arrays := arr :: rest, next := p.next + a.length } evs
      | _ => p
    | [] => p
  | .zip =>
    match p.arrays with
    | a :: b :: rest =>
      if a.length = b.length then
        match zipOp .owned .owned true true (fun i => some (p.next + i)) a b with
        | (evs, .ok arr) => absorb { p with arrays := arr :: rest, next := p.next + a.length } evs
        | _ => p
      else p
    | _ => p
  | .fold =>
    match p.arrays with
    | a :: rest => absorb { p with arrays := rest } (foldOp .owned (fun _ => true) a).1
    | [] => p
  | .clone =>
    match p.arrays with
    | a :: rest =>
      match cloneOp (fun i => some (p.next + i)) a with
      | (_, .ok arr) => { p with arrays := arr :: a :: rest, next := p.next + a.length }
      | _ => p
    | [] => p
  | .append =>
    match p.arrays, p.held with
    | a :: rest, x :: h =>
      match Seq.append a x with
      | some r => { p with arrays := r :: rest, held := h }
      | none => p
    | _, _ => p
  | .prepend =>
    match p.arrays, p.held with
    | a :: rest, x :: h =>
      match Seq.prepend a x with
      | some r => { p with arrays := r :: rest, held := h }
      | none => p
    | _, _ => p
  | .popBack =>
    match p.arrays with
    | a :: rest =>
      if a.length = 0 then p else
      match Seq.popBack a with
      | some (r, x) => { p with arrays := r :: rest, held := p.held ++ [x] }
      | none => p
    | [] => p
  | .popFront =>
    match p.arrays with
    | a :: rest =>
      if a.length = 0 then p else
      match Seq.popFront a with
      | some (x, r) => { p with arrays := r :: rest, held := p.held ++ [x] }
      | none => p
    | [] => p
  | .split k =>
    match p.arrays with
    | a :: rest =>
      if k ≤ a.length then
        match Seq.split a k with
        | some (h, t) => { p with arrays := h :: t :: rest }
        | none => p
      else p
    | [] => p
  | .concat =>
    match p.arrays with
    | a :: b :: rest =>
      match Seq.concat a b with
      | some r => { p with arrays := r :: rest }
      | none => p
    | _ => p
  | .remove i =>
    match p.arrays with
    | a :: rest =>
      match Seq.remove a i with
      | .ok x r => { p with arrays := r :: rest, held := p.held ++ [x] }
      | .panic => { p with arrays := rest, dropped := p.dropped ++ a }   -- the array is dropped whole while unwinding
      | .ub => p
    | [] => p
  | .swapRemove i =>
    match p.arrays with
    | a :: rest =>
      match Seq.swapRemove a i with
      | .ok x r => { p with arrays := r :: rest, held := p.held ++ [x] }
      | .panic => { p with arrays := rest, dropped := p.dropped ++ a }
      | .ub => p
    | [] => p
  | .flatten2 =>
    match p.arrays with
    | a :: b :: rest => if a.length = b.length then { p with arrays := (a ++ b) :: rest } else p
    | _ => p
  | .unflatten n =>
    match p.arrays with
    | a :: rest =>
      if 0 < n ∧ a.length = 2 * n then { p with arrays := a.take n :: a.drop n :: rest } else p
    | [] => p
  | .collect n =>
    -- the source's size hint does not reveal its length (`(0, Some(len))`), so too-long inputs
    -- reach the surplus probe
    match tryFromIter libFrags iterSrc n (0, some p.held.length) (Consumer.ofList p.held) with
    | (evs, .ok arr) => { p with arrays := arr :: p.arrays, held := [], dropped := p.dropped ++ drops evs }
    | (evs, _) => { p with held := [], dropped := p.dropped ++ drops evs }
  | .roundtrip => p
  | .dropArr =>
    match p.arrays with
    | a :: rest => { p with arrays := rest, dropped := p.dropped ++ a }
    | [] => p
  | .dropHeld =>
    match p.held with
    | x :: h => { p with held := h, dropped := p.dropped ++ [x] }
    | [] => p

def run (p : Pool) : List Op → Pool
  | [] => p
  | op :: ops => run (step p op) ops

/-- everything goes out of scope: all arrays, all iterators and all caller-held elements are dropped -/
def dropAll (p : Pool) : Pool :=
  { arrays := [], iters := [], held := [],
    dropped := p.dropped ++ p.arrays.flatten ++ (p.iters.map asSlice).flatten ++ p.held, next := p.next }

/-- where every element currently is -/
def Pool.owned (p : Pool) : List Id := p.arrays.flatten ++ (p.iters.map abs).flatten ++ p.held ++ p.dropped

end GA.Pool
