import GA.Model.Own
import GA.Gen.Serde
/-!
Model of src/impl_serde.rs (C17).  A deserializer is a script: the up-front `size_hint`, the answers
of the successive `next_element` calls (an element, a parse error, or "nothing left"), and the
`size_hint` it reports when the array is full.  Reading an element creates it (`take`); the
builder's destructor drops what was read when the function is left early.
-/
namespace GA.Serde
open GA.Own GA.Gen

inductive Step where
  | elem (x : Id)     -- `Ok(Some(el))`
  | fail              -- `Err(_)`: the element (or the format) fails to parse
  | none              -- `Ok(None)`
deriving Repr, DecidableEq

structure Script where
  hint0 : Option Nat          -- `seq.size_hint()` before reading
  steps : List Step           -- answers of the `next_element` calls still to come
  hintEnd : Option Nat        -- `seq.size_hint()` once `N` elements have been read
  k : Nat                     -- calls made
deriving Repr, DecidableEq

/-- the fill loop's view of the `SeqAccess`: an element error behaves like an early exit -/
def src : Src Script where
  step s := match s.steps with
    | .elem x :: t => .yield [.poll s.k, .take s.k x] x { s with steps := t, k := s.k + 1 }
    | .fail :: t => .panic [.poll s.k, .panic s.k] { s with steps := t, k := s.k + 1 }
    | _ => .done [.poll s.k] { s with steps := s.steps.tail, k := s.k + 1 }
  dropEv _ := []
  owns := true

inductive VRes where
  | ok (arr : List Id)
  | err
deriving Repr, DecidableEq
def VRes.ids : VRes → List Id
  | .ok a => a
  | .err => []

/-- does the up-front hint make `visit_seq` reject before reading? -/
def hintRejects (h : Option Nat) (n : Nat) : Bool :=
  match h with
  | some k => Serde.hintReject k n
  | none => false

/-- after the loop stopped early (`None` from the source) with `out` read so far -/
def tailShort (n : Nat) (tr : List Ev) (out : List Id) : List Ev × VRes :=
  if Serde.isFull out.length n then (tr ++ [.dropUninit], .ok out) else (tr ++ out.map .drop, .err)

/-- does `visit_seq` ask for one more element once the array is full? -/
def probes (hintEnd : Option Nat) : Bool :=
  Serde.probesForSurplus && !(Serde.probeSkippedWhenHintZero && decide (hintEnd = some 0))

/-- answer of the surplus probe (`next_element::<Dummy>()`: a surplus element is skipped, not built) -/
def probeRejects : List Step → Bool
  | .elem _ :: _ => true
  | .fail :: _ => true
  | _ => false

/-- events of the surplus probe: one more `next_element` call, which may itself fail -/
def probeEv (steps : List Step) (k : Nat) : List Ev :=
  match steps with
  | .fail :: _ => [.poll k, .panic k]
  | _ => [.poll k]

/-- after all `N` destination slots were written -/
def tailFull (n : Nat) (tr : List Ev) (out : List Id) (s' : Script) : List Ev × VRes :=
  if !Serde.isFull out.length n then (tr ++ out.map .drop, .err)
  else if !probes s'.hintEnd then (tr, .ok out)
  else if probeRejects s'.steps then
    (tr ++ probeEv s'.steps s'.k ++ (if Serde.finishAfterProbe then out.map .drop else []), .err)
  else (tr ++ probeEv s'.steps s'.k, .ok out)

/-- `GAVisitor::visit_seq` -/
def visitSeq (n : Nat) (s : Script) : List Ev × VRes :=
  if hintRejects s.hint0 n then ([], .err) else
  match fillLoop Serde.writeBeforeCount true src n s [] with
  | (tr, .panicked) => (tr, .err)                 -- `?`: the builder dropped what was read
  | (tr, .short out _) => tailShort n tr out
  | (tr, .full out s') => tailFull n tr out s'

/-- `Serialize`: `serialize_tuple(N)`, the elements in order, `end` -/
inductive Tok where
  | tupleStart (len : Nat) | elem (x : Id) | tupleEnd
deriving Repr, DecidableEq

def serialize (a : List Id) : List Tok :=
  [.tupleStart (Serde.serTupleLen a.length)] ++ (if Serde.serElementsInOrder then a.map .elem else []) ++ [.tupleEnd]

/-- a faithful format replays the tokens: it offers exactly the serialised elements and then nothing;
    it may or may not give size hints (self-describing formats know the count, others are told it) -/
def elemsOf : List Tok → List Id
  | [] => []
  | .elem x :: t => x :: elemsOf t
  | _ :: t => elemsOf t

def replay (toks : List Tok) (hinted : Bool) : Script :=
  ⟨if hinted then some (elemsOf toks).length else none, (elemsOf toks).map .elem,
   if hinted then some 0 else none, 0⟩

end GA.Serde
