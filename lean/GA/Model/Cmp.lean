import GA.Gen.Impls
import GA.Gen.Mem
/-!
# Comparison, hashing and Debug of arrays (C13)

The slice-level operations are the model of `core`'s `[T]` impls (lexicographic comparison with
incomparable elements, length-prefixed hashing, `debug_list` with the caller's formatter handed to
every entry).  The array-level operations are the *regenerated* bodies of `src/impls.rs`
(`GA.Gen.Impls`), abstracted over those slice operations and over whether the two operands are
the same object (`same`, what `core::ptr::eq(self, other)` would answer).
-/
namespace GA.Cmp

/-- what a `Hasher` receives: `write_length_prefix`/`write_usize` calls and raw bytes (call
    boundaries of `write` are not observable in the canonical form) -/
inductive HTok
  | len (n : Nat)
  | byte (b : Nat)
  deriving DecidableEq, Repr

/-- the part of a `Formatter`'s options that `debug_list` itself looks at (`alt`), and whether the
    options are the ones a fresh `{:?}` placeholder carries (`dflt`); width, precision, sign, radix …
    only matter to the elements, which see the very same formatter -/
structure Flags where
  alt : Bool
  dflt : Bool
  deriving DecidableEq, Repr

def Flags.default : Flags := ⟨false, true⟩

/-- operations of an element type; the `Bool` says whether the two references are pointer-equal -/
structure ElemOps (α : Type) where
  eq : Bool → α → α → Bool
  pcmp : Bool → α → α → Option Ordering
  cmp : Bool → α → α → Ordering
  hash : α → List HTok
  dbg : Flags → α → String

variable {α : Type}

/-- `<[T] as PartialEq>::eq` -/
def sliceEq (E : ElemOps α) (same : Bool) : List α → List α → Bool
  | [], [] => true
  | x :: a, y :: b => E.eq same x y && sliceEq E same a b
  | _, _ => false

/-- `<[T] as PartialOrd>::partial_cmp`: lexicographic; the first non-equal element comparison —
    including "incomparable" — decides -/
def slicePcmp (E : ElemOps α) (same : Bool) : List α → List α → Option Ordering
  | [], [] => some .eq
  | [], _ :: _ => some .lt
  | _ :: _, [] => some .gt
  | x :: a, y :: b =>
    match E.pcmp same x y with
    | some .eq => slicePcmp E same a b
    | r => r

/-- `<[T] as Ord>::cmp` -/
def sliceCmp (E : ElemOps α) (same : Bool) : List α → List α → Ordering
  | [], [] => .eq
  | [], _ :: _ => .lt
  | _ :: _, [] => .gt
  | x :: a, y :: b =>
    match E.cmp same x y with
    | .eq => sliceCmp E same a b
    | r => r

/-- `Hash::hash_slice`: the elements only -/
def sliceHashSlice (E : ElemOps α) (a : List α) : List HTok := a.flatMap E.hash
/-- `<[T] as Hash>::hash`: length prefix, then the elements -/
def sliceHash (E : ElemOps α) (a : List α) : List HTok := .len a.length :: sliceHashSlice E a

/-- `PadAdapter`: every line of an entry is indented by four spaces -/
def indent (s : String) : String :=
  "\n".intercalate ((s.splitOn "\n").map fun l => if l.isEmpty then l else "    " ++ l)

/-- `<[T] as Debug>::fmt` = `f.debug_list().entries(self).finish()` -/
def sliceDbg (E : ElemOps α) (fl : Flags) (a : List α) : String :=
  if a.isEmpty then "[]"
  else if fl.alt then "[\n" ++ String.join (a.map fun x => indent (E.dbg fl x) ++ ",\n") ++ "]"
  else "[" ++ ", ".intercalate (a.map (E.dbg fl)) ++ "]"

/-- the array impls of `src/impls.rs`, as regenerated, over the array's whole slice -/
def arrayOps (E : ElemOps α) : ElemOps (List α) where
  eq same a b := Gen.Impls.eqBody (sliceEq E same) same a b
  pcmp same a b := Gen.Impls.partialCmpBody (slicePcmp E same) same a b
  cmp same a b := Gen.Impls.cmpBody (sliceCmp E same) same a b
  hash a := Gen.Impls.hashBody (sliceHash E) (sliceHashSlice E) a
  dbg fl a := Gen.Impls.debugBody (sliceDbg E) Flags.default fl a

/-- what `Borrow<[T]>::borrow` returns: the whole slice iff its body is `self.as_slice()` -/
def borrowView (a : List α) : Option (List α) := if Gen.Mem.borrowIsAsSlice then some a else none

/-- `HashMap<GenericArray<T, N>, V>::get(q: &[T])`: the entry whose stored hash (array `Hash`)
    equals the query's hash (slice `Hash`) and whose borrowed form equals the query -/
def hashMapGet (E : ElemOps α) (keys : List (List α)) (q : List α) : Option Nat :=
  keys.findIdx? fun k =>
    decide ((arrayOps E).hash k = sliceHash E q) &&
      (match borrowView k with | some s => sliceEq E false s q | none => false)

/-- `BTreeMap::get(q: &[T])` over keys kept in array order: the entry the slice order calls equal -/
def btreeGet (E : ElemOps α) (keys : List (List α)) (q : List α) : Option Nat :=
  keys.findIdx? fun k => match borrowView k with | some s => sliceCmp E false s q == .eq | none => false

/-! ## concrete element types of the correspondence engine -/

inductive Leaf
  | u8 (v : Nat)
  | i32 (v : Int)
  | f64 (q : Option Int)        -- value in quarter units; `none` = NaN
  | str (bs : List Nat)
  deriving DecidableEq, Repr

structure LeafV where
  key : Leaf
  dbg : String      -- the element's own Debug output under the scenario's flags
  dbg0 : String     -- … and under default flags
  deriving Repr

def cmpInt (x y : Int) : Ordering := if x < y then .lt else if x = y then .eq else .gt
def cmpBytes : List Nat → List Nat → Ordering
  | [], [] => .eq
  | [], _ :: _ => .lt
  | _ :: _, [] => .gt
  | x :: a, y :: b => if x < y then .lt else if x = y then cmpBytes a b else .gt

def leafPcmp : Leaf → Leaf → Option Ordering
  | .u8 x, .u8 y => some (cmpInt x y)
  | .i32 x, .i32 y => some (cmpInt x y)
  | .f64 (some x), .f64 (some y) => some (cmpInt x y)
  | .f64 _, .f64 _ => none
  | .str x, .str y => some (cmpBytes x y)
  | _, _ => none

def le32 (v : Int) : List Nat :=
  let u := (v % 4294967296).toNat
  [u % 256, u / 256 % 256, u / 65536 % 256, u / 16777216 % 256]

def leafHash : Leaf → List HTok
  | .u8 v => [.byte v]
  | .i32 v => (le32 v).map .byte
  | .f64 _ => []
  | .str bs => bs.map .byte ++ [.byte 255]

def leafOps : ElemOps LeafV where
  eq _ x y := leafPcmp x.key y.key == some .eq
  pcmp _ x y := leafPcmp x.key y.key
  cmp _ x y := (leafPcmp x.key y.key).getD .eq
  hash x := leafHash x.key
  dbg fl x := if fl.dflt then x.dbg0 else x.dbg

end GA.Cmp
