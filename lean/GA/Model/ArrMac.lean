import GA.Gen.Arr
import GA.Gen.Alloc
/-!
# `arr!` / `box_arr!` (C20)

The macro arms are regenerated from `src/arr.rs` (matcher shape, recognised transcriber shape).
An invocation selects the first arm whose matcher accepts it, as `macro_rules!` does; the selected
transcriber is then evaluated under the language's rules for array literals, repeat expressions and
`vec!` (modelled): a list literal evaluates its operands once each, left to right; a repeat
expression evaluates its operand once and copies it.
-/
namespace GA.Arr
open GA.Gen

/-- an element expression: evaluating it appends `eff` to the log and yields `val` -/
structure Expr where
  val : Nat
  eff : List Nat
  deriving Repr, DecidableEq

inductive Inv where
  | list (es : List Expr) (trail : Nat)     -- `m![e0, …, ek ,,]` with `trail` trailing commas
  | repTy (x : Expr) (n : Nat)              -- `m![x; UN]`
  | repConst (x : Expr) (n : Nat)           -- `m![x; n]`
  deriving Repr, DecidableEq

structure Out where
  len : Nat              -- the type-level length of the result
  vals : List Nat
  log : List Nat
  const : Bool           -- usable in a const context
  deriving Repr, DecidableEq

def trailOk : Trail → Nat → Bool
  | .star, _ => true
  | .opt, c => c ≤ 1
  | .none, c => c = 0

/-- does the matcher accept the invocation?  A type such as `U6` also parses as an expression, so
    `repExpr` accepts both repeat forms; arm order decides. -/
def accepts : Matcher → Inv → Bool
  | .list tr, .list _ c => trailOk tr c
  | .repTy, .repTy _ _ => true
  | .repExpr, .repTy _ _ => true
  | .repExpr, .repConst _ _ => true
  | _, _ => false

def select (arms : List Arm) (inv : Inv) : Option Tmpl :=
  (arms.find? fun a => accepts a.m inv).map (·.t)

/-- `try_from_vec(v)` for a vector of `len` elements into length `n`, then `.unwrap()` -/
def tryFromVecOk (len n : Nat) : Bool :=
  Alloc.tryFromVecViaBoxedSlice && !Alloc.boxedSliceLenReject len n

/-- value of a recognised transcriber on an invocation; `none` = not determined by the model
    (unrecognised shape, a panic, or an unchecked unwrap of an error) -/
def evalTmpl : Tmpl → Inv → Option Out
  | .fromArrayList c, .list es _ => some ⟨es.length, es.map (·.val), es.flatMap (·.eff), c⟩
  | .transmuteRepeat, .repTy x n => some ⟨n, List.replicate n x.val, x.eff, true⟩
  | .fromArrayRepeat c, .repConst x n => some ⟨n, List.replicate n x.val, x.eff, c⟩
  | .vecHelperList, .list es _ =>
    -- `U` = number of `()` in the unit array = one per `$x`; the vector holds the same `$x`s
    if Arr.helperUnitIsOnePerExpr && Arr.vecHelperLenTied && tryFromVecOk es.length es.length then
      some ⟨es.length, es.map (·.val), es.flatMap (·.eff), false⟩
    else none
  | .tryFromVecRepeatTy, .repTy x n =>
    if tryFromVecOk n n then some ⟨n, List.replicate n x.val, x.eff, false⟩ else none
  | .tryFromVecRepeatConst, .repConst x n =>
    if tryFromVecOk n n then some ⟨n, List.replicate n x.val, x.eff, false⟩ else none
  | _, _ => none

def evalArr (inv : Inv) : Option Out := (select Arr.arrArms inv).bind fun t => evalTmpl t inv
def evalBox (inv : Inv) : Option Out := (select Arr.boxArms inv).bind fun t => evalTmpl t inv

/-- what the literal syntax denotes -/
def denote : Inv → Nat × List Nat × List Nat
  | .list es _ => (es.length, es.map (·.val), es.flatMap (·.eff))
  | .repTy x n => (n, List.replicate n x.val, x.eff)
  | .repConst x n => (n, List.replicate n x.val, x.eff)

end GA.Arr
