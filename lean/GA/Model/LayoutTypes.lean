/-! Descriptor vocabulary shared by the translator output (`GA.Gen.Layout`) and the layout model. -/
namespace GA.Layout

/-- what a struct field is, relative to the node's type parameters `<T, U>` -/
inductive FieldKind where
  | child     -- `U` (the half-length storage)
  | elem      -- `T`
  | phantom   -- `PhantomData<_>`: size 0, align 1
  | unit      -- `()`: size 0, align 1
deriving Repr, DecidableEq

inductive ReprKind where
  | c | transparent | rust | other
deriving Repr, DecidableEq

/-- storage chosen for length 0 -/
inductive TermKind where
  | array0    -- `[T; 0]`: size 0, T's alignment
  | unit      -- `()`
  | phantom   -- `PhantomData<T>`
deriving Repr, DecidableEq

inductive NodeKind where
  | even | odd
deriving Repr, DecidableEq

/-- how a struct-literal initialises a field in the `ConstDefault` impls -/
inductive InitKind where
  | childDefault   -- `U::DEFAULT`
  | elemDefault    -- `T::DEFAULT`
  | inferred       -- `ConstDefault::DEFAULT`: the default of whatever the field's type is
  | phantom        -- `PhantomData`
deriving Repr, DecidableEq

/-- size and alignment of a type -/
structure Lay where
  size : Nat
  align : Nat
deriving Repr, DecidableEq

/-- typenum's binary naturals: `UTerm`, `UInt<hi, B0>`, `UInt<hi, B1>` -/
inductive Digits where
  | term : Digits
  | b0 : Digits → Digits
  | b1 : Digits → Digits
deriving Repr, DecidableEq

def Digits.val : Digits → Nat
  | .term => 0
  | .b0 d => 2 * d.val
  | .b1 d => 2 * d.val + 1

end GA.Layout
