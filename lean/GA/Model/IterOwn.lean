import GA.Model.Iter
import GA.Model.Own
/-!
Ownership view of `GenericArrayIter` (C03, C04, C05): which destructors run, in which state the
iterator is left when one of them panics, and what the iterator's own `Drop` releases afterwards.
`bad` is the single element whose destructor panics (`none`: no destructor panics).
-/
namespace GA.IterOwn
open GA.Iter GA.Own GA.Gen

/-- does the panicking destructor's element lie in `ids`? -/
def panics (ids : List Id) (bad : Option Id) : Bool :=
  match bad with
  | some b => ids.contains b
  | none => false

/-- `ptr::drop_in_place(slice)`: every element's destructor runs once, in order, even after one of
    them panicked (Rust's slice drop glue keeps going while unwinding); reports whether one panicked -/
def dropInPlace (ids : List Id) (bad : Option Id) : List Ev × Bool := (ids.map .drop, panics ids bad)

/-- `Drop for GenericArrayIter`: `drop_in_place(self.as_mut_slice())` -/
def dropIter (it : Iter) : List Ev := (asSlice it).map .drop

inductive NthRes where
  | item (o : Option Id)     -- returned `Some(x)` (ownership passes to the caller) / `None`
  | panicked                 -- a destructor panicked; the panic propagates out of `nth`
  | ub
deriving Repr, DecidableEq

/-- tail of `nth` / `nth_back`: the value produced by `next()` / `next_back()` goes to the caller -/
def afterNext (pre : List Ev) (r : IOut × Iter) : List Ev × NthRes × Iter :=
  match r.1 with
  | .item (some x) => (pre ++ [.give 0 x], .item (some x), r.2)
  | .item none => (pre, .item none, r.2)
  | _ => (pre ++ [.dropUninit], .ub, r.2)

/-- `nth(n)`: drop the skipped range in place, store the new index — in the regenerated order —
    then `next()`.  Returns the events, the result and the iterator as the caller still holds it. -/
def nthD (it : Iter) (n : Nat) (bad : Option Id) : List Ev × NthRes × Iter :=
  let lo := Iter.nthDropLo it.front it.back n
  let hi := Iter.nthDropHi it.front it.back n
  let nx := Iter.nthNext it.front it.back n
  if !(rangeOk it.slots lo hi && Iter.nthThenNext && Iter.nthNextOk it.front it.back n) then ([.dropUninit], .ub, it)
  else if panics (sliceOf it.slots lo hi) bad then
    -- unwinding out of `nth`: the index was stored only if the store precedes the drop
    ((sliceOf it.slots lo hi).map .drop, .panicked, if Iter.nthAdvanceBeforeDrop then { it with front := nx } else it)
  else afterNext ((sliceOf it.slots lo hi).map .drop) (next { it with front := nx })

def nthBackD (it : Iter) (n : Nat) (bad : Option Id) : List Ev × NthRes × Iter :=
  let lo := Iter.nthBackDropLo it.front it.back n
  let hi := Iter.nthBackDropHi it.front it.back n
  let nx := Iter.nthBackNext it.front it.back n
  if !(rangeOk it.slots lo hi && Iter.nthBackThenNextBack && Iter.nthBackNextOk it.front it.back n) then ([.dropUninit], .ub, it)
  else if panics (sliceOf it.slots lo hi) bad then
    ((sliceOf it.slots lo hi).map .drop, .panicked, if Iter.nthBackAdvanceBeforeDrop then { it with back := nx } else it)
  else afterNext ((sliceOf it.slots lo hi).map .drop) (nextBack { it with back := nx })

/-- `last()` = `next_back()` then the iterator (moved into `last`) is dropped;
    `count()` = `len()` then the iterator is dropped. -/
def lastD (it : Iter) (bad : Option Id) : List Ev × NthRes :=
  let r := nextBack it
  if panics (asSlice r.2) bad then
    -- the iterator's destructor panics while `last`'s return value is in flight: unwinding
    -- abandons (leaks) that value; nothing is dropped twice
    (dropIter r.2, .panicked)
  else
    let a := afterNext [] r
    (a.1 ++ dropIter a.2.2, a.2.1)
def countD (it : Iter) (bad : Option Id) : List Ev × NthRes :=
  (dropIter it, if panics (asSlice it) bad then .panicked else .item (some (Iter.len it.front it.back)))

/-- `Clone for GenericArrayIter`: clone the live elements one by one into a bitwise copy of the
    array.  `f k` is the k-th `Clone::clone` call (`none`: it panics).  If the partially built copy
    is owned by a droppable iterator whose `index_back` counts the clones made (`guarded`),
    unwinding drops them; otherwise they are leaked. -/
def cloneLoop (guarded : Bool) (f : Nat → Option Id) : List Id → Nat → List Id → List Ev × Res
  | [], _, made => ([], .ok made)
  | x :: rest, k, made =>
    match f k with
    | some y =>
      let r := cloneLoop guarded f rest (k + 1) (made ++ [y])
      (.lend k x :: .take k y :: r.1, r.2)
    | none => (.lend k x :: .panic k :: (if guarded then made.map .drop else []), .panicked)

def cloneD (it : Iter) (f : Nat → Option Id) : List Ev × Res :=
  cloneLoop Iter.cloneGuarded f (asSlice it) 0 []

/-- `fold` on the by-value iterator: `f k = false` = the closure panics on its k-th call; on a panic
    the iterator (still owned by `fold`'s frame) is dropped. -/
def foldD (it : Iter) (f : Nat → Bool) : List Ev × Bool :=
  let live := sliceOf it.slots (Iter.foldLo it.front it.back) (Iter.foldHi it.front it.back)
  let S := foldSrc (.consumer (fun p _ => Iter.foldAdv p) Iter.foldAdvBeforeCall) f
  let r := foldLoop S (live.length + 1) (Consumer.ofList live)
  (r.1, r.2.1)

def rfoldD (it : Iter) (f : Nat → Bool) : List Ev × Bool :=
  let live := (sliceOf it.slots (Iter.rfoldLo it.front it.back) (Iter.rfoldHi it.front it.back)).reverse
  -- mirrored view: `*index_back -= 1` moves the boundary one element towards the front
  let S := foldSrc (.consumer (fun p _ => p + (live.length - Iter.rfoldAdv live.length)) Iter.rfoldAdvBeforeCall) f
  let r := foldLoop S (live.length + 1) (Consumer.ofList live)
  (r.1, r.2.1)

end GA.IterOwn
