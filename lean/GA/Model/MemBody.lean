import GA.Model.Seq
/-!
# Memory-body IR: whole function bodies of src/sequence.rs (C09, C03)

`tools/seqbody.py` lowers every statement of `append`, `prepend`, `concat`, `pop_back`, `pop_front`, owned `split`,
`remove`, `swap_remove` (trait defaults, with `remove_unchecked` / `swap_remove_unchecked` of the impl inlined at
the call) into the statement list below on every run (`GA.Gen.SeqBody`).  `run` interprets it over element
*identities*: the by-value parameters are blocks of ids; `ptr::write` moves a parameter into the uninitialised
output at an element offset; `ptr::read` / `transmute_copy` copy ids out of a parameter bitwise (the parameter keeps
its bits, only `ManuallyDrop` decides whether it is still dropped at scope end); `ptr::copy` / `swap` rearrange a
parameter in place.  The result lists what is returned and which ids are dropped by the function's own scope end
(a parameter that was neither moved nor wrapped in `ManuallyDrop`), so "every element exactly once" is visible in
the value of `run` itself.  Out-of-range accesses, `assume_init` of a partly written output, `-` below zero,
`unreachable_unchecked()` being reached and anything the translator could not lower are `ub`.
-/
namespace GA.MemBody
open GA.Seq

/-- length / index expressions: literals, the type-level lengths `N` and `K` (`M` for `concat`), the index argument -/
inductive LX where
  | lit (v : Nat)
  | n
  | k
  | idx
  | add (a b : LX)
  | sub (a b : LX)
  | mul (a b : LX)
  | div (a b : LX)
deriving Repr, DecidableEq

structure Env where
  n : Nat
  k : Nat
  idx : Nat
deriving Repr, DecidableEq

def LX.eval (e : Env) : LX → Option Nat
  | .lit v => some v
  | .n => some e.n
  | .k => some e.k
  | .idx => some e.idx
  | .add a b => do let x ← a.eval e; let y ← b.eval e; some (x + y)
  | .sub a b => do let x ← a.eval e; let y ← b.eval e; if y ≤ x then some (x - y) else none
  | .mul a b => do let x ← a.eval e; let y ← b.eval e; some (x * y)
  | .div a b => do let x ← a.eval e; let y ← b.eval e; if y = 0 then none else some (x / y)

/-- conditions of `assert!` / `if … { unreachable_unchecked() }` -/
inductive BX where
  | lt (a b : LX)
  | ge (a b : LX)
  | eq (a b : LX)
  | ne (a b : LX)
  | or (p q : BX)
deriving Repr, DecidableEq

def BX.eval (e : Env) : BX → Option Bool
  | .lt a b => do let x ← a.eval e; let y ← b.eval e; some (decide (x < y))
  | .ge a b => do let x ← a.eval e; let y ← b.eval e; some (decide (y ≤ x))
  | .eq a b => do let x ← a.eval e; let y ← b.eval e; some (decide (x = y))
  | .ne a b => do let x ← a.eval e; let y ← b.eval e; some (decide (x ≠ y))
  | .or p q => do let x ← p.eval e; let y ← q.eval e; some (x || y)

/-- the two by-value parameters -/
inductive Obj where
  | self
  | arg
deriving Repr, DecidableEq

inductive Stmt where
  /-- `let mut out: MaybeUninit<Output> = MaybeUninit::uninit();` — `len` elements -/
  | allocOut (len : LX)
  /-- `ptr::write(out_ptr.add(…) as *mut _, o)`: the parameter `o` is moved to element offset `off` of the output -/
  | writeOut (off : LX) (o : Obj)
  /-- `out.assume_init()` is the function's value -/
  | retOut
  /-- `let x = ManuallyDrop::new(o);` -/
  | manuallyDrop (o : Obj)
  /-- `let v = ptr::read(o.as_ptr().add(off) as *const [T; len]);` -/
  | readBlock (v : Nat) (o : Obj) (off len : LX)
  /-- `ptr::copy(base.add(src), base.add(dst), count)` inside `o` -/
  | copyWithin (o : Obj) (src dst count : LX)
  /-- `o.swap(a, b)` (bounds-checked by the slice: out of range panics) -/
  | swap (o : Obj) (a b : LX)
  /-- `assert!(c, …)` -/
  | assertThat (c : BX)
  /-- `if c { unreachable_unchecked() }` -/
  | unreachableIf (c : BX)
  /-- `let v = mem::transmute_copy(&o)` into an array of `len` elements: the first `len` elements, bitwise -/
  | prefixOf (v : Nat) (o : Obj) (len : LX)
  /-- the function's value is the tuple of these locals -/
  | ret (vs : List Nat)
  /-- a statement the translator could not lower -/
  | opaque
deriving Repr, DecidableEq

inductive Status where
  | live        -- owned by the function: dropped at scope end / while unwinding
  | forgotten   -- inside a `ManuallyDrop`
  | moved       -- written into the output
deriving Repr, DecidableEq

structure Par where
  cells : List Nat
  status : Status
deriving Repr, DecidableEq

structure St where
  self : Par
  arg : Par
  out : Option Buf
  locals : List (Nat × List Nat)
deriving Repr, DecidableEq

def St.get (s : St) : Obj → Par
  | .self => s.self
  | .arg => s.arg
def St.set (s : St) (o : Obj) (p : Par) : St :=
  match o with
  | .self => { s with self := p }
  | .arg => { s with arg := p }

/-- ids released when the function's scope ends (normally or by a panic): parameters it still owns -/
def St.scopeDrops (s : St) : List Nat :=
  (if s.arg.status = .live then s.arg.cells else []) ++ (if s.self.status = .live then s.self.cells else [])

inductive Out where
  | ok (vals : List (List Nat)) (drops : List Nat)
  | panic (drops : List Nat)
  | ub
deriving Repr, DecidableEq

def lookup (l : List (Nat × List Nat)) (v : Nat) : Option (List Nat) :=
  match l with
  | [] => none
  | (w, x) :: t => if w = v then some x else lookup t v

def lookupAll (l : List (Nat × List Nat)) : List Nat → Option (List (List Nat))
  | [] => some []
  | v :: vs => do let x ← lookup l v; let r ← lookupAll l vs; some (x :: r)

/-- one statement: `inl` = the function ends here -/
def step (e : Env) (s : St) : Stmt → Sum Out St
  | .allocOut len =>
    match len.eval e with
    | some l => .inr { s with out := some (uninit l) }
    | none => .inl .ub
  | .writeOut off o =>
    match off.eval e, s.out, (s.get o).status with
    | some f, some b, .live =>
      match writeAt b f (s.get o).cells with
      | some b' => .inr { (s.set o { (s.get o) with status := .moved }) with out := some b' }
      | none => .inl .ub
    | _, _, _ => .inl .ub
  | .retOut =>
    match s.out with
    | some b =>
      match assumeInit b with
      | some r => .inl (.ok [r] s.scopeDrops)
      | none => .inl .ub
    | none => .inl .ub
  | .manuallyDrop o =>
    match (s.get o).status with
    | .live => .inr (s.set o { (s.get o) with status := .forgotten })
    | _ => .inl .ub
  | .readBlock v o off len =>
    match off.eval e, len.eval e, (s.get o).status with
    | _, _, .moved => .inl .ub
    | some f, some l, _ =>
      match readAt (s.get o).cells f l with
      | some x => .inr { s with locals := (v, x) :: s.locals }
      | none => .inl .ub
    | _, _, _ => .inl .ub
  | .copyWithin o src dst cnt =>
    match src.eval e, dst.eval e, cnt.eval e, (s.get o).status with
    | _, _, _, .moved => .inl .ub
    | some a, some b, some c, _ =>
      match Seq.copyWithin (s.get o).cells a b c with
      | some x => .inr (s.set o { (s.get o) with cells := x })
      | none => .inl .ub
    | _, _, _, _ => .inl .ub
  | .swap o a b =>
    match a.eval e, b.eval e, (s.get o).status with
    | _, _, .moved => .inl .ub
    | some x, some y, _ =>
      match swapAt (s.get o).cells x y with
      | some c => .inr (s.set o { (s.get o) with cells := c })
      | none => .inl (.panic s.scopeDrops)
    | _, _, _ => .inl .ub
  | .assertThat c =>
    match c.eval e with
    | some true => .inr s
    | some false => .inl (.panic s.scopeDrops)
    | none => .inl .ub
  | .unreachableIf c =>
    match c.eval e with
    | some false => .inr s
    | _ => .inl .ub
  | .prefixOf v o len =>
    match len.eval e, (s.get o).status with
    | _, .moved => .inl .ub
    | some l, _ =>
      match readAt (s.get o).cells 0 l with
      | some x => .inr { s with locals := (v, x) :: s.locals }
      | none => .inl .ub
    | _, _ => .inl .ub
  | .ret vs =>
    match lookupAll s.locals vs with
    | some r => .inl (.ok r s.scopeDrops)
    | none => .inl .ub
  | .opaque => .inl .ub

/-- run a body; falling off the end without a value is not something the translator produces: `ub` -/
def exec (e : Env) : St → List Stmt → Out
  | _, [] => .ub
  | s, st :: rest =>
    match step e s st with
    | .inl o => o
    | .inr s' => exec e s' rest

/-- a call with `self = xs`, the second by-value parameter `= ys` (`[]` if there is none) -/
def run (body : List Stmt) (e : Env) (xs ys : List Nat) : Out :=
  exec e ⟨⟨xs, .live⟩, ⟨ys, .live⟩, none, []⟩ body

/-! ## By-reference bodies: raw pointers with provenance, and the views built from them

`split` on `&GenericArray` / `&mut GenericArray` and the slice reinterpretations of src/lib.rs (`from_slice`,
`chunks_from_slice`, `slice_from_chunks`, … and their `_mut` forms) return references made from raw pointers.  A raw
pointer is an element offset from the source's address together with the element range it may be used for (the
extent of the reference it was derived from) and whether it may be written through; a reference built from it must lie
inside that range (and be writable only if the pointer is); taking the source's pointer *mutably* again reborrows the
whole source and ends the life of every pointer and view derived earlier; and the mutable references a function returns
must not overlap any other returned reference.  Offsets and lengths are in elements `T`; `K` is the length of the
argument slice where there is one. -/

structure RawPtr where
  off : Nat
  lo : Nat
  hi : Nat
  wr : Bool
deriving Repr, DecidableEq

structure View where
  off : Nat
  len : Nat
  wr : Bool
deriving Repr, DecidableEq

inductive VOut where
  | views (l : List View)
  | err          -- `return Err(LengthError)`
  | panic
  | ub
deriving Repr, DecidableEq

inductive VStmt where
  /-- `let p = self.as_ptr();` (`wr = false`) / `self.as_mut_ptr()` (`wr = true`): the whole array, `N` elements -/
  | ptrSelf (p : Nat) (wr : Bool)
  /-- `slice.as_ptr()` / `slice.as_mut_ptr()` of the argument slice, which spans `ext` elements -/
  | ptrArg (p : Nat) (wr : Bool) (ext : LX)
  /-- `let q = p.add(k);` -/
  | ptrAdd (q p : Nat) (k : LX)
  /-- `&*(p.add(add) as *const [T; len])` / `&mut *…` / `from_raw_parts(_mut)(p.add(add) as _, count)` with `len` elements -/
  | viewAt (v p : Nat) (add len : LX) (wr : Bool)
  /-- `let q = v.as_ptr();` / `v.as_mut_ptr()` of a view made earlier: the pointer is good for that view only -/
  | ptrOfView (q v : Nat) (wr : Bool)
  /-- `if c { panic!(…) }` -/
  | panicIf (c : BX)
  /-- `assert!(c, …)` -/
  | assertThat (c : BX)
  /-- `if c { return Err(LengthError) }` -/
  | errIf (c : BX)
  /-- `if c { assert!(a, …); return (&[], &[], …) }`: `count` empty views -/
  | emptyIf (c a : BX) (count : Nat) (wr : Bool)
  /-- `let v = mem::transmute(self)` of the receiver reference into a reference to a regrouped array of the same `ext`
      elements: the same reference, retyped (address, extent and mutability are the receiver's) -/
  | transmuteSelf (v : Nat) (ext : LX) (wr : Bool)
  /-- the function's value: these views -/
  | retViews (vs : List Nat)
  | opaque
deriving Repr, DecidableEq

structure VSt where
  ptrs : List (Nat × RawPtr)
  views : List (Nat × View)
deriving Repr

def lookupP (l : List (Nat × RawPtr)) (v : Nat) : Option RawPtr :=
  match l with
  | [] => none
  | (w, x) :: t => if w = v then some x else lookupP t v
def lookupV (l : List (Nat × View)) (v : Nat) : Option View :=
  match l with
  | [] => none
  | (w, x) :: t => if w = v then some x else lookupV t v
def lookupVs (l : List (Nat × View)) : List Nat → Option (List View)
  | [] => some []
  | v :: vs => do let x ← lookupV l v; let r ← lookupVs l vs; some (x :: r)

def View.disjoint (a b : View) : Bool := decide (a.off + a.len ≤ b.off) || decide (b.off + b.len ≤ a.off) || a.len == 0 || b.len == 0

/-- no mutable view overlaps another returned view -/
def noAlias : List View → Bool
  | [] => true
  | v :: rest => rest.all (fun w => (!v.wr && !w.wr) || v.disjoint w) && noAlias rest

/-- `recvMut`: the receiver / argument is a `&mut` (only then `as_mut_ptr()` type-checks).  `inl` ends the function. -/
def vstep (recvMut : Bool) (e : Env) (s : VSt) : VStmt → Sum VOut VSt
  | .ptrSelf p wr =>
    if wr && !recvMut then .inl .ub
    else if wr then .inr ⟨[(p, ⟨0, 0, e.n, wr⟩)], []⟩        -- a mutable reborrow of the source: earlier pointers and views end
    else .inr { s with ptrs := (p, ⟨0, 0, e.n, wr⟩) :: s.ptrs }
  | .ptrArg p wr ext =>
    match ext.eval e with
    | some x =>
      if wr && !recvMut then .inl .ub
      else if wr then .inr ⟨[(p, ⟨0, 0, x, wr⟩)], []⟩
      else .inr { s with ptrs := (p, ⟨0, 0, x, wr⟩) :: s.ptrs }
    | none => .inl .ub
  | .ptrAdd q p k =>
    match lookupP s.ptrs p, k.eval e with
    | some r, some d => if r.off + d ≤ r.hi then .inr { s with ptrs := (q, { r with off := r.off + d }) :: s.ptrs } else .inl .ub
    | _, _ => .inl .ub
  | .viewAt v p add len wr =>
    match lookupP s.ptrs p, add.eval e, len.eval e with
    | some r, some a, some l =>
      if decide (r.lo ≤ r.off + a) && decide (r.off + a + l ≤ r.hi) && (!wr || r.wr) then
        .inr { s with views := (v, ⟨r.off + a, l, wr⟩) :: s.views }
      else .inl .ub
    | _, _, _ => .inl .ub
  | .ptrOfView q v wr =>
    match lookupV s.views v with
    | some w => if wr && !w.wr then .inl .ub else .inr { s with ptrs := (q, ⟨w.off, w.off, w.off + w.len, wr⟩) :: s.ptrs }
    | none => .inl .ub
  | .panicIf c =>
    match c.eval e with
    | some true => .inl .panic
    | some false => .inr s
    | none => .inl .ub
  | .assertThat c =>
    match c.eval e with
    | some true => .inr s
    | some false => .inl .panic
    | none => .inl .ub
  | .errIf c =>
    match c.eval e with
    | some true => .inl .err
    | some false => .inr s
    | none => .inl .ub
  | .emptyIf c a count wr =>
    match c.eval e, a.eval e with
    | some true, some true => .inl (.views (List.replicate count ⟨0, 0, wr⟩))
    | some true, some false => .inl .panic
    | some false, _ => .inr s
    | _, _ => .inl .ub
  | .transmuteSelf v ext wr =>
    match ext.eval e with
    | some x => if wr != recvMut then .inl .ub else .inr { s with views := (v, ⟨0, x, wr⟩) :: s.views }
    | none => .inl .ub
  | .retViews vs =>
    match lookupVs s.views vs with
    | some r => if noAlias r then .inl (.views r) else .inl .ub
    | none => .inl .ub
  | .opaque => .inl .ub

def vexec (recvMut : Bool) (e : Env) : VSt → List VStmt → VOut
  | _, [] => .ub
  | s, st :: rest =>
    match vstep recvMut e s st with
    | .inl r => r
    | .inr s' => vexec recvMut e s' rest

/-- `ub` = the body is not a valid way of producing its views (undefined behaviour, or not lowered) -/
def runViews (recvMut : Bool) (body : List VStmt) (e : Env) : VOut := vexec recvMut e ⟨[], []⟩ body

end GA.MemBody
