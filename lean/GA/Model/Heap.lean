import GA.Model.Ops
/-!
Heap model (C15, C16): allocator events of boxed `generate` exactly as written in
src/impl_alloc.rs (which condition avoids the allocator, whether null is tested before the block is
used, whether the block is released when the generator panics), and the value-level contract of the
`Vec` / `Box<[T]>` / `Box<GenericArray>` conversions.
-/
namespace GA.Heap
open GA.Own GA.Ops GA.Gen

inductive AEv where
  | alloc (blk size align : Nat)       -- `alloc(Layout{size, align})` returned block `blk`
  | allocFail (size align : Nat)       -- `alloc` returned null
  | dealloc (blk size align : Nat)
  | handleAllocError                   -- the standard allocation-error path (diverges)
  | nullDeref                          -- a reference is formed to / written through the null block
deriving Repr, DecidableEq

inductive BRes where
  | ok (arr : List Id)
  | panicked          -- the generator's panic propagates
  | aborted           -- `handle_alloc_error`
  | ub
deriving Repr, DecidableEq

structure BoxedOut where
  atrace : List AEv
  etrace : List Ev
  res : BRes
deriving Repr

/-- Whole life cycle of `Box::<GenericArray<T, N>>::generate(f)` followed by dropping the box:
    `esz`/`ealign` = element layout, `allocOk` = does the allocator succeed. -/
def boxedGenerate (esz ealign n : Nat) (f : Nat → Option Id) (allocOk : Bool) : BoxedOut :=
  let size := n * esz                       -- layout of `GenericArray<MaybeUninit<T>, N>` (C01)
  let noAlloc := Alloc.boxedNoAlloc esz n size
  -- acquiring the block
  let acq : List AEv × Option Nat :=        -- events, block id if one is live
    if noAlloc then ([], none)
    else if allocOk then ([.alloc 1 size ealign], some 1)
    else ([.allocFail size ealign], none)
  if !noAlloc && !allocOk then
    if Alloc.boxedNullChecked then ⟨acq.1 ++ [.handleAllocError], [], .aborted⟩
    else ⟨acq.1 ++ [.nullDeref], [], .ub⟩
  else if noAlloc && !Alloc.boxedDanglingAligned && decide (1 < ealign) then
    -- `&mut *ptr` and the returned `Box` on an address that is not a multiple of the alignment (C01)
    ⟨[], [], .ub⟩
  else
    match fillLoop Alloc.boxedWriteBeforeCount true (genSrc f) n 0 [] with
    | (tr, .full out _) =>
      -- `Box::from_raw`; later the box is dropped: elements, then the block iff the *type* has non-zero size
      let release : List AEv := match acq.2 with
        | some b => if size = 0 then [] else [.dealloc b size ealign]
        | none => []
      ⟨acq.1 ++ release, tr ++ out.map .drop, .ok out⟩
    | (tr, .panicked) =>
      let release : List AEv := match acq.2 with
        | some b => if Alloc.boxedDeallocGuard then [.dealloc b size ealign] else []
        | none => []
      ⟨acq.1 ++ release, tr, .panicked⟩
    | (tr, .short out _) => ⟨acq.1, tr ++ [.dropUninit], .ub⟩

/-- blocks still allocated after a trace -/
def live : List AEv → List (Nat × Nat × Nat)
  | [] => []
  | .alloc b s a :: t => (b, s, a) :: live t
  | .dealloc b s a :: t => (live t).erase (b, s, a)
  | _ :: t => live t

/-- live blocks, processing the trace in order -/
def liveAfter (tr : List AEv) : List (Nat × Nat × Nat) :=
  tr.foldl (fun acc e => match e with
    | .alloc b s a => (b, s, a) :: acc
    | .dealloc b s a => acc.erase (b, s, a)
    | _ => acc) []

/-- every release names a block that is live with exactly that size and alignment -/
def releasesMatch (tr : List AEv) : Bool :=
  (tr.foldl (fun (st : List (Nat × Nat × Nat) × Bool) e => match e with
    | .alloc b s a => ((b, s, a) :: st.1, st.2)
    | .dealloc b s a => (st.1.erase (b, s, a), st.2 && st.1.contains (b, s, a))
    | _ => st) ([], true)).2

def requestsNonzero (tr : List AEv) : Bool :=
  tr.all fun e => match e with
    | .alloc _ s _ => decide (0 < s)
    | .allocFail s _ => decide (0 < s)
    | _ => true

/-! ### value-level contract of the conversions (C15) -/
inductive CRes where
  | ok (items : List Id) (sameBlock : Bool)
  | err (dropped : List Id)            -- `LengthError`; the source's elements are dropped
deriving Repr, DecidableEq

/-- `try_from_boxed_slice`: length check, then a pointer cast of the same block -/
def tryFromBoxedSlice (items : List Id) (n : Nat) : CRes :=
  if Alloc.boxedSliceLenReject items.length n then .err items else .ok items true

/-- `try_from_vec`: `into_boxed_slice` (keeps the block iff `len == cap`), then the above -/
def tryFromVec (items : List Id) (cap n : Nat) : CRes :=
  if !Alloc.tryFromVecViaBoxedSlice then .err [] else
  match tryFromBoxedSlice items n with
  | .ok it _ => .ok it (decide (items.length = cap))
  | e => e

/-- `TryFrom<Vec<T>> for GenericArray` (by value: copies out, frees the Vec's block) -/
def tryFromVecOwned (items : List Id) (n : Nat) : CRes :=
  if Alloc.vecLenReject items.length n then .err items else .ok items false

/-- `into_boxed_slice` / `into_vec`: O(1), the same block, `N` elements -/
def intoBoxedSlice (items : List Id) : CRes :=
  if Alloc.intoBoxedSliceSamePtr then .ok (items.take (Alloc.intoBoxedSliceLen items.length)) true else .ok items false
def intoVec (items : List Id) : CRes :=
  if Alloc.intoVecReusesBlock then intoBoxedSlice items else .ok items false

end GA.Heap
