import GA.Gen.Layout
/-!
Layout model (C01): the Rust Reference's `repr(C)` algorithm applied to the *regenerated* struct
descriptors of `GenericArrayImplEven/Odd`, the `[T; 0]` base case and the transparent wrapper.
`none` = the layout is not determined by the language (`repr(Rust)` or an unknown `repr`).
-/
namespace GA.Layout
open GA.Gen

def roundUp (x a : Nat) : Nat := (x + a - 1) / a * a

/-- `repr(C)`: fields in declaration order, each at the running offset rounded up to its
    alignment; total size rounded up to the largest alignment. -/
def reprC (fields : List Lay) : Lay :=
  let al := fields.foldl (fun a f => max a f.align) 1
  let sz := fields.foldl (fun off f => roundUp off f.align + f.size) 0
  ⟨roundUp sz al, al⟩

def fieldLay (t child : Lay) : FieldKind → Lay
  | .child => child
  | .elem => t
  | .phantom => ⟨0, 1⟩
  | .unit => ⟨0, 1⟩

def termLay (t : Lay) : TermKind → Lay
  | .array0 => ⟨0, t.align⟩
  | .unit => ⟨0, 1⟩
  | .phantom => ⟨0, 1⟩

def nodeLay (t child : Lay) : NodeKind → Option Lay
  | .even => if Layout.evenRepr = .c then some (reprC (Layout.evenFields.map (fieldLay t child))) else none
  | .odd => if Layout.oddRepr = .c then some (reprC (Layout.oddFields.map (fieldLay t child))) else none

/-- `N::ArrayType<T>` -/
def storage (t : Lay) : Digits → Option Lay
  | .term => some (termLay t Layout.termStorage)
  | .b0 d => (storage t d).bind fun c => nodeLay t c Layout.b0Node
  | .b1 d => (storage t d).bind fun c => nodeLay t c Layout.b1Node

/-- `GenericArray<T, N>` -/
def wrapper (t : Lay) (d : Digits) : Option Lay :=
  if Layout.wrapperRepr = .transparent && Layout.wrapperSingleStorageField then storage t d else none

def Digits.ofNat : Nat → Digits
  | 0 => .term
  | n + 1 =>
    if (n + 1) % 2 = 0 then .b0 (Digits.ofNat ((n + 1) / 2)) else .b1 (Digits.ofNat ((n + 1) / 2))
decreasing_by all_goals omega

/-- byte offset of element `i` through the slice view (`as_slice`: base = self, stride = size) -/
def elemOffset (t : Lay) (i : Nat) : Nat := i * t.size

end GA.Layout
