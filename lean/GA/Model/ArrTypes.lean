/-! Vocabulary shared by the translator output (`GA.Gen.Arr`) and the macro model (C20). -/
namespace GA.Arr

/-- what follows the element list in a matcher: `$(,)*`, `$(,)?`, or nothing -/
inductive Trail where
  | star | opt | none
deriving Repr, DecidableEq

inductive Matcher where
  | list (trailing : Trail)      -- `$($x:expr),*` + trailing commas
  | repTy                        -- `$x:expr; $N:ty`
  | repExpr                      -- `$x:expr; $n:expr`
  | other
deriving Repr, DecidableEq

/-- recognised transcriber shapes; `const` = only `const fn`s are called -/
inductive Tmpl where
  | fromArrayList (const : Bool)        -- `from_array([$($x),*])`
  | transmuteRepeat                     -- `[$x; <$N>::USIZE]` through a local `const fn` calling `const_transmute`
  | fromArrayRepeat (const : Bool)      -- `from_array([$x; $n])`
  | vecHelperList                       -- `__from_vec_helper([$(unit!($x)),*], vec![$($x),*])`
  | tryFromVecRepeatTy                  -- `GenericArray::<_, $N>::try_from_vec(vec![$x; <$N>::USIZE]).unwrap()`
  | tryFromVecRepeatConst               -- `const __LEN = $n; GenericArray::<_, Const<__LEN>…>::try_from_vec(vec![$x; __LEN]).unwrap()`
  | other
deriving Repr, DecidableEq

structure Arm where
  m : Matcher
  t : Tmpl
deriving Repr, DecidableEq

end GA.Arr
