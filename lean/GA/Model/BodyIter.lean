import GA.Gen.Body
import GA.Model.Iter
/-!
The by-value iterator driven **through the interpreted bodies** (`GA.Gen.Body`, regenerated from
src/iter.rs): the same operation vocabulary as `GA.Iter.step`, but every operation is carried out
by `GA.Body.runFn` on the translated function.  The driver can answer `iterq` scenarios from this
definition (`--body` view), and `GA.Props.Body` proves that it refines the deque specification.
-/
namespace GA.BodyIter
open GA.Body GA.Iter GA.Own

def ofIter (it : Iter) : St :=
  { self := ⟨it.slots, it.front, it.back, 0, []⟩, out := ⟨[], 0, 0, 0, []⟩, hasOut := false, calls := 0, forgot := false, polls := 0, outForgot := false }

def toIter (s : St) : Iter := ⟨s.self.slots, s.self.index, s.self.indexBack⟩

/-- value-level context: no destructor panics, the caller's closure returns, `Clone::clone` returns a
    copy of the value it is given (`live` = the remaining elements, in order) -/
def vctx (n : Nat) (live : List Nat) : Ctx := ⟨n, none, fun _ => false, fun k => live[k]?, fun _ => .done, (0, none), {}⟩

def inR : R → IOut
  | .ret (.some (.elem x)) => .item (some x)
  | .ret .none => .item none
  | .ret (.nat n) => .num n
  | .ret (.pair (.nat lo) (.some (.nat h))) => .hint lo (some h)
  | .ret (.pair (.nat lo) .none) => .hint lo none
  | .ret (.dbg l) => .items l
  | .ret .unit => .unit
  | .panicked => .oob
  | _ => .ub

def D : S := Gen.Body.dropIter.body

def call (it : Iter) (f : Fn) (args : List V) : List Ev × R × St :=
  runFn (vctx it.slots.length (sliceOf it.slots it.front it.back)) D f args (ofIter it)

/-- a `&self` / `&mut self` method: result and the iterator afterwards -/
def method (it : Iter) (f : Fn) (args : List V) : IOut × Iter :=
  let r := call it f args
  (inR r.2.1, toIter r.2.2)

/-- `it.clone()` through the interpreted body: the new iterator -/
def cloneVia (it : Iter) : Option Iter :=
  let r := call it Gen.Body.clone []
  match r.2.1 with
  | .ret .obj => some ⟨r.2.2.out.slots, r.2.2.out.index, r.2.2.out.indexBack⟩
  | _ => none

def sliceVia (it : Iter) (f : Fn) : Option (Nat × Nat) :=
  match (call it f []).2.1 with
  | .ret (.slice .self lo hi) => some (lo, hi)
  | _ => none

/-- consuming adaptors: the values handed to the caller's closure / the returned value -/
def foldVia (it : Iter) (f : Fn) : IOut :=
  let r := call it f []
  match r.2.1 with
  | .ret _ => .items (gives r.1)
  | _ => .ub

def consumeVia (it : Iter) (f : Fn) : IOut := inR (call it f []).2.1

def step (it : Iter) : IOp → IOut × Iter
  | .next => method it Gen.Body.next []
  | .nextBack => method it Gen.Body.nextBack []
  | .nth n => method it Gen.Body.nth [.nat n]
  | .nthBack n => method it Gen.Body.nthBack [.nat n]
  | .len => method it Gen.Body.len []
  | .sizeHint => method it Gen.Body.sizeHint []
  | .debug => method it Gen.Body.debugFmt []
  | .asSlice =>
    match sliceVia it Gen.Body.asSlice with
    | some (lo, hi) => (.items (sliceOf it.slots lo hi), it)
    | none => (.ub, it)
  | .write i v =>
    match sliceVia it Gen.Body.asMutSlice with
    | some (lo, hi) => if i < hi - lo then (.unit, { it with slots := it.slots.set (lo + i) v }) else (.oob, it)
    | none => (.ub, it)
  | .clone =>
    match cloneVia it with
    | some c => (match sliceVia c Gen.Body.asSlice with
        | some (lo, hi) => .items (sliceOf c.slots lo hi)
        | none => .ub, c)
    | none => (.ub, it)
  | .fold => (match cloneVia it with | some c => foldVia c Gen.Body.fold | none => .ub, it)
  | .rfold => (match cloneVia it with | some c => foldVia c Gen.Body.rfold | none => .ub, it)
  | .count => (match cloneVia it with | some c => consumeVia c Gen.Body.count | none => .ub, it)
  | .last => (match cloneVia it with | some c => consumeVia c Gen.Body.last | none => .ub, it)
  | .foldSelf => (foldVia it Gen.Body.fold, { it with front := it.back })
  | .rfoldSelf => (foldVia it Gen.Body.rfold, { it with front := it.back })
  | .countSelf => (consumeVia it Gen.Body.count, { it with front := it.back })
  | .lastSelf => (consumeVia it Gen.Body.last, { it with front := it.back })

def run (it : Iter) : List IOp → List IOut × Iter
  | [] => ([], it)
  | op :: ops =>
    let r := step it op
    let rs := run r.2 ops
    (r.1 :: rs.1, rs.2)

/-- `into_iter()` through the interpreted body -/
def intoIter (l : List Nat) : Option Iter :=
  let c : Ctx := vctx l.length l
  let r := runFn c D Gen.Body.intoIter []
    { self := ⟨l, 0, 0, 0, []⟩, out := ⟨[], 0, 0, 0, []⟩, hasOut := false, calls := 0, forgot := false, polls := 0, outForgot := false }
  match r.2.1 with
  | .ret .obj => some ⟨r.2.2.out.slots, r.2.2.out.index, r.2.2.out.indexBack⟩
  | _ => none

end GA.BodyIter
