import GA.Model.Own
import GA.Gen.Lib
import GA.Gen.Alloc
/-!
The crate's constructing / functional operations over the ownership model, wired to the
regenerated fragments (`GA.Gen.Lib`: src/lib.rs, internal.rs, sequence.rs, functional.rs,
impls.rs; `GA.Gen.Alloc`: src/impl_alloc.rs).  `Form` is the receiver / argument form.
-/
namespace GA.Ops
open GA.Own GA.Gen

inductive Form where
  | owned | ref | mutRef | boxed
deriving Repr, DecidableEq

/-- conditions of the stack `try_from_iter` + `IntrusiveArrayBuilder::extend`, as regenerated -/
def libFrags : CollectFrags where
  hintLoReject := Lib.hintLoReject
  hintHiReject := Lib.hintHiReject
  isFull := Lib.isFull
  fullBeforePoll := Lib.fullBeforePoll
  writeBeforeCount := Lib.extendWriteBeforeCount
  destFirst := Lib.extendDestFirst
  finishAfterProbe := Lib.finishAfterProbe

/-- `try_boxed_from_iter`: `Vec::with_capacity(N)`, `extend(take(N))`, `len != N || next().is_some()`;
    the `Vec` owns what was pushed, so there is no separate disarm step. -/
def boxFrags : CollectFrags where
  hintLoReject := Alloc.hintLoReject
  hintHiReject := Alloc.hintHiReject
  isFull len n := !Alloc.notFull len n
  fullBeforePoll := true
  writeBeforeCount := true
  destFirst := true
  finishAfterProbe := true

def collectFrags (boxedResult : Bool) : CollectFrags := if boxedResult then boxFrags else libFrags

/-- the iterator a non-owned receiver turns into -/
def sideOf : Form → Side
  | .owned => .owned          -- (by-value iterator of an owned array; not used by the crate's own bodies)
  | .ref => .borrowed
  | .mutRef => .borrowed
  | .boxed => .owned          -- `vec::IntoIter`

/-- `GenericSequence::generate` for `GenericArray` (stack). -/
def generate (f : Nat → Option Id) (n : Nat) : List Ev × Res :=
  match fillLoop Lib.generateWriteBeforeCount true (genSrc f) n 0 [] with
  | (tr, .full out _) => (tr, .ok out)
  | (tr, .short out _) => (tr ++ [.dropUninit], .ok out)   -- unreachable: the counter never ends
  | (tr, .panicked) => (tr, .panicked)

/-- `FunctionalSequence::map` for every receiver form. -/
def mapOp (form : Form) (f : Nat → Option Id) (xs : List Id) : List Ev × Res :=
  let n := xs.length
  match form with
  | .owned =>
    fromIter libFrags (mapSrc (.consumer Lib.mapPosNew Lib.mapAdvBeforeCall) f) n (n, some n) (Consumer.ofList xs)
  | .boxed => fromIter boxFrags (mapSrc .owned f) n (n, some n) (Consumer.ofList xs)
  | _ => fromIter libFrags (mapSrc .borrowed f) n (n, some n) (Consumer.ofList xs)

/-- the two sides of `a.zip(b, f)` as the dispatch in functional.rs / sequence.rs / lib.rs selects
    them; `ndA`, `ndB`: does the element type of `a` / `b` need drop? -/
def zipSides (fa fb : Form) (ndA ndB : Bool) : Side × Side :=
  match fa, fb with
  | .owned, .owned =>
    -- `rhs.inverted_zip(self, f)`, specialised for `GenericArray` (self = b, lhs = a)
    if Lib.izipDropBranch ndB ndA then
      (.consumer Lib.izipLeftPosNew Lib.izipLeftAdvBeforeCall, .consumer Lib.izipRightPosNew Lib.izipRightAdvBeforeCall)
    else (.manual, .manual)
  | .owned, fb =>
    -- trait-default `inverted_zip`: an `ArrayConsumer` for `a`, `b.into_iter()`
    (.consumer Lib.defIzipLeftPosNew Lib.defIzipLeftAdvBeforeCall, sideOf fb)
  | fa, .owned =>
    -- `rhs.inverted_zip2(self, f)`, specialised for `GenericArray` (self = b)
    (sideOf fa, if Lib.izip2DropBranch ndB ndA then .consumer Lib.izip2RightPosNew Lib.izip2RightAdvBeforeCall else .manual)
  | fa, fb => (sideOf fa, sideOf fb)   -- trait-default `inverted_zip2`

def zipOp (fa fb : Form) (ndA ndB : Bool) (f : Nat → Option Id) (xs ys : List Id) : List Ev × Res :=
  let n := xs.length
  let sides := zipSides fa fb ndA ndB
  fromIter (collectFrags (decide (fa = .boxed))) (zipSrc sides.1 sides.2 f) n (n, some n)
    ⟨Consumer.ofList xs, Consumer.ofList ys⟩

def foldSide : Form → Side
  | .owned => .consumer Lib.foldPosNew Lib.foldAdvBeforeCall
  | .boxed => .owned
  | _ => .borrowed

/-- `FunctionalSequence::fold` for every receiver form; `f i = false`: the closure panics on call `i` -/
def foldOp (form : Form) (f : Nat → Bool) (xs : List Id) : List Ev × Bool :=
  let r := foldLoop (foldSrc (foldSide form) f) (xs.length + 1) (Consumer.ofList xs)
  (r.1 ++ (if r.2.1 then (foldSrc (foldSide form) f).dropEv r.2.2 else []), r.2.1)

/-- `Clone` = `self.map(Clone::clone)` on `&self`; `Default` = `generate(|_| T::default())` -/
def cloneOp (f : Nat → Option Id) (xs : List Id) : List Ev × Res := mapOp .ref f xs
def defaultOp (f : Nat → Option Id) (n : Nat) : List Ev × Res := generate f n

/-- result of `a.clone_from(&b)`: the events inside the call, whether it returned, what `a` holds afterwards -/
structure CloneFrom where
  ev : List Ev
  res : Res
  final : List Id
deriving Repr, DecidableEq

/-- `a.clone_from(&b)` for `Clone for GenericArray`, which (regenerated flag `cloneFromIsDefault`) does not
    override it: the trait's `*self = source.clone()`.  The clone is built first (`T::clone` may panic at any
    call: the clones made so far are released and `a` is untouched).  Then the old contents are dropped in place
    — one drop of the whole array, every destructor runs even if the one of `bad` panics — and the new value is
    written to `a`, on the unwinding path too (Rust's drop-and-replace).  With an override the model does not
    know what runs: `none`. -/
def cloneFromOp (f : Nat → Option Id) (old xs : List Id) (bad : Option Id) : Option CloneFrom :=
  if Lib.cloneFromIsDefault then
    let r := cloneOp f xs
    match r.2 with
    | .ok ids =>
      some ⟨r.1 ++ old.map .drop,
            (match bad with
             | some b => if old.contains b then .panicked else .ok []
             | none => .ok []), ids⟩
    | res => some ⟨r.1, res, old⟩
  else none

/-- `from_iter` / `try_from_iter` (stack or boxed) from a scripted user iterator -/
def collectOp (boxed try_ : Bool) (n : Nat) (hint : Nat × Option Nat) (sc : Script) : List Ev × Res :=
  if try_ then tryFromIter (collectFrags boxed) scriptSrc n hint sc
  else fromIter (collectFrags boxed) scriptSrc n hint sc

/-- `collectOp` when the destructor of element `bad` panics: the library's teardown of its
    intermediate values (the builder's written prefix — one `drop_in_place` over a slice, which runs
    every destructor even if one panics —, the extra item of a too-long source) is the same event
    sequence; the panic propagates once those destructors have run, so a result that was `Err`
    becomes a panic.  An `Ok` array is handed to the caller undropped. -/
def collectOpD (boxed try_ : Bool) (n : Nat) (hint : Nat × Option Nat) (sc : Script) (bad : Option Id) : List Ev × Res :=
  let r := collectOp boxed try_ n hint sc
  match bad with
  | some b => if (drops r.1).contains b then (r.1, .panicked) else r
  | none => r

/-- call log: `(call index, arguments)` in program order -/
def callLog : List Ev → List (Nat × List Id)
  | [] => []
  | .give i x :: .give _ y :: t => (i, [x, y]) :: callLog t
  | .give i x :: .lend _ y :: t => (i, [x, y]) :: callLog t
  | .lend i x :: .give _ y :: t => (i, [x, y]) :: callLog t
  | .lend i x :: .lend _ y :: t => (i, [x, y]) :: callLog t
  | .give i x :: t => (i, [x]) :: callLog t
  | .lend i x :: t => (i, [x]) :: callLog t
  | _ :: t => callLog t

end GA.Ops
