import GA.Gen.Alloc
import GA.Lemmas.Tac
import GA.Lemmas.Attr
/-! Bridge obligations for boxed `generate` and the O(1) heap conversions (src/impl_alloc.rs). -/
namespace GA.Bridge.Heap
open GA.Gen.Alloc

@[ga_bridge] theorem boxedWriteBeforeCount_eq : boxedWriteBeforeCount = true := by bridge_bool [boxedWriteBeforeCount]
@[ga_bridge] theorem boxedPosNew_eq (p : Nat) : boxedPosNew p = p + 1 := by bridge_nat [boxedPosNew]
@[ga_bridge] theorem boxedLayoutIsArray_eq : boxedLayoutIsArray = true := by bridge_bool [boxedLayoutIsArray]
@[ga_bridge] theorem defaultBoxedIsGenerate_eq : defaultBoxedIsGenerate = true := by bridge_bool [defaultBoxedIsGenerate]
@[ga_bridge] theorem intoVecReusesBlock_eq : intoVecReusesBlock = true := by bridge_bool [intoVecReusesBlock]
@[ga_bridge] theorem tryFromVecViaBoxedSlice_eq : tryFromVecViaBoxedSlice = true := by bridge_bool [tryFromVecViaBoxedSlice]
@[ga_bridge] theorem boxedSliceCheckBeforeIntoRaw_eq : boxedSliceCheckBeforeIntoRaw = true := by
  bridge_bool [boxedSliceCheckBeforeIntoRaw]
@[ga_bridge] theorem intoBoxedSliceSamePtr_eq : intoBoxedSliceSamePtr = true := by bridge_bool [intoBoxedSliceSamePtr]

end GA.Bridge.Heap
