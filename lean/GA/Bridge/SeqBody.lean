import GA.Gen.SeqBody
import GA.Props.C09
/-!
# Whole-body tie for src/sequence.rs: the interpreted bodies compute the `Vec` operations

For every length, index and element identity, `MemBody.run` on the *regenerated statement lists* of
`GA.Gen.SeqBody` returns exactly the `List` operation's result, drops nothing it hands out and hands out nothing
twice (the result value lists every returned block and every id dropped by the function's own scope end).
-/
namespace GA.Bridge.SeqBody
open GA.MemBody GA.Seq GA.Gen GA.Props.C09

theorem writeAt_uninit_zero (t : Nat) (ys : List Nat) (h : ys.length ≤ t) :
    writeAt (uninit t) 0 ys = some (ys.map some ++ uninit (t - ys.length)) := by
  have e : uninit t = [] ++ uninit ys.length ++ uninit (t - ys.length) := by
    rw [List.nil_append, ← uninit_add]; congr 1; omega
  rw [e, writeAt_gap [] _ ys 0 rfl]; rfl

theorem writeAt_after (p ys : List Nat) (m off : Nat) (hm : ys.length = m) (ho : off = p.length) :
    writeAt (p.map some ++ uninit m) off ys = some ((p ++ ys).map some) := by
  subst hm
  have e : p.map some ++ uninit ys.length = p.map some ++ uninit ys.length ++ [] := by simp
  rw [e, writeAt_gap (p.map some) [] ys off (by simp [ho])]
  simp

@[simp] theorem assumeInit_nil : assumeInit [] = some [] := rfl
@[simp] theorem assumeInit_cons_some (x : Nat) (b : Buf) : assumeInit (some x :: b) = (assumeInit b).map (x :: ·) := by
  unfold assumeInit
  simp [List.mapM_cons]
  cases List.mapM id b <;> rfl
@[simp] theorem assumeInit_map_append (a : List Nat) (b : Buf) :
    assumeInit (a.map some ++ b) = (assumeInit b).map (a ++ ·) := by
  induction a with
  | nil => cases h : assumeInit b <;> simp [h]
  | cons x t ih =>
    simp only [List.map_cons, List.cons_append, assumeInit_cons_some, ih]
    cases assumeInit b <;> rfl

theorem append_body (xs : List Nat) (x k i : Nat) :
    run SeqBody.append ⟨xs.length, k, i⟩ xs [x] = .ok [xs ++ [x]] [] := by
  simp [run, SeqBody.append, exec, step, LX.eval, St.get, St.set, St.scopeDrops,
    writeAt_uninit_zero, writeAt_after, assumeInit_map_some]

theorem prepend_body (xs : List Nat) (x k i : Nat) :
    run SeqBody.prepend ⟨xs.length, k, i⟩ xs [x] = .ok [x :: xs] [] := by
  have h : writeAt (some x :: uninit xs.length) 1 xs = some (some x :: xs.map some) := by
    simpa using writeAt_after [x] xs xs.length 1 rfl rfl
  simp [run, SeqBody.prepend, exec, step, LX.eval, St.get, St.set, St.scopeDrops,
    writeAt_uninit_zero, h, assumeInit_map_some]

theorem concat_body (xs ys : List Nat) (i : Nat) :
    run SeqBody.concat ⟨xs.length, ys.length, i⟩ xs ys = .ok [xs ++ ys] [] := by
  simp [run, SeqBody.concat, exec, step, LX.eval, St.get, St.set, St.scopeDrops,
    writeAt_uninit_zero, writeAt_after, assumeInit_map_some]

theorem readAt_zero_take (xs : List Nat) (l : Nat) (h : l ≤ xs.length) : readAt xs 0 l = some (xs.take l) := by
  simp [readAt, h]
theorem readAt_drop (xs : List Nat) (f l : Nat) (h : f + l = xs.length) : readAt xs f l = some (xs.drop f) := by
  have : f + l ≤ xs.length := by omega
  simp only [readAt, this, if_true]
  congr 1
  apply List.take_of_length_le; simp; omega

/-- `pop_back` (typed only for `N ≥ 1`) -/
theorem popBack_body (xs : List Nat) (x k i : Nat) :
    run SeqBody.popBack ⟨(xs ++ [x]).length, k, i⟩ (xs ++ [x]) [] = .ok [xs, [x]] [] := by
  have h1 : readAt (xs ++ [x]) 0 xs.length = some xs := by
    rw [readAt_zero_take _ _ (by simp)]; simp
  have h2 : readAt (xs ++ [x]) xs.length 1 = some [x] := by
    rw [readAt_drop _ _ _ (by simp)]; simp
  simp [run, SeqBody.popBack, exec, step, LX.eval, St.get, St.set, St.scopeDrops, lookupAll, lookup, h1, h2]

theorem popFront_body (xs : List Nat) (x k i : Nat) :
    run SeqBody.popFront ⟨(x :: xs).length, k, i⟩ (x :: xs) [] = .ok [[x], xs] [] := by
  have h1 : readAt (x :: xs) 0 1 = some [x] := by simp [readAt]
  have h2 : readAt (x :: xs) 1 xs.length = some xs := by
    rw [readAt_drop _ _ _ (by simp; omega)]; simp
  simp [run, SeqBody.popFront, exec, step, LX.eval, St.get, St.set, St.scopeDrops, lookupAll, lookup, h1, h2]

/-- owned `split` at `K ≤ N` -/
theorem split_body (xs : List Nat) (k i : Nat) (hk : k ≤ xs.length) :
    run SeqBody.split ⟨xs.length, k, i⟩ xs [] = .ok [xs.take k, xs.drop k] [] := by
  have h1 := readAt_zero_take xs k hk
  have h2 : readAt xs k (xs.length - k) = some (xs.drop k) := readAt_drop _ _ _ (by omega)
  simp [run, SeqBody.split, exec, step, LX.eval, St.get, St.set, St.scopeDrops, lookupAll, lookup, h1, h2, hk]

theorem readAt_one (xs : List Nat) (i : Nat) (h : i < xs.length) : readAt xs i 1 = some [xs[i]] := by
  have : i + 1 ≤ xs.length := by omega
  simp only [readAt, this, if_true]
  rw [List.drop_eq_getElem_cons h]; rfl

theorem copy_remove (xs : List Nat) (i : Nat) (h : i < xs.length) :
    Seq.copyWithin xs (i + 1) i (xs.length - i - 1) = some (xs.eraseIdx i ++ xs.drop (xs.length - 1)) := by
  have h2 : i + 1 + (xs.length - i - 1) ≤ xs.length ∧ i + (xs.length - i - 1) ≤ xs.length := by omega
  simp only [Seq.copyWithin, h2, and_self, if_true]
  have e1 : List.take (xs.length - i - 1) (List.drop (i + 1) xs) = List.drop (i + 1) xs := by
    apply List.take_of_length_le; simp; omega
  have e2 : i + (xs.length - i - 1) = xs.length - 1 := by omega
  rw [e1, e2, List.eraseIdx_eq_take_drop_succ]

theorem readAt_prefix (a t : List Nat) (l : Nat) (h : l = a.length) : readAt (a ++ t) 0 l = some a := by
  subst h
  simp [readAt]

/-- `remove(i)`: the trait default with the impl's `remove_unchecked` inlined -/
theorem remove_body (xs : List Nat) (i k : Nat) :
    run SeqBody.remove ⟨xs.length, k, i⟩ xs [] =
      if h : i < xs.length then .ok [[xs[i]], xs.eraseIdx i] [] else .panic xs := by
  by_cases h : i < xs.length
  · have a1 : i ≤ xs.length := by omega
    have a2 : 1 ≤ xs.length - i := by omega
    have a3 : ¬ xs.length ≤ i := by omega
    have a4 : ¬ xs.length = 0 := by omega
    have a5 : 1 ≤ xs.length := by omega
    have hp := readAt_prefix (xs.eraseIdx i) (xs.drop (xs.length - 1)) (xs.length - 1) (by rw [List.length_eraseIdx_of_lt h])
    simp [run, SeqBody.remove, exec, step, LX.eval, BX.eval, St.get, St.set, St.scopeDrops, lookupAll, lookup, h, a1, a2, a3,
      a4, a5, readAt_one, copy_remove, hp]
  · have a3 : xs.length ≤ i := by omega
    simp [run, SeqBody.remove, exec, step, LX.eval, BX.eval, St.get, St.set, St.scopeDrops, h]

/-- `swap_remove(i)`: the trait default with the impl's `swap_remove_unchecked` inlined -/
theorem swapRemove_body (xs : List Nat) (i k : Nat) :
    run SeqBody.swapRemove ⟨xs.length, k, i⟩ xs [] =
      if h : i < xs.length then .ok [[xs[i]], (xs.set i (xs[xs.length - 1]'(by omega))).take (xs.length - 1)] []
      else .panic xs := by
  by_cases h : i < xs.length
  · have a3 : ¬ xs.length ≤ i := by omega
    have a4 : ¬ xs.length = 0 := by omega
    have a5 : 1 ≤ xs.length := by omega
    have hl : xs.length - 1 < xs.length := by omega
    have hs : swapAt xs i (xs.length - 1) = some ((xs.set i xs[xs.length - 1]).set (xs.length - 1) xs[i]) := by
      simp [swapAt, List.getElem?_eq_getElem h, List.getElem?_eq_getElem hl]
    have hr : readAt ((xs.set i xs[xs.length - 1]).set (xs.length - 1) xs[i]) (xs.length - 1) 1 = some [xs[i]] := by
      rw [readAt_one _ _ (by simp; omega)]; simp
    have hp : readAt ((xs.set i xs[xs.length - 1]).set (xs.length - 1) xs[i]) 0 (xs.length - 1) =
        some ((xs.set i xs[xs.length - 1]).take (xs.length - 1)) := by
      rw [readAt_zero_take _ _ (by simp)]
      rw [List.take_set_of_le (Nat.le_refl _)]
    simp [run, SeqBody.swapRemove, exec, step, LX.eval, BX.eval, St.get, St.set, St.scopeDrops, lookupAll, lookup, h, a3,
      a4, a5, hs, hr, hp]
  · have a3 : xs.length ≤ i := by omega
    simp [run, SeqBody.swapRemove, exec, step, LX.eval, BX.eval, St.get, St.set, St.scopeDrops, h]

/-- by-reference `split` at `K ≤ N`: two shared views, `[0, K)` and `[K, N)`, both inside the receiver's extent -/
theorem splitRef_body (n k i : Nat) (hk : k ≤ n) :
    runViews false SeqBody.splitRef ⟨n, k, i⟩ = .views [⟨0, k, false⟩, ⟨k, n - k, false⟩] := by
  have h2 : k + (n - k) ≤ n := by omega
  simp [runViews, SeqBody.splitRef, vexec, vstep, lookupP, lookupV, lookupVs, LX.eval, noAlias, hk, h2]

/-- `&mut` split: two *mutable* views made from the one pointer obtained through the unique borrow; they do not overlap -/
theorem splitMut_body (n k i : Nat) (hk : k ≤ n) :
    runViews true SeqBody.splitMut ⟨n, k, i⟩ = .views [⟨0, k, true⟩, ⟨k, n - k, true⟩] := by
  have h2 : k + (n - k) ≤ n := by omega
  simp [runViews, SeqBody.splitMut, vexec, vstep, lookupP, lookupV, lookupVs, LX.eval, noAlias, View.disjoint, hk, h2]

/-! ### The slice reinterpretations of src/lib.rs (`len` = length of the argument slice, passed as `K`) -/

/-- `as_slice` / `as_mut_slice`: one view of exactly the `N` elements at the array's own address, made from the receiver
    reference itself (`self as *const Self` / `self as *mut Self`), writable only through the `&mut` receiver -/
theorem asSlice_body (n k i : Nat) :
    runViews false SeqBody.asSlice ⟨n, k, i⟩ = .views [⟨0, n, false⟩] ∧
    runViews true SeqBody.asMutSlice ⟨n, k, i⟩ = .views [⟨0, n, true⟩] := by
  constructor <;>
    simp [runViews, SeqBody.asSlice, SeqBody.asMutSlice, vexec, vstep, lookupP, lookupV, lookupVs, LX.eval, noAlias]

/-- `from_slice`: panics unless `len = N`; then one shared view of exactly the slice, at its address -/
theorem fromSlice_body (n len i : Nat) :
    runViews false SeqBody.fromSlice ⟨n, len, i⟩ = if len ≠ n then .panic else .views [⟨0, n, false⟩] := by
  by_cases h : len = n
  · subst h; simp [runViews, SeqBody.fromSlice, vexec, vstep, lookupP, lookupV, lookupVs, LX.eval, BX.eval, noAlias]
  · simp [runViews, SeqBody.fromSlice, vexec, vstep, LX.eval, BX.eval, h]

/-- `try_from_slice`: `Err(LengthError)` unless `len = N` -/
theorem tryFromSlice_body (n len i : Nat) :
    runViews false SeqBody.tryFromSlice ⟨n, len, i⟩ = if len ≠ n then .err else .views [⟨0, n, false⟩] := by
  by_cases h : len = n
  · subst h; simp [runViews, SeqBody.tryFromSlice, vexec, vstep, lookupP, lookupV, lookupVs, LX.eval, BX.eval, noAlias]
  · simp [runViews, SeqBody.tryFromSlice, vexec, vstep, LX.eval, BX.eval, h]

/-- `from_mut_slice`: the assertion fails unless `len = N`; then one mutable view made from the unique borrow's pointer -/
theorem fromMutSlice_body (n len i : Nat) :
    runViews true SeqBody.fromMutSlice ⟨n, len, i⟩ = if len = n then .views [⟨0, n, true⟩] else .panic := by
  by_cases h : len = n
  · subst h; simp [runViews, SeqBody.fromMutSlice, vexec, vstep, lookupP, lookupV, lookupVs, LX.eval, BX.eval, noAlias]
  · simp [runViews, SeqBody.fromMutSlice, vexec, vstep, LX.eval, BX.eval, h]

/-- `chunks_from_slice` for `N > 0`: the chunk view covers `[0, (len / N) · N)`, the remainder `[(len / N) · N, len)`;
    both are made from pointers to the argument slice and lie inside it -/
theorem chunksFromSlice_body (n len i : Nat) (hn : 0 < n) :
    runViews false SeqBody.chunksFromSlice ⟨n, len, i⟩ =
      .views [⟨0, len / n * n, false⟩, ⟨len / n * n, len - len / n * n, false⟩] := by
  have h0 : ¬ n = 0 := by omega
  have h1 : len / n * n ≤ len := Nat.div_mul_le_self len n
  have h2 : len / n * n + (len - len / n * n) ≤ len := by omega
  simp [runViews, SeqBody.chunksFromSlice, vexec, vstep, lookupP, lookupV, lookupVs, LX.eval, BX.eval, noAlias, h0, h1, h2]

/-- `chunks_from_slice` for `N = 0`: two empty views for an empty slice, the assertion fails otherwise -/
theorem chunksFromSlice_body_zero (len i : Nat) :
    runViews false SeqBody.chunksFromSlice ⟨0, len, i⟩ = if len = 0 then .views [⟨0, 0, false⟩, ⟨0, 0, false⟩] else .panic := by
  by_cases h : len = 0
  · subst h; simp [runViews, SeqBody.chunksFromSlice, vexec, vstep, LX.eval, BX.eval, List.replicate]
  · simp [runViews, SeqBody.chunksFromSlice, vexec, vstep, LX.eval, BX.eval, h]

/-- `chunks_from_slice_mut` for `N > 0`: the same two extents as mutable views, both from the *one* pointer taken
    through the unique borrow (a second `as_mut_ptr()` would end the first view — the defect repaired in /repo), and
    they do not overlap -/
theorem chunksFromSliceMut_body (n len i : Nat) (hn : 0 < n) :
    runViews true SeqBody.chunksFromSliceMut ⟨n, len, i⟩ =
      .views [⟨0, len / n * n, true⟩, ⟨len / n * n, len - len / n * n, true⟩] := by
  have h0 : ¬ n = 0 := by omega
  have h1 : len / n * n ≤ len := Nat.div_mul_le_self len n
  have h2 : len / n * n + (len - len / n * n) ≤ len := by omega
  simp [runViews, SeqBody.chunksFromSliceMut, vexec, vstep, lookupP, lookupV, lookupVs, LX.eval, BX.eval, noAlias, View.disjoint,
    h0, h1, h2]

theorem chunksFromSliceMut_body_zero (len i : Nat) :
    runViews true SeqBody.chunksFromSliceMut ⟨0, len, i⟩ = if len = 0 then .views [⟨0, 0, true⟩, ⟨0, 0, true⟩] else .panic := by
  by_cases h : len = 0
  · subst h; simp [runViews, SeqBody.chunksFromSliceMut, vexec, vstep, LX.eval, BX.eval, List.replicate]
  · simp [runViews, SeqBody.chunksFromSliceMut, vexec, vstep, LX.eval, BX.eval, h]

/-- `slice_from_chunks(_mut)`: one view of all `len · N` elements of the chunk slice, at its address -/
theorem sliceFromChunks_body (n len i : Nat) :
    runViews false SeqBody.sliceFromChunks ⟨n, len, i⟩ = .views [⟨0, len * n, false⟩] ∧
    runViews true SeqBody.sliceFromChunksMut ⟨n, len, i⟩ = .views [⟨0, len * n, true⟩] := by
  constructor <;>
    simp [runViews, SeqBody.sliceFromChunks, SeqBody.sliceFromChunksMut, vexec, vstep, lookupP, lookupV, lookupVs, LX.eval, noAlias]

/-- by-reference `flatten` (`N·M` elements; `K` carries `M`) and `unflatten` (`NM` elements; `K` carries `NM`): the receiver
    reference retyped — one view of the whole storage at its address, with the receiver's mutability -/
theorem regroupRef_body (n k i : Nat) :
    runViews false SeqBody.flattenRef ⟨n, k, i⟩ = .views [⟨0, n * k, false⟩] ∧
    runViews true SeqBody.flattenMut ⟨n, k, i⟩ = .views [⟨0, n * k, true⟩] ∧
    runViews false SeqBody.unflattenRef ⟨n, k, i⟩ = .views [⟨0, k, false⟩] ∧
    runViews true SeqBody.unflattenMut ⟨n, k, i⟩ = .views [⟨0, k, true⟩] := by
  refine ⟨?_, ?_, ?_, ?_⟩ <;>
    simp [runViews, SeqBody.flattenRef, SeqBody.flattenMut, SeqBody.unflattenRef, SeqBody.unflattenMut, vexec, vstep, lookupV,
      lookupVs, LX.eval, noAlias]

end GA.Bridge.SeqBody
