import GA.Gen.SeqBody
import GA.Props.C09
/-!
# Whole-body tie for src/sequence.rs: the interpreted bodies compute the `Vec` operations

For every length, index and element identity, `MemBody.run` on the *regenerated statement lists* of
`GA.Gen.SeqBody` returns exactly the `List` operation's result, drops nothing it hands out and hands out nothing
twice (the result value lists every returned block and every id dropped by the function's own scope end).

One bridge module per function family, so that a body that can no longer be lowered (or whose theorem no longer checks)
fails the obligations of the properties that are about that function and of no other: this module holds the owned
sequence operations and the by-reference `split` (C09, C03); `GA.Bridge.SliceBody` the slice views of src/lib.rs (C02),
`GA.Bridge.ChunkBody` the chunk views (C10), `GA.Bridge.RegroupBody` by-reference flatten / unflatten (C11).
-/
namespace GA.Bridge.SeqBody
open GA.MemBody GA.Seq GA.Gen GA.Props.C09

theorem writeAt_uninit_zero (t : Nat) (ys : List Nat) (h : ys.length ≤ t) :
    writeAt (uninit t) 0 ys = some (ys.map some ++ uninit (t - ys.length)) := by
  have e : uninit t = [] ++ uninit ys.length ++ uninit (t - ys.length) := by
    rw [List.nil_append, ← uninit_add]; congr 1; omega
  rw [e, writeAt_gap [] _ ys 0 rfl]; rfl

theorem writeAt_after (p ys : List Nat) (m off : Nat) (hm : ys.length = m) (ho : off = p.length) :
    writeAt (p.map some ++ uninit m) off ys = some ((p ++ ys).map some) := by
  subst hm
  have e : p.map some ++ uninit ys.length = p.map some ++ uninit ys.length ++ [] := by simp
  rw [e, writeAt_gap (p.map some) [] ys off (by simp [ho])]
  simp

@[simp] theorem assumeInit_nil : assumeInit [] = some [] := rfl
@[simp] theorem assumeInit_cons_some (x : Nat) (b : Buf) : assumeInit (some x :: b) = (assumeInit b).map (x :: ·) := by
  unfold assumeInit
  simp [List.mapM_cons]
  cases List.mapM id b <;> rfl
@[simp] theorem assumeInit_map_append (a : List Nat) (b : Buf) :
    assumeInit (a.map some ++ b) = (assumeInit b).map (a ++ ·) := by
  induction a with
  | nil => cases h : assumeInit b <;> simp [h]
  | cons x t ih =>
    simp only [List.map_cons, List.cons_append, assumeInit_cons_some, ih]
    cases assumeInit b <;> rfl

theorem append_body (xs : List Nat) (x k i : Nat) :
    run SeqBody.append ⟨xs.length, k, i⟩ xs [x] = .ok [xs ++ [x]] [] := by
  simp [run, SeqBody.append, exec, step, LX.eval, St.get, St.set, St.scopeDrops,
    writeAt_uninit_zero, writeAt_after, assumeInit_map_some]

theorem prepend_body (xs : List Nat) (x k i : Nat) :
    run SeqBody.prepend ⟨xs.length, k, i⟩ xs [x] = .ok [x :: xs] [] := by
  have h : writeAt (some x :: uninit xs.length) 1 xs = some (some x :: xs.map some) := by
    simpa using writeAt_after [x] xs xs.length 1 rfl rfl
  simp [run, SeqBody.prepend, exec, step, LX.eval, St.get, St.set, St.scopeDrops,
    writeAt_uninit_zero, h, assumeInit_map_some]

theorem concat_body (xs ys : List Nat) (i : Nat) :
    run SeqBody.concat ⟨xs.length, ys.length, i⟩ xs ys = .ok [xs ++ ys] [] := by
  simp [run, SeqBody.concat, exec, step, LX.eval, St.get, St.set, St.scopeDrops,
    writeAt_uninit_zero, writeAt_after, assumeInit_map_some]

theorem readAt_zero_take (xs : List Nat) (l : Nat) (h : l ≤ xs.length) : readAt xs 0 l = some (xs.take l) := by
  simp [readAt, h]
theorem readAt_drop (xs : List Nat) (f l : Nat) (h : f + l = xs.length) : readAt xs f l = some (xs.drop f) := by
  have : f + l ≤ xs.length := by omega
  simp only [readAt, this, if_true]
  congr 1
  apply List.take_of_length_le; simp; omega

/-- `pop_back` (typed only for `N ≥ 1`) -/
theorem popBack_body (xs : List Nat) (x k i : Nat) :
    run SeqBody.popBack ⟨(xs ++ [x]).length, k, i⟩ (xs ++ [x]) [] = .ok [xs, [x]] [] := by
  have h1 : readAt (xs ++ [x]) 0 xs.length = some xs := by
    rw [readAt_zero_take _ _ (by simp)]; simp
  have h2 : readAt (xs ++ [x]) xs.length 1 = some [x] := by
    rw [readAt_drop _ _ _ (by simp)]; simp
  simp [run, SeqBody.popBack, exec, step, LX.eval, St.get, St.set, St.scopeDrops, lookupAll, lookup, h1, h2]

theorem popFront_body (xs : List Nat) (x k i : Nat) :
    run SeqBody.popFront ⟨(x :: xs).length, k, i⟩ (x :: xs) [] = .ok [[x], xs] [] := by
  have h1 : readAt (x :: xs) 0 1 = some [x] := by simp [readAt]
  have h2 : readAt (x :: xs) 1 xs.length = some xs := by
    rw [readAt_drop _ _ _ (by simp; omega)]; simp
  simp [run, SeqBody.popFront, exec, step, LX.eval, St.get, St.set, St.scopeDrops, lookupAll, lookup, h1, h2]

/-- owned `split` at `K ≤ N` -/
theorem split_body (xs : List Nat) (k i : Nat) (hk : k ≤ xs.length) :
    run SeqBody.split ⟨xs.length, k, i⟩ xs [] = .ok [xs.take k, xs.drop k] [] := by
  have h1 := readAt_zero_take xs k hk
  have h2 : readAt xs k (xs.length - k) = some (xs.drop k) := readAt_drop _ _ _ (by omega)
  simp [run, SeqBody.split, exec, step, LX.eval, St.get, St.set, St.scopeDrops, lookupAll, lookup, h1, h2, hk]

theorem readAt_one (xs : List Nat) (i : Nat) (h : i < xs.length) : readAt xs i 1 = some [xs[i]] := by
  have : i + 1 ≤ xs.length := by omega
  simp only [readAt, this, if_true]
  rw [List.drop_eq_getElem_cons h]; rfl

theorem copy_remove (xs : List Nat) (i : Nat) (h : i < xs.length) :
    Seq.copyWithin xs (i + 1) i (xs.length - i - 1) = some (xs.eraseIdx i ++ xs.drop (xs.length - 1)) := by
  have h2 : i + 1 + (xs.length - i - 1) ≤ xs.length ∧ i + (xs.length - i - 1) ≤ xs.length := by omega
  simp only [Seq.copyWithin, h2, and_self, if_true]
  have e1 : List.take (xs.length - i - 1) (List.drop (i + 1) xs) = List.drop (i + 1) xs := by
    apply List.take_of_length_le; simp; omega
  have e2 : i + (xs.length - i - 1) = xs.length - 1 := by omega
  rw [e1, e2, List.eraseIdx_eq_take_drop_succ]

theorem readAt_prefix (a t : List Nat) (l : Nat) (h : l = a.length) : readAt (a ++ t) 0 l = some a := by
  subst h
  simp [readAt]

/-- `remove(i)`: the trait default with the impl's `remove_unchecked` inlined -/
theorem remove_body (xs : List Nat) (i k : Nat) :
    run SeqBody.remove ⟨xs.length, k, i⟩ xs [] =
      if h : i < xs.length then .ok [[xs[i]], xs.eraseIdx i] [] else .panic xs := by
  by_cases h : i < xs.length
  · have a1 : i ≤ xs.length := by omega
    have a2 : 1 ≤ xs.length - i := by omega
    have a3 : ¬ xs.length ≤ i := by omega
    have a4 : ¬ xs.length = 0 := by omega
    have a5 : 1 ≤ xs.length := by omega
    have hp := readAt_prefix (xs.eraseIdx i) (xs.drop (xs.length - 1)) (xs.length - 1) (by rw [List.length_eraseIdx_of_lt h])
    simp [run, SeqBody.remove, exec, step, LX.eval, BX.eval, St.get, St.set, St.scopeDrops, lookupAll, lookup, h, a1, a2, a3,
      a4, a5, readAt_one, copy_remove, hp]
  · have a3 : xs.length ≤ i := by omega
    simp [run, SeqBody.remove, exec, step, LX.eval, BX.eval, St.get, St.set, St.scopeDrops, h]

/-- `swap_remove(i)`: the trait default with the impl's `swap_remove_unchecked` inlined -/
theorem swapRemove_body (xs : List Nat) (i k : Nat) :
    run SeqBody.swapRemove ⟨xs.length, k, i⟩ xs [] =
      if h : i < xs.length then .ok [[xs[i]], (xs.set i (xs[xs.length - 1]'(by omega))).take (xs.length - 1)] []
      else .panic xs := by
  by_cases h : i < xs.length
  · have a3 : ¬ xs.length ≤ i := by omega
    have a4 : ¬ xs.length = 0 := by omega
    have a5 : 1 ≤ xs.length := by omega
    have hl : xs.length - 1 < xs.length := by omega
    have hs : swapAt xs i (xs.length - 1) = some ((xs.set i xs[xs.length - 1]).set (xs.length - 1) xs[i]) := by
      simp [swapAt, List.getElem?_eq_getElem h, List.getElem?_eq_getElem hl]
    have hr : readAt ((xs.set i xs[xs.length - 1]).set (xs.length - 1) xs[i]) (xs.length - 1) 1 = some [xs[i]] := by
      rw [readAt_one _ _ (by simp; omega)]; simp
    have hp : readAt ((xs.set i xs[xs.length - 1]).set (xs.length - 1) xs[i]) 0 (xs.length - 1) =
        some ((xs.set i xs[xs.length - 1]).take (xs.length - 1)) := by
      rw [readAt_zero_take _ _ (by simp)]
      rw [List.take_set_of_le (Nat.le_refl _)]
    simp [run, SeqBody.swapRemove, exec, step, LX.eval, BX.eval, St.get, St.set, St.scopeDrops, lookupAll, lookup, h, a3,
      a4, a5, hs, hr, hp]
  · have a3 : xs.length ≤ i := by omega
    simp [run, SeqBody.swapRemove, exec, step, LX.eval, BX.eval, St.get, St.set, St.scopeDrops, h]

/-- by-reference `split` at `K ≤ N`: two shared views, `[0, K)` and `[K, N)`, both inside the receiver's extent -/
theorem splitRef_body (n k i : Nat) (hk : k ≤ n) :
    runViews false SeqBody.splitRef ⟨n, k, i⟩ = .views [⟨0, k, false⟩, ⟨k, n - k, false⟩] := by
  have h2 : k + (n - k) ≤ n := by omega
  simp [runViews, SeqBody.splitRef, vexec, vstep, lookupP, lookupV, lookupVs, LX.eval, noAlias, hk, h2]

/-- `&mut` split: two *mutable* views made from the one pointer obtained through the unique borrow; they do not overlap -/
theorem splitMut_body (n k i : Nat) (hk : k ≤ n) :
    runViews true SeqBody.splitMut ⟨n, k, i⟩ = .views [⟨0, k, true⟩, ⟨k, n - k, true⟩] := by
  have h2 : k + (n - k) ≤ n := by omega
  simp [runViews, SeqBody.splitMut, vexec, vstep, lookupP, lookupV, lookupVs, LX.eval, noAlias, View.disjoint, hk, h2]

end GA.Bridge.SeqBody
