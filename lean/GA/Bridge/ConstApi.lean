import GA.Gen.Mem
import GA.Lemmas.Tac
import GA.Lemmas.Attr
namespace GA.Bridge.ConstApi
open GA.Gen.Mem
@[ga_bridge] theorem asMutSliceProvenanceOk_eq : asMutSliceProvenanceOk = true := by bridge_bool [asMutSliceProvenanceOk]
@[ga_bridge] theorem fromMutSliceProvenanceOk_eq : fromMutSliceProvenanceOk = true := by bridge_bool [fromMutSliceProvenanceOk]
@[ga_bridge] theorem chunksMutProvenanceOk_eq : chunksMutProvenanceOk = true := by bridge_bool [chunksMutProvenanceOk]
@[ga_bridge] theorem flatMutProvenanceOk_eq : flatMutProvenanceOk = true := by bridge_bool [flatMutProvenanceOk]
@[ga_bridge] theorem transmuteViaUnion_eq : transmuteViaUnion = true := by bridge_bool [transmuteViaUnion]
@[ga_bridge] theorem tryFromMutSliceViaFromMutSlice_eq : tryFromMutSliceViaFromMutSlice = true := by bridge_bool [tryFromMutSliceViaFromMutSlice]

/-- every function of the const API is declared `const fn` -/
theorem all_const : ∀ name ∈ ["len", "as_slice", "as_mut_slice", "from_slice", "try_from_slice", "from_mut_slice",
    "try_from_mut_slice", "chunks_from_slice", "chunks_from_slice_mut", "slice_from_chunks", "slice_from_chunks_mut",
    "from_array", "into_array", "from_chunks", "from_chunks_mut", "into_chunks", "into_chunks_mut", "uninit",
    "assume_init", "const_transmute"], constFns.contains name = true := by decide
end GA.Bridge.ConstApi
