import GA.Bridge.BodyCollect
import GA.Bridge.HeapGen
import GA.Bridge.Heap
import GA.Model.Heap
/-!
Refinement obligation for the whole body of `<Box<GenericArray<T, N>> as GenericSequence<T>>::generate`
(src/impl_alloc.rs) — layout test, `alloc`, null test with `handle_alloc_error`, the `DeallocOnDrop`
guard (its `Drop` impl is translated too), the builder over the raw block, the fill loop, `finish`,
`forget(guard)`, `Box::from_raw` — against the allocator-event model `GA.Heap.boxedGenerate`.
-/
namespace GA.Bridge.BodyBoxed
open GA.Body GA.Own GA.Bridge.Body GA.Bridge.BodyCollect

def toH : GA.Body.AEv → GA.Heap.AEv
  | .alloc b s a => .alloc b s a
  | .allocFail s a => .allocFail s a
  | .dealloc b s a => .dealloc b s a
  | .handleAllocError => .handleAllocError
  | .nullDeref => .nullDeref

/-- builder state with an arbitrary extension (allocator trace, guard) -/
def bstX (selfO : O) (outL : List Nat) (rem calls : Nat) (fg : Bool) (pl : Nat) (ex : StExt) : St :=
  ⟨selfO, ⟨outL ++ List.replicate rem 0, 0, 0, outL.length, List.range' outL.length rem⟩, true, calls, fg, pl, false, ex⟩

def thenOf : S → S
  | .ite _ t _ => t
  | _ => .opaque 0
def elseOf : S → S
  | .ite _ _ e => e
  | _ => .opaque 0
/-- the `forSlots` body inside a branch -/
def slotsBodyOf : S → S
  | .letv _ k => slotsBodyOf k
  | .guardNew _ k => slotsBodyOf k
  | .builderAt _ k => slotsBodyOf k
  | .allocS k => slotsBodyOf k
  | .ite _ _ e => slotsBodyOf e
  | .forSlots b _ => b
  | _ => .opaque 0

/-- the fill loop of boxed `generate`, dangling branch (environment `[ptr]`) -/
theorem gen_loop_dangling (c : Ctx) (selfO : O) (fg : Bool) (pl : Nat) (ex : StExt) (e0 : V) :
    ∀ (rem : Nat) (outL : List Nat) (calls : Nat), outL.length + rem < word →
      loopOver (fun p s =>
          match p with
          | .pair i d => exec c (slotsBodyOf (thenOf Gen.Body.boxedGenerate.body)) ([e0] ++ [i, d]) s
          | _ => ([], .ub, s))
          ((List.range' outL.length rem).map fun p => V.pair (.nat p) (.slot .out p)) (bstX selfO outL rem calls fg pl ex)
        = ((genSpec c.cl rem outL.length outL).1,
           (if (genSpec c.cl rem outL.length outL).2.1 then R.ret .unit else R.panicked),
           bstX selfO (genSpec c.cl rem outL.length outL).2.2.1
             (outL.length + rem - (genSpec c.cl rem outL.length outL).2.2.1.length)
             (calls + (genSpec c.cl rem outL.length outL).2.2.2) fg pl ex) := by
  intro rem
  induction rem with
  | zero => intro outL calls _; simp [loopOver, genSpec, bstX]
  | succ rem ih =>
    intro outL calls hw
    have hw1 : outL.length + 1 < word := by omega
    rw [List.range'_succ, List.map_cons]
    cases hf : c.cl outL.length with
    | none =>
      simp [loopOver, slotsBodyOf, thenOf, Gen.Body.boxedGenerate, exec, eval, natOf, genSpec, hf, bstX]
    | some y =>
      have := ih (outL ++ [y]) (calls + 1) (by simp; omega)
      simp only [List.length_append, List.length_cons, List.length_nil, Nat.zero_add, bstX] at this
      simp only [loopOver, genSpec, hf, bstX]
      simp [slotsBodyOf, thenOf, Gen.Body.boxedGenerate, exec, eval, St.obj, St.putObj, O.get, O.put, natOf, hw1, hf,
        repl_set0, erase_fresh] at this ⊢
      rw [this]
      simp
      omega

/-- the fill loop of boxed `generate`, allocated branch (environment `[ptr, ptr]`) -/
theorem gen_loop_alloc (c : Ctx) (selfO : O) (fg : Bool) (pl : Nat) (ex : StExt) (e0 e1 : V) :
    ∀ (rem : Nat) (outL : List Nat) (calls : Nat), outL.length + rem < word →
      loopOver (fun p s =>
          match p with
          | .pair i d => exec c (slotsBodyOf (elseOf Gen.Body.boxedGenerate.body)) ([e0, e1] ++ [i, d]) s
          | _ => ([], .ub, s))
          ((List.range' outL.length rem).map fun p => V.pair (.nat p) (.slot .out p)) (bstX selfO outL rem calls fg pl ex)
        = ((genSpec c.cl rem outL.length outL).1,
           (if (genSpec c.cl rem outL.length outL).2.1 then R.ret .unit else R.panicked),
           bstX selfO (genSpec c.cl rem outL.length outL).2.2.1
             (outL.length + rem - (genSpec c.cl rem outL.length outL).2.2.1.length)
             (calls + (genSpec c.cl rem outL.length outL).2.2.2) fg pl ex) := by
  intro rem
  induction rem with
  | zero => intro outL calls _; simp [loopOver, genSpec, bstX]
  | succ rem ih =>
    intro outL calls hw
    have hw1 : outL.length + 1 < word := by omega
    rw [List.range'_succ, List.map_cons]
    cases hf : c.cl outL.length with
    | none =>
      simp [loopOver, slotsBodyOf, elseOf, Gen.Body.boxedGenerate, exec, eval, natOf, genSpec, hf, bstX]
    | some y =>
      have := ih (outL ++ [y]) (calls + 1) (by simp; omega)
      simp only [List.length_append, List.length_cons, List.length_nil, Nat.zero_add, bstX] at this
      simp only [loopOver, genSpec, hf, bstX]
      simp [slotsBodyOf, elseOf, Gen.Body.boxedGenerate, exec, eval, St.obj, St.putObj, O.get, O.put, natOf, hw1, hf,
        repl_set0, erase_fresh] at this ⊢
      rw [this]
      simp
      omega

theorem exec_allocS (c : Ctx) (k : S) (env : List V) (st : St) :
    exec c (.allocS k) env st =
      if c.ext.allocOk then
        exec c k (env ++ [.ptr (some 1)])
          { st with ext := { st.ext with atrace := st.ext.atrace ++ [.alloc 1 (c.n * c.ext.esz) c.ext.ealign] } }
      else
        exec c k (env ++ [.null])
          { st with ext := { st.ext with atrace := st.ext.atrace ++ [.allocFail (c.n * c.ext.esz) c.ext.ealign] } } := by
  first | rfl | (simp only [exec]; rfl)
theorem exec_abortAlloc (c : Ctx) (env : List V) (st : St) :
    exec c .abortAlloc env st =
      ([], .panicked, { st with ext := { st.ext with atrace := st.ext.atrace ++ [.handleAllocError], aborted := true } }) := by
  first | rfl | (simp only [exec]; rfl)
theorem exec_guardNew (c : Ctx) (p : X) (k : S) (env : List V) (st : St) :
    exec c (.guardNew p k) env st = match eval c env st p with
      | some v => exec c k env { st with ext := { st.ext with guard := some v } }
      | none => ([], .ub, st) := by
  first | rfl | (simp only [exec]; rfl)
theorem exec_guardForget (c : Ctx) (k : S) (env : List V) (st : St) :
    exec c (.guardForget k) env st = exec c k env { st with ext := { st.ext with guard := none } } := by
  first | rfl | (simp only [exec]; rfl)
theorem exec_builderAt (c : Ctx) (p : X) (k : S) (env : List V) (st : St) :
    exec c (.builderAt p k) env st = match eval c env st p with
      | some (.ptr _) =>
        exec c k env { st with out := ⟨List.replicate c.n 0, 0, 0, 0, List.range c.n⟩, hasOut := true, outForgot := false }
      | some .null => ([], .ub, { st with ext := { st.ext with atrace := st.ext.atrace ++ [.nullDeref] } })
      | _ => ([], .ub, st) := by
  first | rfl | (simp only [exec]; rfl)
theorem exec_deallocS (c : Ctx) (p : X) (k : S) (env : List V) (st : St) :
    exec c (.deallocS p k) env st = match eval c env st p with
      | some (.ptr b) =>
        exec c k env { st with ext := { st.ext with atrace := st.ext.atrace ++ [.dealloc (b.getD 0) (c.n * c.ext.esz) c.ext.ealign] } }
      | _ => ([], .ub, st) := by
  first | rfl | (simp only [exec]; rfl)

open Lean.Parser.Tactic in
macro "boxed_simp" "[" ts:simpLemma,* "]" : tactic =>
  `(tactic| simp [runFnB, runDropOn, exec_forSlots, exec_ite, exec_letv, exec_forgetO_out, exec_done, exec_drop,
      exec_allocS, exec_abortAlloc, exec_guardNew, exec_guardForget, exec_builderAt, exec_deallocS,
      eval, St.obj, St.putObj, O.get, O.put, natOf, boolOf, resolve, GA.Body.panics, List.range_eq_range', toH, $ts,*])

/-- **Boxed `generate`, whole body.**  For every length, element layout, generator (returning or
    panicking at any call) and allocator outcome: the allocator events, the element events and the
    result of interpreting the regenerated body (with the regenerated `Drop for DeallocOnDrop` and
    `Drop for IntrusiveArrayBuilder` run while unwinding, builder first) are those of
    `GA.Heap.boxedGenerate` — up to the later drop of the returned `Box`, which is `alloc`'s. -/
theorem boxedGenerate_body (c : Ctx) (hn : c.n < word) (hb : c.bad = none) (selfO : O) :
    let r := runFnB c Gen.Body.intrusiveDrop.body Gen.Body.deallocGuardDrop.body Gen.Body.boxedGenerate []
      ⟨selfO, ⟨[], 0, 0, 0, []⟩, false, 0, false, 0, false, {}⟩
    let m := GA.Heap.boxedGenerate c.ext.esz c.ext.ealign c.n c.cl c.ext.allocOk
    match r.2.1 with
    | .ret (.boxed blk out) =>
      blk = (if c.n * c.ext.esz = 0 then none else some 1) ∧
      m.res = .ok out ∧ m.etrace = r.1 ++ out.map .drop ∧
      m.atrace = r.2.2.ext.atrace.map toH ++
        (if c.n * c.ext.esz = 0 then [] else [.dealloc 1 (c.n * c.ext.esz) c.ext.ealign])
    | .panicked =>
      m.res = (if r.2.2.ext.aborted then .aborted else .panicked) ∧ m.etrace = r.1 ∧ m.atrace = r.2.2.ext.atrace.map toH
    | _ => False := by
  have hlen := genSpec_len c.cl c.n 0 []
  have hm := own_genLoop_eq c.cl c.n 0 []
  simp only [GA.Heap.boxedGenerate, GA.Bridge.Heap.boxedWriteBeforeCount_eq, GA.Bridge.HeapGen.boxedNullChecked_eq, GA.Bridge.HeapGen.boxedDanglingAligned_eq,
    GA.Bridge.HeapGen.boxedDeallocGuard_eq, Gen.Alloc.boxedNoAlloc, hm]
  by_cases hsz : c.n * c.ext.esz = 0
  · -- no allocation: dangling block
    have hl := gen_loop_dangling c selfO false 0 { guard := some (.ptr none) } (.ptr none) c.n [] 0 (by simpa using hn)
    simp only [slotsBodyOf, thenOf, Gen.Body.boxedGenerate, List.length_nil, Nat.zero_add, bstX, List.nil_append,
      List.cons_append] at hl
    generalize hq : genSpec c.cl c.n 0 [] = q at hl hlen
    obtain ⟨tr, ok, out, cnt⟩ := q
    simp only [List.length_nil, Nat.zero_add] at hlen
    obtain ⟨_, hle, hfull⟩ := hlen
    simp only at hl hle hfull
    have hd := dropEvs_written out (c.n - out.length)
    cases ok
    · have hle' : out.length ≤ c.n - out.length + out.length := by omega
      boxed_simp [Gen.Body.boxedGenerate, Gen.Body.intrusiveDrop, Gen.Body.deallocGuardDrop, hsz, hb]
      erw [hl]
      boxed_simp [Gen.Body.intrusiveDrop, Gen.Body.deallocGuardDrop, hsz, hb, hd, hle']
    · have hlen : out.length = c.n := hfull rfl
      have e0 : c.n - out.length = 0 := by omega
      boxed_simp [Gen.Body.boxedGenerate, Gen.Body.intrusiveDrop, Gen.Body.deallocGuardDrop, hsz, hb]
      erw [hl]
      boxed_simp [Gen.Body.intrusiveDrop, Gen.Body.deallocGuardDrop, hsz, hb, hlen, e0]
  · by_cases hok : c.ext.allocOk = true
    · have hl := gen_loop_alloc c selfO false 0 { atrace := [.alloc 1 (c.n * c.ext.esz) c.ext.ealign], guard := some (.ptr (some 1)) }
        (.ptr (some 1)) (.ptr (some 1)) c.n [] 0 (by simpa using hn)
      simp only [slotsBodyOf, elseOf, Gen.Body.boxedGenerate, List.length_nil, Nat.zero_add, bstX, List.nil_append,
        List.cons_append] at hl
      generalize hq : genSpec c.cl c.n 0 [] = q at hl hlen
      obtain ⟨tr, ok, out, cnt⟩ := q
      simp only [List.length_nil, Nat.zero_add] at hlen
      obtain ⟨_, hle, hfull⟩ := hlen
      simp only at hl hle hfull
      have hd := dropEvs_written out (c.n - out.length)
      cases ok
      · have hle' : out.length ≤ c.n - out.length + out.length := by omega
        boxed_simp [Gen.Body.boxedGenerate, Gen.Body.intrusiveDrop, Gen.Body.deallocGuardDrop, hsz, hb, hok]
        erw [hl]
        boxed_simp [Gen.Body.intrusiveDrop, Gen.Body.deallocGuardDrop, hsz, hb, hd, hle', hok]
      · have hlen : out.length = c.n := hfull rfl
        have e0 : c.n - out.length = 0 := by omega
        boxed_simp [Gen.Body.boxedGenerate, Gen.Body.intrusiveDrop, Gen.Body.deallocGuardDrop, hsz, hb, hok]
        erw [hl]
        boxed_simp [Gen.Body.intrusiveDrop, Gen.Body.deallocGuardDrop, hsz, hb, hlen, e0, hok]
    · have hok' : c.ext.allocOk = false := by simpa using hok
      boxed_simp [Gen.Body.boxedGenerate, Gen.Body.intrusiveDrop, Gen.Body.deallocGuardDrop, hsz, hb, hok']


end GA.Bridge.BodyBoxed
