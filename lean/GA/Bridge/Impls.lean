import GA.Gen.Impls
import GA.Lemmas.Tac
import GA.Lemmas.Attr
namespace GA.Bridge.Impls
open GA.Gen.Impls
/-! obligations: each regenerated impl body of `src/impls.rs` is the plain delegation to the slice -/
@[ga_bridge] theorem eqBody_eq {σ : Type} (sEq : σ → σ → Bool) (same : Bool) (a b : σ) :
    eqBody sEq same a b = sEq a b := by unfold eqBody; rfl
@[ga_bridge] theorem partialCmpBody_eq {σ : Type} (sP : σ → σ → Option Ordering) (same : Bool) (a b : σ) :
    partialCmpBody sP same a b = sP a b := by unfold partialCmpBody; rfl
@[ga_bridge] theorem cmpBody_eq {σ : Type} (sC : σ → σ → Ordering) (same : Bool) (a b : σ) :
    cmpBody sC same a b = sC a b := by unfold cmpBody; rfl
@[ga_bridge] theorem hashBody_eq {σ τ : Type} (sHash sHashSlice : σ → τ) (a : σ) :
    hashBody sHash sHashSlice a = sHash a := by unfold hashBody; rfl
@[ga_bridge] theorem debugBody_eq {σ φ : Type} (sDbg : φ → σ → String) (dflt fl : φ) (a : σ) :
    debugBody sDbg dflt fl a = sDbg fl a := by unfold debugBody; rfl
@[ga_bridge] theorem eqRequiresElemEq_eq : eqRequiresElemEq = true := by bridge_bool [eqRequiresElemEq]
end GA.Bridge.Impls
