import GA.Gen.Seq
import GA.Lemmas.Tac
import GA.Lemmas.Attr
/-! Bridge obligations for the element offsets, counts and guards of src/sequence.rs. -/
namespace GA.Bridge.Seq
open GA.Gen.Seq

@[ga_bridge] theorem appendSelfOff_eq (n : Nat) : appendSelfOff n = 0 := by bridge_nat [appendSelfOff]
@[ga_bridge] theorem appendLastOff_eq (n : Nat) : appendLastOff n = n := by bridge_nat [appendLastOff]
@[ga_bridge] theorem prependFirstOff_eq (n : Nat) : prependFirstOff n = 0 := by bridge_nat [prependFirstOff]
@[ga_bridge] theorem prependSelfOff_eq (n : Nat) : prependSelfOff n = 1 := by bridge_nat [prependSelfOff]
@[ga_bridge] theorem concatSelfOff_eq (n m : Nat) : concatSelfOff n m = 0 := by bridge_nat [concatSelfOff]
@[ga_bridge] theorem concatRestOff_eq (n m : Nat) : concatRestOff n m = n := by bridge_nat [concatRestOff]
@[ga_bridge] theorem popBackInitOff_eq (n : Nat) : popBackInitOff n = 0 := by bridge_nat [popBackInitOff]
@[ga_bridge] theorem popBackLastOff_eq (n : Nat) : popBackLastOff n = n - 1 := by bridge_nat [popBackLastOff]
@[ga_bridge] theorem popFrontHeadOff_eq (n : Nat) : popFrontHeadOff n = 0 := by bridge_nat [popFrontHeadOff]
@[ga_bridge] theorem popFrontTailOff_eq (n : Nat) : popFrontTailOff n = 1 := by bridge_nat [popFrontTailOff]
@[ga_bridge] theorem popBackManuallyDrop_eq : popBackManuallyDrop = true := by bridge_bool [popBackManuallyDrop]
@[ga_bridge] theorem popFrontManuallyDrop_eq : popFrontManuallyDrop = true := by bridge_bool [popFrontManuallyDrop]
@[ga_bridge] theorem splitHeadOff_eq (n k : Nat) : splitHeadOff n k = 0 := by bridge_nat [splitHeadOff]
@[ga_bridge] theorem splitTailOff_eq (n k : Nat) : splitTailOff n k = k := by bridge_nat [splitTailOff]
@[ga_bridge] theorem splitManuallyDrop_eq : splitManuallyDrop = true := by bridge_bool [splitManuallyDrop]
@[ga_bridge] theorem splitRefHeadOff_eq (n k : Nat) : splitRefHeadOff n k = 0 := by bridge_nat [splitRefHeadOff]
@[ga_bridge] theorem splitRefTailOff_eq (n k : Nat) : splitRefTailOff n k = k := by bridge_nat [splitRefTailOff]
@[ga_bridge] theorem splitMutHeadOff_eq (n k : Nat) : splitMutHeadOff n k = 0 := by bridge_nat [splitMutHeadOff]
@[ga_bridge] theorem splitMutTailOff_eq (n k : Nat) : splitMutTailOff n k = k := by bridge_nat [splitMutTailOff]
@[ga_bridge] theorem removeGuard_eq (i n : Nat) : removeGuard i n = decide (i < n) := by bridge_bool [removeGuard]
@[ga_bridge] theorem swapRemoveGuard_eq (i n : Nat) : swapRemoveGuard i n = decide (i < n) := by bridge_bool [swapRemoveGuard]
@[ga_bridge] theorem removeReadOff_eq (i n : Nat) : removeReadOff i n = i := by bridge_nat [removeReadOff]
@[ga_bridge] theorem removeCopySrc_eq (i n : Nat) : removeCopySrc i n = i + 1 := by bridge_nat [removeCopySrc]
@[ga_bridge] theorem removeCopyDst_eq (i n : Nat) : removeCopyDst i n = i := by bridge_nat [removeCopyDst]
@[ga_bridge] theorem removeCopyCount_eq (i n : Nat) : removeCopyCount i n = n - i - 1 := by bridge_nat [removeCopyCount]
@[ga_bridge] theorem swapRemoveA_eq (i n : Nat) : swapRemoveA i n = i := by bridge_nat [swapRemoveA]
@[ga_bridge] theorem swapRemoveB_eq (i n : Nat) : swapRemoveB i n = n - 1 := by bridge_nat [swapRemoveB]
@[ga_bridge] theorem swapRemoveReadOff_eq (i n : Nat) : swapRemoveReadOff i n = n - 1 := by bridge_nat [swapRemoveReadOff]
@[ga_bridge] theorem removeManuallyDrop_eq : removeManuallyDrop = true := by bridge_bool [removeManuallyDrop]
@[ga_bridge] theorem swapRemoveManuallyDrop_eq : swapRemoveManuallyDrop = true := by bridge_bool [swapRemoveManuallyDrop]
/-- no underflow in the extracted subtractions once the bounds assert has passed -/
theorem removeCopyCountOk_of (i n : Nat) (h : i < n) : removeCopyCountOk i n = true := by
  simp [removeCopyCountOk]; omega
theorem swapRemoveOk_of (i n : Nat) (h : i < n) : (swapRemoveBOk i n && swapRemoveReadOffOk i n) = true := by
  simp [swapRemoveBOk, swapRemoveReadOffOk]; omega

end GA.Bridge.Seq
