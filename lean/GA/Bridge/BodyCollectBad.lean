import GA.Bridge.BodyCollect
/-!
`try_from_iter` on the interpreted body when one element's destructor panics (`c.bad = some b`,
any `b`): the events are those of the panic-free teardown — slice drop glue runs every destructor —
and the call ends in a panic exactly when `b` is among the elements the library dropped.
-/
set_option linter.unusedSimpArgs false
namespace GA.Bridge.BodyCollect
open GA.Body GA.Own GA.Bridge.Body

theorem exec_pollS' (c : Ctx) (k : S) (env : List V) (st : St) :
    exec c (.pollS k) env st = match c.src st.polls with
      | .yield x =>
        if GA.Body.panics [x] c.bad then
          ([.poll st.polls, .take st.polls x, .drop x], .panicked, { st with polls := st.polls + 1 })
        else
          (.poll st.polls :: .take st.polls x :: .drop x :: (exec c k (env ++ [.bool true]) { st with polls := st.polls + 1 }).1,
            (exec c k (env ++ [.bool true]) { st with polls := st.polls + 1 }).2)
      | .done =>
        (.poll st.polls :: (exec c k (env ++ [.bool false]) { st with polls := st.polls + 1 }).1,
          (exec c k (env ++ [.bool false]) { st with polls := st.polls + 1 }).2)
      | .panic => ([.poll st.polls, .panic st.polls], .panicked, { st with polls := st.polls + 1 }) := by
  simp only [exec]
  rfl

open Lean.Parser.Tactic in
macro "collect_simp'" "[" ts:simpLemma,* "]" : tactic =>
  `(tactic| simp [runFn, runDropOn, exec_fillS, exec_ite, exec_newBuilder, exec_pollS', exec_forgetO_out, exec_lenFail,
      exec_done, exec_drop, eval, St.obj, St.putObj, O.get, O.put, natOf, boolOf, resolve, GA.Body.panics, resOf,
      positions, List.range_eq_range', $ts,*])

theorem drops_fillSpec : ∀ (rem : Nat) (s : Script) (out : List Nat), drops (fillSpec rem s out).1 = []
  | 0, s, out => by simp [fillSpec]
  | rem + 1, s, out => by
    cases hq : pollOf s 0 with
    | done => simp [fillSpec, hq, drops]
    | panic => simp [fillSpec, hq, drops]
    | yield x => simpa [fillSpec, hq, drops] using drops_fillSpec rem (advance s) (out ++ [x])

theorem idsOf_written (outL : List Nat) (rem a b' : Nat) (u : List Nat) :
    idsOf ⟨outL ++ List.replicate rem 0, a, b', outL.length, u⟩ 0 outL.length = outL := by
  simp [idsOf]

theorem idsOf_full (out : List Nat) (n a b' p : Nat) (u : List Nat) (h : out.length = n) :
    idsOf ⟨out, a, b', p, u⟩ 0 n = out := by
  subst h; simp [idsOf]

theorem dropEvs_full (out : List Nat) (n a b' p : Nat) (h : out.length = n) :
    dropEvs ⟨out, a, b', p, []⟩ 0 n = out.map .drop := by
  subst h; simp [dropEvs, idsOf]

/-- what the call returns when the destructor of `bad` panics -/
def badRes (bad : Option Nat) (r : List Ev × Res) : Res :=
  if GA.Body.panics (drops r.1) bad then .panicked else r.2

theorem collect_core_bad (c : Ctx) (hn : c.n < word) (sc : Script)
    (hsrc : ∀ j, c.src (sc.k + j) = pollOf sc j) (selfO : O)
    (hrej : hintReject canonFrags c.hint c.n = false) :
    let r := runFn c Gen.Body.intrusiveDrop.body ⟨.ref, coreOf Gen.Body.tryFromIter.body⟩ []
      ⟨selfO, ⟨[], 0, 0, 0, []⟩, false, 0, false, sc.k, false, {}⟩
    (r.1, resOf r.2.1) = ((Own.tryFromIter canonFrags scriptSrc c.n c.hint sc).1,
      some (badRes c.bad (Own.tryFromIter canonFrags scriptSrc c.n c.hint sc))) := by
  cases hbad : c.bad with
  | none =>
    have := collect_core c hn sc hsrc hbad selfO hrej
    simpa [badRes, GA.Body.panics] using this
  | some b =>
  have hl := fill_loop_body c selfO 0 false c.n sc [] hsrc (by simpa using hn)
  simp only [loopBodyOf, Gen.Body.tryFromIter, List.length_nil, Nat.zero_add, bst, List.nil_append] at hl
  have hlen := fillSpec_len c.n sc []
  have hsrc' := fillSpec_src c c.n sc [] hsrc
  unfold badRes Own.tryFromIter
  rw [hrej]
  simp only [Bool.false_eq_true, if_false, own_fillLoop_eq, canonFrags]
  generalize hq : fillSpec c.n sc [] = q at hl hlen hsrc'
  obtain ⟨tr, tag, out, s'⟩ := q
  simp only [List.length_nil, Nat.zero_add] at hlen
  obtain ⟨hl0, hl1, hl2⟩ := hlen
  simp only at hl hsrc' hl0 hl1 hl2
  have hd := dropEvs_written out (c.n - out.length)
  have hs0 : c.src s'.k = pollOf s' 0 := by simpa using hsrc' 0
  have hdr : drops tr = [] := by have := drops_fillSpec c.n sc []; rw [hq] at this; exact this
  rcases tag with _ | _ | tag
  · -- every slot written
    have hlen : out.length = c.n := hl0 rfl
    have e0 : c.n - out.length = 0 := by omega
    simp only [hlen, decide_true, Bool.not_true, Bool.false_eq_true, if_false, step_of_pollOf]
    cases hp : pollOf s' 0 with
    | yield x =>
      by_cases hx : b = x
      · subst hx
        by_cases ho : b ∈ out <;>
          collect_simp' [coreOf, Gen.Body.tryFromIter, Gen.Body.intrusiveDrop, hl, hlen, hs0, hp, hbad, hd, scriptSrc, hdr, ho,
            idsOf_written, drops, idsOf_full out c.n _ _ _ _ hlen, dropEvs_full out c.n _ _ _ hlen]
      · by_cases ho : b ∈ out <;>
          collect_simp' [coreOf, Gen.Body.tryFromIter, Gen.Body.intrusiveDrop, hl, hlen, hs0, hp, hbad, hd, scriptSrc, hdr, hx, ho,
            idsOf_written, drops, idsOf_full out c.n _ _ _ _ hlen, dropEvs_full out c.n _ _ _ hlen]
    | done =>
      collect_simp' [coreOf, Gen.Body.tryFromIter, Gen.Body.intrusiveDrop, hl, hlen, hs0, hp, hbad, hd, scriptSrc, e0, hdr, drops]
    | panic =>
      by_cases ho : b ∈ out <;>
        collect_simp' [coreOf, Gen.Body.tryFromIter, Gen.Body.intrusiveDrop, hl, hlen, hs0, hp, hbad, hd, scriptSrc, hdr, ho,
          idsOf_written, drops, idsOf_full out c.n _ _ _ _ hlen, dropEvs_full out c.n _ _ _ hlen]
  · -- the source ended first
    have hlt : out.length < c.n := hl1 (by omega)
    have hne : ¬ out.length = c.n := by omega
    have hle : out.length ≤ c.n - out.length + out.length := by omega
    by_cases ho : b ∈ out <;>
      collect_simp' [coreOf, Gen.Body.tryFromIter, Gen.Body.intrusiveDrop, hl, hne, hbad, hd, scriptSrc, hle, hdr, ho, idsOf_written, drops]
  · -- the source panicked
    have hlt : out.length < c.n := hl1 (by omega)
    have hle : out.length ≤ c.n - out.length + out.length := by omega
    have ht : tag + 1 + 1 = 2 := by omega
    by_cases ho : b ∈ out <;>
      collect_simp' [coreOf, Gen.Body.tryFromIter, Gen.Body.intrusiveDrop, hl, hbad, hd, scriptSrc, hle, ht, hdr, ho, idsOf_written, drops]

/-- **`try_from_iter`, whole body, with a panicking destructor.**  For every length, size hint,
    scripted caller iterator and *every* choice of the element whose destructor panics (or none):
    the events of interpreting the regenerated body are exactly those of the ownership model's
    `tryFromIter` — the teardown of the intermediates is the same sequence, every destructor runs —
    and the call panics exactly when that element is among the ones the library dropped. -/
theorem tryFromIter_body_bad (n : Nat) (hn : n < word) (hint : Nat × Option Nat) (sc : Script) (c : Ctx)
    (hcn : c.n = n) (hch : c.hint = hint) (hsrc : ∀ j, c.src (sc.k + j) = pollOf sc j) (selfO : O) :
    let r := runFn c Gen.Body.intrusiveDrop.body Gen.Body.tryFromIter []
      ⟨selfO, ⟨[], 0, 0, 0, []⟩, false, 0, false, sc.k, false, {}⟩
    (r.1, resOf r.2.1) = ((Own.tryFromIter canonFrags scriptSrc n hint sc).1,
      some (badRes c.bad (Own.tryFromIter canonFrags scriptSrc n hint sc))) := by
  subst hcn
  subst hch
  by_cases h1 : c.n < c.hint.1
  · simp [runFn, Gen.Body.tryFromIter, exec_ite, exec_done, eval, natOf, boolOf, h1, Own.tryFromIter, hintReject,
      canonFrags, scriptSrc, resOf, badRes, GA.Body.panics]
    cases c.bad <;> simp
  · cases hh : c.hint.2 with
    | some h =>
      by_cases h2 : h < c.n
      · simp [runFn, Gen.Body.tryFromIter, exec_ite, exec_done, eval, natOf, boolOf, h1, hh, h2, Own.tryFromIter,
          hintReject, canonFrags, scriptSrc, resOf, badRes, GA.Body.panics]
        cases c.bad <;> simp
      · have hrej : hintReject canonFrags c.hint c.n = false := by
          simp [hintReject, canonFrags, hh, h1, h2]
        have hc := collect_core_bad c hn sc hsrc selfO hrej
        have e : runFn c Gen.Body.intrusiveDrop.body Gen.Body.tryFromIter [] ⟨selfO, ⟨[], 0, 0, 0, []⟩, false, 0, false, sc.k, false, {}⟩
            = runFn c Gen.Body.intrusiveDrop.body ⟨.ref, coreOf Gen.Body.tryFromIter.body⟩ [] ⟨selfO, ⟨[], 0, 0, 0, []⟩, false, 0, false, sc.k, false, {}⟩ := by
          simp [runFn, Gen.Body.tryFromIter, coreOf, exec_ite, eval, natOf, boolOf, h1, hh, h2]
        rw [e]; exact hc
    | none =>
      have hrej : hintReject canonFrags c.hint c.n = false := by
        simp [hintReject, canonFrags, hh, h1]
      have hc := collect_core_bad c hn sc hsrc selfO hrej
      have e : runFn c Gen.Body.intrusiveDrop.body Gen.Body.tryFromIter [] ⟨selfO, ⟨[], 0, 0, 0, []⟩, false, 0, false, sc.k, false, {}⟩
          = runFn c Gen.Body.intrusiveDrop.body ⟨.ref, coreOf Gen.Body.tryFromIter.body⟩ [] ⟨selfO, ⟨[], 0, 0, 0, []⟩, false, 0, false, sc.k, false, {}⟩ := by
        simp [runFn, Gen.Body.tryFromIter, coreOf, exec_ite, eval, natOf, boolOf, h1, hh]
      rw [e]; exact hc


end GA.Bridge.BodyCollect
